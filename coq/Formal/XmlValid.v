(* C21 (XML part) — grammar + well-formedness constraint imply (and are implied by) tag balance.
   Proved once for every grammar g with the seven structural XML rules whose <id> and <text>
   sub-grammars respect the character classes idcb / txc (Section XmlGrammar), then instantiated for
   the two shipped grammars XML and XMLNS. *)
From Coq Require Import Lia Bool.
From ISLA Require Import Grammar GrammarFacts TreeFacts Csv CsvFacts Xml XmlFacts.

(* ========================================================================= *)
(* Generic: label sets all of whose trees have a non-empty yield             *)
(* ========================================================================= *)

Definition nonnullb (g : grammar) (SS : list str) : bool :=
  forallb (fun A => forallb (fun al =>
     match al with
     | [] => false
     | sym :: _ => if is_nt sym then mem_str sym SS else negb (str_eqb sym [])
     end) (alts g A)) SS.

Lemma term_yield g k w : wf_tree g k -> lbl k = w -> is_nt w = false -> yield k = w.
Proof.
  intros Hwf Hl Hn. subst w. destruct (wf_terminal g k Hwf Hn) as [i E]. rewrite E. simpl.
  rewrite Hn. reflexivity.
Qed.

Lemma nonnull_sound g SS : nonnullb g SS = true ->
  forall t, wf_tree g t -> is_openT t = false -> is_nt (lbl t) = true -> In (lbl t) SS -> yield t <> [].
Proof.
  intros Hnn t. induction t as [l i o ks IH] using tree_ind'. intros Hwf Hcl Hnt Hin.
  simpl in Hnt, Hin.
  assert (Ho : o = false) by (eapply closed_not_open; eauto). subst o.
  unfold nonnullb in Hnn. rewrite forallb_forall in Hnn. specialize (Hnn l Hin).
  rewrite forallb_forall in Hnn.
  destruct (wf_inv g l i ks Hwf Hnt) as [(Hne & Halt & Hall) | (Heps & _)].
  - specialize (Hnn _ Halt). destruct ks as [|k ks']; [contradiction|].
    cbn [map] in Hnn. rewrite yield_node by assumption. cbn [flat_map].
    assert (Hk : yield k <> []).
    { inversion IH as [|k' ks'' IHk IHks]; subst. inversion Hall as [|k' ks'' Hwk Hwks]; subst.
      assert (Hck : is_openT k = false) by (eapply closed_kids; eauto; left; reflexivity).
      destruct (is_nt (lbl k)) eqn:Ek.
      - apply IHk; auto. apply mem_str_spec. assumption.
      - rewrite (term_yield g k (lbl k) Hwk eq_refl Ek). intro E. rewrite E in Hnn. discriminate. }
    intro E. apply app_eq_nil in E. tauto.
  - specialize (Hnn _ Heps). discriminate.
Qed.

(* ========================================================================= *)
(* Grammars with the XML tag structure                                       *)
(* ========================================================================= *)

Lemma map_lbl_4 a b c d ks : [a; b; c; d] = map lbl ks ->
  exists k1 k2 k3 k4, ks = [k1; k2; k3; k4] /\ lbl k1 = a /\ lbl k2 = b /\ lbl k3 = c /\ lbl k4 = d.
Proof. destruct ks as [|k [|k2 [|k3 [|k4 [|k5 ks]]]]]; simpl; intro H; inversion H; eauto 10. Qed.
Lemma map_lbl_5 a b c d e ks : [a; b; c; d; e] = map lbl ks ->
  exists k1 k2 k3 k4 k5, ks = [k1; k2; k3; k4; k5] /\
    lbl k1 = a /\ lbl k2 = b /\ lbl k3 = c /\ lbl k4 = d /\ lbl k5 = e.
Proof. destruct ks as [|k [|k2 [|k3 [|k4 [|k5 [|k6 ks]]]]]]; simpl; intro H; inversion H; eauto 12. Qed.

Lemma Forall_in {A} (P : A -> Prop) l x : Forall P l -> In x l -> P x.
Proof. intros H Hx. rewrite Forall_forall in H. auto. Qed.

Section XmlGrammar.
  Variable g : grammar.
  Variables S_id S_txt S_nn S_leaf : list str.
  Hypothesis A_start : alts g X_start = [[X_tree]].
  Hypothesis A_tree  : alts g X_tree  = [[X_open; X_inner; X_close]; [X_oc]].
  Hypothesis A_inner : alts g X_inner = [[X_tree; X_inner]; [X_tree]; [X_text]].
  Hypothesis A_open  : alts g X_open  = [[T_lt; X_id; T_sp; X_attr; T_gt]; [T_lt; X_id; T_gt]].
  Hypothesis A_oc    : alts g X_oc    = [[T_lt; X_id; T_sp; X_attr; T_sgt]; [T_lt; X_id; T_sgt]].
  Hypothesis A_close : alts g X_close = [[T_lts; X_id; T_gt]].
  Hypothesis A_attr  : alts g X_attr  = [[X_attr; T_sp; X_attr]; [X_id; T_eqq; X_text; T_q]].
  Hypothesis id_closed  : sub_closedb g S_id idcb = true.
  Hypothesis id_in      : In X_id S_id.
  Hypothesis txt_closed : sub_closedb g S_txt txc = true.
  Hypothesis txt_in     : In X_text S_txt.
  Hypothesis id_nonnull : nonnullb g S_nn = true.
  Hypothesis id_nn      : In X_id S_nn.
  Hypothesis leaf_closed : sub_closedb g S_leaf (fun _ => true) = true.
  Hypothesis leaf_in     : In X_open S_leaf /\ In X_close S_leaf /\ In X_oc S_leaf /\ In X_text S_leaf.
  Hypothesis leaf_notree : ~ In X_tree S_leaf.

  Lemma id_facts k : wf_tree g k -> is_openT k = false -> lbl k = X_id ->
    Forall (fun c => idcb c = true) (yield k) /\ yield k <> [].
  Proof.
    intros Hwf Hcl Hl. split.
    - apply (sub_closed_sound g S_id idcb id_closed k Hwf Hcl). left. rewrite Hl. split; [reflexivity|assumption].
    - apply (nonnull_sound g S_nn id_nonnull k Hwf Hcl); rewrite Hl; [reflexivity|assumption].
  Qed.

  Lemma text_facts k : wf_tree g k -> is_openT k = false -> lbl k = X_text ->
    Forall (fun c => txc c = true) (yield k).
  Proof.
    intros Hwf Hcl Hl.
    apply (sub_closed_sound g S_txt txc txt_closed k Hwf Hcl). left. rewrite Hl. split; [reflexivity|assumption].
  Qed.

  Lemma leaf_no_tree k : wf_tree g k -> is_openT k = false -> In (lbl k) S_leaf -> is_nt (lbl k) = true ->
    nodes_lbl X_tree k = [].
  Proof.
    intros Hwf Hcl Hin Hnt. apply count_zero_nodes_lbl.
    apply (sub_closed_sound g S_leaf (fun _ => true) leaf_closed k Hwf Hcl); [left; auto | reflexivity | assumption].
  Qed.

  Definition ends_q (w : str) : Prop := exists a', w = a' ++ [c_quote].

  Lemma attr_facts a : wf_tree g a -> is_openT a = false -> lbl a = X_attr ->
    tagsafe (yield a) /\ ends_q (yield a).
  Proof.
    induction a as [l i o ks IH] using tree_ind'. intros Hwf Hcl Hl. simpl in Hl. subst l.
    assert (Ho : o = false) by (eapply closed_not_open; eauto). subst o.
    destruct (wf_inv g X_attr i ks Hwf eq_refl) as [(Hne & Halt & Hall) | (Heps & _)].
    2:{ rewrite A_attr in Heps. destruct Heps as [E|[E|[]]]; discriminate. }
    rewrite yield_node by assumption. rewrite A_attr in Halt.
    destruct Halt as [E|[E|[]]].
    - apply map_lbl_3 in E as (a1 & s & a2 & Eks & L1 & Ls & L2). subst ks.
      assert (C1 : is_openT a1 = false) by (eapply closed_kids; eauto; simpl; auto).
      assert (C2 : is_openT a2 = false) by (eapply closed_kids; eauto; simpl; auto).
      assert (W1 : wf_tree g a1) by (eapply Forall_in; eauto; simpl; auto).
      assert (Ws : wf_tree g s) by (eapply Forall_in; eauto; simpl; auto).
      assert (W2 : wf_tree g a2) by (eapply Forall_in; eauto; simpl; auto).
      destruct (Forall_in _ _ a1 IH (or_introl eq_refl) W1 C1 L1) as [S1 _].
      destruct (Forall_in _ _ a2 IH (or_intror (or_intror (or_introl eq_refl))) W2 C2 L2) as [S2 (a' & Q2)].
      cbn [flat_map]. rewrite app_nil_r. rewrite (term_yield g s T_sp Ws Ls eq_refl).
      split.
      + apply tagsafe_app; [assumption|]. apply tagsafe_app; [apply tagsafe_sp | assumption].
      + exists (yield a1 ++ T_sp ++ a'). rewrite Q2, <- !app_assoc. reflexivity.
    - apply map_lbl_4 in E as (idt & e & tx & q & Eks & L1 & L2 & L3 & L4). subst ks.
      assert (C1 : is_openT idt = false) by (eapply closed_kids; eauto; simpl; auto).
      assert (C3 : is_openT tx = false) by (eapply closed_kids; eauto; simpl; auto).
      assert (W1 : wf_tree g idt) by (eapply Forall_in; eauto; simpl; auto).
      assert (W2 : wf_tree g e) by (eapply Forall_in; eauto; simpl; auto).
      assert (W3 : wf_tree g tx) by (eapply Forall_in; eauto; simpl; auto).
      assert (W4 : wf_tree g q) by (eapply Forall_in; eauto; simpl; auto 6).
      cbn [flat_map]. rewrite app_nil_r.
      rewrite (term_yield g e T_eqq W2 L2 eq_refl), (term_yield g q T_q W4 L4 eq_refl).
      destruct (id_facts idt W1 C1 L1) as [Hid _].
      pose proof (text_facts tx W3 C3 L3) as Htx.
      split.
      + apply tagsafe_app; [apply tagsafe_id; assumption | apply tagsafe_attrval; assumption].
      + exists (yield idt ++ T_eqq ++ yield tx). unfold T_q. rewrite <- !app_assoc. reflexivity.
  Qed.

  (* what the three kinds of tags look like *)
  Lemma tag_parts k (Hwf : wf_tree g k) (Hcl : is_openT k = false) :
    forall fin, (lbl k = X_open /\ fin = T_gt) \/ (lbl k = X_oc /\ fin = T_sgt) ->
    exists idt rest,
      yield k = c_lt :: yield idt ++ rest ++ fin /\
      Forall (fun c => idcb c = true) (yield idt) /\ yield idt <> [] /\ attr_part rest /\
      nth_error (kids k) 1 = Some idt /\
      (map lbl (kids k) = [T_lt; X_id; fin] \/ map lbl (kids k) = [T_lt; X_id; T_sp; X_attr; fin]).
  Proof.
    intros fin Hk. destruct k as [l i o ks]. cbn [lbl kids] in *.
    assert (Ho : o = false) by (eapply closed_not_open; eauto). subst o.
    assert (Halts : alts g l = [[T_lt; X_id; T_sp; X_attr; fin]; [T_lt; X_id; fin]] /\ is_nt l = true /\
                    is_nt fin = false).
    { destruct Hk as [[E1 E2]|[E1 E2]]; subst l fin; auto. }
    destruct Halts as (Halts & Hnt & Hfin).
    destruct (wf_inv g l i ks Hwf Hnt) as [(Hne & Halt & Hall) | (Heps & _)].
    2:{ rewrite Halts in Heps. destruct Heps as [E|[E|[]]]; discriminate. }
    rewrite yield_node by assumption. rewrite Halts in Halt.
    destruct Halt as [E|[E|[]]].
    - pose proof E as E'. apply map_lbl_5 in E as (a & idt & s & at_ & f & Eks & L1 & L2 & L3 & L4 & L5). subst ks.
      assert (C2 : is_openT idt = false) by (eapply closed_kids; eauto; simpl; auto).
      assert (C4 : is_openT at_ = false) by (eapply closed_kids; eauto; simpl; auto 6).
      assert (W1 : wf_tree g a) by (eapply Forall_in; eauto; simpl; auto).
      assert (W2 : wf_tree g idt) by (eapply Forall_in; eauto; simpl; auto).
      assert (W3 : wf_tree g s) by (eapply Forall_in; eauto; simpl; auto).
      assert (W4 : wf_tree g at_) by (eapply Forall_in; eauto; simpl; auto 6).
      assert (W5 : wf_tree g f) by (eapply Forall_in; eauto; simpl; auto 7).
      destruct (id_facts idt W2 C2 L2) as [Hid Hne2].
      destruct (attr_facts at_ W4 C4 L4) as [Hsafe (a' & Hq)].
      exists idt, (c_sp :: yield at_). cbn [flat_map]. rewrite app_nil_r.
      rewrite (term_yield g a T_lt W1 L1 eq_refl), (term_yield g s T_sp W3 L3 eq_refl),
        (term_yield g f fin W5 L5 Hfin).
      assert (Hap : attr_part (c_sp :: yield at_)).
      { split; [apply (tagsafe_app T_sp (yield at_) tagsafe_sp Hsafe) | right; exists a'; rewrite Hq; reflexivity]. }
      split; [unfold T_lt, T_sp; cbn [app]; reflexivity|].
      split; [assumption|]. split; [assumption|]. split; [assumption|]. split; [reflexivity|].
      right. symmetry. exact E'.
    - pose proof E as E'. apply map_lbl_3 in E as (a & idt & f & Eks & L1 & L2 & L3). subst ks.
      assert (C2 : is_openT idt = false) by (eapply closed_kids; eauto; simpl; auto).
      assert (W1 : wf_tree g a) by (eapply Forall_in; eauto; simpl; auto).
      assert (W2 : wf_tree g idt) by (eapply Forall_in; eauto; simpl; auto).
      assert (W3 : wf_tree g f) by (eapply Forall_in; eauto; simpl; auto).
      destruct (id_facts idt W2 C2 L2) as [Hid Hne2].
      exists idt, []. cbn [flat_map]. rewrite app_nil_r.
      rewrite (term_yield g a T_lt W1 L1 eq_refl), (term_yield g f fin W3 L3 Hfin).
      assert (Hap : attr_part []) by (split; [apply tagsafe_nil | left; reflexivity]).
      split; [unfold T_lt; cbn [app]; reflexivity|].
      split; [assumption|]. split; [assumption|]. split; [assumption|]. split; [reflexivity|].
      left. symmetry. exact E'.
  Qed.

  Lemma close_parts k : wf_tree g k -> is_openT k = false -> lbl k = X_close ->
    exists idt, yield k = c_lt :: c_slash :: yield idt ++ [c_gt] /\
      Forall (fun c => idcb c = true) (yield idt) /\
      nth_error (kids k) 1 = Some idt /\ map lbl (kids k) = close_shape.
  Proof.
    intros Hwf Hcl Hl. destruct k as [l i o ks]. cbn [lbl kids] in *. subst l.
    assert (Ho : o = false) by (eapply closed_not_open; eauto). subst o.
    destruct (wf_inv g X_close i ks Hwf eq_refl) as [(Hne & Halt & Hall) | (Heps & _)].
    2:{ rewrite A_close in Heps. destruct Heps as [E|[]]; discriminate. }
    rewrite yield_node by assumption. rewrite A_close in Halt. destruct Halt as [E|[]].
    pose proof E as E'. apply map_lbl_3 in E as (a & idt & f & Eks & L1 & L2 & L3). subst ks.
    assert (C2 : is_openT idt = false) by (eapply closed_kids; eauto; simpl; auto).
    assert (W1 : wf_tree g a) by (eapply Forall_in; eauto; simpl; auto).
    assert (W2 : wf_tree g idt) by (eapply Forall_in; eauto; simpl; auto).
    assert (W3 : wf_tree g f) by (eapply Forall_in; eauto; simpl; auto).
    destruct (id_facts idt W2 C2 L2) as [Hid _].
    exists idt. cbn [flat_map]. rewrite app_nil_r.
    rewrite (term_yield g a T_lts W1 L1 eq_refl), (term_yield g f T_gt W3 L3 eq_refl).
    split; [unfold T_lts, T_gt; cbn [app]; reflexivity|].
    split; [assumption|]. split; [reflexivity|]. symmetry. exact E'.
  Qed.

  Lemma andb_shuffle b e s : b && (e && s) = b && s && e.
  Proof. destruct b, e, s; reflexivity. Qed.

  Lemma nodes_tree_root i o ks :
    nodes_lbl X_tree (Node X_tree i o ks) = Node X_tree i o ks :: flat_map (nodes_lbl X_tree) ks.
  Proof. cbn [nodes_lbl]. rewrite str_eqb_refl. reflexivity. Qed.

  (* MAIN LEMMA: reading the text of an element (or of element content) leaves the stack as it
     was, and the error flag records exactly the verdict of the constraint on that subtree *)
  Lemma tree_run t : wf_tree g t -> is_openT t = false -> lbl t = X_tree \/ lbl t = X_inner ->
    forall k b, xrun (yield t) (XSt Content k b) = XSt Content k (b && xml_wf_satb t).
  Proof.
    induction t as [l i o ks IH] using tree_ind'. intros Hwf Hcl Hl k b. cbn [lbl] in Hl.
    assert (Ho : o = false) by (eapply closed_not_open; eauto). subst o.
    unfold xml_wf_satb, wf_qtype in *.
    destruct Hl as [Hl|Hl]; subst l.
    - (* <xml-tree> *)
      destruct (wf_inv g X_tree i ks Hwf eq_refl) as [(Hne & Halt & Hall) | (Heps & _)].
      2:{ rewrite A_tree in Heps. destruct Heps as [E|[E|[]]]; discriminate. }
      rewrite yield_node by assumption. rewrite nodes_tree_root. rewrite A_tree in Halt.
      destruct Halt as [E|[E|[]]].
      + apply map_lbl_3 in E as (op & inn & c & Eks & L1 & L2 & L3). subst ks.
        assert (C1 : is_openT op = false) by (eapply closed_kids; eauto; simpl; auto).
        assert (C2 : is_openT inn = false) by (eapply closed_kids; eauto; simpl; auto).
        assert (C3 : is_openT c = false) by (eapply closed_kids; eauto; simpl; auto).
        assert (W1 : wf_tree g op) by (eapply Forall_in; eauto; simpl; auto).
        assert (W2 : wf_tree g inn) by (eapply Forall_in; eauto; simpl; auto).
        assert (W3 : wf_tree g c) by (eapply Forall_in; eauto; simpl; auto).
        destruct (tag_parts op W1 C1 T_gt (or_introl (conj L1 eq_refl)))
          as (ido & rest & Yo & Hido & Hneo & Hrest & Ntho & Shapeo).
        destruct (close_parts c W3 C3 L3) as (idc & Yc & Hidc & Nthc & Shapec).
        pose proof (Forall_in _ _ inn IH (or_intror (or_introl eq_refl)) W2 C2 (or_intror L2)) as IHinn.
        cbn [flat_map]. rewrite app_nil_r.
        rewrite (leaf_no_tree op W1 C1), (leaf_no_tree c W3 C3);
          try (rewrite ?L1, ?L3; first [reflexivity | tauto]).
        rewrite app_nil_r. cbn [app forallb].
        assert (Hok : ids_okb (Node X_tree i false [op; inn; c]) = str_eqb (yield ido) (yield idc)).
        { unfold ids_okb.
          assert (Hm : match_ids (Node X_tree i false [op; inn; c]) = Some (ido, idc)).
          { apply match_ids_spec. exists op, inn, c. repeat split; auto. }
          rewrite Hm. reflexivity. }
        unfold T_gt in Yo.
        rewrite Hok, !xrun_app, Yo, (run_open (yield ido) rest k b Hido Hneo Hrest).
        rewrite IHinn, Yc, run_close by assumption.
        rewrite andb_shuffle. reflexivity.
      + apply map_lbl_1 in E as (e & Eks & L1). subst ks.
        assert (C1 : is_openT e = false) by (eapply closed_kids; eauto; simpl; auto).
        assert (W1 : wf_tree g e) by (eapply Forall_in; eauto; simpl; auto).
        destruct (tag_parts e W1 C1 T_sgt (or_intror (conj L1 eq_refl)))
          as (ide & rest & Ye & Hide & Hnee & Hrest & _ & _).
        cbn [flat_map]. rewrite !app_nil_r.
        rewrite (leaf_no_tree e W1 C1); try (rewrite ?L1; first [reflexivity | tauto]).
        cbn [forallb]. unfold ids_okb, match_ids. cbn [kids]. rewrite andb_true_r.
        rewrite Ye. unfold T_sgt. rewrite (run_openclose (yield ide) rest k b Hide Hnee Hrest).
        reflexivity.
    - (* <inner-xml-tree> *)
      destruct (wf_inv g X_inner i ks Hwf eq_refl) as [(Hne & Halt & Hall) | (Heps & _)].
      2:{ rewrite A_inner in Heps. destruct Heps as [E|[E|[E|[]]]]; discriminate. }
      rewrite yield_node by assumption. cbn [nodes_lbl].
      change (str_eqb X_inner X_tree) with false. cbv iota. cbn [app].
      rewrite A_inner in Halt. destruct Halt as [E|[E|[E|[]]]].
      + apply map_lbl_2 in E as (x & inn & Eks & L1 & L2). subst ks.
        assert (C1 : is_openT x = false) by (eapply closed_kids; eauto; simpl; auto).
        assert (C2 : is_openT inn = false) by (eapply closed_kids; eauto; simpl; auto).
        assert (W1 : wf_tree g x) by (eapply Forall_in; eauto; simpl; auto).
        assert (W2 : wf_tree g inn) by (eapply Forall_in; eauto; simpl; auto).
        pose proof (Forall_in _ _ x IH (or_introl eq_refl) W1 C1 (or_introl L1)) as IHx.
        pose proof (Forall_in _ _ inn IH (or_intror (or_introl eq_refl)) W2 C2 (or_intror L2)) as IHinn.
        cbn [flat_map]. rewrite !app_nil_r. rewrite xrun_app, IHx, IHinn, forallb_app, andb_assoc.
        reflexivity.
      + apply map_lbl_1 in E as (x & Eks & L1). subst ks.
        assert (C1 : is_openT x = false) by (eapply closed_kids; eauto; simpl; auto).
        assert (W1 : wf_tree g x) by (eapply Forall_in; eauto; simpl; auto).
        pose proof (Forall_in _ _ x IH (or_introl eq_refl) W1 C1 (or_introl L1)) as IHx.
        cbn [flat_map]. rewrite !app_nil_r. apply IHx.
      + apply map_lbl_1 in E as (x & Eks & L1). subst ks.
        assert (C1 : is_openT x = false) by (eapply closed_kids; eauto; simpl; auto).
        assert (W1 : wf_tree g x) by (eapply Forall_in; eauto; simpl; auto).
        cbn [flat_map]. rewrite !app_nil_r.
        rewrite (leaf_no_tree x W1 C1); try (rewrite ?L1; first [reflexivity | tauto]).
        cbn [forallb]. rewrite andb_true_r.
        apply run_content. apply text_facts; assumption.
  Qed.

  Theorem xml_balanced_exact t :
    wf_tree g t -> is_openT t = false -> lbl t = X_start ->
    xml_balanced (yield t) = xml_wf_satb t.
  Proof.
    intros Hwf Hcl Hl. destruct t as [l i o ks]. cbn [lbl] in Hl. subst l.
    assert (Ho : o = false) by (eapply closed_not_open; eauto). subst o.
    destruct (wf_inv g X_start i ks Hwf eq_refl) as [(Hne & Halt & Hall) | (Heps & _)].
    2:{ rewrite A_start in Heps. destruct Heps as [E|[]]; discriminate. }
    rewrite A_start in Halt. destruct Halt as [E|[]].
    apply map_lbl_1 in E as (x & Eks & L1). subst ks.
    assert (C1 : is_openT x = false) by (eapply closed_kids; eauto; simpl; auto).
    assert (W1 : wf_tree g x) by (eapply Forall_in; eauto; simpl; auto).
    rewrite yield_node by assumption. cbn [flat_map]. rewrite app_nil_r.
    unfold xml_balanced, xst0. rewrite (tree_run x W1 C1 (or_introl L1)). cbn [xmd xstk xok andb].
    unfold xml_wf_satb, wf_qtype. cbn [nodes_lbl]. change (str_eqb X_start X_tree) with false.
    cbv iota. cbn [app flat_map]. rewrite app_nil_r. reflexivity.
  Qed.

  Theorem xml_valid t :
    wf_tree g t -> is_openT t = false -> lbl t = X_start -> xml_wf_sat t ->
    xml_balanced (yield t) = true.
  Proof.
    intros Hwf Hcl Hl Hsat. rewrite xml_balanced_exact by assumption.
    apply xml_wf_satb_spec. assumption.
  Qed.

  Theorem xml_valid_iff t :
    wf_tree g t -> is_openT t = false -> lbl t = X_start ->
    (xml_wf_sat t <-> xml_balanced (yield t) = true).
  Proof.
    intros Hwf Hcl Hl. rewrite xml_balanced_exact by assumption. symmetry. apply xml_wf_satb_spec.
  Qed.
End XmlGrammar.

(* ========================================================================= *)
(* The two shipped grammars                                                  *)
(* ========================================================================= *)

Definition S_id_xml   : list str := [X_id; X_idsc; X_idcs; X_idc].
Definition S_txt_xml  : list str := [X_text; X_tchar].
Definition S_nn_xml   : list str := [X_id; X_idsc].
Definition S_leaf_xml : list str :=
  [X_open; X_close; X_oc; X_attr; X_id; X_idsc; X_idcs; X_idc; X_text; X_tchar].

Definition S_id_ns    : list str := [X_id; X_idwp; X_idnp; X_idsc; X_idcs; X_idc].
Definition S_nn_ns    : list str := [X_id; X_idwp; X_idnp; X_idsc].
Definition S_leaf_ns  : list str := S_leaf_xml ++ [X_idwp; X_idnp].

(* lexing side conditions, decided on the transcribed grammars *)
Lemma xml_id_closed  : sub_closedb XML S_id_xml idcb = true.   Proof. vm_compute. reflexivity. Qed.
Lemma xml_txt_closed : sub_closedb XML S_txt_xml txc = true.   Proof. vm_compute. reflexivity. Qed.
Lemma xml_id_nonnull : nonnullb XML S_nn_xml = true.           Proof. vm_compute. reflexivity. Qed.
Lemma xml_leaf_closed : sub_closedb XML S_leaf_xml (fun _ => true) = true. Proof. vm_compute. reflexivity. Qed.
Lemma ns_id_closed   : sub_closedb XMLNS S_id_ns idcb = true.  Proof. vm_compute. reflexivity. Qed.
Lemma ns_txt_closed  : sub_closedb XMLNS S_txt_xml txc = true. Proof. vm_compute. reflexivity. Qed.
Lemma ns_id_nonnull  : nonnullb XMLNS S_nn_ns = true.          Proof. vm_compute. reflexivity. Qed.
Lemma ns_leaf_closed : sub_closedb XMLNS S_leaf_ns (fun _ => true) = true. Proof. vm_compute. reflexivity. Qed.

Lemma mem_in s l : mem_str s l = true -> In s l.
Proof. apply mem_str_spec. Qed.
Lemma mem_notin s l : mem_str s l = false -> ~ In s l.
Proof. intros H Hin. apply mem_str_spec in Hin. congruence. Qed.

Theorem xml_balanced_exact_XML t :
  wf_tree XML t -> is_openT t = false -> lbl t = X_start -> xml_balanced (yield t) = xml_wf_satb t.
Proof.
  apply (xml_balanced_exact XML S_id_xml S_txt_xml S_nn_xml S_leaf_xml);
    try reflexivity;
    first [ exact xml_id_closed | exact xml_txt_closed | exact xml_id_nonnull | exact xml_leaf_closed
          | (apply mem_in; reflexivity) | (apply mem_notin; reflexivity)
          | (repeat split; apply mem_in; reflexivity) ].
Qed.

Theorem xml_balanced_exact_XMLNS t :
  wf_tree XMLNS t -> is_openT t = false -> lbl t = X_start -> xml_balanced (yield t) = xml_wf_satb t.
Proof.
  apply (xml_balanced_exact XMLNS S_id_ns S_txt_xml S_nn_ns S_leaf_ns);
    try reflexivity;
    first [ exact ns_id_closed | exact ns_txt_closed | exact ns_id_nonnull | exact ns_leaf_closed
          | (apply mem_in; reflexivity) | (apply mem_notin; reflexivity)
          | (repeat split; apply mem_in; reflexivity) ].
Qed.

Theorem xml_valid_XML t :
  wf_tree XML t -> is_openT t = false -> lbl t = X_start -> xml_wf_sat t ->
  xml_balanced (yield t) = true.
Proof.
  intros Hwf Hcl Hl Hsat. rewrite xml_balanced_exact_XML by assumption.
  apply xml_wf_satb_spec. assumption.
Qed.

Theorem xml_valid_iff_XML t :
  wf_tree XML t -> is_openT t = false -> lbl t = X_start ->
  (xml_wf_sat t <-> xml_balanced (yield t) = true).
Proof.
  intros Hwf Hcl Hl. rewrite xml_balanced_exact_XML by assumption. symmetry. apply xml_wf_satb_spec.
Qed.

Theorem xml_valid_XMLNS t :
  wf_tree XMLNS t -> is_openT t = false -> lbl t = X_start -> xml_wf_sat t ->
  xml_balanced (yield t) = true.
Proof.
  intros Hwf Hcl Hl Hsat. rewrite xml_balanced_exact_XMLNS by assumption.
  apply xml_wf_satb_spec. assumption.
Qed.

Theorem xml_valid_iff_XMLNS t :
  wf_tree XMLNS t -> is_openT t = false -> lbl t = X_start ->
  (xml_wf_sat t <-> xml_balanced (yield t) = true).
Proof.
  intros Hwf Hcl Hl. rewrite xml_balanced_exact_XMLNS by assumption. symmetry. apply xml_wf_satb_spec.
Qed.

(* boolean instances evaluated by the correspondence check on every generated tree *)
Theorem xml_valid_bool t :
  wf_treeb XML t = true -> closedb t = true -> lbl t = X_start ->
  xml_balanced (yield t) = xml_wf_satb t.
Proof.
  intros Hwf Hcl Hl. apply xml_balanced_exact_XML; [apply wf_treeb_spec; assumption | | assumption].
  unfold closedb in Hcl. apply negb_true_iff in Hcl. assumption.
Qed.

Theorem xmlns_valid_bool t :
  wf_treeb XMLNS t = true -> closedb t = true -> lbl t = X_start ->
  xml_balanced (yield t) = xml_wf_satb t.
Proof.
  intros Hwf Hcl Hl. apply xml_balanced_exact_XMLNS; [apply wf_treeb_spec; assumption | | assumption].
  unfold closedb in Hcl. apply negb_true_iff in Hcl. assumption.
Qed.

(* ========================================================================= *)
(* Non-vacuity: concrete trees                                               *)
(* ========================================================================= *)

(* derivation tree (EarleyParser, XML_GRAMMAR) of  <a b=QxEQ/Q><c-1/>t</a>  (Q: a quote, EQ: the
   escaped quote &quot;); the attribute value contains a slash *)
Definition ex_xml : tree :=
  (Node [60;115;116;97;114;116;62]%N 0%N false [(Node [60;120;109;108;45;116;114;101;101;62]%N 0%N false [(Node [60;120;109;108;45;111;112;101;110;45;116;97;103;62]%N 0%N false [(Node [60]%N 0%N false []); (Node [60;105;100;62]%N 0%N false [(Node [60;105;100;45;115;116;97;114;116;45;99;104;97;114;62]%N 0%N false [(Node [97]%N 0%N false [])])]); (Node [32]%N 0%N false []); (Node [60;120;109;108;45;97;116;116;114;105;98;117;116;101;62]%N 0%N false [(Node [60;105;100;62]%N 0%N false [(Node [60;105;100;45;115;116;97;114;116;45;99;104;97;114;62]%N 0%N false [(Node [98]%N 0%N false [])])]); (Node [61;34]%N 0%N false []); (Node [60;116;101;120;116;62]%N 0%N false [(Node [60;116;101;120;116;45;99;104;97;114;62]%N 0%N false [(Node [120]%N 0%N false [])]); (Node [60;116;101;120;116;62]%N 0%N false [(Node [60;116;101;120;116;45;99;104;97;114;62]%N 0%N false [(Node [38;113;117;111;116;59]%N 0%N false [])]); (Node [60;116;101;120;116;62]%N 0%N false [(Node [60;116;101;120;116;45;99;104;97;114;62]%N 0%N false [(Node [47]%N 0%N false [])])])])]); (Node [34]%N 0%N false [])]); (Node [62]%N 0%N false [])]); (Node [60;105;110;110;101;114;45;120;109;108;45;116;114;101;101;62]%N 0%N false [(Node [60;120;109;108;45;116;114;101;101;62]%N 0%N false [(Node [60;120;109;108;45;111;112;101;110;99;108;111;115;101;45;116;97;103;62]%N 0%N false [(Node [60]%N 0%N false []); (Node [60;105;100;62]%N 0%N false [(Node [60;105;100;45;115;116;97;114;116;45;99;104;97;114;62]%N 0%N false [(Node [99]%N 0%N false [])]); (Node [60;105;100;45;99;104;97;114;115;62]%N 0%N false [(Node [60;105;100;45;99;104;97;114;62]%N 0%N false [(Node [45]%N 0%N false [])]); (Node [60;105;100;45;99;104;97;114;115;62]%N 0%N false [(Node [60;105;100;45;99;104;97;114;62]%N 0%N false [(Node [49]%N 0%N false [])])])])]); (Node [47;62]%N 0%N false [])])]); (Node [60;105;110;110;101;114;45;120;109;108;45;116;114;101;101;62]%N 0%N false [(Node [60;116;101;120;116;62]%N 0%N false [(Node [60;116;101;120;116;45;99;104;97;114;62]%N 0%N false [(Node [116]%N 0%N false [])])])])]); (Node [60;120;109;108;45;99;108;111;115;101;45;116;97;103;62]%N 0%N false [(Node [60;47]%N 0%N false []); (Node [60;105;100;62]%N 0%N false [(Node [60;105;100;45;115;116;97;114;116;45;99;104;97;114;62]%N 0%N false [(Node [97]%N 0%N false [])])]); (Node [62]%N 0%N false [])])])]).
(* derivation tree of  <a>t</b>  *)
Definition ex_xml_bad : tree :=
  (Node [60;115;116;97;114;116;62]%N 0%N false [(Node [60;120;109;108;45;116;114;101;101;62]%N 0%N false [(Node [60;120;109;108;45;111;112;101;110;45;116;97;103;62]%N 0%N false [(Node [60]%N 0%N false []); (Node [60;105;100;62]%N 0%N false [(Node [60;105;100;45;115;116;97;114;116;45;99;104;97;114;62]%N 0%N false [(Node [97]%N 0%N false [])])]); (Node [62]%N 0%N false [])]); (Node [60;105;110;110;101;114;45;120;109;108;45;116;114;101;101;62]%N 0%N false [(Node [60;116;101;120;116;62]%N 0%N false [(Node [60;116;101;120;116;45;99;104;97;114;62]%N 0%N false [(Node [116]%N 0%N false [])])])]); (Node [60;120;109;108;45;99;108;111;115;101;45;116;97;103;62]%N 0%N false [(Node [60;47]%N 0%N false []); (Node [60;105;100;62]%N 0%N false [(Node [60;105;100;45;115;116;97;114;116;45;99;104;97;114;62]%N 0%N false [(Node [98]%N 0%N false [])])]); (Node [62]%N 0%N false [])])])]).
(* derivation tree (XML_GRAMMAR_WITH_NAMESPACE_PREFIXES) of  <n:a xmlns:n=QuQ>t</n:a>  *)
Definition ex_xmlns : tree :=
  (Node [60;115;116;97;114;116;62]%N 0%N false [(Node [60;120;109;108;45;116;114;101;101;62]%N 0%N false [(Node [60;120;109;108;45;111;112;101;110;45;116;97;103;62]%N 0%N false [(Node [60]%N 0%N false []); (Node [60;105;100;62]%N 0%N false [(Node [60;105;100;45;119;105;116;104;45;112;114;101;102;105;120;62]%N 0%N false [(Node [60;105;100;45;110;111;45;112;114;101;102;105;120;62]%N 0%N false [(Node [60;105;100;45;115;116;97;114;116;45;99;104;97;114;62]%N 0%N false [(Node [110]%N 0%N false [])])]); (Node [58]%N 0%N false []); (Node [60;105;100;45;110;111;45;112;114;101;102;105;120;62]%N 0%N false [(Node [60;105;100;45;115;116;97;114;116;45;99;104;97;114;62]%N 0%N false [(Node [97]%N 0%N false [])])])])]); (Node [32]%N 0%N false []); (Node [60;120;109;108;45;97;116;116;114;105;98;117;116;101;62]%N 0%N false [(Node [60;105;100;62]%N 0%N false [(Node [60;105;100;45;119;105;116;104;45;112;114;101;102;105;120;62]%N 0%N false [(Node [60;105;100;45;110;111;45;112;114;101;102;105;120;62]%N 0%N false [(Node [60;105;100;45;115;116;97;114;116;45;99;104;97;114;62]%N 0%N false [(Node [120]%N 0%N false [])]); (Node [60;105;100;45;99;104;97;114;115;62]%N 0%N false [(Node [60;105;100;45;99;104;97;114;62]%N 0%N false [(Node [60;105;100;45;115;116;97;114;116;45;99;104;97;114;62]%N 0%N false [(Node [109]%N 0%N false [])])]); (Node [60;105;100;45;99;104;97;114;115;62]%N 0%N false [(Node [60;105;100;45;99;104;97;114;62]%N 0%N false [(Node [60;105;100;45;115;116;97;114;116;45;99;104;97;114;62]%N 0%N false [(Node [108]%N 0%N false [])])]); (Node [60;105;100;45;99;104;97;114;115;62]%N 0%N false [(Node [60;105;100;45;99;104;97;114;62]%N 0%N false [(Node [60;105;100;45;115;116;97;114;116;45;99;104;97;114;62]%N 0%N false [(Node [110]%N 0%N false [])])]); (Node [60;105;100;45;99;104;97;114;115;62]%N 0%N false [(Node [60;105;100;45;99;104;97;114;62]%N 0%N false [(Node [60;105;100;45;115;116;97;114;116;45;99;104;97;114;62]%N 0%N false [(Node [115]%N 0%N false [])])])])])])])]); (Node [58]%N 0%N false []); (Node [60;105;100;45;110;111;45;112;114;101;102;105;120;62]%N 0%N false [(Node [60;105;100;45;115;116;97;114;116;45;99;104;97;114;62]%N 0%N false [(Node [110]%N 0%N false [])])])])]); (Node [61;34]%N 0%N false []); (Node [60;116;101;120;116;62]%N 0%N false [(Node [60;116;101;120;116;45;99;104;97;114;62]%N 0%N false [(Node [117]%N 0%N false [])])]); (Node [34]%N 0%N false [])]); (Node [62]%N 0%N false [])]); (Node [60;105;110;110;101;114;45;120;109;108;45;116;114;101;101;62]%N 0%N false [(Node [60;116;101;120;116;62]%N 0%N false [(Node [60;116;101;120;116;45;99;104;97;114;62]%N 0%N false [(Node [116]%N 0%N false [])])])]); (Node [60;120;109;108;45;99;108;111;115;101;45;116;97;103;62]%N 0%N false [(Node [60;47]%N 0%N false []); (Node [60;105;100;62]%N 0%N false [(Node [60;105;100;45;119;105;116;104;45;112;114;101;102;105;120;62]%N 0%N false [(Node [60;105;100;45;110;111;45;112;114;101;102;105;120;62]%N 0%N false [(Node [60;105;100;45;115;116;97;114;116;45;99;104;97;114;62]%N 0%N false [(Node [110]%N 0%N false [])])]); (Node [58]%N 0%N false []); (Node [60;105;100;45;110;111;45;112;114;101;102;105;120;62]%N 0%N false [(Node [60;105;100;45;115;116;97;114;116;45;99;104;97;114;62]%N 0%N false [(Node [97]%N 0%N false [])])])])]); (Node [62]%N 0%N false [])])])]).

Example ex_xml_premises :
  wf_tree XML ex_xml /\ is_openT ex_xml = false /\ lbl ex_xml = X_start /\ xml_wf_sat ex_xml.
Proof.
  split; [apply wf_treeb_spec; vm_compute; reflexivity|].
  split; [vm_compute; reflexivity|]. split; [reflexivity|].
  apply xml_wf_satb_spec. vm_compute. reflexivity.
Qed.

Example ex_xml_text :
  yield ex_xml = [60;97;32;98;61;34;120;38;113;117;111;116;59;47;34;62;60;99;45;49;47;62;116;60;47;97;62]%N
  /\ xml_balanced (yield ex_xml) = true.
Proof. vm_compute. split; reflexivity. Qed.

Example ex_xmlns_premises :
  wf_tree XMLNS ex_xmlns /\ is_openT ex_xmlns = false /\ lbl ex_xmlns = X_start /\ xml_wf_sat ex_xmlns.
Proof.
  split; [apply wf_treeb_spec; vm_compute; reflexivity|].
  split; [vm_compute; reflexivity|]. split; [reflexivity|].
  apply xml_wf_satb_spec. vm_compute. reflexivity.
Qed.

(* the hypothesis xml_wf_sat is not redundant: a valid derivation tree of the grammar alone can
   close an element with another name; then both sides of xml_valid_iff are false *)
Example ex_xml_bad_invalid :
  wf_treeb XML ex_xml_bad = true /\ closedb ex_xml_bad = true /\ xml_wf_satb ex_xml_bad = false /\
  xml_balanced (yield ex_xml_bad) = false.
Proof. vm_compute. repeat split; reflexivity. Qed.

(* the reader is not the constant function.  Texts, in this order:  <a><b></a></b>   <a>   </a>   <a
   <a b=Q>Q></a> (Q a quote: a quoted > does not end the tag)   <a/><b>x</b>  *)
Example xml_balanced_rejects :
  xml_balanced [60;97;62;60;98;62;60;47;97;62;60;47;98;62]%N = false /\ xml_balanced [60;97;62]%N = false /\
  xml_balanced [60;47;97;62]%N = false /\ xml_balanced [60;97]%N = false /\
  xml_balanced [60;97;32;98;61;34;62;34;62;60;47;97;62]%N = true /\ xml_balanced [60;97;47;62;60;98;62;120;60;47;98;62]%N = true.
Proof. vm_compute. repeat split; reflexivity. Qed.
