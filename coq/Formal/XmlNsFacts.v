(* C21 (XML, namespace and attribute rules) -- facts about the model of XmlNs.v, part 1:
   matching against tree prefixes, lexical facts of XML_GRAMMAR_WITH_NAMESPACE_PREFIXES, the
   shape of its tag / attribute / name nodes, and the reader xml_events on the text of a tree. *)
From Coq Require Import Lia Bool.
From ISLA Require Import Grammar GrammarFacts PathFacts TreeFacts Csv CsvFacts Xml XmlFacts XmlValid XmlNs.

(* ========================================================================= *)
(* matching a tree prefix                                                    *)
(* ========================================================================= *)

Lemma pmatch_MO l t : pmatch (MO l) t = true <-> lbl t = l.
Proof. cbn [pmatch]. apply str_eqb_eq. Qed.

Lemma pmatch_MN l ms t :
  pmatch (MN l ms) t = true <->
  lbl t = l /\ opn t = false /\ Forall2 (fun m k => pmatch m k = true) ms (kids t).
Proof.
  cbn [pmatch]. rewrite !andb_true_iff, str_eqb_eq, negb_true_iff.
  assert (G : forall ms ks,
    (fix go (ms : list mtree) (ks : list tree) {struct ms} : bool :=
       match ms, ks with
       | [], [] => true
       | m' :: ms', k :: ks' => pmatch m' k && go ms' ks'
       | _, _ => false
       end) ms ks = true <-> Forall2 (fun m k => pmatch m k = true) ms ks).
  { clear. induction ms as [|m ms IH]; intros [|k ks]; split; intro H;
      try discriminate; try (inversion H; fail); try constructor; try reflexivity.
    - apply andb_true_iff in H. tauto.
    - apply andb_true_iff in H. apply IH. tauto.
    - inversion H as [|a b c d H1 H2]; subst. apply andb_true_iff. split; [assumption | apply IH; assumption]. }
  rewrite G. tauto.
Qed.

(* induction principle through the nested list *)
Lemma mtree_ind' (P : mtree -> Prop) :
  (forall l, P (MO l)) -> (forall l ms, Forall P ms -> P (MN l ms)) -> forall m, P m.
Proof.
  intros HO HN. fix IH 1. intros [l|l ms]; [apply HO|]. apply HN.
  induction ms as [|m ms IHms]; constructor; [apply IH | apply IHms].
Qed.

(* a prefix without open positions fixes the text *)
Fixpoint mclosed (m : mtree) : bool :=
  match m with MO _ => false | MN _ ms => forallb mclosed ms end.
Fixpoint myield (m : mtree) : str :=
  match m with
  | MO _ => []
  | MN l [] => if is_nt l then [] else l
  | MN _ ms => flat_map myield ms
  end.

Lemma yield_kids l i o ks : ks <> [] -> yield (Node l i o ks) = flat_map yield ks.
Proof. destruct ks; [contradiction | reflexivity]. Qed.

Lemma flat_map_F2 ms ks :
  Forall (fun m => mclosed m = true -> forall t, pmatch m t = true -> yield t = myield m) ms ->
  (forall x, In x ms -> mclosed x = true) ->
  Forall2 (fun m k => pmatch m k = true) ms ks -> flat_map yield ks = flat_map myield ms.
Proof.
  intros IH Hc Hf. induction Hf as [|m' k ms'' ks' Hmk Hf' IHf]; [reflexivity|].
  cbn [flat_map]. inversion IH as [|x y IHm IHms]; subst.
  rewrite (IHm (Hc m' (or_introl eq_refl)) k Hmk). f_equal.
  apply IHf; [assumption|]. intros z Hz. apply Hc. right. assumption.
Qed.

Lemma pmatch_yield m : mclosed m = true -> forall t, pmatch m t = true -> yield t = myield m.
Proof.
  induction m as [l|l ms IH] using mtree_ind'; [discriminate|].
  intros Hc t Hm. apply pmatch_MN in Hm as (Hl & Ho & Hf). destruct t as [l' i o ks]. cbn [lbl opn kids] in *.
  subst l' o. cbn [mclosed] in Hc. rewrite forallb_forall in Hc.
  destruct ms as [|m ms].
  - inversion Hf; subst. reflexivity.
  - assert (Hne : ks <> []) by (intro E; subst ks; inversion Hf).
    rewrite yield_kids by assumption. change (myield (MN l (m :: ms))) with (flat_map myield (m :: ms)).
    apply flat_map_F2; assumption.
Qed.

(* ========================================================================= *)
(* lexical facts of XMLNS                                                    *)
(* ========================================================================= *)

(* characters of a name without prefix / of any name *)
Definition nmc (c : chr) : bool := idcb c && negb (memc c [58%N; c_eq]).
Definition idc2 (c : chr) : bool := idcb c && negb (N.eqb c c_eq).

Definition S_np : list str := [X_idnp; X_idsc; X_idcs; X_idc].
Definition S_np_nn : list str := [X_idnp; X_idsc].
Definition S_noattr : list str := [X_id; X_idwp; X_idnp; X_idsc; X_idcs; X_idc; X_text; X_tchar].

Lemma ns_np_closed : sub_closedb XMLNS S_np nmc = true.            Proof. vm_compute. reflexivity. Qed.
Lemma ns_np_nonnull : nonnullb XMLNS S_np_nn = true.               Proof. vm_compute. reflexivity. Qed.
Lemma ns_id2_closed : sub_closedb XMLNS S_id_ns idc2 = true.       Proof. vm_compute. reflexivity. Qed.
Lemma ns_noattr_closed : sub_closedb XMLNS S_noattr (fun _ => true) = true. Proof. vm_compute. reflexivity. Qed.

Notation wfx := (wf_tree XMLNS).
Notation closedT t := (is_openT t = false).

Lemma idnp_facts k : wfx k -> closedT k -> lbl k = X_idnp ->
  Forall (fun c => nmc c = true) (yield k) /\ yield k <> [].
Proof.
  intros Hwf Hcl Hl. split.
  - apply (sub_closed_sound XMLNS S_np nmc ns_np_closed k Hwf Hcl). left. rewrite Hl.
    split; [reflexivity | apply mem_in; reflexivity].
  - apply (nonnull_sound XMLNS S_np_nn ns_np_nonnull k Hwf Hcl); rewrite Hl;
      [reflexivity | apply mem_in; reflexivity].
Qed.

Lemma id2_facts k : wfx k -> closedT k -> lbl k = X_id ->
  Forall (fun c => idc2 c = true) (yield k) /\ yield k <> [].
Proof.
  intros Hwf Hcl Hl. split.
  - apply (sub_closed_sound XMLNS S_id_ns idc2 ns_id2_closed k Hwf Hcl). left. rewrite Hl.
    split; [reflexivity | apply mem_in; reflexivity].
  - apply (nonnull_sound XMLNS S_nn_ns ns_id_nonnull k Hwf Hcl); rewrite Hl;
      [reflexivity | apply mem_in; reflexivity].
Qed.

Lemma txt_facts k : wfx k -> closedT k -> lbl k = X_text -> Forall (fun c => txc c = true) (yield k).
Proof.
  intros Hwf Hcl Hl.
  apply (sub_closed_sound XMLNS S_txt_xml txc ns_txt_closed k Hwf Hcl). left. rewrite Hl.
  split; [reflexivity | apply mem_in; reflexivity].
Qed.

(* no node labelled needle below a node whose label is in a closed set without needle *)
Lemma no_label_below SS needle k :
  sub_closedb XMLNS SS (fun _ => true) = true -> is_nt needle = true -> mem_str needle SS = false ->
  wfx k -> closedT k -> is_nt (lbl k) = true -> mem_str (lbl k) SS = true ->
  nodes_lbl needle k = [].
Proof.
  intros Hsc Hnt Hno Hwf Hcl Hk Hin. apply count_zero_nodes_lbl.
  apply (sub_closed_sound XMLNS SS (fun _ => true) Hsc k Hwf Hcl);
    [left; split; [assumption | apply mem_in; assumption] | assumption | apply mem_notin; assumption].
Qed.

Lemma terminal_no_label needle k : wfx k -> is_nt (lbl k) = false -> is_nt needle = true ->
  nodes_lbl needle k = [].
Proof.
  intros Hwf Hk Hn. destruct (wf_terminal XMLNS k Hwf Hk) as [i E]. rewrite E. cbn [nodes_lbl flat_map].
  destruct (str_eqb (lbl k) needle) eqn:Eq; [|reflexivity].
  apply str_eqb_eq in Eq. congruence.
Qed.

Lemma nmc_inv c : nmc c = true -> idc2 c = true /\ N.eqb c 58%N = false.
Proof.
  unfold nmc, idc2. rewrite !memc_cons. intro H. apply andb_true_iff in H as [H1 H2].
  apply negb_true_iff in H2. apply orb_false_iff in H2 as [H2 H3]. apply orb_false_iff in H3 as [H3 _].
  rewrite H1, H3. auto.
Qed.

Lemma nmc_idc2 w : Forall (fun c => nmc c = true) w -> Forall (fun c => idc2 c = true) w.
Proof. intro H. eapply Forall_impl; [|exact H]. intros c Hc. apply nmc_inv in Hc. tauto. Qed.

Lemma split_colon_none w : Forall (fun c => nmc c = true) w -> split_colon w = None.
Proof.
  induction 1 as [|c w Hc Hw IH]; [reflexivity|]. cbn [split_colon].
  apply nmc_inv in Hc as [_ E]. rewrite E, IH. reflexivity.
Qed.

Lemma split_colon_some p l : Forall (fun c => nmc c = true) p -> split_colon (p ++ 58%N :: l) = Some (p, l).
Proof.
  induction 1 as [|c w Hc Hw IH]; [reflexivity|]. cbn [split_colon app].
  apply nmc_inv in Hc as [_ E]. rewrite E, IH. reflexivity.
Qed.

(* ========================================================================= *)
(* shapes of the nodes of a valid tree                                       *)
(* ========================================================================= *)

Ltac kid_facts Hcl Hall k C W :=
  assert (C : is_openT k = false) by (eapply closed_kids; [exact Hcl | simpl; auto 8]);
  assert (W : wf_tree XMLNS k) by (eapply Forall_in; [exact Hall | simpl; auto 8]).

Definition is_term (k : tree) (s : str) : Prop := lbl k = s /\ opn k = false /\ kids k = [].

Lemma term_is_term k s : wfx k -> lbl k = s -> is_nt s = false -> is_term k s.
Proof.
  intros Hwf Hl Hn. destruct (wf_terminal XMLNS k Hwf) as [i E]; [rewrite Hl; assumption|].
  rewrite E. cbn. rewrite Hl. repeat split.
Qed.

(* <id>: prefixed (p : l) or plain *)
Definition id_prefixed (k p l : tree) : Prop :=
  exists w c, kids k = [w] /\ lbl w = X_idwp /\ opn w = false /\ kids w = [p; c; l] /\
    lbl p = X_idnp /\ lbl c = T_colon /\ opn c = false /\ kids c = [] /\ lbl l = X_idnp /\
    wfx p /\ closedT p /\ wfx l /\ closedT l /\
    yield k = yield p ++ 58%N :: yield l.
Definition id_plain (k : tree) : Prop :=
  exists n, kids k = [n] /\ lbl n = X_idnp /\ Forall (fun c => nmc c = true) (yield k).

Lemma id_struct k : wfx k -> closedT k -> lbl k = X_id ->
  opn k = false /\ ((exists p l, id_prefixed k p l) \/ id_plain k).
Proof.
  intros Hwf Hcl Hl. destruct k as [l i o ks]. cbn [lbl kids opn] in *. subst l.
  assert (Ho : o = false) by (eapply closed_not_open; eauto). subst o. split; [reflexivity|].
  destruct (wf_inv XMLNS X_id i ks Hwf eq_refl) as [(Hne & Halt & Hall) | (Heps & _)].
  2:{ destruct Heps as [E|[E|[]]]; discriminate. }
  change (alts XMLNS X_id) with [[X_idwp]; [X_idnp]] in Halt. destruct Halt as [E|[E|[]]].
  - left. apply map_lbl_1 in E as (w & Eks & Lw). subst ks. kid_facts Hcl Hall w Cw Ww.
    destruct w as [lw iw ow kw]. cbn [lbl] in Lw. subst lw.
    assert (How : ow = false) by (eapply closed_not_open; eauto). subst ow.
    destruct (wf_inv XMLNS X_idwp iw kw Ww eq_refl) as [(Hne2 & Halt2 & Hall2) | (Heps & _)].
    2:{ destruct Heps as [E|[]]; discriminate. }
    change (alts XMLNS X_idwp) with [[X_idnp; T_colon; X_idnp]] in Halt2. destruct Halt2 as [E|[]].
    apply map_lbl_3 in E as (p & c & l & Ekw & Lp & Lc & Ll). subst kw.
    kid_facts Cw Hall2 p Cp Wp. kid_facts Cw Hall2 l Cl Wl.
    assert (Wc : wfx c) by (eapply Forall_in; [exact Hall2 | simpl; auto]).
    destruct (term_is_term c T_colon Wc Lc eq_refl) as (_ & Oc & Kc).
    exists p, l, (Node X_idwp iw false [p; c; l]), c. cbn [kids lbl opn].
    repeat split; auto.
    rewrite yield_node by discriminate. cbn [flat_map]. rewrite app_nil_r, yield_node by discriminate.
    cbn [flat_map]. rewrite app_nil_r.
    rewrite (term_yield XMLNS c T_colon Wc Lc eq_refl). reflexivity.
  - right. apply map_lbl_1 in E as (n & Eks & Ln). subst ks. kid_facts Hcl Hall n Cn Wn.
    exists n. rewrite yield_node by discriminate. cbn [kids flat_map]. rewrite app_nil_r. repeat split; auto.
    apply idnp_facts; assumption.
Qed.

(* <xml-attribute>: a b  or  ID=Q text Q *)
Definition attr_leaf (a idt tx : tree) : Prop :=
  exists e q, kids a = [idt; e; tx; q] /\ lbl idt = X_id /\ lbl e = T_eqq /\ lbl tx = X_text /\ lbl q = T_q /\
    opn e = false /\ kids e = [] /\ opn q = false /\ kids q = [] /\
    wfx idt /\ closedT idt /\ wfx tx /\ closedT tx /\
    yield a = yield idt ++ T_eqq ++ yield tx ++ T_q.
Definition attr_pair (a a1 a2 : tree) : Prop :=
  exists s, kids a = [a1; s; a2] /\ lbl a1 = X_attr /\ lbl s = T_sp /\ lbl a2 = X_attr /\ wfx s /\
    wfx a1 /\ closedT a1 /\ wfx a2 /\ closedT a2 /\
    yield a = yield a1 ++ c_sp :: yield a2.

Lemma attr_struct a : wfx a -> closedT a -> lbl a = X_attr ->
  opn a = false /\ ((exists a1 a2, attr_pair a a1 a2) \/ (exists idt tx, attr_leaf a idt tx)).
Proof.
  intros Hwf Hcl Hl. destruct a as [l i o ks]. cbn [lbl kids opn] in *. subst l.
  assert (Ho : o = false) by (eapply closed_not_open; eauto). subst o. split; [reflexivity|].
  destruct (wf_inv XMLNS X_attr i ks Hwf eq_refl) as [(Hne & Halt & Hall) | (Heps & _)].
  2:{ destruct Heps as [E|[E|[]]]; discriminate. }
  change (alts XMLNS X_attr) with [[X_attr; T_sp; X_attr]; [X_id; T_eqq; X_text; T_q]] in Halt.
  destruct Halt as [E|[E|[]]].
  - left. apply map_lbl_3 in E as (a1 & s & a2 & Eks & L1 & Ls & L2). subst ks.
    kid_facts Hcl Hall a1 C1 W1. kid_facts Hcl Hall a2 C2 W2.
    assert (Ws : wfx s) by (eapply Forall_in; [exact Hall | simpl; auto]).
    exists a1, a2, s. rewrite yield_node by discriminate. cbn [kids flat_map]. rewrite app_nil_r, (term_yield XMLNS s T_sp Ws Ls eq_refl).
    repeat split; auto.
  - right. apply map_lbl_4 in E as (idt & e & tx & q & Eks & L1 & L2 & L3 & L4). subst ks.
    kid_facts Hcl Hall idt C1 W1. kid_facts Hcl Hall tx C3 W3.
    assert (We : wfx e) by (eapply Forall_in; [exact Hall | simpl; auto]).
    assert (Wq : wfx q) by (eapply Forall_in; [exact Hall | simpl; auto 6]).
    destruct (term_is_term e T_eqq We L2 eq_refl) as (_ & Oe & Ke).
    destruct (term_is_term q T_q Wq L4 eq_refl) as (_ & Oq & Kq).
    exists idt, tx, e, q. rewrite yield_node by discriminate. cbn [kids flat_map]. rewrite app_nil_r.
    rewrite (term_yield XMLNS e T_eqq We L2 eq_refl), (term_yield XMLNS q T_q Wq L4 eq_refl).
    repeat split; auto.
Qed.

(* a start tag (fin = >) or an empty-element tag (fin = />) *)

Definition tag_plain (k idt : tree) (fin : str) : Prop :=
  exists a f, kids k = [a; idt; f] /\ is_term a T_lt /\ is_term f fin /\ lbl idt = X_id /\
    wfx idt /\ closedT idt /\ yield k = c_lt :: yield idt ++ fin.
Definition tag_attrs (k idt at_ : tree) (fin : str) : Prop :=
  exists a s f, kids k = [a; idt; s; at_; f] /\ is_term a T_lt /\ is_term s T_sp /\ is_term f fin /\
    lbl idt = X_id /\ lbl at_ = X_attr /\ wfx idt /\ closedT idt /\ wfx at_ /\ closedT at_ /\
    yield k = c_lt :: yield idt ++ c_sp :: yield at_ ++ fin.

Lemma tag_struct k fin : wfx k -> closedT k ->
  (lbl k = X_open /\ fin = T_gt) \/ (lbl k = X_oc /\ fin = T_sgt) ->
  opn k = false /\ ((exists idt at_, tag_attrs k idt at_ fin) \/ (exists idt, tag_plain k idt fin)).
Proof.
  intros Hwf Hcl Hk. destruct k as [l i o ks]. cbn [lbl kids opn] in *.
  assert (Ho : o = false) by (eapply closed_not_open; eauto). subst o. split; [reflexivity|].
  assert (Halts : alts XMLNS l = [[T_lt; X_id; T_sp; X_attr; fin]; [T_lt; X_id; fin]] /\ is_nt l = true /\
                  is_nt fin = false).
  { destruct Hk as [[E1 E2]|[E1 E2]]; subst l fin; auto. }
  destruct Halts as (Halts & Hnt & Hfin).
  destruct (wf_inv XMLNS l i ks Hwf Hnt) as [(Hne & Halt & Hall) | (Heps & _)].
  2:{ rewrite Halts in Heps. destruct Heps as [E|[E|[]]]; discriminate. }
  rewrite Halts in Halt. destruct Halt as [E|[E|[]]].
  - left. apply map_lbl_5 in E as (a & idt & s & at_ & f & Eks & L1 & L2 & L3 & L4 & L5). subst ks.
    kid_facts Hcl Hall idt C2 W2. kid_facts Hcl Hall at_ C4 W4.
    assert (W1 : wfx a) by (eapply Forall_in; [exact Hall | simpl; auto]).
    assert (W3 : wfx s) by (eapply Forall_in; [exact Hall | simpl; auto]).
    assert (W5 : wfx f) by (eapply Forall_in; [exact Hall | simpl; auto 7]).
    exists idt, at_, a, s, f. rewrite yield_node by discriminate. cbn [kids flat_map]. rewrite app_nil_r.
    rewrite (term_yield XMLNS a T_lt W1 L1 eq_refl), (term_yield XMLNS s T_sp W3 L3 eq_refl),
      (term_yield XMLNS f fin W5 L5 Hfin).
    destruct (term_is_term a T_lt W1 L1 eq_refl) as (_ & Oa & Ka).
    destruct (term_is_term s T_sp W3 L3 eq_refl) as (_ & Os & Ks).
    destruct (term_is_term f fin W5 L5 Hfin) as (_ & Of & Kf).
    repeat split; auto.
  - right. apply map_lbl_3 in E as (a & idt & f & Eks & L1 & L2 & L3). subst ks.
    kid_facts Hcl Hall idt C2 W2.
    assert (W1 : wfx a) by (eapply Forall_in; [exact Hall | simpl; auto]).
    assert (W3 : wfx f) by (eapply Forall_in; [exact Hall | simpl; auto]).
    exists idt, a, f. rewrite yield_node by discriminate. cbn [kids flat_map]. rewrite app_nil_r.
    rewrite (term_yield XMLNS a T_lt W1 L1 eq_refl), (term_yield XMLNS f fin W3 L3 Hfin).
    destruct (term_is_term a T_lt W1 L1 eq_refl) as (_ & Oa & Ka).
    destruct (term_is_term f fin W3 L3 Hfin) as (_ & Of & Kf).
    repeat split; auto.
Qed.

Lemma close_struct k : wfx k -> closedT k -> lbl k = X_close ->
  opn k = false /\ exists a idt f, kids k = [a; idt; f] /\ is_term a T_lts /\ is_term f T_gt /\ lbl idt = X_id /\
    wfx idt /\ closedT idt /\ yield k = c_lt :: c_slash :: yield idt ++ T_gt.
Proof.
  intros Hwf Hcl Hl. destruct k as [l i o ks]. cbn [lbl kids opn] in *. subst l.
  assert (Ho : o = false) by (eapply closed_not_open; eauto). subst o. split; [reflexivity|].
  destruct (wf_inv XMLNS X_close i ks Hwf eq_refl) as [(Hne & Halt & Hall) | (Heps & _)].
  2:{ destruct Heps as [E|[]]; discriminate. }
  change (alts XMLNS X_close) with [[T_lts; X_id; T_gt]] in Halt. destruct Halt as [E|[]].
  apply map_lbl_3 in E as (a & idt & f & Eks & L1 & L2 & L3). subst ks.
  kid_facts Hcl Hall idt C2 W2.
  assert (W1 : wfx a) by (eapply Forall_in; [exact Hall | simpl; auto]).
  assert (W3 : wfx f) by (eapply Forall_in; [exact Hall | simpl; auto]).
  exists a, idt, f. rewrite yield_node by discriminate. cbn [kids flat_map]. rewrite app_nil_r.
  rewrite (term_yield XMLNS a T_lts W1 L1 eq_refl), (term_yield XMLNS f T_gt W3 L3 eq_refl).
  destruct (term_is_term a T_lts W1 L1 eq_refl) as (_ & Oa & Ka).
  destruct (term_is_term f T_gt W3 L3 eq_refl) as (_ & Of & Kf).
  repeat split; auto.
Qed.
