(* C21 — the shipped CSV formalization (src/isla_formalizations/csv.py) and an
   independent CSV reader.  MODEL FILE: definitions only, no proofs.

   Three things live here.

   1. TRANSCRIPTION of the Python objects  CSV_GRAMMAR  (in ISLa's canonical form,
      helpers.canonical) and  csv_colno_property  (source text + the three parameters the
      formula consists of).  harness/c21.py diffs every one of these definitions against
      the live Python objects on every run (grammar_eqb / str_eqb evaluated inside Coq).

   2. MODEL of what the constraint means on a closed tree, as ISLa's evaluator computes it:
      count_lbl (isla_predicates.count: number of nodes of the subtree whose label is the
      needle) and colno_satb (verdict of evaluator.evaluate(CSV_COLNO_PROPERTY, t, CSV_GRAMMAR)
      on closed trees).  Tied to evaluate() by the correspondence check.

   3. The INDEPENDENT validity notion: csv_rows, an RFC-4180-style reader (separator ';',
      record end LF, fields may be enclosed in double quotes and may then contain
      separators and line breaks), written without reference to the grammar.  Tied to
      Python's csv module (csv.reader(delimiter=';')) by the correspondence check. *)
From Coq Require Import String Ascii.
From ISLA Require Export Grammar.
Local Open Scope list_scope.

(* readable string literals: code points of an ASCII Coq string *)
Definition lit (s : string) : str := List.map N_of_ascii (list_ascii_of_string s).

(* ------------------------------------------------------------------------- *)
(* 1. transcription                                                          *)
(* ------------------------------------------------------------------------- *)

Definition c_quote : chr := 34%N.  (* double quote *)
Definition c_semi  : chr := 59%N.  (* ';' *)
Definition c_nl    : chr := 10%N.  (* '\n' *)
Definition c_tab   : chr := 9%N.
Definition c_cr    : chr := 13%N.

(* string.printable = digits + ascii_letters + punctuation + whitespace (' \t\n\r\x0b\x0c') *)
Definition printable : str := Eval vm_compute in
  lit "0123456789abcdefghijklmnopqrstuvwxyzABCDEFGHIJKLMNOPQRSTUVWXYZ"
  ++ lit "!""#$%&'()*+,-./:;<=>?@[\]^_`{|}~"
  ++ [32; 9; 10; 13; 11; 12]%N.

Definition memc (c : chr) (l : str) : bool := existsb (N.eqb c) l.

(* [c for c in srange(string.printable) if c not in [LF, semicolon, dquote, space, TAB, CR, dquote]] *)
Definition simple_charb (c : chr) : bool :=
  negb (memc c [c_nl; c_semi; c_quote; c_sp; c_tab; c_cr; c_quote]).
(* [c for c in srange(string.printable) if c not in [dquote]] *)
Definition escaped_charb (c : chr) : bool := negb (memc c [c_quote]).

Definition chars_alts (f : chr -> bool) : list alt :=
  List.map (fun c => [[c]]) (filter f printable).

Definition L_start   : str := Eval vm_compute in lit "<start>".
Definition L_file    : str := Eval vm_compute in lit "<csv-file>".
Definition L_header  : str := Eval vm_compute in lit "<csv-header>".
Definition L_records : str := Eval vm_compute in lit "<csv-records>".
Definition L_record  : str := Eval vm_compute in lit "<csv-record>".
Definition L_slist   : str := Eval vm_compute in lit "<csv-string-list>".
Definition L_raw     : str := Eval vm_compute in lit "<raw-field>".
Definition L_simple  : str := Eval vm_compute in lit "<simple-field>".
Definition L_schars  : str := Eval vm_compute in lit "<simple-characters>".
Definition L_schar   : str := Eval vm_compute in lit "<simple-character>".
Definition L_quoted  : str := Eval vm_compute in lit "<quoted-field>".
Definition L_efield  : str := Eval vm_compute in lit "<escaped-field>".
Definition L_echars  : str := Eval vm_compute in lit "<escaped-characters>".
Definition L_echar   : str := Eval vm_compute in lit "<escaped-character>".
Definition L_spaces  : str := Eval vm_compute in lit "<spaces>".

(* CSV_GRAMMAR, rule by rule, in the order of the Python dict *)
Definition CSV : grammar := Eval vm_compute in
  [ (L_start,   [[L_file]]);
    (L_file,    [[L_header; L_records]]);
    (L_header,  [[L_record]]);
    (L_records, [[L_record; L_records]; []]);
    (L_record,  [[L_slist; [c_nl]]]);
    (L_slist,   [[L_raw]; [L_raw; [c_semi]; L_slist]]);
    (L_raw,     [[L_simple]; [L_quoted]]);
    (L_simple,  [[L_spaces; L_schars; L_spaces]]);
    (L_schars,  [[L_schar; L_schars]; [L_schar]]);
    (L_schar,   chars_alts simple_charb);
    (L_quoted,  [[[c_quote]; L_efield; [c_quote]]]);
    (L_efield,  [[L_echars]]);
    (L_echars,  [[L_echar; L_echars]; []]);
    (L_echar,   chars_alts escaped_charb);
    (L_spaces,  [[]; [[c_sp]; L_spaces]]) ].

(* csv_colno_property (source text, line breaks are LF):

   exists int num:
     forall <csv-record> elem in start:
       (str.to.int(num) >= 1 and
        count(elem, "<raw-field>", num))                                       *)
Definition colno_src : str := Eval vm_compute in
  [c_nl] ++ lit "exists int num:" ++ [c_nl]
  ++ lit "  forall <csv-record> elem in start:" ++ [c_nl]
  ++ lit "    (str.to.int(num) >= 1 and" ++ [c_nl]
  ++ lit "     count(elem, ""<raw-field>"", num))".

(* the parameters of the parsed formula (ExistsIntFormula > ForallFormula over
   colno_elem_type in the start constant > conjunction of  str.to.int(num) >= colno_min
   and  count(elem, colno_needle, num) ) *)
Definition colno_elem_type : str := L_record.
Definition colno_needle    : str := L_raw.
Definition colno_min       : nat := 1.

(* decidable equality of grammars, for the transcription diff *)
Fixpoint alts_eqb (a b : list alt) : bool :=
  match a, b with
  | [], [] => true
  | x :: a', y :: b' => alt_eqb x y && alts_eqb a' b'
  | _, _ => false
  end.
Fixpoint grammar_eqb (g h : grammar) : bool :=
  match g, h with
  | [], [] => true
  | (A, al) :: g', (B, bl) :: h' => str_eqb A B && alts_eqb al bl && grammar_eqb g' h'
  | _, _ => false
  end.

(* ------------------------------------------------------------------------- *)
(* 2. the constraint on closed trees, as evaluated                           *)
(* ------------------------------------------------------------------------- *)

(* isla_predicates.count: len(in_tree.filter(lambda t: t.value == needle)) *)
Fixpoint count_lbl (needle : str) (t : tree) : nat :=
  match t with
  | Node l _ _ ks =>
      (if str_eqb l needle then 1 else 0) + list_sum (List.map (count_lbl needle) ks)
  end.

(* all nodes carrying a label, in pre-order (the domain of `forall <T> elem in start`) *)
Fixpoint nodes_lbl (l : str) (t : tree) : list tree :=
  match t with
  | Node l' _ _ ks =>
      (if str_eqb l' l then [t] else []) ++ flat_map (nodes_lbl l) ks
  end.

Definition all_eq_nat (n : nat) (l : list nat) : bool := forallb (Nat.eqb n) l.

(* exists int num: forall <etype> elem in t: (num >= lo and count(elem, needle, num)) *)
Definition exists_count_satb (etype needle : str) (lo : nat) (t : tree) : bool :=
  match List.map (count_lbl needle) (nodes_lbl etype t) with
  | [] => true
  | n :: ns => Nat.leb lo n && all_eq_nat n ns
  end.

Definition colno_satb (t : tree) : bool :=
  exists_count_satb colno_elem_type colno_needle colno_min t.

(* ------------------------------------------------------------------------- *)
(* 3. independent CSV reader                                                 *)
(* ------------------------------------------------------------------------- *)

(* reader state: inside a quoted section?, the field being read, the fields of the
   record being read, the finished records *)
Record rd := Rd { inq : bool; cur : str; row : list str; acc : list (list str) }.

Definition rd0 : rd := Rd false [] [] [].

Definition step (st : rd) (c : chr) : rd :=
  let '(Rd q f r a) := st in
  if q then
    (if N.eqb c c_quote then Rd false f r a       (* closing quote *)
     else Rd true (f ++ [c]) r a)                 (* anything else is data, incl. ';' and LF *)
  else if N.eqb c c_quote then Rd true f r a      (* opening quote *)
  else if N.eqb c c_semi then Rd false [] (r ++ [f]) a          (* field separator *)
  else if N.eqb c c_nl then Rd false [] [] (a ++ [r ++ [f]])    (* record end *)
  else Rd false (f ++ [c]) r a.

Definition run (s : str) (st : rd) : rd := fold_left step s st.

(* a last record without line break still counts; nothing after the last LF does not *)
Definition finish (st : rd) : list (list str) :=
  match cur st, row st, inq st with
  | [], [], false => acc st
  | _, _, _ => acc st ++ [row st ++ [cur st]]
  end.

Definition csv_rows (s : str) : list (list str) := finish (run s rd0).

(* the validity notion of the property: all records have the same number of columns *)
Definition same_lengthb (rows : list (list str)) : bool :=
  match rows with
  | [] => true
  | r :: rs => forallb (fun r' => Nat.eqb (length r) (length r')) rs
  end.

Definition csv_validb (s : str) : bool := same_lengthb (csv_rows s).

(* ------------------------------------------------------------------------- *)
(* comparison helpers for the generated correspondence cases                 *)
(* ------------------------------------------------------------------------- *)
Fixpoint strs_eqb (a b : list str) : bool :=
  match a, b with
  | [], [] => true
  | x :: a', y :: b' => str_eqb x y && strs_eqb a' b'
  | _, _ => false
  end.
Fixpoint rows_eqb (a b : list (list str)) : bool :=
  match a, b with
  | [], [] => true
  | x :: a', y :: b' => strs_eqb x y && rows_eqb a' b'
  | _, _ => false
  end.
