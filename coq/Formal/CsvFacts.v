(* C21 — CSV formalization: specification and proofs.

   SPEC (independent of the model functions of Csv.v):
     count_nodes needle t   number of positions of t whose node is labelled needle
                            (documented meaning of the `count` predicate), over Tree.nodes
     colno_sat t            documented meaning of csv_colno_property on a tree:
                            exists n, forall positions p of t with a <csv-record> node r:
                              1 <= n  /\  count_nodes "<raw-field>" r = n
     equal_columns rows     all rows have the same (positive) length
   MAIN THEOREM  csv_valid :
     wf_tree CSV t -> closed t -> lbl t = <start> -> colno_sat t -> equal_columns (csv_rows (yield t))
   plus csv_rows_exact (the reader recovers exactly the records and the unquoted field texts of
   the derivation tree) and the decision procedures' correctness (colno_satb_spec,
   csv_validb_spec). *)
From Coq Require Import Lia.
From ISLA Require Import Grammar GrammarFacts TreeFacts Csv.

(* ========================================================================= *)
(* Specification                                                             *)
(* ========================================================================= *)

Definition count_nodes (needle : str) (t : tree) : nat :=
  length (filter (fun pt => str_eqb (lbl (snd pt)) needle) (nodes t)).

Definition colno_sat (t : tree) : Prop :=
  exists n : nat, forall p r, subtree t p = Some r -> lbl r = colno_elem_type ->
    colno_min <= n /\ count_nodes colno_needle r = n.

Definition equal_columns (rows : list (list str)) : Prop :=
  exists n : nat, 1 <= n /\ Forall (fun r => length r = n) rows.

(* r occurs in t *)
Definition desc (t r : tree) : Prop := exists p, subtree t p = Some r.

(* ========================================================================= *)
(* count / nodes_lbl / colno_satb agree with the specification               *)
(* ========================================================================= *)

Lemma filter_map_len {A} (P : A -> bool) (f : A -> A) (l : list A) :
  (forall x, P (f x) = P x) -> length (filter P (map f l)) = length (filter P l).
Proof.
  intro H. induction l as [|x l IH]; simpl; [reflexivity|].
  rewrite H. destruct (P x); simpl; rewrite IH; reflexivity.
Qed.

Lemma count_concat_mapi (P : path * tree -> bool) (needle : str) (ks : list tree) :
  (forall q s i, P (i :: q, s) = P (q, s)) ->
  Forall (fun k => length (filter P (nodes k)) = count_lbl needle k) ks ->
  forall i0,
  length (filter P (concat (mapi_from (fun i c => map (fun pt => (i :: fst pt, snd pt)) c) i0
                                      (map nodes ks))))
  = list_sum (map (count_lbl needle) ks).
Proof.
  intros HP Hall. induction Hall as [|k ks Hk _ IH]; intro i0; simpl; [reflexivity|].
  rewrite filter_app, app_length, IH. f_equal.
  rewrite <- Hk. apply filter_map_len. intros [q s]. simpl. apply HP.
Qed.

Lemma count_lbl_nodes needle t : count_lbl needle t = count_nodes needle t.
Proof.
  unfold count_nodes.
  induction t as [l i o ks IH] using tree_ind'.
  rewrite nodes_unfold. cbn [filter snd lbl count_lbl].
  assert (Hsum : length (filter (fun pt : path * tree => str_eqb (lbl (snd pt)) needle)
             (concat (mapi_from (fun i c => map (fun pt => (i :: fst pt, snd pt)) c) 0
                                (map nodes ks))))
          = list_sum (map (count_lbl needle) ks)).
  { apply count_concat_mapi; [reflexivity|].
    rewrite Forall_forall in *. intros k Hk. symmetry. apply IH. assumption. }
  destruct (str_eqb l needle); simpl; rewrite Hsum; reflexivity.
Qed.

Lemma nodes_lbl_spec l t r :
  In r (nodes_lbl l t) <-> exists p, subtree t p = Some r /\ lbl r = l.
Proof.
  revert r. induction t as [l' i o ks IH] using tree_ind'. intro r.
  cbn [nodes_lbl]. rewrite in_app_iff, in_flat_map. split.
  - intros [H|(k & Hk & Hin)].
    + destruct (str_eqb l' l) eqn:E; [|contradiction]. destruct H as [H|[]]. subst r.
      exists []. split; [reflexivity|]. simpl. apply str_eqb_eq. assumption.
    + rewrite Forall_forall in IH. apply (IH k Hk) in Hin as (p & Hp & Hl).
      apply In_nth_error in Hk as [n Hn]. exists (n :: p). simpl. rewrite Hn. auto.
  - intros ([|n p] & Hp & Hl); simpl in Hp.
    + inversion Hp; subst r. left. simpl in Hl. subst l'. rewrite str_eqb_refl. left. reflexivity.
    + destruct (nth_error ks n) as [c|] eqn:En; [|discriminate]. right.
      exists c. assert (Hc : In c ks) by (eapply nth_error_In; eauto). split; [assumption|].
      rewrite Forall_forall in IH. apply (IH c Hc). eauto.
Qed.

Lemma all_same_spec (lo : nat) (l : list nat) :
  match l with [] => true | n :: ns => Nat.leb lo n && all_eq_nat n ns end = true
  <-> exists n, forall x, In x l -> lo <= n /\ x = n.
Proof.
  destruct l as [|n ns].
  - split; [|reflexivity]. intros _. exists 0. intros x [].
  - unfold all_eq_nat. rewrite andb_true_iff, Nat.leb_le, forallb_forall. split.
    + intros [Hlo Hall]. exists n. intros x [Hx|Hx].
      * subst. auto.
      * apply Hall in Hx. apply Nat.eqb_eq in Hx. subst. auto.
    + intros [m Hm]. destruct (Hm n (or_introl eq_refl)) as [Hlo ->]. split; [assumption|].
      intros x Hx. apply Nat.eqb_eq. destruct (Hm x (or_intror Hx)) as [_ ->]. reflexivity.
Qed.

Theorem colno_satb_spec t : colno_satb t = true <-> colno_sat t.
Proof.
  unfold colno_satb, exists_count_satb, colno_sat. rewrite all_same_spec. split.
  - intros [n Hn]. exists n. intros p r Hp Hl. apply Hn.
    apply in_map_iff. exists r. split; [apply count_lbl_nodes|].
    apply nodes_lbl_spec. eauto.
  - intros [n Hn]. exists n. intros x Hx. apply in_map_iff in Hx as (r & Hx & Hr).
    apply nodes_lbl_spec in Hr as (p & Hp & Hl). destruct (Hn p r Hp Hl) as [Hlo Hc].
    split; [assumption|]. rewrite <- Hx, count_lbl_nodes. assumption.
Qed.

Lemma same_lengthb_spec rows :
  same_lengthb rows = true <-> exists n, Forall (fun r => length r = n) rows.
Proof.
  destruct rows as [|r rs]; simpl.
  - split; [|reflexivity]. intros _. exists 0. constructor.
  - rewrite forallb_forall. split.
    + intro H. exists (length r). constructor; [reflexivity|]. apply Forall_forall.
      intros x Hx. apply H in Hx. apply Nat.eqb_eq in Hx. auto.
    + intros [n Hn] x Hx. apply Nat.eqb_eq. inversion Hn as [|? ? H1 H2]; subst.
      rewrite Forall_forall in H2. rewrite (H2 x Hx). reflexivity.
Qed.

(* ========================================================================= *)
(* The reader                                                                *)
(* ========================================================================= *)

Definition plainb (c : chr) : bool :=
  negb (N.eqb c c_quote) && negb (N.eqb c c_semi) && negb (N.eqb c c_nl).
Definition nonquoteb (c : chr) : bool := negb (N.eqb c c_quote).

(* text of a field as the reader reports it: enclosing quotes removed *)
Definition unq (w : str) : str := filter nonquoteb w.

Lemma run_app u v st : run (u ++ v) st = run v (run u st).
Proof. apply fold_left_app. Qed.

Lemma run_cons c w st : run (c :: w) st = run w (step st c).
Proof. reflexivity. Qed.

Lemma run_plain w : Forall (fun c => plainb c = true) w ->
  forall f r a, run w (Rd false f r a) = Rd false (f ++ w) r a.
Proof.
  induction 1 as [|c w Hc _ IH]; intros f r a.
  - simpl. rewrite app_nil_r. reflexivity.
  - rewrite run_cons. unfold plainb in Hc.
    apply andb_true_iff in Hc as [Hc Hn]. apply andb_true_iff in Hc as [Hq Hs].
    apply negb_true_iff in Hq, Hs, Hn. cbn [step]. rewrite Hq, Hs, Hn.
    rewrite IH, <- app_assoc. reflexivity.
Qed.

Lemma run_inq w : Forall (fun c => nonquoteb c = true) w ->
  forall f r a, run w (Rd true f r a) = Rd true (f ++ w) r a.
Proof.
  induction 1 as [|c w Hc _ IH]; intros f r a.
  - simpl. rewrite app_nil_r. reflexivity.
  - rewrite run_cons. apply negb_true_iff in Hc. cbn [step]. rewrite Hc.
    rewrite IH, <- app_assoc. reflexivity.
Qed.

Lemma run_quoted w : Forall (fun c => nonquoteb c = true) w ->
  forall f r a, run (c_quote :: w ++ [c_quote]) (Rd false f r a) = Rd false (f ++ w) r a.
Proof.
  intros H f r a. rewrite run_cons. cbn [step]. rewrite N.eqb_refl.
  rewrite run_app, run_inq by assumption. reflexivity.
Qed.

Lemma unq_id w : Forall (fun c => nonquoteb c = true) w -> unq w = w.
Proof.
  induction 1 as [|c w Hc _ IH]; simpl; [reflexivity|]. rewrite Hc, IH. reflexivity.
Qed.

Lemma unq_quoted w : Forall (fun c => nonquoteb c = true) w -> unq (c_quote :: w ++ [c_quote]) = w.
Proof.
  intro H. unfold unq. simpl. rewrite filter_app. simpl.
  fold (unq w). rewrite unq_id by assumption. apply app_nil_r.
Qed.

Lemma plain_nonquote c : plainb c = true -> nonquoteb c = true.
Proof.
  unfold plainb, nonquoteb. intro H. apply andb_true_iff in H as [H _].
  apply andb_true_iff in H as [H _]. assumption.
Qed.

(* ========================================================================= *)
(* Generic: label sets closed under the grammar                              *)
(* ========================================================================= *)

Definition mem_str (s : str) (l : list str) : bool := existsb (str_eqb s) l.

Lemma mem_str_spec s l : mem_str s l = true <-> In s l.
Proof.
  unfold mem_str. rewrite existsb_exists. split.
  - intros (x & Hx & E). apply str_eqb_eq in E. subst. assumption.
  - intro H. exists s. split; [assumption | apply str_eqb_refl].
Qed.

(* every symbol of every alternative of a nonterminal of SS is again in SS, or is a
   terminal all of whose characters satisfy C *)
Definition sub_closedb (g : grammar) (SS : list str) (C : chr -> bool) : bool :=
  forallb (fun A => forallb (fun al => forallb (fun sym =>
     if is_nt sym then mem_str sym SS else forallb C sym) al) (alts g A)) SS.

Lemma closed_kids l i ks k :
  is_openT (Node l i false ks) = false -> In k ks -> is_openT k = false.
Proof.
  simpl. intros H Hk. destruct (is_openT k) eqn:E; [|reflexivity].
  assert (existsb is_openT ks = true) by (apply existsb_exists; eauto). congruence.
Qed.

Lemma closed_not_open l i o ks : is_openT (Node l i o ks) = false -> o = false.
Proof. simpl. destruct o; [discriminate | reflexivity]. Qed.

Lemma Forall_flat_map {A B} (P : B -> Prop) (f : A -> list B) (l : list A) :
  (forall x, In x l -> Forall P (f x)) -> Forall P (flat_map f l).
Proof.
  induction l as [|x l IH]; intro H; simpl; [constructor|].
  apply Forall_app. split; [apply H; left; reflexivity | apply IH; intros; apply H; right; assumption].
Qed.

Lemma list_sum_zero {A} (f : A -> nat) (l : list A) :
  (forall x, In x l -> f x = 0) -> list_sum (map f l) = 0.
Proof.
  induction l as [|x l IH]; intro H; simpl; [reflexivity|].
  rewrite H by (left; reflexivity). rewrite IH; [reflexivity|]. intros; apply H; right; assumption.
Qed.

Lemma nt_neq a b : is_nt a = true -> is_nt b = false -> str_eqb b a = false.
Proof. intros Ha Hb. apply str_eqb_neq. intro E. subst. congruence. Qed.

Lemma yield_node l i ks : ks <> [] -> yield (Node l i false ks) = flat_map yield ks.
Proof. destruct ks; [contradiction | reflexivity]. Qed.

Section SubClosed.
  Variables (g : grammar) (SS : list str) (C : chr -> bool).
  Hypothesis Hcl : sub_closedb g SS C = true.

  Definition in_class (t : tree) : Prop :=
    (is_nt (lbl t) = true /\ In (lbl t) SS) \/ (is_nt (lbl t) = false /\ forallb C (lbl t) = true).

  Lemma sub_closed_kid A al sym :
    In A SS -> In al (alts g A) -> In sym al ->
    (is_nt sym = true /\ In sym SS) \/ (is_nt sym = false /\ forallb C sym = true).
  Proof.
    intros HA Hal Hsym. unfold sub_closedb in Hcl.
    rewrite forallb_forall in Hcl. specialize (Hcl A HA).
    rewrite forallb_forall in Hcl. specialize (Hcl al Hal).
    rewrite forallb_forall in Hcl. specialize (Hcl sym Hsym).
    destruct (is_nt sym) eqn:E; [left | right]; split; auto.
    apply mem_str_spec. assumption.
  Qed.

  Lemma sub_closed_sound t :
    wf_tree g t -> is_openT t = false -> in_class t ->
    Forall (fun c => C c = true) (yield t) /\
    (forall needle, is_nt needle = true -> ~ In needle SS -> count_lbl needle t = 0).
  Proof.
    induction t as [l i o ks IH] using tree_ind'. intros Hwf Hcl' Hin.
    inversion Hwf as [A i' HA HD | w i' Hw | A i' ks' HA Hne Halt Hall | A i' HA Halt | A i' j HA Halt];
      subst.
    - discriminate.
    - destruct Hin as [[Hnt _]|[_ HC]]; [simpl in Hnt; congruence|]. simpl in HC.
      split.
      + simpl. rewrite Hw. rewrite forallb_forall in HC. apply Forall_forall. assumption.
      + intros needle Hn _. simpl. rewrite (nt_neq needle l Hn Hw). reflexivity.
    - destruct Hin as [[_ HS]|[Hnt _]]; [|simpl in Hnt; congruence]. simpl in HS.
      assert (Hkids : forall k, In k ks ->
                Forall (fun c => C c = true) (yield k) /\
                (forall needle, is_nt needle = true -> ~ In needle SS -> count_lbl needle k = 0)).
      { intros k Hk. rewrite Forall_forall in IH, Hall. apply IH; auto.
        - eapply closed_kids; eauto.
        - unfold in_class. eapply sub_closed_kid; eauto. apply in_map. assumption. }
      split.
      + rewrite yield_node by assumption. apply Forall_flat_map. intros k Hk. apply Hkids. assumption.
      + intros needle Hn HnS. cbn [count_lbl].
        assert (E : str_eqb l needle = false).
        { apply str_eqb_neq. intro E. subst. contradiction. }
        rewrite E. simpl. apply list_sum_zero. intros k Hk. apply Hkids; assumption.
    - destruct Hin as [[_ HS]|[Hnt _]]; [|simpl in Hnt; congruence]. simpl in HS.
      split; [simpl; rewrite HA; constructor|].
      intros needle Hn HnS.
      assert (E : str_eqb l needle = false).
      { apply str_eqb_neq. intro E. subst. contradiction. }
      simpl. rewrite E. reflexivity.
    - destruct Hin as [[_ HS]|[Hnt _]]; [|simpl in Hnt; congruence]. simpl in HS.
      split; [simpl; constructor|].
      intros needle Hn HnS.
      assert (E : str_eqb l needle = false).
      { apply str_eqb_neq. intro E. subst. contradiction. }
      simpl. rewrite E. destruct needle; [discriminate Hn | reflexivity].
  Qed.
End SubClosed.

(* ========================================================================= *)
(* The CSV grammar                                                           *)
(* ========================================================================= *)

Lemma alts_start   : alts CSV L_start   = [[L_file]]. Proof. reflexivity. Qed.
Lemma alts_file    : alts CSV L_file    = [[L_header; L_records]]. Proof. reflexivity. Qed.
Lemma alts_header  : alts CSV L_header  = [[L_record]]. Proof. reflexivity. Qed.
Lemma alts_records : alts CSV L_records = [[L_record; L_records]; []]. Proof. reflexivity. Qed.
Lemma alts_record  : alts CSV L_record  = [[L_slist; [c_nl]]]. Proof. reflexivity. Qed.
Lemma alts_slist   : alts CSV L_slist   = [[L_raw]; [L_raw; [c_semi]; L_slist]]. Proof. reflexivity. Qed.
Lemma alts_raw     : alts CSV L_raw     = [[L_simple]; [L_quoted]]. Proof. reflexivity. Qed.
Lemma alts_quoted  : alts CSV L_quoted  = [[[c_quote]; L_efield; [c_quote]]]. Proof. reflexivity. Qed.

Definition S_simple : list str := [L_simple; L_schars; L_schar; L_spaces].
Definition S_esc    : list str := [L_efield; L_echars; L_echar].

Lemma simple_closed : sub_closedb CSV S_simple plainb = true.
Proof. vm_compute. reflexivity. Qed.
Lemma esc_closed : sub_closedb CSV S_esc nonquoteb = true.
Proof. vm_compute. reflexivity. Qed.

(* inversion of an expanded nonterminal node *)
Lemma wf_inv g A i ks :
  wf_tree g (Node A i false ks) -> is_nt A = true ->
  (ks <> [] /\ In (map lbl ks) (alts g A) /\ Forall (wf_tree g) ks) \/
  (In [] (alts g A) /\ (ks = [] \/ exists j, ks = [Node [] j false []])).
Proof.
  intros H HA.
  inversion H as [A' i' HA' HD | w i' Hw | A' i' ks' HA' Hne Halt Hall | A' i' HA' Halt | A' i' j HA' Halt];
    subst.
  - congruence.
  - left. auto.
  - right. auto.
  - right. split; [assumption|]. right. eauto.
Qed.

Lemma wf_terminal g k : wf_tree g k -> is_nt (lbl k) = false -> exists i, k = Node (lbl k) i false [].
Proof.
  intros H Hn.
  inversion H as [A' i' HA' HD | w i' Hw | A' i' ks' HA' Hne Halt Hall | A' i' HA' Halt | A' i' j HA' Halt];
    subst; simpl in Hn; try congruence.
  eauto.
Qed.

Lemma map_lbl_1 a ks : [a] = map lbl ks -> exists k, ks = [k] /\ lbl k = a.
Proof. destruct ks as [|k [|k2 ks]]; simpl; intro H; inversion H; eauto. Qed.
Lemma map_lbl_2 a b ks : [a; b] = map lbl ks ->
  exists k1 k2, ks = [k1; k2] /\ lbl k1 = a /\ lbl k2 = b.
Proof. destruct ks as [|k [|k2 [|k3 ks]]]; simpl; intro H; inversion H; eauto. Qed.
Lemma map_lbl_3 a b c ks : [a; b; c] = map lbl ks ->
  exists k1 k2 k3, ks = [k1; k2; k3] /\ lbl k1 = a /\ lbl k2 = b /\ lbl k3 = c.
Proof. destruct ks as [|k [|k2 [|k3 [|k4 ks]]]]; simpl; intro H; inversion H; eauto 8. Qed.

Definition fld (f : tree) : str := unq (yield f).

(* ---- <simple-field> and <escaped-field> ---- *)
Lemma simple_field_facts k :
  wf_tree CSV k -> is_openT k = false -> lbl k = L_simple ->
  Forall (fun c => plainb c = true) (yield k) /\ count_lbl L_raw k = 0.
Proof.
  intros Hwf Hc Hl.
  destruct (sub_closed_sound CSV S_simple plainb simple_closed k Hwf Hc) as [H1 H2].
  - left. rewrite Hl. split; [reflexivity | left; reflexivity].
  - split; [assumption|]. apply H2; [reflexivity|].
    intro Hin. apply mem_str_spec in Hin. discriminate Hin.
Qed.

Lemma escaped_field_facts k :
  wf_tree CSV k -> is_openT k = false -> lbl k = L_efield ->
  Forall (fun c => nonquoteb c = true) (yield k) /\ count_lbl L_raw k = 0.
Proof.
  intros Hwf Hc Hl.
  destruct (sub_closed_sound CSV S_esc nonquoteb esc_closed k Hwf Hc) as [H1 H2].
  - left. rewrite Hl. split; [reflexivity | left; reflexivity].
  - split; [assumption|]. apply H2; [reflexivity|].
    intro Hin. apply mem_str_spec in Hin. discriminate Hin.
Qed.

(* ---- <quoted-field> ---- *)
Lemma quoted_field_facts k :
  wf_tree CSV k -> is_openT k = false -> lbl k = L_quoted ->
  exists w, yield k = c_quote :: w ++ [c_quote] /\ Forall (fun c => nonquoteb c = true) w /\
            count_lbl L_raw k = 0.
Proof.
  intros Hwf Hc Hl. destruct k as [l i o ks]. simpl in Hl. subst l.
  pose proof (closed_not_open _ _ _ _ Hc) as Ho. subst o.
  destruct (wf_inv _ _ _ _ Hwf eq_refl) as [(Hne & Halt & Hall)|[Halt _]].
  2:{ rewrite alts_quoted in Halt. simpl in Halt. destruct Halt as [Halt|[]]. discriminate Halt. }
  rewrite alts_quoted in Halt. destruct Halt as [Halt|[]].
  apply map_lbl_3 in Halt as (a & b & c & -> & La & Lb & Lc).
  inversion Hall as [|? ? Wa Hall1]; subst. inversion Hall1 as [|? ? Wb Hall2]; subst.
  inversion Hall2 as [|? ? Wc _]; subst.
  destruct (wf_terminal _ _ Wa) as [ia Ea]; [rewrite La; reflexivity|].
  destruct (wf_terminal _ _ Wc) as [ic Ec]; [rewrite Lc; reflexivity|].
  rewrite La in Ea. rewrite Lc in Ec. subst a c.
  assert (Hcb : is_openT b = false) by (eapply closed_kids; [exact Hc | simpl; auto]).
  destruct (escaped_field_facts b Wb Hcb Lb) as [Hy Hcnt].
  exists (yield b). split; [|split; [assumption|]].
  - simpl. reflexivity.
  - simpl. rewrite Hcnt. reflexivity.
Qed.

(* ---- <raw-field> ---- *)
Lemma raw_field_facts t :
  wf_tree CSV t -> is_openT t = false -> lbl t = L_raw ->
  (forall f r a, run (yield t) (Rd false f r a) = Rd false (f ++ fld t) r a) /\
  count_lbl L_raw t = 1.
Proof.
  intros Hwf Hc Hl. destruct t as [l i o ks]. simpl in Hl. subst l.
  pose proof (closed_not_open _ _ _ _ Hc) as Ho. subst o.
  destruct (wf_inv _ _ _ _ Hwf eq_refl) as [(Hne & Halt & Hall)|[Halt _]].
  2:{ rewrite alts_raw in Halt. simpl in Halt. destruct Halt as [Halt|[Halt|[]]]; discriminate Halt. }
  rewrite alts_raw in Halt. destruct Halt as [Halt|[Halt|[]]];
    apply map_lbl_1 in Halt as (k & -> & Lk);
    inversion Hall as [|? ? Wk _]; subst;
    assert (Hck : is_openT k = false) by (eapply closed_kids; [exact Hc | simpl; auto]).
  - destruct (simple_field_facts k Wk Hck Lk) as [Hy Hcnt].
    assert (Hnq : Forall (fun c => nonquoteb c = true) (yield k)).
    { eapply Forall_impl; [|exact Hy]. intros c. apply plain_nonquote. }
    unfold fld. rewrite yield_node by discriminate. simpl flat_map. rewrite app_nil_r.
    split.
    + intros f r a. rewrite unq_id by assumption. apply run_plain. assumption.
    + simpl. rewrite Hcnt. reflexivity.
  - destruct (quoted_field_facts k Wk Hck Lk) as (w & Hy & Hw & Hcnt).
    unfold fld. rewrite yield_node by discriminate. simpl flat_map. rewrite app_nil_r.
    split.
    + intros f r a. rewrite Hy. rewrite unq_quoted by assumption. apply run_quoted. assumption.
    + simpl. rewrite Hcnt. reflexivity.
Qed.

(* ---- the spine: <csv-string-list>, <csv-record>, <csv-records>, <csv-file> ---- *)

Fixpoint sl_fields (t : tree) : list tree :=
  match t with
  | Node _ _ _ [f] => [f]
  | Node _ _ _ [f; _; rest] => f :: sl_fields rest
  | _ => []
  end.

Definition rec_fields (t : tree) : list tree :=
  match t with Node _ _ _ (sl :: _) => sl_fields sl | _ => [] end.

Fixpoint recs_list (t : tree) : list tree :=
  match t with
  | Node _ _ _ [r; rest] => r :: recs_list rest
  | _ => []
  end.

Definition file_records (t : tree) : list tree :=
  match t with
  | Node _ _ _ [Node _ _ _ [Node _ _ _ [r]; rs]] => r :: recs_list rs
  | _ => []
  end.

Definition row_of (r : tree) : list str := map fld (rec_fields r).

Lemma slist_facts t :
  wf_tree CSV t -> is_openT t = false -> lbl t = L_slist ->
  (forall r a, run (yield t ++ [c_nl]) (Rd false [] r a)
               = Rd false [] [] (a ++ [r ++ map fld (sl_fields t)])) /\
  count_lbl L_raw t = length (sl_fields t) /\ 1 <= length (sl_fields t).
Proof.
  induction t as [l i o ks IH] using tree_ind'. intros Hwf Hc Hl. simpl in Hl. subst l.
  pose proof (closed_not_open _ _ _ _ Hc) as Ho. subst o.
  destruct (wf_inv _ _ _ _ Hwf eq_refl) as [(Hne & Halt & Hall)|[Halt _]].
  2:{ rewrite alts_slist in Halt. simpl in Halt. destruct Halt as [Halt|[Halt|[]]]; discriminate Halt. }
  rewrite alts_slist in Halt. destruct Halt as [Halt|[Halt|[]]].
  - apply map_lbl_1 in Halt as (f & -> & Lf).
    inversion Hall as [|? ? Wf _]; subst.
    assert (Hcf : is_openT f = false) by (eapply closed_kids; [exact Hc | simpl; auto]).
    destruct (raw_field_facts f Wf Hcf Lf) as [Hrun Hcnt].
    split; [|split].
    + intros r a. rewrite yield_node by discriminate. simpl flat_map. rewrite app_nil_r.
      rewrite run_app, Hrun. reflexivity.
    + simpl. rewrite Hcnt. reflexivity.
    + simpl. lia.
  - apply map_lbl_3 in Halt as (f & s & rest & -> & Lf & Ls & Lrest).
    inversion Hall as [|? ? Wf Hall1]; subst. inversion Hall1 as [|? ? Ws Hall2]; subst.
    inversion Hall2 as [|? ? Wrest _]; subst.
    assert (Hcf : is_openT f = false) by (eapply closed_kids; [exact Hc | simpl; auto]).
    assert (Hcr : is_openT rest = false) by (eapply closed_kids; [exact Hc | simpl; auto]).
    destruct (raw_field_facts f Wf Hcf Lf) as [Hrun Hcnt].
    destruct (wf_terminal _ _ Ws) as [js Es]; [rewrite Ls; reflexivity|].
    rewrite Ls in Es. subst s.
    inversion IH as [|? ? _ IH1]; subst. inversion IH1 as [|? ? _ IH2]; subst.
    inversion IH2 as [|? ? IHrest _]; subst.
    destruct (IHrest Wrest Hcr Lrest) as (Hrr & Hcr' & Hlr).
    split; [|split].
    + intros r a. rewrite yield_node by discriminate.
      change (flat_map yield [f; Node [c_semi] js false []; rest])
        with (yield f ++ [c_semi] ++ yield rest ++ []).
      rewrite app_nil_r. rewrite <- !app_assoc. rewrite run_app, Hrun.
      rewrite run_app. change (run [c_semi] (Rd false ([] ++ fld f) r a))
        with (Rd false [] (r ++ [fld f]) a).
      rewrite Hrr. cbn [sl_fields map]. rewrite <- app_assoc. reflexivity.
    + cbn [sl_fields length]. rewrite <- Hcr'. simpl. rewrite Hcnt. lia.
    + simpl. lia.
Qed.

Definition rec_ok (r : tree) : Prop :=
  lbl r = L_record /\ count_lbl L_raw r = length (rec_fields r) /\ 1 <= length (rec_fields r).

Lemma record_facts t :
  wf_tree CSV t -> is_openT t = false -> lbl t = L_record ->
  (forall a, run (yield t) (Rd false [] [] a) = Rd false [] [] (a ++ [row_of t])) /\ rec_ok t.
Proof.
  intros Hwf Hc Hl. destruct t as [l i o ks]. simpl in Hl. subst l.
  pose proof (closed_not_open _ _ _ _ Hc) as Ho. subst o.
  destruct (wf_inv _ _ _ _ Hwf eq_refl) as [(Hne & Halt & Hall)|[Halt _]].
  2:{ rewrite alts_record in Halt. simpl in Halt. destruct Halt as [Halt|[]]; discriminate Halt. }
  rewrite alts_record in Halt. destruct Halt as [Halt|[]].
  apply map_lbl_2 in Halt as (sl & nl & -> & Lsl & Lnl).
  inversion Hall as [|? ? Wsl Hall1]; subst. inversion Hall1 as [|? ? Wnl _]; subst.
  assert (Hcs : is_openT sl = false) by (eapply closed_kids; [exact Hc | simpl; auto]).
  destruct (wf_terminal _ _ Wnl) as [jn En]; [rewrite Lnl; reflexivity|].
  rewrite Lnl in En. subst nl.
  destruct (slist_facts sl Wsl Hcs Lsl) as (Hrun & Hcnt & Hlen).
  split.
  - intro a. rewrite yield_node by discriminate.
    change (flat_map yield [sl; Node [c_nl] jn false []]) with (yield sl ++ [c_nl] ++ []).
    rewrite app_nil_r. rewrite Hrun. reflexivity.
  - unfold rec_ok. cbn [rec_fields lbl]. split; [reflexivity|]. split; [|assumption].
    simpl. rewrite Hcnt. lia.
Qed.

Lemma records_facts t :
  wf_tree CSV t -> is_openT t = false -> lbl t = L_records ->
  (forall a, run (yield t) (Rd false [] [] a) = Rd false [] [] (a ++ map row_of (recs_list t))) /\
  Forall (fun r => rec_ok r /\ desc t r) (recs_list t).
Proof.
  induction t as [l i o ks IH] using tree_ind'. intros Hwf Hc Hl. simpl in Hl. subst l.
  pose proof (closed_not_open _ _ _ _ Hc) as Ho. subst o.
  destruct (wf_inv _ _ _ _ Hwf eq_refl) as [(Hne & Halt & Hall)|[_ [->|[j ->]]]].
  - rewrite alts_records in Halt. destruct Halt as [Halt|[Halt|[]]].
    2:{ destruct ks; [contradiction | discriminate Halt]. }
    apply map_lbl_2 in Halt as (r & rest & -> & Lr & Lrest).
    inversion Hall as [|? ? Wr Hall1]; subst. inversion Hall1 as [|? ? Wrest _]; subst.
    assert (Hcr : is_openT r = false) by (eapply closed_kids; [exact Hc | simpl; auto]).
    assert (Hcrest : is_openT rest = false) by (eapply closed_kids; [exact Hc | simpl; auto]).
    inversion IH as [|? ? _ IH1]; subst. inversion IH1 as [|? ? IHrest _]; subst.
    destruct (IHrest Wrest Hcrest Lrest) as [Hrun Hall'].
    destruct (record_facts r Wr Hcr Lr) as [Hrun1 Hok].
    split.
    + intro a. rewrite yield_node by discriminate.
      change (flat_map yield [r; rest]) with (yield r ++ yield rest ++ []).
      rewrite app_nil_r, run_app, Hrun1, Hrun. cbn [recs_list map].
      rewrite <- app_assoc. reflexivity.
    + cbn [recs_list]. constructor.
      * split; [assumption|]. exists [0]. reflexivity.
      * eapply Forall_impl; [|exact Hall']. intros x [Hx [p Hp]]. split; [assumption|].
        exists (1 :: p). simpl. assumption.
  - split; [|constructor]. intro a. simpl. rewrite app_nil_r. reflexivity.
  - split; [|constructor]. intro a. simpl. rewrite app_nil_r. reflexivity.
Qed.

(* ========================================================================= *)
(* Main theorems                                                             *)
(* ========================================================================= *)

Theorem csv_rows_exact t :
  wf_tree CSV t -> is_openT t = false -> lbl t = L_start ->
  csv_rows (yield t) = map row_of (file_records t) /\
  file_records t <> [] /\
  Forall (fun r => rec_ok r /\ desc t r) (file_records t).
Proof.
  intros Hwf Hc Hl. destruct t as [l i o ks]. simpl in Hl. subst l.
  pose proof (closed_not_open _ _ _ _ Hc) as Ho. subst o.
  destruct (wf_inv _ _ _ _ Hwf eq_refl) as [(Hne & Halt & Hall)|[Halt _]].
  2:{ rewrite alts_start in Halt. simpl in Halt. destruct Halt as [Halt|[]]; discriminate Halt. }
  rewrite alts_start in Halt. destruct Halt as [Halt|[]].
  apply map_lbl_1 in Halt as (fl & -> & Lfl). inversion Hall as [|? ? Wfl _]; subst.
  assert (Hcfl : is_openT fl = false) by (eapply closed_kids; [exact Hc | simpl; auto]).
  (* <csv-file> *)
  destruct fl as [l2 i2 o2 ks2]. simpl in Lfl. subst l2.
  pose proof (closed_not_open _ _ _ _ Hcfl) as Ho2. subst o2.
  destruct (wf_inv _ _ _ _ Wfl eq_refl) as [(Hne2 & Halt2 & Hall2)|[Halt2 _]].
  2:{ rewrite alts_file in Halt2. simpl in Halt2. destruct Halt2 as [Halt2|[]]; discriminate Halt2. }
  rewrite alts_file in Halt2. destruct Halt2 as [Halt2|[]].
  apply map_lbl_2 in Halt2 as (hd & rs & -> & Lhd & Lrs).
  inversion Hall2 as [|? ? Whd Hall3]; subst. inversion Hall3 as [|? ? Wrs _]; subst.
  assert (Hchd : is_openT hd = false) by (eapply closed_kids; [exact Hcfl | simpl; auto]).
  assert (Hcrs : is_openT rs = false) by (eapply closed_kids; [exact Hcfl | simpl; auto]).
  (* <csv-header> *)
  destruct hd as [l3 i3 o3 ks3]. simpl in Lhd. subst l3.
  pose proof (closed_not_open _ _ _ _ Hchd) as Ho3. subst o3.
  destruct (wf_inv _ _ _ _ Whd eq_refl) as [(Hne3 & Halt3 & Hall4)|[Halt3 _]].
  2:{ rewrite alts_header in Halt3. simpl in Halt3. destruct Halt3 as [Halt3|[]]; discriminate Halt3. }
  rewrite alts_header in Halt3. destruct Halt3 as [Halt3|[]].
  apply map_lbl_1 in Halt3 as (r & -> & Lr). inversion Hall4 as [|? ? Wr _]; subst.
  assert (Hcr : is_openT r = false) by (eapply closed_kids; [exact Hchd | simpl; auto]).
  destruct (record_facts r Wr Hcr Lr) as [Hrun1 Hok].
  destruct (records_facts rs Wrs Hcrs Lrs) as [Hrun2 Hall'].
  cbn [file_records]. split; [|split; [discriminate|]].
  - unfold csv_rows, rd0.
    change (yield (Node L_start i false [Node L_file i2 false [Node L_header i3 false [r]; rs]]))
      with (((yield r ++ []) ++ yield rs ++ []) ++ []).
    rewrite !app_nil_r. rewrite run_app, Hrun1, Hrun2. reflexivity.
  - constructor.
    + split; [assumption|]. exists [0; 0; 0]. reflexivity.
    + eapply Forall_impl; [|exact Hall']. intros x [Hx [p Hp]]. split; [assumption|].
      exists (0 :: 1 :: p). simpl. assumption.
Qed.

Theorem csv_valid t :
  wf_tree CSV t -> is_openT t = false -> lbl t = L_start -> colno_sat t ->
  equal_columns (csv_rows (yield t)).
Proof.
  intros Hwf Hc Hl [n Hn].
  destruct (csv_rows_exact t Hwf Hc Hl) as (Hrows & Hne & Hall).
  assert (Hlen : Forall (fun r => colno_min <= n /\ length (row_of r) = n) (file_records t)).
  { eapply Forall_impl; [|exact Hall]. intros r [(Hl' & Hcnt & _) [p Hp]].
    destruct (Hn p r Hp Hl') as [Hlo Hcn]. split; [assumption|].
    unfold row_of. rewrite map_length, <- Hcnt, count_lbl_nodes. exact Hcn. }
  exists n. split.
  - destruct (file_records t) as [|r rs]; [contradiction|].
    inversion Hlen as [|? ? [Hlo _] _]; subst. exact Hlo.
  - rewrite Hrows. apply Forall_map. eapply Forall_impl; [|exact Hlen]. intros r [_ H]. exact H.
Qed.

Theorem csv_validb_spec s : csv_validb s = true <-> exists n, Forall (fun r => length r = n) (csv_rows s).
Proof. unfold csv_validb. apply same_lengthb_spec. Qed.

(* executable form of the main theorem, as used by the correspondence check *)
Corollary csv_valid_bool t :
  wf_treeb CSV t = true -> closedb t = true -> lbl t = L_start -> colno_satb t = true ->
  csv_validb (yield t) = true.
Proof.
  intros Hwf Hc Hl Hs. apply wf_treeb_spec in Hwf. unfold closedb in Hc. apply negb_true_iff in Hc.
  apply colno_satb_spec in Hs. destruct (csv_valid t Hwf Hc Hl Hs) as (n & _ & Hn).
  apply csv_validb_spec. eauto.
Qed.

(* ========================================================================= *)
(* Converse: the <csv-record> nodes of a file are exactly its records         *)
(* ========================================================================= *)

Lemma length_flat_map {A B} (f : A -> list B) (l : list A) :
  length (flat_map f l) = list_sum (map (fun x => length (f x)) l).
Proof. induction l as [|x l IH]; simpl; [reflexivity|]. rewrite app_length, IH. reflexivity. Qed.

Lemma length_nodes_lbl l t : length (nodes_lbl l t) = count_lbl l t.
Proof.
  induction t as [l' i o ks IH] using tree_ind'. cbn [nodes_lbl count_lbl].
  rewrite app_length, length_flat_map. f_equal.
  - destruct (str_eqb l' l); reflexivity.
  - f_equal. apply map_ext_in. intros k Hk. rewrite Forall_forall in IH. apply IH. assumption.
Qed.

Lemma count_zero_nodes_lbl l t : count_lbl l t = 0 -> nodes_lbl l t = [].
Proof. intro H. apply length_zero_iff_nil. rewrite length_nodes_lbl. assumption. Qed.

Definition S_below : list str :=
  [L_slist; L_raw; L_simple; L_schars; L_schar; L_quoted; L_efield; L_echars; L_echar; L_spaces].

Lemma below_closed : sub_closedb CSV S_below (fun _ => true) = true.
Proof. vm_compute. reflexivity. Qed.

Lemma record_nodes t :
  wf_tree CSV t -> is_openT t = false -> lbl t = L_record -> nodes_lbl L_record t = [t].
Proof.
  intros Hwf Hc Hl. destruct t as [l i o ks]. simpl in Hl. subst l.
  pose proof (closed_not_open _ _ _ _ Hc) as Ho. subst o.
  destruct (wf_inv _ _ _ _ Hwf eq_refl) as [(Hne & Halt & Hall)|[Halt _]].
  2:{ rewrite alts_record in Halt. simpl in Halt. destruct Halt as [Halt|[]]; discriminate Halt. }
  rewrite alts_record in Halt. destruct Halt as [Halt|[]].
  apply map_lbl_2 in Halt as (sl & nl & -> & Lsl & Lnl).
  inversion Hall as [|? ? Wsl Hall1]; subst. inversion Hall1 as [|? ? Wnl _]; subst.
  assert (Hcs : is_openT sl = false) by (eapply closed_kids; [exact Hc | simpl; auto]).
  destruct (wf_terminal _ _ Wnl) as [jn En]; [rewrite Lnl; reflexivity|].
  rewrite Lnl in En. subst nl.
  assert (Hz : nodes_lbl L_record sl = []).
  { apply count_zero_nodes_lbl.
    destruct (sub_closed_sound CSV S_below (fun _ => true) below_closed sl Wsl Hcs) as [_ H2].
    - left. rewrite Lsl. split; [reflexivity | left; reflexivity].
    - apply H2; [reflexivity|]. intro Hin. apply mem_str_spec in Hin. discriminate Hin. }
  cbn [nodes_lbl flat_map]. rewrite Hz. reflexivity.
Qed.

Lemma records_nodes t :
  wf_tree CSV t -> is_openT t = false -> lbl t = L_records -> nodes_lbl L_record t = recs_list t.
Proof.
  induction t as [l i o ks IH] using tree_ind'. intros Hwf Hc Hl. simpl in Hl. subst l.
  pose proof (closed_not_open _ _ _ _ Hc) as Ho. subst o.
  destruct (wf_inv _ _ _ _ Hwf eq_refl) as [(Hne & Halt & Hall)|[_ [->|[j ->]]]].
  - rewrite alts_records in Halt. destruct Halt as [Halt|[Halt|[]]].
    2:{ destruct ks; [contradiction | discriminate Halt]. }
    apply map_lbl_2 in Halt as (r & rest & -> & Lr & Lrest).
    inversion Hall as [|? ? Wr Hall1]; subst. inversion Hall1 as [|? ? Wrest _]; subst.
    assert (Hcr : is_openT r = false) by (eapply closed_kids; [exact Hc | simpl; auto]).
    assert (Hcrest : is_openT rest = false) by (eapply closed_kids; [exact Hc | simpl; auto]).
    inversion IH as [|? ? _ IH1]; subst. inversion IH1 as [|? ? IHrest _]; subst.
    cbn [nodes_lbl flat_map recs_list].
    rewrite (record_nodes r Wr Hcr Lr), (IHrest Wrest Hcrest Lrest), app_nil_r. reflexivity.
  - reflexivity.
  - reflexivity.
Qed.

Lemma file_nodes t :
  wf_tree CSV t -> is_openT t = false -> lbl t = L_start -> nodes_lbl L_record t = file_records t.
Proof.
  intros Hwf Hc Hl. destruct t as [l i o ks]. simpl in Hl. subst l.
  pose proof (closed_not_open _ _ _ _ Hc) as Ho. subst o.
  destruct (wf_inv _ _ _ _ Hwf eq_refl) as [(Hne & Halt & Hall)|[Halt _]].
  2:{ rewrite alts_start in Halt. simpl in Halt. destruct Halt as [Halt|[]]; discriminate Halt. }
  rewrite alts_start in Halt. destruct Halt as [Halt|[]].
  apply map_lbl_1 in Halt as (fl & -> & Lfl). inversion Hall as [|? ? Wfl _]; subst.
  assert (Hcfl : is_openT fl = false) by (eapply closed_kids; [exact Hc | simpl; auto]).
  destruct fl as [l2 i2 o2 ks2]. simpl in Lfl. subst l2.
  pose proof (closed_not_open _ _ _ _ Hcfl) as Ho2. subst o2.
  destruct (wf_inv _ _ _ _ Wfl eq_refl) as [(Hne2 & Halt2 & Hall2)|[Halt2 _]].
  2:{ rewrite alts_file in Halt2. simpl in Halt2. destruct Halt2 as [Halt2|[]]; discriminate Halt2. }
  rewrite alts_file in Halt2. destruct Halt2 as [Halt2|[]].
  apply map_lbl_2 in Halt2 as (hd & rs & -> & Lhd & Lrs).
  inversion Hall2 as [|? ? Whd Hall3]; subst. inversion Hall3 as [|? ? Wrs _]; subst.
  assert (Hchd : is_openT hd = false) by (eapply closed_kids; [exact Hcfl | simpl; auto]).
  assert (Hcrs : is_openT rs = false) by (eapply closed_kids; [exact Hcfl | simpl; auto]).
  destruct hd as [l3 i3 o3 ks3]. simpl in Lhd. subst l3.
  pose proof (closed_not_open _ _ _ _ Hchd) as Ho3. subst o3.
  destruct (wf_inv _ _ _ _ Whd eq_refl) as [(Hne3 & Halt3 & Hall4)|[Halt3 _]].
  2:{ rewrite alts_header in Halt3. simpl in Halt3. destruct Halt3 as [Halt3|[]]; discriminate Halt3. }
  rewrite alts_header in Halt3. destruct Halt3 as [Halt3|[]].
  apply map_lbl_1 in Halt3 as (r & -> & Lr). inversion Hall4 as [|? ? Wr _]; subst.
  assert (Hcr : is_openT r = false) by (eapply closed_kids; [exact Hchd | simpl; auto]).
  cbn [nodes_lbl flat_map file_records].
  rewrite (record_nodes r Wr Hcr Lr), (records_nodes rs Wrs Hcrs Lrs).
  change (str_eqb L_start L_record) with false. change (str_eqb L_file L_record) with false.
  change (str_eqb L_header L_record) with false. cbn [app]. rewrite !app_nil_r. reflexivity.
Qed.

(* the shipped constraint is neither weaker nor stronger than the independent check *)
Theorem csv_valid_iff t :
  wf_tree CSV t -> is_openT t = false -> lbl t = L_start ->
  (colno_sat t <-> equal_columns (csv_rows (yield t))).
Proof.
  intros Hwf Hc Hl. split; [apply csv_valid; assumption|].
  intros (n & Hn1 & Hn).
  destruct (csv_rows_exact t Hwf Hc Hl) as (Hrows & _ & Hall).
  rewrite Hrows in Hn. exists n. intros p r Hp Hlr.
  assert (Hin : In r (file_records t)).
  { rewrite <- (file_nodes t Hwf Hc Hl). apply nodes_lbl_spec. eauto. }
  rewrite Forall_forall in Hall, Hn. destruct (Hall r Hin) as [(_ & Hcnt & _) _].
  split; [exact Hn1|].
  rewrite <- count_lbl_nodes. change colno_needle with L_raw. rewrite Hcnt.
  rewrite <- (Hn (row_of r)); [unfold row_of; rewrite map_length; reflexivity|].
  apply in_map. assumption.
Qed.

(* ========================================================================= *)
(* Non-vacuity: concrete trees                                               *)
(* ========================================================================= *)

(* derivation tree (EarleyParser) of the text  a;"x;y"<LF>c; d<LF>  *)
Definition ex_tree : tree :=
  (Node [60;115;116;97;114;116;62]%N 0%N false [(Node [60;99;115;118;45;102;105;108;101;62]%N 0%N false [(Node [60;99;115;118;45;104;101;97;100;101;114;62]%N 0%N false [(Node [60;99;115;118;45;114;101;99;111;114;100;62]%N 0%N false [(Node [60;99;115;118;45;115;116;114;105;110;103;45;108;105;115;116;62]%N 0%N false [(Node [60;114;97;119;45;102;105;101;108;100;62]%N 0%N false [(Node [60;115;105;109;112;108;101;45;102;105;101;108;100;62]%N 0%N false [(Node [60;115;112;97;99;101;115;62]%N 0%N false []); (Node [60;115;105;109;112;108;101;45;99;104;97;114;97;99;116;101;114;115;62]%N 0%N false [(Node [60;115;105;109;112;108;101;45;99;104;97;114;97;99;116;101;114;62]%N 0%N false [(Node [97]%N 0%N false [])])]); (Node [60;115;112;97;99;101;115;62]%N 0%N false [])])]); (Node [59]%N 0%N false []); (Node [60;99;115;118;45;115;116;114;105;110;103;45;108;105;115;116;62]%N 0%N false [(Node [60;114;97;119;45;102;105;101;108;100;62]%N 0%N false [(Node [60;113;117;111;116;101;100;45;102;105;101;108;100;62]%N 0%N false [(Node [34]%N 0%N false []); (Node [60;101;115;99;97;112;101;100;45;102;105;101;108;100;62]%N 0%N false [(Node [60;101;115;99;97;112;101;100;45;99;104;97;114;97;99;116;101;114;115;62]%N 0%N false [(Node [60;101;115;99;97;112;101;100;45;99;104;97;114;97;99;116;101;114;62]%N 0%N false [(Node [120]%N 0%N false [])]); (Node [60;101;115;99;97;112;101;100;45;99;104;97;114;97;99;116;101;114;115;62]%N 0%N false [(Node [60;101;115;99;97;112;101;100;45;99;104;97;114;97;99;116;101;114;62]%N 0%N false [(Node [59]%N 0%N false [])]); (Node [60;101;115;99;97;112;101;100;45;99;104;97;114;97;99;116;101;114;115;62]%N 0%N false [(Node [60;101;115;99;97;112;101;100;45;99;104;97;114;97;99;116;101;114;62]%N 0%N false [(Node [121]%N 0%N false [])]); (Node [60;101;115;99;97;112;101;100;45;99;104;97;114;97;99;116;101;114;115;62]%N 0%N false [])])])])]); (Node [34]%N 0%N false [])])])])]); (Node [10]%N 0%N false [])])]); (Node [60;99;115;118;45;114;101;99;111;114;100;115;62]%N 0%N false [(Node [60;99;115;118;45;114;101;99;111;114;100;62]%N 0%N false [(Node [60;99;115;118;45;115;116;114;105;110;103;45;108;105;115;116;62]%N 0%N false [(Node [60;114;97;119;45;102;105;101;108;100;62]%N 0%N false [(Node [60;115;105;109;112;108;101;45;102;105;101;108;100;62]%N 0%N false [(Node [60;115;112;97;99;101;115;62]%N 0%N false []); (Node [60;115;105;109;112;108;101;45;99;104;97;114;97;99;116;101;114;115;62]%N 0%N false [(Node [60;115;105;109;112;108;101;45;99;104;97;114;97;99;116;101;114;62]%N 0%N false [(Node [99]%N 0%N false [])])]); (Node [60;115;112;97;99;101;115;62]%N 0%N false [])])]); (Node [59]%N 0%N false []); (Node [60;99;115;118;45;115;116;114;105;110;103;45;108;105;115;116;62]%N 0%N false [(Node [60;114;97;119;45;102;105;101;108;100;62]%N 0%N false [(Node [60;115;105;109;112;108;101;45;102;105;101;108;100;62]%N 0%N false [(Node [60;115;112;97;99;101;115;62]%N 0%N false [(Node [32]%N 0%N false []); (Node [60;115;112;97;99;101;115;62]%N 0%N false [])]); (Node [60;115;105;109;112;108;101;45;99;104;97;114;97;99;116;101;114;115;62]%N 0%N false [(Node [60;115;105;109;112;108;101;45;99;104;97;114;97;99;116;101;114;62]%N 0%N false [(Node [100]%N 0%N false [])])]); (Node [60;115;112;97;99;101;115;62]%N 0%N false [])])])])]); (Node [10]%N 0%N false [])]); (Node [60;99;115;118;45;114;101;99;111;114;100;115;62]%N 0%N false [])])])]).

(* derivation tree of  a;b<LF>c<LF>  (two columns, then one) *)
Definition ex_bad : tree :=
  (Node [60;115;116;97;114;116;62]%N 0%N false [(Node [60;99;115;118;45;102;105;108;101;62]%N 0%N false [(Node [60;99;115;118;45;104;101;97;100;101;114;62]%N 0%N false [(Node [60;99;115;118;45;114;101;99;111;114;100;62]%N 0%N false [(Node [60;99;115;118;45;115;116;114;105;110;103;45;108;105;115;116;62]%N 0%N false [(Node [60;114;97;119;45;102;105;101;108;100;62]%N 0%N false [(Node [60;115;105;109;112;108;101;45;102;105;101;108;100;62]%N 0%N false [(Node [60;115;112;97;99;101;115;62]%N 0%N false []); (Node [60;115;105;109;112;108;101;45;99;104;97;114;97;99;116;101;114;115;62]%N 0%N false [(Node [60;115;105;109;112;108;101;45;99;104;97;114;97;99;116;101;114;62]%N 0%N false [(Node [97]%N 0%N false [])])]); (Node [60;115;112;97;99;101;115;62]%N 0%N false [])])]); (Node [59]%N 0%N false []); (Node [60;99;115;118;45;115;116;114;105;110;103;45;108;105;115;116;62]%N 0%N false [(Node [60;114;97;119;45;102;105;101;108;100;62]%N 0%N false [(Node [60;115;105;109;112;108;101;45;102;105;101;108;100;62]%N 0%N false [(Node [60;115;112;97;99;101;115;62]%N 0%N false []); (Node [60;115;105;109;112;108;101;45;99;104;97;114;97;99;116;101;114;115;62]%N 0%N false [(Node [60;115;105;109;112;108;101;45;99;104;97;114;97;99;116;101;114;62]%N 0%N false [(Node [98]%N 0%N false [])])]); (Node [60;115;112;97;99;101;115;62]%N 0%N false [])])])])]); (Node [10]%N 0%N false [])])]); (Node [60;99;115;118;45;114;101;99;111;114;100;115;62]%N 0%N false [(Node [60;99;115;118;45;114;101;99;111;114;100;62]%N 0%N false [(Node [60;99;115;118;45;115;116;114;105;110;103;45;108;105;115;116;62]%N 0%N false [(Node [60;114;97;119;45;102;105;101;108;100;62]%N 0%N false [(Node [60;115;105;109;112;108;101;45;102;105;101;108;100;62]%N 0%N false [(Node [60;115;112;97;99;101;115;62]%N 0%N false []); (Node [60;115;105;109;112;108;101;45;99;104;97;114;97;99;116;101;114;115;62]%N 0%N false [(Node [60;115;105;109;112;108;101;45;99;104;97;114;97;99;116;101;114;62]%N 0%N false [(Node [99]%N 0%N false [])])]); (Node [60;115;112;97;99;101;115;62]%N 0%N false [])])])]); (Node [10]%N 0%N false [])]); (Node [60;99;115;118;45;114;101;99;111;114;100;115;62]%N 0%N false [])])])]).

Example ex_tree_premises :
  wf_tree CSV ex_tree /\ is_openT ex_tree = false /\ lbl ex_tree = L_start /\ colno_sat ex_tree.
Proof.
  split; [apply wf_treeb_spec; vm_compute; reflexivity|].
  split; [vm_compute; reflexivity|]. split; [reflexivity|].
  apply colno_satb_spec. vm_compute. reflexivity.
Qed.

(* a quoted field containing the separator stays one column; the blank before d is data *)
Example ex_tree_rows :
  csv_rows (yield ex_tree) = [[[97]; [120; 59; 121]]; [[99]; [32; 100]]]%N.
Proof. vm_compute. reflexivity. Qed.

(* the hypothesis colno_sat is not redundant: a valid derivation tree of the grammar alone
   can have records of different widths, and then both sides of csv_valid_iff are false *)
Example ex_bad_invalid :
  wf_treeb CSV ex_bad = true /\ closedb ex_bad = true /\ colno_satb ex_bad = false /\
  csv_validb (yield ex_bad) = false.
Proof. vm_compute. repeat split; reflexivity. Qed.
