(* C21 (XML namespace / attribute rules) -- SPECIFICATION: the documented meaning of the three
   shipped constraints, written with quantifiers over positions, a declarative tree-prefix relation
   and path prefix for inside -- independently of the model functions of XmlNs.v -- and the proofs
   that the model functions (how evaluate decides the constraints) decide exactly that meaning.

     mprefix m t        t has the tree prefix m (ISLa language specification, match expressions)
     binds me t vs      some alternative of the match expression me is a prefix of t and vs are the
                        subtrees at the paths of its bound variables
     xml_ns_sat t       tag constraint and attribute constraint (XML_NAMESPACE_CONSTRAINT)
     xml_noredef_sat t  xml_no_attr_redef_constraint *)
From Coq Require Import Lia Bool.
From ISLA Require Import Grammar GrammarFacts PathFacts TreeFacts Csv CsvFacts Xml XmlFacts XmlValid XmlNs XmlNsFacts
  XmlNsReader XmlNsValid XmlAttrValid XmlNsExamples.

Inductive mprefix : mtree -> tree -> Prop :=
| MP_open l t : lbl t = l -> mprefix (MO l) t
| MP_node l ms t : lbl t = l -> opn t = false -> Forall2 mprefix ms (kids t) -> mprefix (MN l ms) t.

Definition binds (me : mexpr) (t : tree) (vs : list tree) : Prop :=
  exists m ps, In (m, ps) me /\ mprefix m t /\ Forall2 (fun p v => subtree t p = Some v) ps vs.

(* exists <xml-attribute> d=xmlns:{prefix_def}=... in cont: P prefix_def *)
Definition declares (cont : tree) (P : tree -> Prop) : Prop :=
  exists q d pd, subtree cont q = Some d /\ lbl d = X_attr /\ binds ME_def d [pd] /\ P pd.

(* exists <xml-tree> outer_tag=<<id> {cont_attribute}>...</<id>>: inside(x, outer_tag) and ... *)
Definition has_outer (T : tree) (px : path) (P : tree -> Prop) : Prop :=
  exists po o cont, subtree T po = Some o /\ lbl o = X_tree /\ binds ME_outer o [cont] /\
    prefix po px /\ declares cont P.

Definition tag_ns_sat (T : tree) : Prop :=
  forall px x pu, subtree T px = Some x -> lbl x = X_tree -> binds ME_tag x [pu] ->
    has_outer T px (fun pd => yield pu = yield pd).

Definition attr_ns_sat (T : tree) : Prop :=
  forall pa a pu md, subtree T pa = Some a -> lbl a = X_attr -> binds ME_attr a [pu; md] ->
    (yield pu = s_xmlns /\ yield md <> s_xmlns) \/
    has_outer T pa (fun pd => yield pd <> s_xmlns /\ yield pu = yield pd).

Definition xml_ns_sat (T : tree) : Prop := tag_ns_sat T /\ attr_ns_sat T.

Definition leaf_at (A : tree) (p : path) (i : tree) : Prop :=
  exists d, subtree A p = Some d /\ lbl d = X_attr /\ binds ME_leaf d [i].

(* same_position(a1, a2) xor not id_1 = id_2 : the positions are equal exactly if the names are *)
Definition xml_noredef_sat (T : tree) : Prop :=
  forall pA A, subtree T pA = Some A -> lbl A = X_attr ->
  forall p1 i1 p2 i2, leaf_at A p1 i1 -> leaf_at A p2 i2 -> (p1 = p2 <-> yield i1 = yield i2).

(* ========================================================================= *)
(* the model decides the specification                                       *)
(* ========================================================================= *)

Lemma F2_pm ms : Forall (fun m => forall t, pmatch m t = true <-> mprefix m t) ms ->
  forall ks, Forall2 (fun m k => pmatch m k = true) ms ks <-> Forall2 mprefix ms ks.
Proof.
  induction 1 as [|m ms Hm Hms IH]; intro ks; split; intro H; inversion H; subst; constructor;
    try (apply Hm; assumption); try (apply IH; assumption).
Qed.

Lemma pmatch_spec m : forall t, pmatch m t = true <-> mprefix m t.
Proof.
  induction m as [l|l ms IH] using mtree_ind'; intro t.
  - rewrite pmatch_MO. split; intro H; [constructor; assumption | inversion H; assumption].
  - rewrite pmatch_MN. split.
    + intros (Hl & Ho & Hf). constructor; auto. apply (F2_pm ms IH). assumption.
    + intro H. inversion H as [|l' ms' t' Hl Ho Hf]; subst. repeat split; auto. apply (F2_pm ms IH). assumption.
Qed.

Lemma all_some_spec t ps vs :
  all_some (map (subtree t) ps) = Some vs <-> Forall2 (fun p v => subtree t p = Some v) ps vs.
Proof.
  revert vs. induction ps as [|p ps IH]; intro vs; cbn [map all_some].
  - split; intro H; [inversion H; constructor | inversion H; reflexivity].
  - destruct (subtree t p) as [v|] eqn:E.
    + destruct (all_some (map (subtree t) ps)) as [r|] eqn:Er.
      * split; intro H.
        -- inversion H; subst. constructor; [assumption | apply IH; reflexivity].
        -- inversion H as [|p' v' ps' vs' Hv Hf]; subst. apply IH in Hf. rewrite E in Hv. congruence.
      * split; intro H; [discriminate|]. inversion H as [|p' v' ps' vs' Hv Hf]; subst. apply IH in Hf. discriminate.
    + split; intro H; [discriminate|]. inversion H as [|p' v' ps' vs' Hv Hf]; subst. congruence.
Qed.

(* first matching alternative = some matching alternative, when all alternatives bind the same paths *)
Lemma mmatch_binds me ps0 t vs : (forall m ps, In (m, ps) me -> ps = ps0) ->
  (mmatch me t = Some vs <-> binds me t vs).
Proof.
  induction me as [|[m ps] me IH]; intro Hu.
  - cbn. split; [discriminate | intros (m & ps & [] & _)].
  - cbn [mmatch]. assert (E0 : ps = ps0) by (apply (Hu m); left; reflexivity). subst ps.
    destruct (pmatch m t) eqn:E.
    + rewrite all_some_spec. split.
      * intro H. exists m, ps0. split; [left; reflexivity|]. split; [apply pmatch_spec; assumption | assumption].
      * intros (m' & ps' & Hin & _ & Hf). assert (E1 : ps' = ps0) by (eapply Hu; eauto). subst. assumption.
    + rewrite IH by (intros m' ps' Hin; eapply Hu; right; eauto). split.
      * intros (m' & ps' & Hin & R). exists m', ps'. split; [right; assumption | assumption].
      * intros (m' & ps' & [Hin|Hin] & Hp & Hf).
        -- inversion Hin; subst. apply pmatch_spec in Hp. congruence.
        -- exists m', ps'. auto.
Qed.

Lemma u_tag : forall m ps, In (m, ps) ME_tag -> ps = [[0; 1; 0; 0]].
Proof. intros m ps [H|[H|[H|[H|[]]]]]; inversion H; reflexivity. Qed.
Lemma u_outer : forall m ps, In (m, ps) ME_outer -> ps = [[0; 3]].
Proof. intros m ps [H|[]]; inversion H; reflexivity. Qed.
Lemma u_def : forall m ps, In (m, ps) ME_def -> ps = [[0; 0; 2]].
Proof. intros m ps [H|[]]; inversion H; reflexivity. Qed.
Lemma u_attr : forall m ps, In (m, ps) ME_attr -> ps = [[0; 0; 0]; [0; 0; 2]].
Proof. intros m ps [H|[]]; inversion H; reflexivity. Qed.
Lemma u_leaf : forall m ps, In (m, ps) ME_leaf -> ps = [[0]].
Proof. intros m ps [H|[]]; inversion H; reflexivity. Qed.

Lemma decl_in_spec cont ok (P : tree -> Prop) : (forall pd, ok pd = true <-> P pd) ->
  (decl_in cont ok = true <-> declares cont P).
Proof.
  intro Hok. unfold decl_in, declares. rewrite existsb_exists. split.
  - intros (d & Hd & H). destruct (mmatch ME_def d) as [[|pd [|x xs]]|] eqn:E; try discriminate.
    apply nodes_lbl_spec in Hd as (q & Hs & Hl). exists q, d, pd. repeat split; auto.
    + apply (mmatch_binds ME_def _ d [pd] u_def). assumption.
    + apply Hok. assumption.
  - intros (q & d & pd & Hs & Hl & Hb & HP). exists d. split; [apply nodes_lbl_spec; eauto|].
    apply (mmatch_binds ME_def _ d [pd] u_def) in Hb. rewrite Hb. apply Hok. assumption.
Qed.

Lemma nodes_at_spec l T p x : In (p, x) (nodes_at l T) <-> subtree T p = Some x /\ lbl x = l.
Proof.
  unfold nodes_at. rewrite filter_In, nodes_spec. cbn [snd]. rewrite str_eqb_eq. tauto.
Qed.

Lemma outer_ok_spec T px ok (P : tree -> Prop) : (forall pd, ok pd = true <-> P pd) ->
  (outer_ok T px ok = true <-> has_outer T px P).
Proof.
  intro Hok. unfold outer_ok, has_outer. rewrite existsb_exists. split.
  - intros ([po o] & Hin & H). cbn [fst snd] in H. apply nodes_at_spec in Hin as [Hs Hl].
    destruct (mmatch ME_outer o) as [[|cont [|x xs]]|] eqn:E; try discriminate.
    apply andb_true_iff in H as [Hp Hd]. apply prefixb_spec in Hp. apply (decl_in_spec cont ok P Hok) in Hd.
    exists po, o, cont. repeat split; auto. apply (mmatch_binds ME_outer _ o [cont] u_outer). assumption.
  - intros (po & o & cont & Hs & Hl & Hb & Hp & Hd). exists (po, o). split; [apply nodes_at_spec; auto|].
    cbn [fst snd]. apply (mmatch_binds ME_outer _ o [cont] u_outer) in Hb. rewrite Hb.
    apply andb_true_iff. split; [apply prefixb_spec; assumption | apply (decl_in_spec cont ok P Hok); assumption].
Qed.

Theorem tag_ns_satb_spec T : tag_ns_satb T = true <-> tag_ns_sat T.
Proof.
  unfold tag_ns_satb, tag_ns_sat. rewrite forallb_forall. split.
  - intros H px x pu Hs Hl Hb. specialize (H (px, x) (proj2 (nodes_at_spec _ _ _ _) (conj Hs Hl))).
    cbn [fst snd] in H. apply (mmatch_binds ME_tag _ x [pu] u_tag) in Hb. rewrite Hb in H.
    apply (outer_ok_spec T px _ _ (fun pd => str_eqb_eq (yield pu) (yield pd))). assumption.
  - intros H [px x] Hin. apply nodes_at_spec in Hin as [Hs Hl]. cbn [fst snd].
    destruct (mmatch ME_tag x) as [[|pu [|y ys]]|] eqn:E; try reflexivity.
    apply (outer_ok_spec T px _ _ (fun pd => str_eqb_eq (yield pu) (yield pd))).
    apply (H px x pu Hs Hl). apply (mmatch_binds ME_tag _ x [pu] u_tag). assumption.
Qed.

Lemma ok_attr_iff pu pd :
  negb (str_eqb (yield pd) s_xmlns) && str_eqb (yield pu) (yield pd) = true <->
  yield pd <> s_xmlns /\ yield pu = yield pd.
Proof. rewrite andb_true_iff, negb_true_iff, str_eqb_neq, str_eqb_eq. tauto. Qed.

Theorem attr_ns_satb_spec T : attr_ns_satb T = true <-> attr_ns_sat T.
Proof.
  unfold attr_ns_satb, attr_ns_sat. rewrite forallb_forall. split.
  - intros H pa a pu md Hs Hl Hb. specialize (H (pa, a) (proj2 (nodes_at_spec _ _ _ _) (conj Hs Hl))).
    cbn [fst snd] in H. apply (mmatch_binds ME_attr _ a [pu; md] u_attr) in Hb. rewrite Hb in H.
    apply orb_true_iff in H as [H|H].
    + left. apply andb_true_iff in H as [H1 H2]. apply str_eqb_eq in H1. apply negb_true_iff, str_eqb_neq in H2. auto.
    + right. apply (outer_ok_spec T pa _ _ (ok_attr_iff pu)). assumption.
  - intros H [pa a] Hin. apply nodes_at_spec in Hin as [Hs Hl]. cbn [fst snd].
    destruct (mmatch ME_attr a) as [[|pu [|md [|y ys]]]|] eqn:E; try reflexivity.
    apply orb_true_iff.
    destruct (H pa a pu md Hs Hl) as [[H1 H2]|H1].
    + apply (mmatch_binds ME_attr _ a [pu; md] u_attr). assumption.
    + left. apply andb_true_iff. split; [apply str_eqb_eq; assumption | apply negb_true_iff, str_eqb_neq; assumption].
    + right. apply (outer_ok_spec T pa _ _ (ok_attr_iff pu)). assumption.
Qed.

Theorem xml_ns_satb_spec T : xml_ns_satb T = true <-> xml_ns_sat T.
Proof.
  unfold xml_ns_satb, xml_ns_sat. rewrite andb_true_iff, tag_ns_satb_spec, attr_ns_satb_spec. tauto.
Qed.

Lemma leaf_attrs_spec A p i : In (p, i) (leaf_attrs A) <-> leaf_at A p i.
Proof.
  rewrite leaf_attrs_in. unfold leaf_at. split; intros (d & Hs & Hl & Hm); exists d; repeat split; auto;
    apply (mmatch_binds ME_leaf _ d [i] u_leaf); assumption.
Qed.

Lemma xor_iff p1 p2 (y1 y2 : str) :
  xorb (path_eqb p1 p2) (negb (str_eqb y1 y2)) = true <-> (p1 = p2 <-> y1 = y2).
Proof.
  destruct (path_eqb p1 p2) eqn:Ep; destruct (str_eqb y1 y2) eqn:Ey; cbn [xorb negb].
  - apply path_eqb_eq in Ep. apply str_eqb_eq in Ey. tauto.
  - apply path_eqb_eq in Ep. apply str_eqb_neq in Ey. split; [discriminate|]. intro H. exfalso. tauto.
  - apply path_eqb_neq in Ep. apply str_eqb_eq in Ey. split; [discriminate|]. intro H. exfalso. tauto.
  - apply path_eqb_neq in Ep. apply str_eqb_neq in Ey. tauto.
Qed.

Theorem xml_noredef_satb_spec T : xml_noredef_satb T = true <-> xml_noredef_sat T.
Proof.
  unfold xml_noredef_satb, xml_noredef_sat. rewrite forallb_forall. split.
  - intros H pA A Hs Hl p1 i1 p2 i2 H1 H2.
    specialize (H A (proj2 (nodes_lbl_spec _ _ _) (ex_intro _ pA (conj Hs Hl)))).
    rewrite forallb_forall in H. specialize (H (p1, i1) (proj2 (leaf_attrs_spec _ _ _) H1)).
    rewrite forallb_forall in H. specialize (H (p2, i2) (proj2 (leaf_attrs_spec _ _ _) H2)).
    cbn [fst snd] in H. apply xor_iff. assumption.
  - intros H A HA. apply nodes_lbl_spec in HA as (pA & Hs & Hl).
    apply forallb_forall. intros [p1 i1] H1. apply forallb_forall. intros [p2 i2] H2. cbn [fst snd].
    apply xor_iff. apply (H pA A Hs Hl); apply leaf_attrs_spec; assumption.
Qed.

(* ========================================================================= *)
(* the theorems on the documented meaning                                    *)
(* ========================================================================= *)

Theorem xml_ns_valid t : wfx t -> closedT t -> lbl t = X_start ->
  xml_ns_sat t -> xml_ns_bound (yield t) = true.
Proof. intros Hwf Hcl Hl Hsat. apply xml_ns_valid_b; auto. apply xml_ns_satb_spec. assumption. Qed.

Theorem xml_attrs_valid t : wfx t -> closedT t -> lbl t = X_start ->
  xml_noredef_sat t -> xml_attrs_unique (yield t) = true.
Proof. intros Hwf Hcl Hl Hsat. apply xml_attrs_valid_b; auto. apply xml_noredef_satb_spec. assumption. Qed.

(* boolean instances evaluated by the correspondence check on every generated tree *)
Theorem xml_ns_valid_bool t : wf_treeb XMLNS t = true -> closedb t = true -> lbl t = X_start ->
  xml_ns_satb t = true -> xml_ns_bound (yield t) = true.
Proof.
  intros Hwf Hcl Hl. apply xml_ns_valid_b; [apply wf_treeb_spec; assumption | | assumption].
  unfold closedb in Hcl. apply negb_true_iff in Hcl. assumption.
Qed.

Theorem xml_attrs_valid_bool t : wf_treeb XMLNS t = true -> closedb t = true -> lbl t = X_start ->
  xml_noredef_satb t = true -> xml_attrs_unique (yield t) = true.
Proof.
  intros Hwf Hcl Hl. apply xml_attrs_valid_b; [apply wf_treeb_spec; assumption | | assumption].
  unfold closedb in Hcl. apply negb_true_iff in Hcl. assumption.
Qed.

(* ========================================================================= *)
(* non-vacuity and the limits of the shipped constraints                     *)
(* ========================================================================= *)

Lemma closedb_closed t : closedb t = true -> is_openT t = false.
Proof. unfold closedb. intro H. apply negb_true_iff in H. assumption. Qed.

Example ex_ns_good_sat :
  wf_tree XMLNS ex_ns_good /\ is_openT ex_ns_good = false /\ lbl ex_ns_good = X_start /\
  xml_ns_sat ex_ns_good /\ xml_noredef_sat ex_ns_good.
Proof.
  destruct ex_ns_good_premises as (H1 & H2 & H3 & H4 & H5 & _).
  split; [apply wf_treeb_spec; assumption|]. split; [apply closedb_closed; assumption|].
  split; [assumption|]. split; [apply xml_ns_satb_spec | apply xml_noredef_satb_spec]; assumption.
Qed.

(* the converse of xml_ns_valid is FALSE: the shipped constraint is strictly stronger than prefix
   binding (witness: <p:a xmlns:p=QuQ/> -- the declaration on a self-closing element) *)
Theorem xml_ns_converse_refuted :
  exists t, wf_tree XMLNS t /\ is_openT t = false /\ lbl t = X_start /\
  xml_ns_bound (yield t) = true /\ ~ xml_ns_sat t.
Proof.
  exists ex_ns_selfclosing. destruct ex_ns_selfclosing_facts as (H1 & H2 & H3 & H4).
  split; [apply wf_treeb_spec; assumption|]. split; [apply closedb_closed; assumption|].
  split; [reflexivity|]. split; [assumption|].
  intro Hs. apply xml_ns_satb_spec in Hs. congruence.
Qed.

(* the shipped constraints do NOT imply the reserved-names rule of Namespaces in XML
   (witness: <a xmlns:xml=QuQ>t</a>, rejected by expat) *)
Theorem xml_ns_reserved_refuted :
  exists t, wf_tree XMLNS t /\ is_openT t = false /\ lbl t = X_start /\
  xml_wf_sat t /\ xml_ns_sat t /\ xml_noredef_sat t /\
  xml_ns_bound (yield t) = true /\ xml_ns_reserved (yield t) = false.
Proof.
  exists ex_ns_xml. destruct ex_ns_xml_facts as (H1 & H2 & H3 & H4 & H5 & H6).
  unfold all_xml_constraints in H4. apply andb_true_iff in H4 as [H4 Hc]. apply andb_true_iff in H4 as [Ha Hb].
  split; [apply wf_treeb_spec; assumption|]. split; [apply closedb_closed; assumption|].
  split; [assumption|]. split; [apply xml_wf_satb_spec; assumption|].
  split; [apply xml_ns_satb_spec; assumption|]. split; [apply xml_noredef_satb_spec; assumption|]. auto.
Qed.
