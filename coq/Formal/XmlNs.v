(* C21 (XML, namespace and attribute rules) -- MODEL FILE: definitions only, no proofs.

   1. TRANSCRIPTION of xml_tag_namespace_constraint, xml_attribute_namespace_constraint (their
      conjunction is XML_NAMESPACE_CONSTRAINT) and xml_no_attr_redef_constraint of
      src/isla_formalizations/xml_lang.py: source texts, and for every match expression the list of
      tree prefixes BindExpression.to_tree_prefix computes for it (one per combination of the
      optional parts that parses) with the paths of the bound variables.  harness/c21_xmlns.py diffs
      all of them against the live Python objects on every run.
   2. MODEL of language.match on a tree prefix (pmatch), of BindExpression.match (mmatch: first
      alternative that matches) and of the three constraints as evaluator.evaluate decides them on
      closed trees: tag_ns_satb, attr_ns_satb, xml_ns_satb (conjunction), xml_noredef_satb.
      inside(a, b) is isla_predicates.in_tree: the path of b is a prefix of the path of a.
   3. INDEPENDENT notions on the text: xml_events, a one-pass reader that splits a text into start
      tags, empty-element tags and end tags with their names and attribute (name, value) pairs;
      xml_attrs_unique (no tag has two attributes with the same name); xml_ns_bound (Namespaces in
      XML, constraint Prefix Declared: the prefix of every element name and of every attribute name
      other than a declaration is declared by an xmlns:prefix attribute of the element itself or of
      an element that is still open; the prefix xmlns is never declared, hence never in scope).  Written from the XML notions, never mentions a nonterminal.
   Comments avoid the double-quote character. *)
From Coq Require Import String Ascii.
From ISLA Require Export Grammar Csv Xml.
Local Open Scope list_scope.

(* ------------------------------------------------------------------------- *)
(* 2a. tree prefixes and matching (language.match)                           *)
(* ------------------------------------------------------------------------- *)

(* MO l: a node whose children are None in the prefix (matches every tree labelled l);
   MN l ms: a node with the children ms (ms = []: a leaf, children () in Python) *)
Inductive mtree := MO (l : str) | MN (l : str) (ms : list mtree).

Fixpoint pmatch (m : mtree) (t : tree) {struct m} : bool :=
  match m with
  | MO l => str_eqb (lbl t) l
  | MN l ms =>
      str_eqb (lbl t) l && negb (opn t) &&
      (fix go (ms : list mtree) (ks : list tree) {struct ms} : bool :=
         match ms, ks with
         | [], [] => true
         | m' :: ms', k :: ks' => pmatch m' k && go ms' ks'
         | _, _ => false
         end) ms (kids t)
  end.

Fixpoint all_some {A} (l : list (option A)) : option (list A) :=
  match l with
  | [] => Some []
  | Some x :: l' => match all_some l' with Some r => Some (x :: r) | None => None end
  | None :: _ => None
  end.

(* a match expression after to_tree_prefix: alternatives (prefix, paths of the bound variables) *)
Definition mexpr := list (mtree * list path).

(* BindExpression.match: the bindings of the first alternative that matches *)
Fixpoint mmatch (me : mexpr) (t : tree) : option (list tree) :=
  match me with
  | [] => None
  | (m, ps) :: me' => if pmatch m t then all_some (List.map (subtree t) ps) else mmatch me' t
  end.

(* ------------------------------------------------------------------------- *)
(* 1. transcription                                                          *)
(* ------------------------------------------------------------------------- *)

Definition s_xmlns : str := Eval vm_compute in lit "xmlns".
Definition T_colon : str := [58%N].

Definition ML (s : str) : mtree := MN s [].          (* terminal leaf *)

(* the derivation of a literal name below <id-no-prefix> (letters and underscore only) *)
Definition m_idchar (c : chr) : mtree := MN X_idc [MN X_idsc [ML [c]]].
Fixpoint m_idchars (c : chr) (cs : str) : mtree :=
  match cs with
  | [] => MN X_idcs [m_idchar c]
  | c' :: cs' => MN X_idcs [m_idchar c; m_idchars c' cs']
  end.
Definition m_idnp (s : str) : mtree :=
  match s with
  | [] => MO X_idnp
  | [c] => MN X_idnp [MN X_idsc [ML [c]]]
  | c :: c' :: cs => MN X_idnp [MN X_idsc [ML [c]]; m_idchars c' cs]
  end.

(* {<id-no-prefix> p}:<id-no-prefix> as an <id> *)
Definition m_pid : mtree := MN X_id [MN X_idwp [MO X_idnp; ML T_colon; MO X_idnp]].

(* xml_tag_namespace_constraint, quantifier 1:
   <{<id-no-prefix> prefix_use}:<id-no-prefix>[ <xml-attribute>][/]>[<inner-xml-tree><xml-close-tag>]
   the four combinations that parse, in the order of to_tree_prefix *)
Definition ME_tag : mexpr := Eval vm_compute in
  [ (MN X_tree [MN X_oc [ML T_lt; m_pid; ML T_sgt]], [[0;1;0;0]]);
    (MN X_tree [MN X_open [ML T_lt; m_pid; ML T_gt]; MO X_inner; MO X_close], [[0;1;0;0]]);
    (MN X_tree [MN X_oc [ML T_lt; m_pid; ML T_sp; MO X_attr; ML T_sgt]], [[0;1;0;0]]);
    (MN X_tree [MN X_open [ML T_lt; m_pid; ML T_sp; MO X_attr; ML T_gt]; MO X_inner; MO X_close],
     [[0;1;0;0]]) ].

(* <<id> {<xml-attribute> cont_attribute}><inner-xml-tree></<id>> *)
Definition ME_outer : mexpr := Eval vm_compute in
  [ (MN X_tree [MN X_open [ML T_lt; MO X_id; ML T_sp; MO X_attr; ML T_gt]; MO X_inner;
                MN X_close [ML T_lts; MO X_id; ML T_gt]], [[0;3]]) ].

(* xmlns:{<id-no-prefix> prefix_def}=Q<text>Q *)
Definition ME_def : mexpr := Eval vm_compute in
  [ (MN X_attr [MN X_id [MN X_idwp [m_idnp s_xmlns; ML T_colon; MO X_idnp]]; ML T_eqq; MO X_text; ML T_q],
     [[0;0;2]]) ].

(* {<id-no-prefix> prefix_use}:{<id-no-prefix> maybe_def}=Q<text>Q *)
Definition ME_attr : mexpr := Eval vm_compute in
  [ (MN X_attr [m_pid; ML T_eqq; MO X_text; ML T_q], [[0;0;0]; [0;0;2]]) ].

(* {<id> id_1}=Q<text>Q *)
Definition ME_leaf : mexpr := Eval vm_compute in
  [ (MN X_attr [MO X_id; ML T_eqq; MO X_text; ML T_q], [[0]]) ].

(* source texts (line breaks are LF; BQ = backslash quote as in the raw Python strings) *)
Definition BQ : str := [92%N; c_quote].
Definition mx_tag : str := Eval vm_compute in
  lit "<{<id-no-prefix> prefix_use}:<id-no-prefix>[ <xml-attribute>][/]>[<inner-xml-tree><xml-close-tag>]".
Definition mx_outer : str := Eval vm_compute in
  lit "<<id> {<xml-attribute> cont_attribute}><inner-xml-tree></<id>>".
Definition tagns_src : str := Eval vm_compute in
  [c_nl] ++ lit "forall <xml-tree> xml_tree=""" ++ mx_tag ++ lit """:" ++ [c_nl]
  ++ lit "  exists <xml-tree> outer_tag=""" ++ mx_outer ++ lit """:" ++ [c_nl]
  ++ lit "    (inside(xml_tree, outer_tag) and " ++ [c_nl]
  ++ lit "     exists <xml-attribute>=""xmlns:{<id-no-prefix> prefix_def}=" ++ BQ ++ lit "<text>" ++ BQ
  ++ lit """ in cont_attribute:" ++ [c_nl]
  ++ lit "       prefix_use = prefix_def)".
Definition attrns_src : str := Eval vm_compute in
  [c_nl] ++ lit "forall <xml-attribute> attribute=""{<id-no-prefix> prefix_use}:{<id-no-prefix> maybe_def}="
  ++ BQ ++ lit "<text>" ++ BQ ++ lit """:" ++ [c_nl]
  ++ lit "  ((not prefix_use = ""xmlns"" or maybe_def = ""xmlns"") implies" ++ [c_nl]
  ++ lit "    exists <xml-tree> outer_tag=""" ++ mx_outer ++ lit """:" ++ [c_nl]
  ++ lit "      (inside(attribute, outer_tag) and" ++ [c_nl]
  ++ lit "       exists <xml-attribute> def_attribute=""xmlns:{<id-no-prefix> prefix_def}=" ++ BQ ++ lit "<text>" ++ BQ
  ++ lit """ in cont_attribute:" ++ [c_nl]
  ++ lit "         (not (= prefix_def ""xmlns"") and (= prefix_use prefix_def))))".
Definition noredef_src : str := Eval vm_compute in
  [c_nl] ++ lit "forall <xml-attribute> attr_outer in start:" ++ [c_nl]
  ++ lit "  forall <xml-attribute> attr_inner_1=""{<id> id_1}=" ++ BQ ++ lit "<text>" ++ BQ
  ++ lit """ in attr_outer:" ++ [c_nl]
  ++ lit "    forall <xml-attribute> attr_inner_2=""{<id> id_2}=" ++ BQ ++ lit "<text>" ++ BQ
  ++ lit """ in attr_outer: " ++ [c_nl]
  ++ lit "      (same_position(attr_inner_1, attr_inner_2) xor" ++ [c_nl]
  ++ lit "       not (= id_1 id_2))".


(* the parsed formulas, written out (quantifier: kind, type, variable, domain, match = has a match
   expression; connectives; predicate arguments; SMT atoms as z3 prints them).  implies / xor are
   already desugared by the parser *)
Definition tagns_sig : str := Eval vm_compute in
  lit "forall <xml-tree> xml_tree in start match: (exists <xml-tree> outer_tag in start match: ((inside(xml_tree, outer_tag)) and (exists <xml-attribute> xml-attribute in cont_attribute match: (prefix_use == prefix_def))))".
Definition attrns_sig : str := Eval vm_compute in
  lit "forall <xml-attribute> attribute in start match: (((prefix_use == ""xmlns"") and (Not(maybe_def == ""xmlns""))) or (exists <xml-tree> outer_tag in start match: ((inside(attribute, outer_tag)) and (exists <xml-attribute> def_attribute in cont_attribute match: ((Not(prefix_def == ""xmlns"")) and (prefix_use == prefix_def))))))".
Definition noredef_sig : str := Eval vm_compute in
  lit "forall <xml-attribute> attr_outer in start: (forall <xml-attribute> attr_inner_1 in attr_outer match: (forall <xml-attribute> attr_inner_2 in attr_outer match: (((same_position(attr_inner_1, attr_inner_2)) and (id_1 == id_2)) or ((not (same_position(attr_inner_1, attr_inner_2))) and (Not(id_1 == id_2))))))".

(* ------------------------------------------------------------------------- *)
(* 2b. the constraints on closed trees, as evaluated                         *)
(* ------------------------------------------------------------------------- *)

(* the (path, node) pairs of t with a given label: domain of a quantifier over the start constant *)
Definition nodes_at (l : str) (t : tree) : list (path * tree) :=
  filter (fun pt => str_eqb (lbl (snd pt)) l) (nodes t).

(* exists <xml-attribute> d=DEF in cont: ok prefix_def *)
Definition decl_in (cont : tree) (ok : tree -> bool) : bool :=
  existsb (fun d => match mmatch ME_def d with
                    | Some [pd] => ok pd
                    | _ => false
                    end) (nodes_lbl X_attr cont).

(* exists <xml-tree> o=OUTER: (inside(x, o) and exists ... in cont_attribute: ok prefix_def),
   px the path of x *)
Definition outer_ok (t : tree) (px : path) (ok : tree -> bool) : bool :=
  existsb (fun po => match mmatch ME_outer (snd po) with
                     | Some [cont] => prefixb (fst po) px && decl_in cont ok
                     | _ => false
                     end) (nodes_at X_tree t).

Definition tag_ns_satb (t : tree) : bool :=
  forallb (fun px => match mmatch ME_tag (snd px) with
                     | Some [pu] => outer_ok t (fst px) (fun pd => str_eqb (yield pu) (yield pd))
                     | _ => true
                     end) (nodes_at X_tree t).

(* parsed body:  (prefix_use = xmlns and not maybe_def = xmlns) or exists outer_tag ... *)
Definition attr_ns_satb (t : tree) : bool :=
  forallb (fun pa => match mmatch ME_attr (snd pa) with
                     | Some [pu; md] =>
                         (str_eqb (yield pu) s_xmlns && negb (str_eqb (yield md) s_xmlns))
                         || outer_ok t (fst pa)
                              (fun pd => negb (str_eqb (yield pd) s_xmlns) && str_eqb (yield pu) (yield pd))
                     | _ => true
                     end) (nodes_at X_attr t).

Definition xml_ns_satb (t : tree) : bool := tag_ns_satb t && attr_ns_satb t.

(* the attributes of the shape ID=Q<text>Q inside a (positions relative to a) with their <id> *)
Definition leaf_attrs (a : tree) : list (path * tree) :=
  flat_map (fun pd => match mmatch ME_leaf (snd pd) with
                      | Some [i] => [(fst pd, i)]
                      | _ => []
                      end) (nodes_at X_attr a).

(* same_position(a1, a2) xor not (= id_1 id_2) *)
Definition xml_noredef_satb (t : tree) : bool :=
  forallb (fun a =>
    forallb (fun d1 => forallb (fun d2 =>
       xorb (path_eqb (fst d1) (fst d2)) (negb (str_eqb (yield (snd d1)) (yield (snd d2)))))
       (leaf_attrs a)) (leaf_attrs a)) (nodes_lbl X_attr t).

(* ------------------------------------------------------------------------- *)
(* 3. independent reader: tags with names and attributes                     *)
(* ------------------------------------------------------------------------- *)

Inductive xevent :=
| EvOpen  (name : str) (attrs : list (str * str))     (* start tag *)
| EvEmpty (name : str) (attrs : list (str * str))     (* empty-element tag *)
| EvClose (name : str).                               (* end tag *)

Inductive emode :=
| EC                          (* character data *)
| EN (rn : str)               (* in a tag, reading its name (reversed) *)
| EA                          (* in a tag after white space: attribute name, slash or > expected *)
| EK (rk : str)               (* reading an attribute name (reversed) *)
| EQ (k : str)                (* after NAME= : the opening quote is expected *)
| EV (k : str) (rv : str)     (* inside the quoted value (reversed) *)
| EW                          (* after the closing quote: white space, slash or > expected *)
| ES.                         (* after the slash of an empty-element tag: > expected *)

(* reader state: mode; is the current tag an end tag; its name; its attributes so far (last
   first); the tags read so far (last first); no error so far *)
Record est := ESt { emd : emode; ecl : bool; enm : str; eats : list (str * str);
                    eout : list xevent; eok : bool }.

Definition est0 : est := ESt EC false [] [] [] true.

Definition c_eq : chr := 61%N.

(* the closing > of a tag has been read *)
Definition emit (selfc cl : bool) (nm : str) (ats : list (str * str)) (out : list xevent) (ok : bool) : est :=
  match nm with
  | [] => ESt EC false [] [] out false
  | _ =>
    if cl then ESt EC false [] [] (EvClose nm :: out)
                   (ok && negb selfc && match ats with [] => true | _ => false end)
    else if selfc then ESt EC false [] [] (EvEmpty nm (rev ats) :: out) ok
    else ESt EC false [] [] (EvOpen nm (rev ats) :: out) ok
  end.

Definition estep (st : est) (c : chr) : est :=
  let '(ESt m cl nm ats out ok) := st in
  let err := ESt m cl nm ats out false in
  match m with
  | EC => if N.eqb c c_lt then ESt (EN []) false [] [] out ok else st
  | EN rn =>
      if N.eqb c c_gt then emit false cl (rev rn) ats out ok
      else if N.eqb c c_slash then
        match rn with
        | [] => if cl then err else ESt (EN []) true nm ats out ok
        | _ => ESt ES cl (rev rn) ats out ok
        end
      else if is_ws c then ESt EA cl (rev rn) ats out ok
      else if memc c [c_lt; c_quote; c_eq] then err
      else ESt (EN (c :: rn)) cl nm ats out ok
  | EA =>
      if N.eqb c c_gt then emit false cl nm ats out ok
      else if N.eqb c c_slash then ESt ES cl nm ats out ok
      else if is_ws c then st
      else if memc c [c_lt; c_quote; c_eq] then err
      else ESt (EK [c]) cl nm ats out ok
  | EK rk =>
      if N.eqb c c_eq then ESt (EQ (rev rk)) cl nm ats out ok
      else if memc c [c_lt; c_gt; c_quote; c_slash] || is_ws c then err
      else ESt (EK (c :: rk)) cl nm ats out ok
  | EQ k => if N.eqb c c_quote then ESt (EV k []) cl nm ats out ok else err
  | EV k rv =>
      if N.eqb c c_quote then ESt EW cl nm ((k, rev rv) :: ats) out ok
      else if N.eqb c c_lt then err
      else ESt (EV k (c :: rv)) cl nm ats out ok
  | EW =>
      if N.eqb c c_gt then emit false cl nm ats out ok
      else if N.eqb c c_slash then ESt ES cl nm ats out ok
      else if is_ws c then ESt EA cl nm ats out ok
      else err
  | ES => if N.eqb c c_gt then emit true cl nm ats out ok else err
  end.

Definition erun (s : str) (st : est) : est := fold_left estep s st.

(* the tags of a text in document order; None: not a sequence of well-formed tags and data *)
Definition xml_events (s : str) : option (list xevent) :=
  let st := erun s est0 in
  match emd st with
  | EC => if eok st then Some (rev (eout st)) else None
  | _ => None
  end.

Definition ev_attrs (e : xevent) : list (str * str) :=
  match e with EvOpen _ a => a | EvEmpty _ a => a | EvClose _ => [] end.

Definition in_strb (s : str) (l : list str) : bool := existsb (str_eqb s) l.

Fixpoint nodup_strb (l : list str) : bool :=
  match l with
  | [] => true
  | x :: l' => negb (in_strb x l') && nodup_strb l'
  end.

(* no tag has two attributes with the same name *)
Definition attrs_uniqueb (evs : list xevent) : bool :=
  forallb (fun e => nodup_strb (List.map fst (ev_attrs e))) evs.

Definition xml_attrs_unique (s : str) : bool :=
  match xml_events s with Some evs => attrs_uniqueb evs | None => false end.

(* a qualified name: (Some prefix, local part) if it contains a colon, split at the first one *)
Fixpoint split_colon (s : str) : option (str * str) :=
  match s with
  | [] => None
  | c :: s' => if N.eqb c 58%N then Some ([], s')
               else match split_colon s' with
                    | Some (p, l) => Some (c :: p, l)
                    | None => None
                    end
  end.

(* the prefixes declared by the attributes of one tag: xmlns:p=... declares p *)
Definition declared (ats : list (str * str)) : list str :=
  flat_map (fun kv => match split_colon (fst kv) with
                      | Some (p, l) => if str_eqb p s_xmlns then [l] else []
                      | None => []
                      end) ats.

(* scope: the prefixes declared on the element and on the open elements around it *)
Definition name_okb (scope : list str) (n : str) : bool :=
  match split_colon n with
  | Some (p, _) => in_strb p scope
  | None => true
  end.

Definition attr_okb (scope : list str) (k : str) : bool :=
  match split_colon k with
  | Some (p, l) => if str_eqb p s_xmlns then negb (str_eqb l s_xmlns) else in_strb p scope
  | None => true
  end.

Definition tag_okb (scope : list str) (n : str) (ats : list (str * str)) : bool :=
  name_okb scope n && forallb (fun kv => attr_okb scope (fst kv)) ats.

(* stack: for every open element the prefixes it declares, innermost first; the prefix xml is
   bound by definition *)
Definition s_xml : str := Eval vm_compute in lit "xml".
Definition scope_of (stk : list (list str)) : list str := concat stk ++ [s_xml].

Definition ns_step (st : list (list str) * bool) (e : xevent) : list (list str) * bool :=
  let '(stk, ok) := st in
  match e with
  | EvOpen n ats => let stk' := declared ats :: stk in (stk', ok && tag_okb (scope_of stk') n ats)
  | EvEmpty n ats => (stk, ok && tag_okb (scope_of (declared ats :: stk)) n ats)
  | EvClose _ => match stk with _ :: stk' => (stk', ok) | [] => ([], false) end
  end.

Definition ns_boundb (evs : list xevent) : bool := snd (fold_left ns_step evs ([], true)).

Definition xml_ns_bound (s : str) : bool :=
  match xml_events s with Some evs => ns_boundb evs | None => false end.

(* Namespaces in XML, constraint Reserved Prefixes and Namespace Names: the prefix xml may only be
   bound to the XML namespace name, and no other prefix (nor the default namespace) to it or to the
   xmlns namespace name.  NOT implied by the shipped constraints (see Props/C21.v). *)
Definition uri_xml : str := Eval vm_compute in lit "http://www.w3.org/XML/1998/namespace".
Definition uri_xmlns : str := Eval vm_compute in lit "http://www.w3.org/2000/xmlns/".

Definition reserved_attr_okb (kv : str * str) : bool :=
  let '(k, v) := kv in
  let other := negb (str_eqb v uri_xml) && negb (str_eqb v uri_xmlns) in
  match split_colon k with
  | Some (p, l) => if str_eqb p s_xmlns then (if str_eqb l s_xml then str_eqb v uri_xml else other) else true
  | None => if str_eqb k s_xmlns then other else true
  end.

Definition xml_ns_reserved (s : str) : bool :=
  match xml_events s with
  | Some evs => forallb (fun e => forallb reserved_attr_okb (ev_attrs e)) evs
  | None => false
  end.
