(* C21 (XML, namespace and attribute rules) -- part 2: what the reader xml_events returns on the
   text of a valid closed tree of XML_GRAMMAR_WITH_NAMESPACE_PREFIXES: exactly the tags of the tree,
   in document order, with the texts of their <id> nodes and of their attribute leaves
   (tree_events, a function of the tree that the reader never sees). *)
From Coq Require Import Lia Bool.
From ISLA Require Import Grammar GrammarFacts PathFacts TreeFacts Csv CsvFacts Xml XmlFacts XmlValid XmlNs XmlNsFacts.

(* ========================================================================= *)
(* the tags of a tree                                                        *)
(* ========================================================================= *)

(* (name, value) of the attribute leaves below an <xml-attribute> node, left to right *)
Fixpoint attr_pairs (a : tree) : list (str * str) :=
  match a with
  | Node _ _ _ ks =>
      match ks with
      | [a1; _; a2] => attr_pairs a1 ++ attr_pairs a2
      | [i; _; tx; _] => [(yield i, yield tx)]
      | _ => []
      end
  end.

Definition tag_id (tg : tree) : str := match kids tg with _ :: i :: _ => yield i | _ => [] end.
Definition tag_ats (tg : tree) : list (str * str) :=
  match kids tg with [_; _; _; a; _] => attr_pairs a | _ => [] end.

Fixpoint tree_events (r : tree) : list xevent :=
  match r with
  | Node _ _ _ ks =>
      match ks with
      | [o; inn; c] => EvOpen (tag_id o) (tag_ats o) :: tree_events inn ++ [EvClose (tag_id c)]
      | [x; inn] => tree_events x ++ tree_events inn
      | [x] => if str_eqb (lbl x) X_oc then [EvEmpty (tag_id x) (tag_ats x)]
               else if str_eqb (lbl x) X_tree then tree_events x else []
      | _ => []
      end
  end.

(* ========================================================================= *)
(* shapes of <xml-tree> and <inner-xml-tree>                                 *)
(* ========================================================================= *)

Definition tree_elem (r o inn c : tree) : Prop :=
  kids r = [o; inn; c] /\ lbl o = X_open /\ lbl inn = X_inner /\ lbl c = X_close /\
  wfx o /\ closedT o /\ wfx inn /\ closedT inn /\ wfx c /\ closedT c /\
  yield r = yield o ++ yield inn ++ yield c.
Definition tree_empty (r e : tree) : Prop :=
  kids r = [e] /\ lbl e = X_oc /\ wfx e /\ closedT e /\ yield r = yield e.

Lemma tree_struct r : wfx r -> closedT r -> lbl r = X_tree ->
  opn r = false /\ ((exists o inn c, tree_elem r o inn c) \/ (exists e, tree_empty r e)).
Proof.
  intros Hwf Hcl Hl. destruct r as [l i o ks]. cbn [lbl kids opn] in *. subst l.
  assert (Ho : o = false) by (eapply closed_not_open; eauto). subst o. split; [reflexivity|].
  destruct (wf_inv XMLNS X_tree i ks Hwf eq_refl) as [(Hne & Halt & Hall) | (Heps & _)].
  2:{ destruct Heps as [E|[E|[]]]; discriminate. }
  change (alts XMLNS X_tree) with [[X_open; X_inner; X_close]; [X_oc]] in Halt. destruct Halt as [E|[E|[]]].
  - left. apply map_lbl_3 in E as (op & inn & c & Eks & L1 & L2 & L3). subst ks.
    kid_facts Hcl Hall op C1 W1. kid_facts Hcl Hall inn C2 W2. kid_facts Hcl Hall c C3 W3.
    exists op, inn, c. unfold tree_elem. rewrite yield_node by discriminate. cbn [kids flat_map]. rewrite app_nil_r.
    repeat split; auto.
  - right. apply map_lbl_1 in E as (e & Eks & L1). subst ks. kid_facts Hcl Hall e C1 W1.
    exists e. unfold tree_empty. rewrite yield_node by discriminate. cbn [kids flat_map]. rewrite app_nil_r. repeat split; auto.
Qed.

Definition inner_cons (r x inn : tree) : Prop :=
  kids r = [x; inn] /\ lbl x = X_tree /\ lbl inn = X_inner /\ wfx x /\ closedT x /\ wfx inn /\ closedT inn /\
  yield r = yield x ++ yield inn.
Definition inner_one (r x : tree) (l : str) : Prop :=
  kids r = [x] /\ lbl x = l /\ wfx x /\ closedT x /\ yield r = yield x.

Lemma inner_struct r : wfx r -> closedT r -> lbl r = X_inner ->
  opn r = false /\ ((exists x inn, inner_cons r x inn) \/ (exists x, inner_one r x X_tree) \/
                    (exists x, inner_one r x X_text)).
Proof.
  intros Hwf Hcl Hl. destruct r as [l i o ks]. cbn [lbl kids opn] in *. subst l.
  assert (Ho : o = false) by (eapply closed_not_open; eauto). subst o. split; [reflexivity|].
  destruct (wf_inv XMLNS X_inner i ks Hwf eq_refl) as [(Hne & Halt & Hall) | (Heps & _)].
  2:{ destruct Heps as [E|[E|[E|[]]]]; discriminate. }
  change (alts XMLNS X_inner) with [[X_tree; X_inner]; [X_tree]; [X_text]] in Halt.
  destruct Halt as [E|[E|[E|[]]]].
  - left. apply map_lbl_2 in E as (x & inn & Eks & L1 & L2). subst ks.
    kid_facts Hcl Hall x C1 W1. kid_facts Hcl Hall inn C2 W2.
    exists x, inn. unfold inner_cons. rewrite yield_node by discriminate. cbn [kids flat_map]. rewrite app_nil_r.
    repeat split; auto.
  - right. left. apply map_lbl_1 in E as (x & Eks & L1). subst ks. kid_facts Hcl Hall x C1 W1.
    exists x. unfold inner_one. rewrite yield_node by discriminate. cbn [kids flat_map]. rewrite app_nil_r. repeat split; auto.
  - right. right. apply map_lbl_1 in E as (x & Eks & L1). subst ks. kid_facts Hcl Hall x C1 W1.
    exists x. unfold inner_one. rewrite yield_node by discriminate. cbn [kids flat_map]. rewrite app_nil_r. repeat split; auto.
Qed.

(* ========================================================================= *)
(* the reader, step by step                                                  *)
(* ========================================================================= *)

Lemma erun_app u v st : erun (u ++ v) st = erun v (erun u st).
Proof. unfold erun. apply fold_left_app. Qed.
Lemma erun_cons c w st : erun (c :: w) st = erun w (estep st c).
Proof. reflexivity. Qed.
Lemma erun_nil st : erun [] st = st.
Proof. reflexivity. Qed.

Lemma idc2_inv c : idc2 c = true ->
  N.eqb c c_gt = false /\ N.eqb c c_slash = false /\ is_ws c = false /\ N.eqb c c_eq = false /\
  memc c [c_lt; c_quote; c_eq] = false /\ memc c [c_lt; c_gt; c_quote; c_slash] || is_ws c = false.
Proof.
  unfold idc2. intro H. apply andb_true_iff in H as [H1 H2]. apply negb_true_iff in H2.
  apply idcb_inv in H1 as (E1 & E2 & E3 & E4 & E5). rewrite !memc_cons. cbn [memc existsb].
  rewrite E1, E2, E3, E4, E5, H2. repeat split; reflexivity.
Qed.

Lemma run_EN w rn cl nm ats out ok : Forall (fun c => idc2 c = true) w ->
  erun w (ESt (EN rn) cl nm ats out ok) = ESt (EN (rev w ++ rn)) cl nm ats out ok.
Proof.
  intro H. revert rn. induction H as [|c w Hc Hw IH]; intro rn; [reflexivity|].
  rewrite erun_cons. cbn [estep]. apply idc2_inv in Hc as (E1 & E2 & E3 & _ & E5 & _).
  rewrite E1, E2, E3, E5, IH. cbn [rev]. rewrite <- app_assoc. reflexivity.
Qed.

Lemma run_EK w rk cl nm ats out ok : Forall (fun c => idc2 c = true) w ->
  erun w (ESt (EK rk) cl nm ats out ok) = ESt (EK (rev w ++ rk)) cl nm ats out ok.
Proof.
  intro H. revert rk. induction H as [|c w Hc Hw IH]; intro rk; [reflexivity|].
  rewrite erun_cons. cbn [estep]. apply idc2_inv in Hc as (_ & _ & _ & E4 & _ & E6).
  rewrite E4, E6, IH. cbn [rev]. rewrite <- app_assoc. reflexivity.
Qed.

Lemma run_EA_key w cl nm ats out ok : Forall (fun c => idc2 c = true) w -> w <> [] ->
  erun w (ESt EA cl nm ats out ok) = ESt (EK (rev w)) cl nm ats out ok.
Proof.
  intros H Hne. destruct w as [|c w]; [contradiction|]. inversion H as [|c' w' Hc Hw]; subst.
  rewrite erun_cons. cbn [estep]. apply idc2_inv in Hc as (E1 & E2 & E3 & _ & E5 & _).
  rewrite E1, E2, E3, E5, run_EK by assumption. reflexivity.
Qed.

Lemma run_EV w k rv cl nm ats out ok : Forall (fun c => txc c = true) w ->
  erun w (ESt (EV k rv) cl nm ats out ok) = ESt (EV k (rev w ++ rv)) cl nm ats out ok.
Proof.
  intro H. revert rv. induction H as [|c w Hc Hw IH]; intro rv; [reflexivity|].
  rewrite erun_cons. cbn [estep]. apply txc_inv in Hc as [E1 E2].
  rewrite E2, E1, IH. cbn [rev]. rewrite <- app_assoc. reflexivity.
Qed.

Lemma run_EC w cl nm ats out ok : Forall (fun c => txc c = true) w ->
  erun w (ESt EC cl nm ats out ok) = ESt EC cl nm ats out ok.
Proof.
  induction 1 as [|c w Hc Hw IH]; [reflexivity|].
  rewrite erun_cons. cbn [estep]. apply txc_inv in Hc as [E _]. rewrite E. assumption.
Qed.

(* one attribute leaf, read after white space *)
Lemma run_leaf yid ytx cl nm ats out ok :
  Forall (fun c => idc2 c = true) yid -> yid <> [] -> Forall (fun c => txc c = true) ytx ->
  erun (yid ++ T_eqq ++ ytx ++ T_q) (ESt EA cl nm ats out ok) = ESt EW cl nm ((yid, ytx) :: ats) out ok.
Proof.
  intros Hid Hne Htx. rewrite erun_app, run_EA_key by assumption.
  unfold T_eqq, T_q. change ([61%N; c_quote] ++ ytx ++ [c_quote]) with (c_eq :: c_quote :: ytx ++ [c_quote]).
  rewrite erun_cons. cbn [estep]. rewrite N.eqb_refl.
  rewrite erun_cons. cbn [estep]. rewrite N.eqb_refl.
  rewrite erun_app, run_EV by assumption. rewrite erun_cons. cbn [estep]. rewrite N.eqb_refl.
  rewrite erun_nil, app_nil_r, !rev_involutive. reflexivity.
Qed.

Lemma attr_pairs_pair l i o a1 s a2 : attr_pairs (Node l i o [a1; s; a2]) = attr_pairs a1 ++ attr_pairs a2.
Proof. reflexivity. Qed.
Lemma attr_pairs_leaf l i o idt e tx q : attr_pairs (Node l i o [idt; e; tx; q]) = [(yield idt, yield tx)].
Proof. reflexivity. Qed.

Lemma erun_attr a : wfx a -> closedT a -> lbl a = X_attr ->
  forall cl nm ats out ok,
  erun (yield a) (ESt EA cl nm ats out ok) = ESt EW cl nm (rev (attr_pairs a) ++ ats) out ok.
Proof.
  induction a as [l i o ks IH] using tree_ind'. intros Hwf Hcl Hl cl nm ats out ok.
  destruct (attr_struct _ Hwf Hcl Hl) as [_ [(a1 & a2 & s & Hk & L1 & Ls & L2 & Ws & W1 & C1 & W2 & C2 & Hy) |
                                            (idt & tx & e & q & Hk & L1 & L2 & L3 & L4 & _ & _ & _ & _ & W1 & C1 & W3 & C3 & Hy)]];
    cbn [kids] in Hk; subst ks; rewrite Hy.
  - pose proof (Forall_in _ _ a1 IH (or_introl eq_refl) W1 C1 L1) as IH1.
    pose proof (Forall_in _ _ a2 IH (or_intror (or_intror (or_introl eq_refl))) W2 C2 L2) as IH2.
    rewrite erun_app, IH1, erun_cons. cbn [estep]. change (N.eqb c_sp c_gt) with false.
    change (N.eqb c_sp c_slash) with false. change (is_ws c_sp) with true. cbv iota.
    rewrite IH2, attr_pairs_pair, rev_app_distr, app_assoc. reflexivity.
  - destruct (id2_facts idt W1 C1 L1) as [Hid Hne]. pose proof (txt_facts tx W3 C3 L3) as Htx.
    rewrite run_leaf by assumption. rewrite attr_pairs_leaf. reflexivity.
Qed.

Lemma rev_nonnil {A} (w : list A) : w <> [] -> exists c r, rev w = c :: r.
Proof.
  intro H. destruct (rev w) as [|c r] eqn:E; [|eauto].
  apply (f_equal (@rev A)) in E. rewrite rev_involutive in E. contradiction.
Qed.

Lemma emit_nonnil selfc cl c y ats out ok :
  emit selfc cl (c :: y) ats out ok =
  if cl then ESt EC false [] [] (EvClose (c :: y) :: out)
                (ok && negb selfc && match ats with [] => true | _ => false end)
  else if selfc then ESt EC false [] [] (EvEmpty (c :: y) (rev ats) :: out) ok
  else ESt EC false [] [] (EvOpen (c :: y) (rev ats) :: out) ok.
Proof. reflexivity. Qed.

(* start tags and empty-element tags *)
Lemma erun_tag k fin : wfx k -> closedT k ->
  (lbl k = X_open /\ fin = T_gt) \/ (lbl k = X_oc /\ fin = T_sgt) ->
  forall out ok,
  erun (yield k) (ESt EC false [] [] out ok) =
  ESt EC false [] [] ((if str_eqb fin T_gt then EvOpen (tag_id k) (tag_ats k)
                       else EvEmpty (tag_id k) (tag_ats k)) :: out) ok.
Proof.
  intros Hwf Hcl Hk out ok.
  assert (Hfin : fin = T_gt \/ fin = T_sgt) by (destruct Hk as [[_ E]|[_ E]]; auto).
  destruct (tag_struct k fin Hwf Hcl Hk) as [_ [(idt & at_ & a & s & f & Hks & _ & _ & _ & L2 & L4 & W2 & C2 & W4 & C4 & Hy) |
                                               (idt & a & f & Hks & _ & _ & L2 & W2 & C2 & Hy)]];
    rewrite Hy; unfold tag_id, tag_ats; rewrite Hks;
    destruct (id2_facts idt W2 C2 L2) as [Hid Hne];
    rewrite erun_cons; cbn [estep]; rewrite N.eqb_refl; rewrite erun_app, run_EN by assumption;
    rewrite app_nil_r.
  - rewrite erun_cons. cbn [estep]. change (N.eqb c_sp c_gt) with false.
    change (N.eqb c_sp c_slash) with false. change (is_ws c_sp) with true. cbv iota.
    rewrite erun_app, (erun_attr at_ W4 C4 L4), app_nil_r, rev_involutive.
    destruct (yield idt) as [|c y] eqn:Ey; [contradiction|].
    destruct Hfin as [E|E]; subst fin.
    + unfold T_gt. rewrite erun_cons, erun_nil. cbn [estep]. rewrite N.eqb_refl.
      rewrite emit_nonnil, rev_involutive. reflexivity.
    + unfold T_sgt. rewrite erun_cons. cbn [estep]. change (N.eqb c_slash c_gt) with false.
      rewrite N.eqb_refl. cbv iota. rewrite erun_cons, erun_nil. cbn [estep]. rewrite N.eqb_refl.
      rewrite emit_nonnil, rev_involutive. reflexivity.
  - destruct (rev_nonnil (yield idt) Hne) as (rc & rr & Er).
    destruct (yield idt) as [|c y] eqn:Ey; [contradiction|].
    destruct Hfin as [E|E]; subst fin.
    + unfold T_gt. rewrite erun_cons, erun_nil. cbn [estep]. rewrite N.eqb_refl.
      rewrite rev_involutive, emit_nonnil. reflexivity.
    + unfold T_sgt. rewrite erun_cons. cbn [estep]. change (N.eqb c_slash c_gt) with false.
      rewrite N.eqb_refl. cbv iota. rewrite Er. rewrite <- Er, rev_involutive.
      rewrite erun_cons, erun_nil. cbn [estep]. rewrite N.eqb_refl.
      rewrite emit_nonnil. reflexivity.
Qed.

Lemma erun_close k : wfx k -> closedT k -> lbl k = X_close ->
  forall out ok,
  erun (yield k) (ESt EC false [] [] out ok) = ESt EC false [] [] (EvClose (tag_id k) :: out) ok.
Proof.
  intros Hwf Hcl Hl out ok.
  destruct (close_struct k Hwf Hcl Hl) as [_ (a & idt & f & Hks & _ & _ & L2 & W2 & C2 & Hy)].
  rewrite Hy. unfold tag_id. rewrite Hks. destruct (id2_facts idt W2 C2 L2) as [Hid Hne].
  rewrite erun_cons. cbn [estep]. rewrite N.eqb_refl.
  rewrite erun_cons. cbn [estep]. change (N.eqb c_slash c_gt) with false. rewrite N.eqb_refl. cbv iota.
  rewrite erun_app, run_EN by assumption. rewrite app_nil_r.
  unfold T_gt. rewrite erun_cons, erun_nil. cbn [estep]. rewrite N.eqb_refl. rewrite rev_involutive.
  destruct (yield idt) as [|c y] eqn:Ey; [contradiction|].
  rewrite emit_nonnil. cbn [negb]. rewrite !andb_true_r. reflexivity.
Qed.

(* MAIN LEMMA of this part: the reader finds exactly the tags of the tree *)
Lemma tree_erun r : wfx r -> closedT r -> lbl r = X_tree \/ lbl r = X_inner ->
  forall out ok,
  erun (yield r) (ESt EC false [] [] out ok) = ESt EC false [] [] (rev (tree_events r) ++ out) ok.
Proof.
  induction r as [l i o ks IH] using tree_ind'. intros Hwf Hcl Hl out ok.
  destruct Hl as [Hl|Hl].
  - destruct (tree_struct _ Hwf Hcl Hl) as [_ [(op & inn & c & Hk & L1 & L2 & L3 & W1 & C1 & W2 & C2 & W3 & C3 & Hy) |
                                              (e & Hk & L1 & W1 & C1 & Hy)]];
      cbn [kids] in Hk; subst ks; rewrite Hy.
    + pose proof (Forall_in _ _ inn IH (or_intror (or_introl eq_refl)) W2 C2 (or_intror L2)) as IHinn.
      rewrite !erun_app, (erun_tag op T_gt W1 C1 (or_introl (conj L1 eq_refl))), IHinn, (erun_close c W3 C3 L3).
      cbn [tree_events]. change (str_eqb T_gt T_gt) with true. cbv iota.
      cbn [rev]. rewrite rev_app_distr. cbn [rev app]. rewrite <- !app_assoc. reflexivity.
    + rewrite (erun_tag e T_sgt W1 C1 (or_intror (conj L1 eq_refl))).
      cbn [tree_events]. rewrite L1. change (str_eqb X_oc X_oc) with true.
      change (str_eqb T_sgt T_gt) with false. cbv iota. reflexivity.
  - destruct (inner_struct _ Hwf Hcl Hl) as [_ [(x & inn & Hk & L1 & L2 & W1 & C1 & W2 & C2 & Hy) |
                        [(x & Hk & L1 & W1 & C1 & Hy) | (x & Hk & L1 & W1 & C1 & Hy)]]];
      cbn [kids] in Hk; subst ks; rewrite Hy.
    + pose proof (Forall_in _ _ x IH (or_introl eq_refl) W1 C1 (or_introl L1)) as IHx.
      pose proof (Forall_in _ _ inn IH (or_intror (or_introl eq_refl)) W2 C2 (or_intror L2)) as IHinn.
      rewrite erun_app, IHx, IHinn. cbn [tree_events]. rewrite rev_app_distr, app_assoc. reflexivity.
    + pose proof (Forall_in _ _ x IH (or_introl eq_refl) W1 C1 (or_introl L1)) as IHx.
      rewrite IHx. cbn [tree_events]. rewrite L1. change (str_eqb X_tree X_oc) with false.
      change (str_eqb X_tree X_tree) with true. cbv iota. reflexivity.
    + rewrite run_EC by (apply txt_facts; assumption).
      cbn [tree_events]. rewrite L1. change (str_eqb X_text X_oc) with false.
      change (str_eqb X_text X_tree) with false. cbv iota. reflexivity.
Qed.

Lemma start_struct t : wfx t -> closedT t -> lbl t = X_start ->
  exists x, kids t = [x] /\ lbl x = X_tree /\ wfx x /\ closedT x /\ yield t = yield x.
Proof.
  intros Hwf Hcl Hl. destruct t as [l i o ks]. cbn [lbl kids] in *. subst l.
  assert (Ho : o = false) by (eapply closed_not_open; eauto). subst o.
  destruct (wf_inv XMLNS X_start i ks Hwf eq_refl) as [(Hne & Halt & Hall) | (Heps & _)].
  2:{ destruct Heps as [E|[]]; discriminate. }
  change (alts XMLNS X_start) with [[X_tree]] in Halt. destruct Halt as [E|[]].
  apply map_lbl_1 in E as (x & Eks & L1). subst ks. kid_facts Hcl Hall x C1 W1.
  exists x. rewrite yield_node by discriminate. cbn [flat_map]. rewrite app_nil_r. repeat split; auto.
Qed.

Theorem xml_events_exact t : wfx t -> closedT t -> lbl t = X_start ->
  exists x, kids t = [x] /\ lbl x = X_tree /\ wfx x /\ closedT x /\
            xml_events (yield t) = Some (tree_events x).
Proof.
  intros Hwf Hcl Hl. destruct (start_struct t Hwf Hcl Hl) as (x & Hk & L1 & W1 & C1 & Hy).
  exists x. repeat split; auto. unfold xml_events, est0. rewrite Hy, (tree_erun x W1 C1 (or_introl L1)).
  cbn [emd eok eout]. rewrite app_nil_r, rev_involutive. reflexivity.
Qed.
