(* C11 — BNF grammars survive printing and re-parsing.
   Only statements + `exact`; proofs are in Codec/BnfEscapeFacts.v (string codec) and, for the
   grammar-level clauses, Codec/BnfSplitMore.v, BnfLexMore.v, BnfIdentityMore.v, BnfChopMore.v,
   BnfLangleMore.v, BnfReachMore.v.  Model: Codec/BnfEscape.v
   (escape = escape table of unparse_grammar; unescape = instantiate_escaped_symbols as ordered
   global replace passes incl. its assertion; lex / parse_rules = token and parser rules of bnf.g4;
   emit_grammar = BnfEmitter incl. free <langle> name, placeholder instantiation, dict assignment
   and the reachability test).

   FULL STATEMENT (codec clause of the property), false for the faithful model:
       forall s, no_placeholder s -> unescape (escape s) = Ok s
   It fails on the class K_besc_overlap (C11_bnf_roundtrip_refuted, replayed on the
   implementation as known finding besc-overlap); without the premise it fails on K_besc, where
   the assertion of instantiate_escaped_symbols fires (C11_besc_assert).  The _partial theorem
   holds for EVERY other string: all code points (also >= 256), literal backslash followed by
   n or x41, quotes, control characters.

   GRAMMAR LEVEL (proof extension; all through printer, lexer, parser, unescaping, emitter):
     * C11_no_lt_identity_partial   FULL identity clause  parse_bnf (unparse_grammar g) = g  for every
       well-formed grammar g (wf_py: non-empty, distinct keys that are NONTERMINAL tokens, every
       rule has an alternative, every used nonterminal is defined) with no '<' in a terminal,
       outside the recorded classes K_besc / K_besc_overlap (terminals), K_nt_escape, K_empty_nt.
     * C11_chop_language            the grammar-theoretic core of the language clause (no guard):
       replacing every '<' inside terminals by a fresh nonterminal F ::= "<" preserves `derives`.
     * C11_langle_language_partial  FULL language clause for every well-formed g with a '<' in some
       terminal, outside the same classes and K_langle_unreach: the re-parsed grammar contains
       the rule <langle> ::= "<" and L g' A w <-> L g A w for every nonterminal A of g.
       C11_langle_language_refuted shows that the guard K_langle_unreach cannot be dropped.
     * C11_reparse_same_language_partial  both clauses in one statement.
   Remaining premises that are not classes of findings: `ph_fresh ph g` / `ph_ok ph` (the emitter's
   random 30-letter placeholder consists of ascii letters and <placeholder> does not occur in g)
   and `length g < 10^20` (the model prints the <langle_i> index with 20 digits of fuel).
   NOT PROVED: nothing of the stated property is left open at model level; the ANTLR-generated
   lexer/parser itself is represented by the rules of bnf.g4 (tied by the correspondence run). *)
From ISLA Require Import Str Outcome Grammar BnfEscape BnfEscapeFacts BnfSplitMore BnfLexMore
  BnfIdentityMore BnfChopMore BnfLangleMore BnfReachMore.
From Coq Require Import List NArith.
Import ListNotations.

Theorem C11_bnf_roundtrip_partial : forall s,
  K_besc s = false -> K_besc_overlap s = false -> unescape (escape s) = Ok s.
Proof. exact bnf_roundtrip_guarded. Qed.
Print Assumptions C11_bnf_roundtrip_partial.

(* the same with the two classes written declaratively *)
Theorem C11_bnf_roundtrip_decl_partial : forall s,
  no_placeholder s -> no_overlap s -> unescape (escape s) = Ok s.
Proof. exact bnf_roundtrip_decl. Qed.
Print Assumptions C11_bnf_roundtrip_decl_partial.

Example C11_roundtrip_nonvacuous :
  K_besc ex_string = false /\ K_besc_overlap ex_string = false /\
  no_placeholder ex_string /\ no_overlap ex_string /\ escape ex_string <> ex_string.
Proof. exact roundtrip_example. Qed.
Print Assumptions C11_roundtrip_nonvacuous.

Theorem C11_bnf_roundtrip_refuted :
  exists s, no_placeholder s /\ exists s', unescape (escape s) = Ok s' /\ s' <> s.
Proof. exact bnf_roundtrip_refuted. Qed.
Print Assumptions C11_bnf_roundtrip_refuted.

(* the assertion fires exactly when the terminal contains the placeholder text *)
Theorem C11_besc_assert : forall s, infix besc s <-> unescape (escape s) = Raise AssertErr.
Proof. exact besc_assert. Qed.
Print Assumptions C11_besc_assert.

(* quotes keep their meaning: the STRING token rule ends a printed terminal at its own closing
   quote, whatever the terminal contains and whatever follows *)
Theorem C11_string_token : forall s rest,
  string_scan false (escape s ++ c_dq :: rest) = Some (S (length (escape s))).
Proof. exact string_token. Qed.
Print Assumptions C11_string_token.

(* identity clause, one alternative: when no terminal contains '<' (and none is in a recorded
   class; nonterminal names carry no backslash), emitting the printed elements gives back their
   concatenation, i.e. the alternative string the grammar had.  ph = the emitter's placeholder. *)
Theorem C11_no_lt_alt_identity : forall ph a,
  Forall (fun e => if is_nt e then nt_ok e else term_ok e) a ->
  emit_alt ph (print_elems a) = Ok (concat a).
Proof. exact no_lt_alt_identity. Qed.
Print Assumptions C11_no_lt_alt_identity.

Example C11_no_lt_alt_nonvacuous :
  Forall (fun e => if is_nt e then nt_ok e else term_ok e) ex_alt /\
  print_elems ex_alt <> map EStr ex_alt.
Proof. exact no_lt_alt_example. Qed.
Print Assumptions C11_no_lt_alt_nonvacuous.

(* ================= grammar level (proof extension) ================= *)

(* helpers.canonical loses nothing: the pieces of an expansion concatenate to the expansion *)
Theorem C11_canonical_concat : forall s, concat (split_expansion s) = s.
Proof. exact split_expansion_concat. Qed.
Print Assumptions C11_canonical_concat.

(* lexer + parser invert the printer for EVERY terminal content (no class excluded except the
   empty nonterminal <>, which the token rule NONTERMINAL rejects): what reaches the emitter is
   exactly the rule list that was printed *)
Theorem C11_front_end : forall ph (g : pygrammar),
  g <> [] -> Forall (fun r => ntok_shape (fst r) /\ snd r <> []) g -> K_empty_nt g = false ->
  parse_bnf ph (unparse_grammar g) = emit_grammar ph (map prule_of (canonical g)).
Proof. exact front_end. Qed.
Print Assumptions C11_front_end.

(* identity clause.  FULL STATEMENT: forall well-formed g without '<' in terminals,
   parse_bnf (unparse_grammar g) = Ok g.  Guards = recorded classes only. *)
Theorem C11_no_lt_identity_partial : forall ph (g : pygrammar),
  wf_py g -> (N.of_nat (length g) < 10 ^ 20)%N -> ph_fresh ph g ->
  existsb (fun r => has_lt (snd r)) g = false ->
  existsb K_besc (g_terminals g) = false -> existsb K_besc_overlap (g_terminals g) = false ->
  K_nt_escape g = false -> K_empty_nt g = false ->
  parse_bnf ph (unparse_grammar g) = Ok g.
Proof. exact no_lt_identity. Qed.
Print Assumptions C11_no_lt_identity_partial.

Example C11_no_lt_identity_nonvacuous :
  wf_py ex_grammar /\ (N.of_nat (length ex_grammar) < 10 ^ 20)%N /\ ph_fresh ex_ph ex_grammar /\
  existsb (fun r => has_lt (snd r)) ex_grammar = false /\
  existsb K_besc (g_terminals ex_grammar) = false /\ existsb K_besc_overlap (g_terminals ex_grammar) = false /\
  K_nt_escape ex_grammar = false /\ K_empty_nt ex_grammar = false /\
  unparse_grammar ex_grammar <> [].
Proof. exact no_lt_identity_example. Qed.
Print Assumptions C11_no_lt_identity_nonvacuous.

(* language clause, grammar-theoretic core (Grammar.v `derives`; no guard): cut every terminal of
   G at its '<' characters, write the fresh nonterminal F for each of them, add F ::= "<"
   (that grammar is G' F G): every other nonterminal keeps its language.  `alt_clean`: no suffix
   of a terminal starts with a nonterminal (true of helpers.canonical: C11_canonical_pieces). *)
Theorem C11_chop_language : forall F, is_nt F = true -> forall G : grammar,
  defined G F = false ->
  (forall r al, In r G -> In al (snd r) -> alt_clean al) ->
  (forall r al, In r G -> In al (snd r) -> ~ In F al) ->
  forall A w, is_nt A = true -> A <> F -> (L (G' F G) A w <-> L G A w).
Proof. exact chop_language. Qed.
Print Assumptions C11_chop_language.

Theorem C11_canonical_pieces : forall s,
  Forall tok_ok (split_expansion s) /\ altb false (split_expansion s) = true.
Proof. exact split_expansion_ok. Qed.
Print Assumptions C11_canonical_pieces.

(* what the re-parsed grammar IS, terminals with '<' allowed: every terminal '<' replaced by the
   free <langle> name; the rule <langle> ::= "<" appended iff the model of
   reachable_nonterminals finds it from <start> *)
Theorem C11_reparse_shape_partial : forall ph (g : pygrammar),
  wf_py g -> (N.of_nat (length g) < 10 ^ 20)%N -> ph_ok ph -> ph_fresh ph g ->
  terminals_ok g -> K_nt_escape g = false -> K_empty_nt g = false ->
  parse_bnf ph (unparse_grammar g)
  = Ok (if mem_str (free_name g) (reachable (lt_rules (free_name g) g ++ [langle_rule (free_name g)]))
        then lt_rules (free_name g) g ++ [langle_rule (free_name g)]
        else lt_rules (free_name g) g).
Proof. exact reparse_shape. Qed.
Print Assumptions C11_reparse_shape_partial.

(* the reachability test succeeds outside class K_langle_unreach *)
Theorem C11_langle_rule_added : forall g : pygrammar,
  NoDup (map fst g) ->
  existsb (fun r => has_lt (snd r)) g = true -> K_langle_unreach g = false ->
  mem_str (free_name g) (reachable (lt_rules (free_name g) g ++ [langle_rule (free_name g)])) = true.
Proof. exact langle_rule_added. Qed.
Print Assumptions C11_langle_rule_added.

(* language clause.  FULL STATEMENT: forall well-formed g with '<' in some terminal, the re-parsed
   grammar has the same language for every nonterminal of g.  Guards = recorded classes only. *)
Theorem C11_langle_language_partial : forall ph (g : pygrammar),
  wf_py g -> (N.of_nat (length g) < 10 ^ 20)%N -> ph_ok ph -> ph_fresh ph g ->
  terminals_ok g -> K_nt_escape g = false -> K_empty_nt g = false ->
  existsb (fun r => has_lt (snd r)) g = true -> K_langle_unreach g = false ->
  exists g', parse_bnf ph (unparse_grammar g) = Ok g' /\
    In (langle_rule (free_name g)) g' /\
    forall A w, In A (map fst g) -> is_nt A = true ->
      (L (canonical g') A w <-> L (canonical g) A w).
Proof. exact langle_language_reach. Qed.
Print Assumptions C11_langle_language_partial.

Example C11_langle_language_nonvacuous :
  wf_py ex_lt_grammar /\ (N.of_nat (length ex_lt_grammar) < 10 ^ 20)%N /\ ph_ok ex_ph /\ ph_fresh ex_ph ex_lt_grammar /\
  terminals_ok ex_lt_grammar /\ K_nt_escape ex_lt_grammar = false /\ K_empty_nt ex_lt_grammar = false /\
  existsb (fun r => has_lt (snd r)) ex_lt_grammar = true /\ K_langle_unreach ex_lt_grammar = false /\
  parse_bnf ex_ph (unparse_grammar ex_lt_grammar)
  = Ok ex_lt_grammar'.
Proof. exact langle_language_example. Qed.
Print Assumptions C11_langle_language_nonvacuous.

(* without the guard K_langle_unreach the language clause is FALSE for the model (finding
   langle-unreachable):  <start> ::= "a" ; <u> ::= "<"  loses the string "<" of <u> *)
Theorem C11_langle_language_refuted :
  exists g, wf_py g /\ ph_ok ex_ph /\ ph_fresh ex_ph g /\ terminals_ok g /\
    K_nt_escape g = false /\ K_empty_nt g = false /\ K_langle_unreach g = true /\
    exists g', parse_bnf ex_ph (unparse_grammar g) = Ok g' /\
      exists A w, In A (map fst g) /\ is_nt A = true /\ L (canonical g) A w /\ ~ L (canonical g') A w.
Proof. exact langle_language_refuted. Qed.
Print Assumptions C11_langle_language_refuted.

(* both clauses in one statement *)
Theorem C11_reparse_same_language_partial : forall ph (g : pygrammar),
  wf_py g -> (N.of_nat (length g) < 10 ^ 20)%N -> ph_ok ph -> ph_fresh ph g ->
  terminals_ok g -> K_nt_escape g = false -> K_empty_nt g = false -> K_langle_unreach g = false ->
  exists g', parse_bnf ph (unparse_grammar g) = Ok g' /\
    (existsb (fun r => has_lt (snd r)) g = false -> g' = g) /\
    forall A w, In A (map fst g) -> is_nt A = true ->
      (L (canonical g') A w <-> L (canonical g) A w).
Proof. exact reparse_same_language. Qed.
Print Assumptions C11_reparse_same_language_partial.
