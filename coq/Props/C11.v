(* C11 — BNF grammars survive printing and re-parsing.
   Only statements + `exact`; proofs are in Codec/BnfEscapeFacts.v.  Model: Codec/BnfEscape.v
   (escape = escape table of unparse_grammar; unescape = instantiate_escaped_symbols as ordered
   global replace passes incl. its assertion; string_scan = STRING token rule of bnf.g4).

   FULL STATEMENT (codec clause of the property), false for the faithful model:
       forall s, no_placeholder s -> unescape (escape s) = Ok s
   It fails on the class K_besc_overlap (C11_bnf_roundtrip_refuted, replayed on the
   implementation as known finding besc-overlap); without the premise it fails on K_besc, where
   the assertion of instantiate_escaped_symbols fires (C11_besc_assert).  The _partial theorem
   holds for EVERY other string: all code points (also >= 256), literal backslash followed by
   n or x41, quotes, control characters.

   NOT PROVED here (tied by the correspondence run and searched on the implementation only):
   no_lt_identity at grammar level through lexer and parser (proved below at alternative level:
   C11_no_lt_alt_identity), langle_language. *)
From ISLA Require Import Str Outcome BnfEscape BnfEscapeFacts.
From Coq Require Import List NArith.
Import ListNotations.

Theorem C11_bnf_roundtrip_partial : forall s,
  K_besc s = false -> K_besc_overlap s = false -> unescape (escape s) = Ok s.
Proof. exact bnf_roundtrip_guarded. Qed.
Print Assumptions C11_bnf_roundtrip_partial.

(* the same with the two classes written declaratively *)
Theorem C11_bnf_roundtrip_decl_partial : forall s,
  no_placeholder s -> no_overlap s -> unescape (escape s) = Ok s.
Proof. exact bnf_roundtrip_decl. Qed.
Print Assumptions C11_bnf_roundtrip_decl_partial.

Example C11_roundtrip_nonvacuous :
  K_besc ex_string = false /\ K_besc_overlap ex_string = false /\
  no_placeholder ex_string /\ no_overlap ex_string /\ escape ex_string <> ex_string.
Proof. exact roundtrip_example. Qed.
Print Assumptions C11_roundtrip_nonvacuous.

Theorem C11_bnf_roundtrip_refuted :
  exists s, no_placeholder s /\ exists s', unescape (escape s) = Ok s' /\ s' <> s.
Proof. exact bnf_roundtrip_refuted. Qed.
Print Assumptions C11_bnf_roundtrip_refuted.

(* the assertion fires exactly when the terminal contains the placeholder text *)
Theorem C11_besc_assert : forall s, infix besc s <-> unescape (escape s) = Raise AssertErr.
Proof. exact besc_assert. Qed.
Print Assumptions C11_besc_assert.

(* quotes keep their meaning: the STRING token rule ends a printed terminal at its own closing
   quote, whatever the terminal contains and whatever follows *)
Theorem C11_string_token : forall s rest,
  string_scan false (escape s ++ c_dq :: rest) = Some (S (length (escape s))).
Proof. exact string_token. Qed.
Print Assumptions C11_string_token.

(* identity clause, one alternative: when no terminal contains '<' (and none is in a recorded
   class; nonterminal names carry no backslash), emitting the printed elements gives back their
   concatenation, i.e. the alternative string the grammar had.  ph = the emitter's placeholder. *)
Theorem C11_no_lt_alt_identity : forall ph a,
  Forall (fun e => if is_nt e then nt_ok e else term_ok e) a ->
  emit_alt ph (print_elems a) = Ok (concat a).
Proof. exact no_lt_alt_identity. Qed.
Print Assumptions C11_no_lt_alt_identity.

Example C11_no_lt_alt_nonvacuous :
  Forall (fun e => if is_nt e then nt_ok e else term_ok e) ex_alt /\
  print_elems ex_alt <> map EStr ex_alt.
Proof. exact no_lt_alt_example. Qed.
Print Assumptions C11_no_lt_alt_nonvacuous.
