(* C21 — Inputs generated for the bundled formalizations pass independent validity checks.
   PROVED PART 1 (CSV): the shipped CSV formalization (grammar Csv.CSV + constraint
   csv_colno_property, both diffed against /repo on every run) implies — and is implied by — the
   independent validity notion "the CSV reader csv_rows finds the same number of columns in every
   record".  Proofs in Formal/CsvFacts.v, models in Formal/Csv.v.

   PROVED PART 2 (XML, full for the tag-balance constraint): for both shipped XML grammars
   (Xml.XML = XML_GRAMMAR, Xml.XMLNS = XML_GRAMMAR_WITH_NAMESPACE_PREFIXES) and the shipped
   xml_wellformedness_constraint (all diffed against /repo on every run): every closed derivation
   tree whose open/close elements carry equal ids (xml_wf_sat, the documented meaning of the
   constraint; xml_wf_satb is its decision procedure = the evaluator's verdict) has a text that the
   independent one-pass tag-stack reader xml_balanced accepts — and conversely, the reader accepts
   the text of a derivation tree ONLY IF the constraint holds (theorems C21_xml_valid_iff, C21_xml_valid_iff_ns,
   C21_xml_balanced_exact, C21_xml_balanced_exact_ns).  Attributes (quoted values may contain / = and escaped quotes) and
   self-closing tags are inside the theorem; no fuel, no size bound.  The lexing side conditions
   (names contain no < > quote slash blank; text and attribute values contain no < and no raw
   quote; names are non-empty) are decided on the transcribed grammars (sub_closedb / nonnullb by
   vm_compute) and proved sound once (CsvFacts.sub_closed_sound, XmlValid.nonnull_sound).
   Proofs in Formal/XmlFacts.v + Formal/XmlValid.v, models in Formal/Xml.v.

   PROVED PART 3 (XML namespace and attribute rules, for XML_GRAMMAR_WITH_NAMESPACE_PREFIXES): the three
   remaining shipped XML constraints are transcribed (source texts, parsed formulas, and for every
   match expression the tree prefixes BindExpression.to_tree_prefix computes; all diffed against
   /repo on every run) and modelled as evaluate decides them (XmlNs.xml_ns_satb = tag constraint &&
   attribute constraint = XML_NAMESPACE_CONSTRAINT, XmlNs.xml_noredef_satb; inside = path prefix).
   Their documented meaning (XmlNsSpec.xml_ns_sat, xml_noredef_sat: quantifiers over positions,
   declarative tree-prefix relation mprefix, some alternative of the match expression matches) is
   proved equivalent to the model (C21_xml_ns_decision, C21_xml_noredef_decision).
   FULL (implication): every closed derivation tree satisfying the namespace constraint has a text
   on which the independent reader finds every element / attribute prefix declared by an
   xmlns:prefix attribute of the same tag or of an element still open, and no xmlns:xmlns
   (C21_xml_ns_bound); every closed derivation tree satisfying the no-redefinition constraint has a
   text in which no tag carries two attributes with the same name (C21_xml_attrs_unique).  The reader
   xml_events returns exactly the tags of the tree (C21_xml_events_exact).
   The converse of C21_xml_ns_bound is FALSE and refuted (C21_xml_ns_converse_refuted): the shipped
   constraint is strictly STRONGER than prefix binding -- outer_tag only matches elements with a start
   and an end tag, so <p:a xmlns:p=.../> needs the declaration on an ancestor.
   REFUTED (C21_xml_ns_reserved_refuted): the shipped constraints are WEAKER than namespace
   well-formedness as expat checks it -- they do not contain the rule Reserved Prefixes and Namespace
   Names: the tree of <a xmlns:xml=QuQ>t</a> satisfies all four shipped XML constraints and expat
   rejects its text.  (Also outside the theorems: uniqueness of attributes by EXPANDED name, i.e.
   two prefixes bound to one namespace name; reproduced on /repo, recorded as known findings.)
   PARTIAL in this sense: C21_xml_ns_bound / C21_xml_attrs_unique are the theorems for the notions
   prefix-binding and attribute-uniqueness by qualified name; no theorem says that the text passes
   expat's full namespace processing, and the two refutation witnesses show that none can.
   Proofs in Formal/XmlNsFacts.v, XmlNsReader.v, XmlNsValid.v, XmlAttrValid.v, XmlNsSpec.v; model
   in Formal/XmlNs.v; concrete trees in Formal/XmlNsExamples.v.

   STILL NOT PROVED (search only, see harness/c21.py): the solver side (that ISLaSolver outputs are
   derivation trees of the grammar satisfying the constraint: that is C01); the reST and simple-TAR
   formalizations.  The full statement of C21 for those reads
     forall t, solver_output REST/TAR t -> independent_check (yield t)
   and has no Gallina counterpart here (no executable model of docutils / of the Python closures
   that implement the TAR predicates). *)
From ISLA Require Import Grammar GrammarFacts Csv CsvFacts Xml XmlFacts XmlValid.
From ISLA Require Import XmlNs XmlNsFacts XmlNsReader XmlNsValid XmlAttrValid XmlNsExamples XmlNsSpec.

(* the constraint, as decided on closed trees the way evaluate() decides it, means what
   csv_colno_property documents: some n >= 1 equals the number of <raw-field> nodes of every
   <csv-record> node *)
Theorem C21_colno_decision : forall t, colno_satb t = true <-> colno_sat t.
Proof. exact colno_satb_spec. Qed.
Print Assumptions C21_colno_decision.

(* the `count` model counts exactly the positions labelled with the needle *)
Theorem C21_count_meaning : forall needle t, count_lbl needle t = count_nodes needle t.
Proof. exact count_lbl_nodes. Qed.
Print Assumptions C21_count_meaning.

(* MAIN: grammar + constraint imply equal column counts under the independent reader *)
Theorem C21_csv_valid : forall t,
  wf_tree CSV t -> is_openT t = false -> lbl t = L_start -> colno_sat t ->
  equal_columns (csv_rows (yield t)).
Proof. exact csv_valid. Qed.
Print Assumptions C21_csv_valid.

(* the constraint is not stronger than needed either *)
Theorem C21_csv_valid_iff : forall t,
  wf_tree CSV t -> is_openT t = false -> lbl t = L_start ->
  (colno_sat t <-> equal_columns (csv_rows (yield t))).
Proof. exact csv_valid_iff. Qed.
Print Assumptions C21_csv_valid_iff.

(* the reader recovers exactly the records of the derivation tree and, per record, the texts
   of its <raw-field> nodes with the enclosing quotes removed; every record has as many
   columns as <raw-field> nodes (what the constraint counts) *)
Theorem C21_csv_rows_exact : forall t,
  wf_tree CSV t -> is_openT t = false -> lbl t = L_start ->
  csv_rows (yield t) = map row_of (file_records t) /\
  file_records t <> [] /\
  Forall (fun r => rec_ok r /\ desc t r) (file_records t).
Proof. exact csv_rows_exact. Qed.
Print Assumptions C21_csv_rows_exact.

(* the <csv-record> nodes of a file are exactly those records (nothing hides deeper) *)
Theorem C21_record_nodes : forall t,
  wf_tree CSV t -> is_openT t = false -> lbl t = L_start ->
  nodes_lbl L_record t = file_records t.
Proof. exact file_nodes. Qed.
Print Assumptions C21_record_nodes.

(* boolean instance evaluated by the correspondence check on every generated tree *)
Theorem C21_csv_valid_bool : forall t,
  wf_treeb CSV t = true -> closedb t = true -> lbl t = L_start -> colno_satb t = true ->
  csv_validb (yield t) = true.
Proof. exact csv_valid_bool. Qed.
Print Assumptions C21_csv_valid_bool.

(* non-vacuity: a concrete two-record file with a quoted separator satisfies every premise *)
Example C21_premises_satisfiable :
  wf_tree CSV ex_tree /\ is_openT ex_tree = false /\ lbl ex_tree = L_start /\ colno_sat ex_tree.
Proof. exact ex_tree_premises. Qed.
Print Assumptions C21_premises_satisfiable.

Example C21_example_rows :
  csv_rows (yield ex_tree) = [[[97]; [120; 59; 121]]; [[99]; [32; 100]]]%N.
Proof. exact ex_tree_rows. Qed.
Print Assumptions C21_example_rows.

(* the grammar alone does not give validity: the constraint is needed *)
Example C21_constraint_needed :
  wf_treeb CSV ex_bad = true /\ closedb ex_bad = true /\ colno_satb ex_bad = false /\
  csv_validb (yield ex_bad) = false.
Proof. exact ex_bad_invalid. Qed.
Print Assumptions C21_constraint_needed.

(* ========================================================================= *)
(* XML: grammar + xml_wellformedness_constraint  <->  tag balance            *)
(* ========================================================================= *)

(* the constraint, as decided on closed trees the way evaluate() decides it, means what
   xml_wellformedness_constraint documents: in every <xml-tree> node of the shape
   <{<id> opid}[ <xml-attribute>]><inner-xml-tree></{<id> clid}>  the texts of opid and clid agree *)
Theorem C21_xml_wf_decision : forall t, xml_wf_satb t = true <-> xml_wf_sat t.
Proof. exact xml_wf_satb_spec. Qed.
Print Assumptions C21_xml_wf_decision.

(* the boolean matcher finds exactly the nodes / bindings of the declarative match relation *)
Theorem C21_xml_match_meaning : forall r a b, match_ids r = Some (a, b) <-> matches_openclose r a b.
Proof. exact match_ids_spec. Qed.
Print Assumptions C21_xml_match_meaning.

(* MAIN (XML_GRAMMAR): grammar + constraint imply that the independent tag-stack reader accepts *)
Theorem C21_xml_valid : forall t,
  wf_tree XML t -> is_openT t = false -> lbl t = X_start -> xml_wf_sat t ->
  xml_balanced (yield t) = true.
Proof. exact xml_valid_XML. Qed.
Print Assumptions C21_xml_valid.

(* the constraint is not stronger than needed either *)
Theorem C21_xml_valid_iff : forall t,
  wf_tree XML t -> is_openT t = false -> lbl t = X_start ->
  (xml_wf_sat t <-> xml_balanced (yield t) = true).
Proof. exact xml_valid_iff_XML. Qed.
Print Assumptions C21_xml_valid_iff.

(* same for XML_GRAMMAR_WITH_NAMESPACE_PREFIXES (names may contain one colon) — the grammar the
   constraint is parsed against and the solver is run on *)
Theorem C21_xml_valid_ns : forall t,
  wf_tree XMLNS t -> is_openT t = false -> lbl t = X_start -> xml_wf_sat t ->
  xml_balanced (yield t) = true.
Proof. exact xml_valid_XMLNS. Qed.
Print Assumptions C21_xml_valid_ns.

Theorem C21_xml_valid_iff_ns : forall t,
  wf_tree XMLNS t -> is_openT t = false -> lbl t = X_start ->
  (xml_wf_sat t <-> xml_balanced (yield t) = true).
Proof. exact xml_valid_iff_XMLNS. Qed.
Print Assumptions C21_xml_valid_iff_ns.

(* boolean instances evaluated by the correspondence check on every generated tree: the reader's
   verdict on the text IS the constraint's verdict on the tree *)
Theorem C21_xml_balanced_exact : forall t,
  wf_treeb XML t = true -> closedb t = true -> lbl t = X_start ->
  xml_balanced (yield t) = xml_wf_satb t.
Proof. exact xml_valid_bool. Qed.
Print Assumptions C21_xml_balanced_exact.

Theorem C21_xml_balanced_exact_ns : forall t,
  wf_treeb XMLNS t = true -> closedb t = true -> lbl t = X_start ->
  xml_balanced (yield t) = xml_wf_satb t.
Proof. exact xmlns_valid_bool. Qed.
Print Assumptions C21_xml_balanced_exact_ns.

(* the generic form: any grammar with the seven structural XML rules whose <id> / <text>
   sub-grammars respect the character classes (side conditions are booleans) *)
Theorem C21_xml_valid_generic : forall g S_id S_txt S_nn S_leaf,
  alts g X_start = [[X_tree]] ->
  alts g X_tree  = [[X_open; X_inner; X_close]; [X_oc]] ->
  alts g X_inner = [[X_tree; X_inner]; [X_tree]; [X_text]] ->
  alts g X_open  = [[T_lt; X_id; T_sp; X_attr; T_gt]; [T_lt; X_id; T_gt]] ->
  alts g X_oc    = [[T_lt; X_id; T_sp; X_attr; T_sgt]; [T_lt; X_id; T_sgt]] ->
  alts g X_close = [[T_lts; X_id; T_gt]] ->
  alts g X_attr  = [[X_attr; T_sp; X_attr]; [X_id; T_eqq; X_text; T_q]] ->
  sub_closedb g S_id idcb = true -> In X_id S_id ->
  sub_closedb g S_txt txc = true -> In X_text S_txt ->
  nonnullb g S_nn = true -> In X_id S_nn ->
  sub_closedb g S_leaf (fun _ => true) = true ->
  In X_open S_leaf /\ In X_close S_leaf /\ In X_oc S_leaf /\ In X_text S_leaf ->
  ~ In X_tree S_leaf ->
  forall t, wf_tree g t -> is_openT t = false -> lbl t = X_start ->
  xml_balanced (yield t) = xml_wf_satb t.
Proof. exact xml_balanced_exact. Qed.
Print Assumptions C21_xml_valid_generic.

(* non-vacuity: the tree of  <a b=QxEQ/Q><c-1/>t</a>  (attribute value with an escaped quote and a
   slash, a self-closing child, text) satisfies every premise; so does a prefixed element *)
Example C21_xml_premises_satisfiable :
  wf_tree XML ex_xml /\ is_openT ex_xml = false /\ lbl ex_xml = X_start /\ xml_wf_sat ex_xml.
Proof. exact ex_xml_premises. Qed.
Print Assumptions C21_xml_premises_satisfiable.

Example C21_xmlns_premises_satisfiable :
  wf_tree XMLNS ex_xmlns /\ is_openT ex_xmlns = false /\ lbl ex_xmlns = X_start /\ xml_wf_sat ex_xmlns.
Proof. exact ex_xmlns_premises. Qed.
Print Assumptions C21_xmlns_premises_satisfiable.

(* the grammar alone does not give balance: the constraint is needed ( <a>t</b> ) *)
Example C21_xml_constraint_needed :
  wf_treeb XML ex_xml_bad = true /\ closedb ex_xml_bad = true /\ xml_wf_satb ex_xml_bad = false /\
  xml_balanced (yield ex_xml_bad) = false.
Proof. exact ex_xml_bad_invalid. Qed.
Print Assumptions C21_xml_constraint_needed.

(* the reader rejects crossed, unclosed, stray-close and unterminated tags, and does not end a tag
   at a quoted > *)
Example C21_xml_reader_rejects :
  xml_balanced [60;97;62;60;98;62;60;47;97;62;60;47;98;62]%N = false /\
  xml_balanced [60;97;62]%N = false /\ xml_balanced [60;47;97;62]%N = false /\
  xml_balanced [60;97]%N = false /\
  xml_balanced [60;97;32;98;61;34;62;34;62;60;47;97;62]%N = true /\
  xml_balanced [60;97;47;62;60;98;62;120;60;47;98;62]%N = true.
Proof. exact xml_balanced_rejects. Qed.
Print Assumptions C21_xml_reader_rejects.

(* ========================================================================= *)
(* XML, part 3: namespace constraint and attribute no-redefinition constraint *)
(* ========================================================================= *)

(* how evaluate decides the namespace constraint (tag & attribute part) = its documented meaning *)
Theorem C21_xml_ns_decision : forall t, xml_ns_satb t = true <-> xml_ns_sat t.
Proof. exact xml_ns_satb_spec. Qed.
Print Assumptions C21_xml_ns_decision.

Theorem C21_xml_noredef_decision : forall t, xml_noredef_satb t = true <-> xml_noredef_sat t.
Proof. exact xml_noredef_satb_spec. Qed.
Print Assumptions C21_xml_noredef_decision.

(* language.match on a tree prefix = the declarative prefix relation *)
Theorem C21_xml_prefix_match_meaning : forall m t, pmatch m t = true <-> mprefix m t.
Proof. exact pmatch_spec. Qed.
Print Assumptions C21_xml_prefix_match_meaning.

(* the reader returns exactly the tags of the derivation tree: names = texts of the <id> nodes,
   attributes = (name, value) of the attribute leaves, in document order *)
Theorem C21_xml_events_exact : forall t,
  wf_tree XMLNS t -> is_openT t = false -> lbl t = X_start ->
  exists x, kids t = [x] /\ lbl x = X_tree /\ wf_tree XMLNS x /\ is_openT x = false /\
            xml_events (yield t) = Some (tree_events x).
Proof. exact xml_events_exact. Qed.
Print Assumptions C21_xml_events_exact.

(* MAIN (namespaces): grammar + XML_NAMESPACE_CONSTRAINT imply prefix binding on the text *)
Theorem C21_xml_ns_bound : forall t,
  wf_tree XMLNS t -> is_openT t = false -> lbl t = X_start -> xml_ns_sat t ->
  xml_ns_bound (yield t) = true.
Proof. exact xml_ns_valid. Qed.
Print Assumptions C21_xml_ns_bound.

(* MAIN (attributes): grammar + xml_no_attr_redef_constraint imply attribute uniqueness per tag *)
Theorem C21_xml_attrs_unique : forall t,
  wf_tree XMLNS t -> is_openT t = false -> lbl t = X_start -> xml_noredef_sat t ->
  xml_attrs_unique (yield t) = true.
Proof. exact xml_attrs_valid. Qed.
Print Assumptions C21_xml_attrs_unique.

(* boolean instances evaluated by the correspondence check on every generated tree *)
Theorem C21_xml_ns_bound_bool : forall t,
  wf_treeb XMLNS t = true -> closedb t = true -> lbl t = X_start -> xml_ns_satb t = true ->
  xml_ns_bound (yield t) = true.
Proof. exact xml_ns_valid_bool. Qed.
Print Assumptions C21_xml_ns_bound_bool.

Theorem C21_xml_attrs_unique_bool : forall t,
  wf_treeb XMLNS t = true -> closedb t = true -> lbl t = X_start -> xml_noredef_satb t = true ->
  xml_attrs_unique (yield t) = true.
Proof. exact xml_attrs_valid_bool. Qed.
Print Assumptions C21_xml_attrs_unique_bool.

(* non-vacuity: the tree of  <r xmlns:p=QuQ><p:a p:x=Q1Q y=Q2Q/><q y=Q2Q>t</q></r>  satisfies the
   premises of both theorems *)
Theorem C21_xml_ns_premises_satisfiable :
  wf_tree XMLNS ex_ns_good /\ is_openT ex_ns_good = false /\ lbl ex_ns_good = X_start /\
  xml_ns_sat ex_ns_good /\ xml_noredef_sat ex_ns_good.
Proof. exact ex_ns_good_sat. Qed.
Print Assumptions C21_xml_ns_premises_satisfiable.

(* FULL STATEMENT "prefix binding <-> namespace constraint" is FALSE (the constraint is stronger):
     forall t, wf_tree XMLNS t -> closed t -> root <start> -> xml_ns_bound (yield t) = true -> xml_ns_sat t *)
Theorem C21_xml_ns_converse_refuted :
  exists t, wf_tree XMLNS t /\ is_openT t = false /\ lbl t = X_start /\
            xml_ns_bound (yield t) = true /\ ~ xml_ns_sat t.
Proof. exact xml_ns_converse_refuted. Qed.
Print Assumptions C21_xml_ns_converse_refuted.

(* FULL STATEMENT "all shipped XML constraints imply namespace well-formedness incl. the reserved
   names rule" is FALSE:
     forall t, ... -> xml_wf_sat t -> xml_ns_sat t -> xml_noredef_sat t -> xml_ns_reserved (yield t) = true
   What holds instead is C21_xml_ns_bound + C21_xml_attrs_unique + C21_xml_valid_ns; missing: any rule
   about the prefix xml and the two reserved namespace names, and attribute uniqueness by expanded name. *)
Theorem C21_xml_ns_reserved_refuted :
  exists t, wf_tree XMLNS t /\ is_openT t = false /\ lbl t = X_start /\
            xml_wf_sat t /\ xml_ns_sat t /\ xml_noredef_sat t /\
            xml_ns_bound (yield t) = true /\ xml_ns_reserved (yield t) = false.
Proof. exact xml_ns_reserved_refuted. Qed.
Print Assumptions C21_xml_ns_reserved_refuted.

(* further witnesses: a declaration on a DESCENDANT is rejected by constraint and reader (inside is
   one-directional); the attribute constraint is needed; the reader is not constant *)
Theorem C21_xml_ns_descendant_rejected :
  wf_treeb XMLNS ex_ns_descendant = true /\ xml_ns_satb ex_ns_descendant = false /\
  xml_ns_bound (yield ex_ns_descendant) = false.
Proof. exact ex_ns_descendant_facts. Qed.
Print Assumptions C21_xml_ns_descendant_rejected.

Theorem C21_xml_attr_constraint_needed :
  wf_treeb XMLNS ex_attr_dup = true /\ xml_noredef_satb ex_attr_dup = false /\
  xml_attrs_unique (yield ex_attr_dup) = false.
Proof. exact ex_attr_dup_facts. Qed.
Print Assumptions C21_xml_attr_constraint_needed.
