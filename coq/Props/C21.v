(* C21 — Inputs generated for the bundled formalizations pass independent validity checks.
   PROVED PART: the shipped CSV formalization (grammar Csv.CSV + constraint csv_colno_property,
   both diffed against /repo on every run) implies — and is implied by — the independent
   validity notion "the CSV reader csv_rows finds the same number of columns in every record".
   Only statements + `exact`; proofs are in Formal/CsvFacts.v, models in Formal/Csv.v.

   NOT PROVED (search only, see harness/c21.py): the solver side (that ISLaSolver outputs are
   derivation trees of the grammar satisfying the constraint: that is C01) and the XML, reST and
   simple-TAR formalizations.  The full statement of C21 for those reads
     forall t, solver_output XML/REST/TAR t -> independent_check (yield t)
   and has no Gallina counterpart here (no executable model of docutils / of the Python closures
   that implement the TAR predicates). *)
From ISLA Require Import Grammar GrammarFacts Csv CsvFacts.

(* the constraint, as decided on closed trees the way evaluate() decides it, means what
   csv_colno_property documents: some n >= 1 equals the number of <raw-field> nodes of every
   <csv-record> node *)
Theorem C21_colno_decision : forall t, colno_satb t = true <-> colno_sat t.
Proof. exact colno_satb_spec. Qed.
Print Assumptions C21_colno_decision.

(* the `count` model counts exactly the positions labelled with the needle *)
Theorem C21_count_meaning : forall needle t, count_lbl needle t = count_nodes needle t.
Proof. exact count_lbl_nodes. Qed.
Print Assumptions C21_count_meaning.

(* MAIN: grammar + constraint imply equal column counts under the independent reader *)
Theorem C21_csv_valid : forall t,
  wf_tree CSV t -> is_openT t = false -> lbl t = L_start -> colno_sat t ->
  equal_columns (csv_rows (yield t)).
Proof. exact csv_valid. Qed.
Print Assumptions C21_csv_valid.

(* the constraint is not stronger than needed either *)
Theorem C21_csv_valid_iff : forall t,
  wf_tree CSV t -> is_openT t = false -> lbl t = L_start ->
  (colno_sat t <-> equal_columns (csv_rows (yield t))).
Proof. exact csv_valid_iff. Qed.
Print Assumptions C21_csv_valid_iff.

(* the reader recovers exactly the records of the derivation tree and, per record, the texts
   of its <raw-field> nodes with the enclosing quotes removed; every record has as many
   columns as <raw-field> nodes (what the constraint counts) *)
Theorem C21_csv_rows_exact : forall t,
  wf_tree CSV t -> is_openT t = false -> lbl t = L_start ->
  csv_rows (yield t) = map row_of (file_records t) /\
  file_records t <> [] /\
  Forall (fun r => rec_ok r /\ desc t r) (file_records t).
Proof. exact csv_rows_exact. Qed.
Print Assumptions C21_csv_rows_exact.

(* the <csv-record> nodes of a file are exactly those records (nothing hides deeper) *)
Theorem C21_record_nodes : forall t,
  wf_tree CSV t -> is_openT t = false -> lbl t = L_start ->
  nodes_lbl L_record t = file_records t.
Proof. exact file_nodes. Qed.
Print Assumptions C21_record_nodes.

(* boolean instance evaluated by the correspondence check on every generated tree *)
Theorem C21_csv_valid_bool : forall t,
  wf_treeb CSV t = true -> closedb t = true -> lbl t = L_start -> colno_satb t = true ->
  csv_validb (yield t) = true.
Proof. exact csv_valid_bool. Qed.
Print Assumptions C21_csv_valid_bool.

(* non-vacuity: a concrete two-record file with a quoted separator satisfies every premise *)
Example C21_premises_satisfiable :
  wf_tree CSV ex_tree /\ is_openT ex_tree = false /\ lbl ex_tree = L_start /\ colno_sat ex_tree.
Proof. exact ex_tree_premises. Qed.
Print Assumptions C21_premises_satisfiable.

Example C21_example_rows :
  csv_rows (yield ex_tree) = [[[97]; [120; 59; 121]]; [[99]; [32; 100]]]%N.
Proof. exact ex_tree_rows. Qed.
Print Assumptions C21_example_rows.

(* the grammar alone does not give validity: the constraint is needed *)
Example C21_constraint_needed :
  wf_treeb CSV ex_bad = true /\ closedb ex_bad = true /\ colno_satb ex_bad = false /\
  csv_validb (yield ex_bad) = false.
Proof. exact ex_bad_invalid. Qed.
Print Assumptions C21_constraint_needed.
