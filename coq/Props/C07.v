(* C07 — Unparsed constraints parse back to the same constraint.
   Only statements + `exact`; proofs are in Logic/UnparseFacts.v, the model in Logic/Unparse.v.
   The ANTLR parser is not modelled: that parse_isla (unparse_isla f) == f on the implementation is
   observed by the check (harness/c07.py part ii) on every run; the theorems below are about the
   printer-side functions whose text the parser has to read.

   NOT PROVED (stated for the record, covered by the correspondence only):
   - C07_escape_roundtrip (guard as strong as the recorded defect class):
       forall s rest, K_str s = false -> read_lit (str_lit s ++ rest) = Some (s, rest)
     proved below only for `plain` strings (printable ASCII without quote and backslash);
     quotes, NUL, control characters, harmless backslashes, characters >= 256 are exercised by
     escape_roundtrip_samples (computation) and the literal cases of the check.
   - C07_print_parse: wf_core f -> parse_core (unparse f) = Some f  and the idempotence corollary:
     no reference parser parse_core was written. *)
From ISLA Require Import Unparse UnparseFacts.
From Coq Require Import String.
Open Scope N_scope.

(* fresh_variable never returns a name of the used set *)
Theorem C07_fresh_is_fresh : forall used base n, fresh_name used base = Some n -> ~ In n used.
Proof. exact fresh_is_fresh. Qed.
Print Assumptions C07_fresh_is_fresh.

Example C07_fresh_is_fresh_nonvacuous :
  fresh_name [lit "var"; lit "var_0"; lit "x"] (lit "var") = Some (lit "var_1").
Proof. exact fresh_example. Qed.
Print Assumptions C07_fresh_is_fresh_nonvacuous.

(* register_var_for_free_nonterminal avoids the used names and the registered NONTERMINALS *)
Theorem C07_register_is_fresh : forall used free nt n,
  lookup nt free = None -> register_free used free nt = Some n ->
  ~ In n used /\ ~ In n (map fst free).
Proof. exact register_is_fresh. Qed.
Print Assumptions C07_register_is_fresh.

Example C07_register_is_fresh_nonvacuous :
  lookup (lit "<var>") [] = None /\ register_free [lit "var"] [] (lit "<var>") = Some (lit "var_0").
Proof. exact register_example. Qed.
Print Assumptions C07_register_is_fresh_nonvacuous.

(* Full statement (FALSE): the variable made for a free nonterminal never carries the name of the
   global constant:  register_free used free nt = Some n -> n <> vname start_const.
   The used set omits the constant: a free <start> is named `start` (class K_shadow_const). *)
Theorem C07_fresh_avoids_constant_refuted :
  exists used free nt, register_free used free nt = Some (vname start_const).
Proof. exact fresh_avoids_constant_refuted. Qed.
Print Assumptions C07_fresh_avoids_constant_refuted.

(* Full statement (FALSE): ... -> ~ In n (map snd free)  (names of variables already made for other
   free nonterminals are avoided).  The union is taken with the dict's keys. *)
Theorem C07_fresh_avoids_registered_refuted :
  exists used free nt n, lookup nt free = None /\ register_free used free nt = Some n /\
                         In n (map snd free).
Proof. exact fresh_avoids_registered_refuted. Qed.
Print Assumptions C07_fresh_avoids_registered_refuted.

(* Full statement (FALSE): forall s rest, read_lit (str_lit s ++ rest) = Some (s, rest)
   — what smt_expr_to_str prints for a Z3 string value is read back (ANTLR STRING token,
   replace(\'' -> ''''), UTF-8, Z3 scanner, Z3 escapes) as the same value. *)
Theorem C07_escape_roundtrip_refuted_backslash :
  exists s, K_str_bs s = true /\ read_lit (str_lit s ++ [41]) = None.
Proof. exact escape_roundtrip_refuted_backslash. Qed.
Print Assumptions C07_escape_roundtrip_refuted_backslash.

Theorem C07_escape_roundtrip_refuted_nonascii :
  exists s v, K_str_hi s = true /\ read_lit (str_lit s ++ [41]) = Some (v, [41]) /\ v <> s.
Proof. exact escape_roundtrip_refuted_nonascii. Qed.
Print Assumptions C07_escape_roundtrip_refuted_nonascii.

(* proved part: plain strings (guard stronger than negb (K_str s); see header) *)
Theorem C07_escape_roundtrip_partial : forall s rest,
  plain s = true -> read_lit (str_lit s ++ rest) = Some (s, rest).
Proof. exact escape_roundtrip_plain. Qed.
Print Assumptions C07_escape_roundtrip_partial.

Example C07_escape_roundtrip_partial_nonvacuous :
  plain (lit "a := (1 ; <x>)") = true /\
  read_lit (str_lit (lit "a := (1 ; <x>)") ++ [41]) = Some (lit "a := (1 ; <x>)", [41]).
Proof. exact escape_roundtrip_plain_nonvacuous. Qed.
Print Assumptions C07_escape_roundtrip_partial_nonvacuous.

(* Full statement (FALSE): unparse_isla returns a text for every constraint:
   forall f, exists t, unparse_res f = Ok t.  A re.loop with fewer than two parameters
   (accepted by parse_isla as `((_ re.loop 1) r)` or `(re.loop r 1 2)`) raises IndexError. *)
Theorem C07_unparse_total_refuted : exists f, unparse_res f = Raise IndexErr.
Proof. exact unparse_total_refuted. Qed.
Print Assumptions C07_unparse_total_refuted.

Theorem C07_unparse_total_partial : forall f, K_loop_arity f = false -> unparse_res f = Ok (unparse f).
Proof. exact unparse_total_partial. Qed.
Print Assumptions C07_unparse_total_partial.

(* boundary values of the indexed operator are printed with both parameters (upper bound 0 included) *)
Example C07_unparse_total_partial_nonvacuous :
  K_loop_arity (FSmt (SApp KInRe (lit "str.in_re")
     [SVar (lit "x"); SApp (KLoop 1 0) (lit "re.loop") [SApp KOther (lit "str.to_re") [SStr (lit "a")]]], [v_x])) = false
  /\ smt_str (SApp (KLoop 1 0) (lit "re.loop") [SApp KOther (lit "str.to_re") [SStr (lit "a")]])
     = lit "((_ re.loop 1 0) (str.to_re ""a""))".
Proof. exact unparse_total_partial_nonvacuous. Qed.
Print Assumptions C07_unparse_total_partial_nonvacuous.
