(* C07 — Unparsed constraints parse back to the same constraint.
   Only statements + `exact`; proofs are in Logic/UnparseFacts.v, Logic/ParseCoreFacts.v,
   Logic/ParseCoreMore.v, Logic/SmtReadFacts.v; the models in Logic/Unparse.v (printer), Logic/ParseCore.v
   (reference parser of the core concrete syntax) and Logic/SmtRead.v (reference reader of SMT atoms).  The ANTLR parser itself is not modelled: that
   parse_isla (unparse_isla f) == f on the implementation is observed by the check (harness/c07.py
   part ii) on every run, and parse_core is tied to parse_isla on the fragment (stream `core`).

   FULL (this file):
   - C07_print_parse: wf_core f -> parse_core (unparse f) = Some (opaque f), for the fragment
     wf_core = opaque s-expression atoms, standard predicates, `not` over predicate atoms, BINARY
     and/or in every nesting position (the layout with indentation and the overwritten first
     character), forall/exists with name and `in` (no match expression), forall/exists int, the
     const header, names that resolve.  `opaque f` is f with each SMT atom kept as its printed text
     (parse_core does not read inside atoms); C07_print_parse_exact: = Some f when the atoms of f are
     already text; C07_unparse_parse_idempotent: unparse (parse_core (unparse f)) = unparse f.
   - C07_lex_layout: the layout lemma by itself (any indentation of the lines of unp f lexes to toks f).
   - C07_print_parse_nary (Logic/ParseCoreNary.v): N-ARY and/or (every connective with >= 2 children, in
     every nesting position): parse_core (unparse f) = Some (opaque (binl f)), binl = the left-nested BINARY
     tree the real parser builds for a chain `(a and b and c)`; C07_print_parse_nary_eq: that result is equal
     to f (atoms as text) up to the flattening that Formula.__eq__ applies (flat = split_conjunction /
     split_disjunction normal form): parse_core (unparse f) is `==`-equal to f.  C07_binl_binary: on the binary
     fragment binl is the identity (the n-ary theorem contains C07_print_parse).
   - C07_escape_roundtrip (Logic/UnparseEsc.v, UnparseHex.v): the string-literal round trip under the EXACT
     guard of the recorded class,  K_str s = false -> read_lit (str_lit s ++ rest) = Some (s, rest):
     quotes, control characters, NUL (printed \u{} and repaired to \u{0}), characters 256..0x2FFFF (\u{hex},
     the hex digits checked for every code point of the range), a backslash before `u` (\u{5c}) and every
     harmless backslash (not before a quote, not last).  With the two refutations both halves of K_str are
     necessary: the guard is the weakest possible of this form.
   - C07_smt_print_read (Logic/SmtRead.v, SmtReadFacts.v): the INSIDE of SMT atoms.  read_sexpr is a reference reader
     of the s-expression syntax ISLa hands to Z3 (words: true/false/INT/zero-ary regular expressions/variables;
     string literals through read_lit; applications `(op a1 .. an)` with op from the operator table — the four
     renamed kinds, `ite` -> decl name `if` — and the indexed operators (_ re.loop lo hi), (_ re.^ n));
     wf_smt e -> read_sexpr (smt_expr_to_str e) = Some e, where wf_smt = operators of the table under their
     Z3 decl names, variables that are ISLa IDs and no builtin words, string values outside K_str (exact
     guard of C07_escape_roundtrip), every integer, two-parameter re.loop.  Outside: exactly the recorded
     classes K_smt_op (`if`, `str.<`, nested `not`: C07_smt_print_read_refuted — the reader rejects the
     printed text, as parse_isla does), K_loop_arity (not printable), K_smt_string.
   - C07_print_parse_full: parse_full = parse_core, then every atom text is read by read_sexpr and its
     variable words are checked against the declared variables:  wf_coreN f -> atoms_wfb f = true ->
     parse_full (unparse f) = Some (binl f) — the constraint ITSELF (no `opaque`), n-ary connectives
     left-nested; C07_print_parse_full_binary: = Some f on the binary fragment; C07_print_parse_full_eq:
     equal to f up to the flattening of Formula.__eq__.  Tied to parse_isla by the streams `full`, `atoms`.
   STILL PARTIAL / NOT PROVED:
   - print_parse outside wf_coreN: match expressions (bound elements, terminals, optionals) — parse_core
     returns None on `="..."` headers; `not` over non-predicates (Formula.__neg__ rewrites; a negated SMT
     atom is printed as the atom `(not ...)`, which the formula grammar reads as Negation + SMT atom:
     neither parse_core nor read_sexpr accepts it), atoms that are not of the form `(op ...)` (`true`,
     `false`, a lone variable — read_sexpr reads them, the lexer of parse_core does not produce them),
     the simplifications of __and__/__or__.  read_sexpr is untyped (Z3's sort check is not modelled). *)
From ISLA Require Import Unparse UnparseFacts UnparseMore UnparseHex UnparseEsc ParseCore ParseCoreFacts ParseCoreMore ParseCoreNary
     SmtRead SmtReadFacts.
From Coq Require Import String ZArith.
Open Scope N_scope.

(* fresh_variable never returns a name of the used set *)
Theorem C07_fresh_is_fresh : forall used base n, fresh_name used base = Some n -> ~ In n used.
Proof. exact fresh_is_fresh. Qed.
Print Assumptions C07_fresh_is_fresh.

Example C07_fresh_is_fresh_nonvacuous :
  fresh_name [lit "var"; lit "var_0"; lit "x"] (lit "var") = Some (lit "var_1").
Proof. exact fresh_example. Qed.
Print Assumptions C07_fresh_is_fresh_nonvacuous.

(* register_var_for_free_nonterminal avoids the used names and the registered NONTERMINALS *)
Theorem C07_register_is_fresh : forall used free nt n,
  lookup nt free = None -> register_free used free nt = Some n ->
  ~ In n used /\ ~ In n (map fst free).
Proof. exact register_is_fresh. Qed.
Print Assumptions C07_register_is_fresh.

Example C07_register_is_fresh_nonvacuous :
  lookup (lit "<var>") [] = None /\ register_free [lit "var"] [] (lit "<var>") = Some (lit "var_0").
Proof. exact register_example. Qed.
Print Assumptions C07_register_is_fresh_nonvacuous.

(* Full statement (FALSE): the variable made for a free nonterminal never carries the name of the
   global constant:  register_free used free nt = Some n -> n <> vname start_const.
   The used set omits the constant: a free <start> is named `start` (class K_shadow_const). *)
Theorem C07_fresh_avoids_constant_refuted :
  exists used free nt, register_free used free nt = Some (vname start_const).
Proof. exact fresh_avoids_constant_refuted. Qed.
Print Assumptions C07_fresh_avoids_constant_refuted.

(* Full statement (FALSE): ... -> ~ In n (map snd free)  (names of variables already made for other
   free nonterminals are avoided).  The union is taken with the dict's keys. *)
Theorem C07_fresh_avoids_registered_refuted :
  exists used free nt n, lookup nt free = None /\ register_free used free nt = Some n /\
                         In n (map snd free).
Proof. exact fresh_avoids_registered_refuted. Qed.
Print Assumptions C07_fresh_avoids_registered_refuted.

(* Full statement (FALSE): forall s rest, read_lit (str_lit s ++ rest) = Some (s, rest)
   — what smt_expr_to_str prints for a Z3 string value is read back (ANTLR STRING token,
   replace(\'' -> ''''), UTF-8, Z3 scanner, Z3 escapes) as the same value. *)
Theorem C07_escape_roundtrip_refuted_backslash :
  exists s, K_str_bs s = true /\ read_lit (str_lit s ++ [41]) = None.
Proof. exact escape_roundtrip_refuted_backslash. Qed.
Print Assumptions C07_escape_roundtrip_refuted_backslash.

Theorem C07_escape_roundtrip_refuted_nonascii :
  exists s v, K_str_hi s = true /\ read_lit (str_lit s ++ [41]) = Some (v, [41]) /\ v <> s.
Proof. exact escape_roundtrip_refuted_nonascii. Qed.
Print Assumptions C07_escape_roundtrip_refuted_nonascii.

(* proved part: plain strings (guard stronger than negb (K_str s); see header) *)
Theorem C07_escape_roundtrip_partial : forall s rest,
  plain s = true -> read_lit (str_lit s ++ rest) = Some (s, rest).
Proof. exact escape_roundtrip_plain. Qed.
Print Assumptions C07_escape_roundtrip_partial.

Example C07_escape_roundtrip_partial_nonvacuous :
  plain (lit "a := (1 ; <x>)") = true /\
  read_lit (str_lit (lit "a := (1 ; <x>)") ++ [41]) = Some (lit "a := (1 ; <x>)", [41]).
Proof. exact escape_roundtrip_plain_nonvacuous. Qed.
Print Assumptions C07_escape_roundtrip_partial_nonvacuous.

(* Full statement (FALSE): unparse_isla returns a text for every constraint:
   forall f, exists t, unparse_res f = Ok t.  A re.loop with fewer than two parameters
   (accepted by parse_isla as `((_ re.loop 1) r)` or `(re.loop r 1 2)`) raises IndexError. *)
Theorem C07_unparse_total_refuted : exists f, unparse_res f = Raise IndexErr.
Proof. exact unparse_total_refuted. Qed.
Print Assumptions C07_unparse_total_refuted.

Theorem C07_unparse_total_partial : forall f, K_loop_arity f = false -> unparse_res f = Ok (unparse f).
Proof. exact unparse_total_partial. Qed.
Print Assumptions C07_unparse_total_partial.

(* boundary values of the indexed operator are printed with both parameters (upper bound 0 included) *)
Example C07_unparse_total_partial_nonvacuous :
  K_loop_arity (FSmt (SApp KInRe (lit "str.in_re")
     [SVar (lit "x"); SApp (KLoop 1 0) (lit "re.loop") [SApp KOther (lit "str.to_re") [SStr (lit "a")]]], [v_x])) = false
  /\ smt_str (SApp (KLoop 1 0) (lit "re.loop") [SApp KOther (lit "str.to_re") [SStr (lit "a")]])
     = lit "((_ re.loop 1 0) (str.to_re ""a""))".
Proof. exact unparse_total_partial_nonvacuous. Qed.
Print Assumptions C07_unparse_total_partial_nonvacuous.

(* ---------- print / parse round trip on the core fragment ---------- *)
(* the layout disappears in the lexer: under ANY indentation (n blanks before the first line, m before
   the others) the lines of the unparser are read as the token list toks f, whatever follows *)
Theorem C07_lex_layout : forall f, wf_shapeb f = true ->
  forall n m rest, lexm (MW []) (join [10] (padfm n m (unp f)) ++ rest) = omap (toks f) (lexm (MW []) rest).
Proof. exact (fun f H n m => proj2 (lex_unp f H) n m). Qed.
Print Assumptions C07_lex_layout.

Theorem C07_print_parse : forall f, wf_core f -> parse_core (unparse f) = Some (opaque f).
Proof. exact print_parse. Qed.
Print Assumptions C07_print_parse.

Theorem C07_unparse_opaque : forall f, unparse (opaque f) = unparse f.
Proof. exact unparse_opaque. Qed.
Print Assumptions C07_unparse_opaque.

Theorem C07_print_parse_exact : forall f, wf_core f -> opaque f = f -> parse_core (unparse f) = Some f.
Proof. exact print_parse_exact. Qed.
Print Assumptions C07_print_parse_exact.

(* idempotence: unparse (parse_core (unparse f)) = unparse f *)
Theorem C07_unparse_parse_idempotent : forall f, wf_core f ->
  exists g, parse_core (unparse f) = Some g /\ unparse g = unparse f.
Proof. exact unparse_parse_idem. Qed.
Print Assumptions C07_unparse_parse_idempotent.

Example C07_print_parse_nonvacuous :
  wf_core pp_ex1 /\ parse_core (unparse pp_ex1) = Some (opaque pp_ex1) /\ opaque pp_ex1 <> pp_ex1 /\
  wf_core pp_ex2 /\ header pp_ex2 <> [] /\ parse_core (unparse pp_ex2) = Some (opaque pp_ex2) /\
  wf_core (opaque pp_ex2) /\ atoms_opaque (opaque pp_ex2).
Proof. exact print_parse_nonvacuous. Qed.
Print Assumptions C07_print_parse_nonvacuous.

(* ---------- string literals: quotes and control characters ---------- *)
Theorem C07_escape_roundtrip_safe_partial : forall s rest,
  safe s = true -> read_lit (str_lit s ++ rest) = Some (s, rest).
Proof. exact escape_roundtrip_safe. Qed.
Print Assumptions C07_escape_roundtrip_safe_partial.

(* the guard lies inside the complement of the recorded class, and contains `plain` *)
Theorem C07_safe_outside_K_str : forall s, safe s = true -> K_str s = false.
Proof. exact safe_not_K. Qed.
Print Assumptions C07_safe_outside_K_str.
Theorem C07_plain_is_safe : forall s, plain s = true -> safe s = true.
Proof. exact plain_safe. Qed.
Print Assumptions C07_plain_is_safe.

Example C07_escape_roundtrip_safe_nonvacuous :
  safe [97; 34; 98; 10; 9; 127; 34; 34] = true /\ plain [97; 34; 98; 10; 9; 127; 34; 34] = false /\
  read_lit (str_lit [97; 34; 98; 10; 9; 127; 34; 34] ++ [41]) = Some ([97; 34; 98; 10; 9; 127; 34; 34], [41]).
Proof. exact escape_roundtrip_safe_nonvacuous. Qed.
Print Assumptions C07_escape_roundtrip_safe_nonvacuous.

(* ---------- string literals: the exact guard of the recorded class ---------- *)
(* everything outside K_str round-trips: quotes, control characters, NUL, characters 256..0x2FFFF,
   a backslash before `u`, harmless backslashes *)
Theorem C07_escape_roundtrip : forall s rest,
  K_str s = false -> read_lit (str_lit s ++ rest) = Some (s, rest).
Proof. exact escape_roundtrip_exact. Qed.
Print Assumptions C07_escape_roundtrip.

(* the hex digits Z3_get_lstring prints are read back by zstring's brace escape, for every code point *)
Theorem C07_hex_roundtrip : forall c r, 0 < c -> c <= 196607 ->
  read_hex 5 0 (hex_N c ++ c_rb :: r) = Some (c, r).
Proof. exact hex_roundtrip. Qed.
Print Assumptions C07_hex_roundtrip.

Example C07_escape_roundtrip_nonvacuous :
  let s := [0; 92; 110; 92; 117; 123; 125; 34; 256; 92; 0; 196607; 92; 92; 97; 127; 92; 256] in
  K_str s = false /\ safe s = false /\ read_lit (str_lit s ++ [41]) = Some (s, [41]) /\
  str_lit s = lit """\u{0}\n\u{5c}u{}\""\u{100}\\u{0}\u{2ffff}\\a" ++ [127] ++ lit "\\u{100}""".
Proof. exact escape_roundtrip_exact_nonvacuous. Qed.
Print Assumptions C07_escape_roundtrip_nonvacuous.

(* ---------- print / parse round trip with n-ary connectives ---------- *)
Theorem C07_print_parse_nary : forall f, wf_coreN f -> parse_core (unparse f) = Some (opaque (binl f)).
Proof. exact print_parseN. Qed.
Print Assumptions C07_print_parse_nary.

(* left-nesting does not change the constraint up to Formula.__eq__ (flattened conjunctions/disjunctions) *)
Theorem C07_binl_flat : forall f, flat (binl f) = flat f.
Proof. exact flat_binl. Qed.
Print Assumptions C07_binl_flat.

Theorem C07_print_parse_nary_eq : forall f, wf_coreN f ->
  exists g, parse_core (unparse f) = Some g /\ flat g = flat (opaque f).
Proof. exact print_parseN_flat. Qed.
Print Assumptions C07_print_parse_nary_eq.

Theorem C07_binl_binary : forall f, wf_shapeb f = true -> binl f = f.
Proof. exact binl_id. Qed.
Print Assumptions C07_binl_binary.

(* the n-ary layout lemma: any indentation of the lines of an n-ary constraint lexes to toksN f *)
Theorem C07_lex_layout_nary : forall f, wf_shapeNb f = true ->
  forall n m rest, lexm (MW []) (join [10] (padfm n m (unp f)) ++ rest) = omap (toksN f) (lexm (MW []) rest).
Proof. exact (fun f H n m => proj2 (lex_unpN f H) n m). Qed.
Print Assumptions C07_lex_layout_nary.

Example C07_print_parse_nary_nonvacuous :
  wf_coreN ppN_ex /\ wf_shapeb ppN_ex = false /\ binl ppN_ex <> ppN_ex /\
  parse_core (unparse ppN_ex) = Some (opaque (binl ppN_ex)) /\ flat (opaque (binl ppN_ex)) = flat (opaque ppN_ex).
Proof. exact print_parseN_nonvacuous. Qed.
Print Assumptions C07_print_parse_nary_nonvacuous.

(* ---------- the inside of SMT atoms ---------- *)
(* what smt_expr_to_str prints for an s-expression of the class wf_smt is read back as that s-expression *)
Theorem C07_smt_print_read : forall e, wf_smt e -> read_sexpr (smt_str e) = Some e.
Proof. exact smt_print_read. Qed.
Print Assumptions C07_smt_print_read.

(* Full statement (FALSE): forall e, read_sexpr (smt_str e) = Some e.  The recorded class K_smt_op
   (sx_bad): `ite` is printed under its decl name `if`, `str.<` and a nested `not` are no operators of
   the ISLa grammar — the reader rejects the printed text, as parse_isla does. *)
Theorem C07_smt_print_read_refuted :
  exists e1 e2 e3, sx_bad true e1 = true /\ read_sexpr (smt_str e1) = None /\
                   sx_bad true e2 = true /\ read_sexpr (smt_str e2) = None /\
                   sx_bad true e3 = true /\ read_sexpr (smt_str e3) = None.
Proof. exact smt_print_read_refuted. Qed.
Print Assumptions C07_smt_print_read_refuted.

Example C07_smt_print_read_nonvacuous :
  let e := SApp KInRe (lit "str.in_re")
             [SVar (lit "x-1");
              SApp KReConcat (lit "re.++")
                [SApp (KLoop 1 0) (lit "re.loop") [SApp KOther (lit "str.to_re") [SStr [97; 34; 41; 92; 110; 0; 256]]];
                 SApp (KPower 3) (lit "re.^") [SApp KOther (lit "re.allchar") []];
                 SApp KOther (lit "re.range") [SStr (lit "a"); SStr (lit "(")]]] in
  let e2 := SApp KOther (lit "=") [SApp KStrToInt (lit "str.to_int") [SVar (lit "x-1")];
                                   SApp KOther (lit "-") [SInt (-12)%Z; SApp KOther (lit "str.len") [SVar (lit "y")]]] in
  wf_smt e /\ read_sexpr (smt_str e) = Some e /\ wf_smt e2 /\ read_sexpr (smt_str e2) = Some e2 /\
  smt_str e2 = lit "(= (str.to.int x-1) (- -12 (str.len y)))".
Proof. exact smt_print_read_nonvacuous. Qed.
Print Assumptions C07_smt_print_read_nonvacuous.

(* ---------- print / parse round trip with the atoms read ---------- *)
Theorem C07_print_parse_full : forall f, wf_coreN f -> atoms_wfb f = true -> parse_full (unparse f) = Some (binl f).
Proof. exact print_parse_full. Qed.
Print Assumptions C07_print_parse_full.

Theorem C07_print_parse_full_binary : forall f, wf_core f -> atoms_wfb f = true -> parse_full (unparse f) = Some f.
Proof. exact print_parse_full_binary. Qed.
Print Assumptions C07_print_parse_full_binary.

Theorem C07_print_parse_full_eq : forall f, wf_coreN f -> atoms_wfb f = true ->
  exists g, parse_full (unparse f) = Some g /\ flat g = flat f.
Proof. exact print_parse_full_flat. Qed.
Print Assumptions C07_print_parse_full_eq.

(* reading the atoms undoes `opaque` *)
Theorem C07_deopaque_opaque : forall g, atoms_wfb g = true -> deopaque (opaque g) = Some g.
Proof. exact deopaque_opaque. Qed.
Print Assumptions C07_deopaque_opaque.

Example C07_print_parse_full_nonvacuous :
  wf_coreN ppF_ex /\ atoms_wfb ppF_ex = true /\ parse_full (unparse ppF_ex) = Some (binl ppF_ex) /\
  binl ppF_ex <> ppF_ex /\ opaque (binl ppF_ex) <> binl ppF_ex /\
  wf_coreN ppN_ex /\ atoms_wfb ppN_ex = true /\ parse_full (unparse ppN_ex) = Some (binl ppN_ex).
Proof. exact print_parse_full_nonvacuous. Qed.
Print Assumptions C07_print_parse_full_nonvacuous.
