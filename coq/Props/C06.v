(* C06 — Three-valued verdicts on partial trees never contradict any completion.
   Only statements + `exact`; proofs are in Logic/Eval3Facts.v (and the extension files named below).
   Models: Logic/Eval.v (evaluate / evaluate_legacy, C03 builder), Logic/Eval3.v (might-match test,
   reachability, SMT atoms with tree substitutions).

   FULL STATEMENT (verdict_stable_stmt), FALSE on the faithful model and on the implementation:
     forall g t t' cst f v, wf_tree g t -> compl g t t' -> is_openT t' = false -> uniq_ids t' ->
       m3_evaluate g t cst f = Ok v -> v <> UU -> m3_evaluate g t' cst f = Ok v.
   Refuted by two classes (both replayed on isla.evaluator.evaluate on every run):
     K_selfrec_open  an open leaf of the quantified type that can reach itself is not a "potential match";
     K_nth_open      nth counts same-label nodes in pre-order, an earlier open leaf can add some.
   A third class is recorded on the implementation only (no model-level refutation: the search is
   not modelled, count_open3 = Raise NotImpl):
     K_count_insert  count's tree-insertion search answers FALSE although a completion reaches the target.
   Proved for all inputs: where UNKNOWN is forced (SMT atoms over open trees, universal quantifiers
   with a potential match; existentials with a potential match are never FALSE), what the
   might-match test without match expression means (qmm3_none_spec) with a sound and (under the
   evaluated closedness check) complete reachability, monotonicity of the three-valued connectives
   in the information order, completions keep every node at its path, and stability of the
   quantifier-free fragment over the six path predicates (C06_verdict_stable_partial).
   PROOF EXTENSION (Logic/Eval3Compl.v, Eval3Stable.v, Eval3Total.v; end of this file) — now FULL for
   the fragment "tree quantifiers without match expression + before/after/inside/same_position/
   different_position/direct_child/level + SMT atoms (atom3)", outside K_selfrec_open:
     C06_verdict_stable_wellscoped_partial   well-scoped formulas (wsb): a definite verdict on t IS the
                                             verdict on every identity-preserving closed completion
                                             (conclusion m3_evaluate g t' cst f = Ok v, no premise on t');
     C06_verdict_stable_quant_partial        any formula of the fragment (qfrag), with the premise that
                                             the evaluation on t' returns;  _mono_: information order;
     C06_eval_mono_generic + C06_atom3_mono  abstract atoms / the atom premise proved for atom3.
   (`_partial` in the names: the statement over ALL formulas is refuted above.)
   SECOND PROOF EXTENSION (Logic/Eval3Preds.v, Eval3Mexpr.v, Eval3Stable2.v; end of this file) — the
   tree-READING predicates and match expressions.  Fragment qfragP = qfrag + consecutive + nth +
   count(<variable>, <nonterminal>, <literal>) + tree quantifiers WITH match expressions:
     C06_verdict_stable_preds_partial   any formula of qfragP outside K_selfrec_open, K_cons_rel_open,
                                        K_nth_before, K_mexpr_open (returns-premise on t' as in _quant_partial);
                                        _mono_: information order.  FULL for count: whenever the model's
                                        count returns on t (i.e. outside the insertion regime
                                        K_count_insert, where the model raises NotImpl) its verdict is
                                        sound for every completion (C06_count_eval_compl), and
                                        C06_count_definite_spec says exactly when it is definite:
                                        target < 0, or more needles than the target, or no open leaf can
                                        still derive the needle (reachb).
     consecutive (code AS IT IS):       REFUTED - C06_consecutive_unstable_refuted: TRUE on `<a>bc`, FALSE
                                        on `11bc` through evaluate() (also on /repo): the recorded defect
                                        K_cons_rel of C04 (leaf paths relative to the common prefix) makes
                                        the verdict depend on the expansion of an open leaf.  PROVED:
                                        FALSE is stable without guard (C06_consecutive_false_stable); TRUE is
                                        stable iff-guarded by "no open leaf of the subtree at the common
                                        prefix has a relative path that is a proper list prefix of an
                                        argument" (C06_consecutive_compl_exact), implied by the static class
                                        guard cons_unsafe t = false (C06_consecutive_compl_partial).
     nth:                               C06_nth_compl_exact: same outcome on t and t' when no open leaf
                                        inside node_2 and before node_1 in pre-order can reach node_1's
                                        label; static class K_nth_before (an open leaf precedes a node
                                        whose label it can still produce) refines K_nth_open
                                        (C06_K_nth_before_refines); the recorded witness is in it.
     match expressions:                 K_mexpr_open = a node of t carrying the type of a quantifier with
                                        match expression is not a closed subtree.  Outside it
                                        (C06_quant_mexpr_mono): matches found on t are computed on closed
                                        subtrees and stay, a new match needs a new node of the type, and the
                                        open leaf above it is a potential match by the same-type /
                                        reachability branches of quantified_formula_might_match.
   STILL MISSING (correspondence + search only): match expressions INSIDE K_mexpr_open (a partially
   expanded node of the quantified type: needs completeness of can_extend_leaf_to_make_quantifier_match_parent),
   numeric quantifiers, count with a variable/tree as number argument.  The well-scoped form (no
   returns-premise, conclusion m3_evaluate g t' cst f = Ok v) is proved for qfrag
   (C06_verdict_stable_wellscoped_partial) and, NEW (Logic/Eval3Total2.v), for the extended fragment
   without match expressions (C06_verdict_stable_preds_wellscoped_partial: wsbx = wsb + consecutive +
   nth with a first node argument of nonterminal type + count(<variable>, <nonterminal>, <integer literal>));
   for quantifiers with match expressions and for formulas that are not well-scoped the
   returns-premise stays (UNKNOWN on t short-cuts bodies that raise on t'). *)
From ISLA Require Import Eval3 EvalFacts GrammarFacts FuzzFacts Eval3Facts Eval3Compl Eval3Stable Eval3Total Eval3Preds Eval3Mexpr Eval3Stable2 Eval3Total2.
From Coq Require Import ZArith.

(* ---- refutations of the full statement ---- *)
Theorem C06_verdict_stable_refuted : ~ verdict_stable_stmt.
Proof. exact verdict_stable_refuted. Qed.
Print Assumptions C06_verdict_stable_refuted.

Theorem C06_selfrec_unstable_refuted :
  wf_tree SR_g SR_t /\ compl SR_g SR_t SR_t' /\ is_openT SR_t' = false /\ uniq_ids SR_t' /\
  m3_evaluate SR_g SR_t W_cst3 SR_f = Ok TT /\ m3_evaluate SR_g SR_t' W_cst3 SR_f = Ok FF /\
  K_selfrec_open atom3 SR_g SR_t SR_f = true /\ K_nth_open atom3 SR_t SR_f = false.
Proof. exact selfrec_unstable_refuted. Qed.
Print Assumptions C06_selfrec_unstable_refuted.

Theorem C06_nth_unstable_refuted :
  wf_tree NTH_g NTH_t /\ compl NTH_g NTH_t NTH_t' /\ is_openT NTH_t' = false /\ uniq_ids NTH_t' /\
  m3_evaluate NTH_g NTH_t W_cst3 NTH_f = Ok TT /\ m3_evaluate NTH_g NTH_t' W_cst3 NTH_f = Ok FF /\
  K_nth_open atom3 NTH_t NTH_f = true.
Proof. exact nth_unstable_refuted. Qed.
Print Assumptions C06_nth_unstable_refuted.

(* ---- partial stability: quantifier-free formulas over before/after/inside/same_position/
        different_position/direct_child with variable arguments: the verdict (or exception) depends
        only on the PATHS bound to the variables, so it is the same on t and on every completion,
        whatever the might-match test answers ---- *)
Theorem C06_verdict_stable_partial :
  forall (A : Type) afree aopen aeval qmm qmm' reach' count_open ref ref' (f : formula A) a a',
    pfrag A f = true -> same_paths a a' ->
    eval_legacy A afree aopen aeval qmm reach' count_open ref f a
    = eval_legacy A afree aopen aeval qmm' reach' count_open ref' f a'.
Proof. exact pred_frag_stable. Qed.
Print Assumptions C06_verdict_stable_partial.

Example C06_partial_nonvacuous :
  pfrag atom3 (FAnd [FSPred s_before [PVar W_cst3; PVar W_cst3]; FNot (FSPred s_inside [PVar W_cst3; PVar W_cst3])]) = true
  /\ same_paths [(W_cst3, ([], SR_t))] [(W_cst3, ([], SR_t'))].
Proof. exact pfrag_example. Qed.
Print Assumptions C06_partial_nonvacuous.

Theorem C06_path_preds_tree_independent : forall ref ref' name args,
  path_only name = true -> spred_call ref name args = spred_call ref' name args.
Proof. exact path_preds_tree_independent. Qed.
Print Assumptions C06_path_preds_tree_independent.

(* ---- completions keep every node (open leaves included) at its path, with label and id ---- *)
Theorem C06_compl_keeps_nodes : forall g p t t' s,
  compl g t t' -> subtree t p = Some s ->
  exists s', subtree t' p = Some s' /\ lbl s' = lbl s /\ tid s' = tid s /\ compl g s s'.
Proof. exact compl_keeps_nodes. Qed.
Print Assumptions C06_compl_keeps_nodes.

Theorem C06_compl_is_completion : forall g t t', compl g t t' -> completion g t t'.
Proof. exact compl_completion. Qed.
Print Assumptions C06_compl_is_completion.

(* ---- UNKNOWN is forced where the outcome can still depend on open leaves ---- *)
Theorem C06_smt_open_unknown : forall (A : Type) afree aopen aeval qmm reach' count_open ref (x : A) a,
  aopen x = true -> eval_legacy A afree aopen aeval qmm reach' count_open ref (FSmt x) a = Ok UU.
Proof. exact smt_open_unknown. Qed.
Print Assumptions C06_smt_open_unknown.

Theorem C06_smt_unassigned_unknown : forall (A : Type) afree aopen aeval qmm reach' count_open ref (x : A) a v,
  In v (afree x) -> dict_mem a v = false ->
  eval_legacy A afree aopen aeval qmm reach' count_open ref (FSmt x) a = Ok UU.
Proof. exact smt_unassigned_unknown. Qed.
Print Assumptions C06_smt_unassigned_unknown.

Theorem C06_evaluate_smt_open_unknown : forall g T cst x,
  is_openT T = true -> existsb (var_eqb cst) (afree3 x) = true -> m3_evaluate g T cst (FSmt x) = Ok UU.
Proof. exact evaluate_smt_open_unknown. Qed.
Print Assumptions C06_evaluate_smt_open_unknown.

Example C06_smt_open_nonvacuous :
  is_openT SR_t = true /\
  existsb (var_eqb W_cst3) (afree3 (MkA3 (AStr false (SVar W_cst3) (SLit [120]%N)) [])) = true.
Proof. split; vm_compute; reflexivity. Qed.
Print Assumptions C06_smt_open_nonvacuous.

Theorem C06_forall_potential_unknown :
  forall (A : Type) afree aopen aeval qmm reach' count_open ref v s ip s0 m (b : formula A) a r,
    find_by_id ref s = Some (ip, s0) -> potential qmm ref v ip m a = true ->
    eval_legacy A afree aopen aeval qmm reach' count_open ref (FForall v (InTree s) m b) a = Ok r -> r = UU.
Proof. exact forall_potential_unknown. Qed.
Print Assumptions C06_forall_potential_unknown.

Theorem C06_exists_potential_not_false :
  forall (A : Type) afree aopen aeval qmm reach' count_open ref v s ip s0 m (b : formula A) a r,
    find_by_id ref s = Some (ip, s0) -> potential qmm ref v ip m a = true ->
    eval_legacy A afree aopen aeval qmm reach' count_open ref (FExists v (InTree s) m b) a = Ok r -> r <> FF.
Proof. exact exists_potential_not_false. Qed.
Print Assumptions C06_exists_potential_not_false.

(* ---- meaning of the might-match test without match expression; reachability ---- *)
Theorem C06_qmm_none_spec : forall g ref v ip leaf,
  qmm3 g ref [] v ip None leaf = true <->
  exists node, subtree ref leaf = Some node /\ prefix ip leaf /\ lbl node <> vtype v /\
               reachb g (lbl node) (vtype v) = true.
Proof. exact qmm3_none_spec. Qed.
Print Assumptions C06_qmm_none_spec.

Example C06_qmm_nonvacuous :
  qmm3 NTH_g NTH_t [] (MkVar VBound [118]%N [60;100;62]%N) [] None [0;0] = true.
Proof. exact qmm3_none_example. Qed.
Print Assumptions C06_qmm_nonvacuous.

Theorem C06_reachb_sound : forall g A B, reachb g A B = true -> reach g A B.
Proof. exact reachb_sound. Qed.
Print Assumptions C06_reachb_sound.

Theorem C06_reachb_complete : forall g A B,
  set_closedb g (reach_set g A) = true -> reach g A B -> reachb g A B = true.
Proof. exact reachb_complete. Qed.
Print Assumptions C06_reachb_complete.

Example C06_reach_nonvacuous :
  reach_closedb NTH_g = true /\ reachb NTH_g [60;105;116;101;109;62]%N [60;105;116;101;109;62]%N = true.
Proof. exact reach_closed_example. Qed.
Print Assumptions C06_reach_nonvacuous.

(* ---- the three-valued connectives are monotone in the information order (UU below TT, FF) ---- *)
Theorem C06_tv_all_mono : forall l l', Forall2 tv_le l l' -> tv_le (tv_all l) (tv_all l').
Proof. exact tv_all_mono. Qed.
Print Assumptions C06_tv_all_mono.

Theorem C06_tv_any_mono : forall l l', Forall2 tv_le l l' -> tv_le (tv_any l) (tv_any l').
Proof. exact tv_any_mono. Qed.
Print Assumptions C06_tv_any_mono.

Theorem C06_tv_not_mono : forall x y, tv_le x y -> tv_le (tv_not x) (tv_not y).
Proof. exact tv_not_mono. Qed.
Print Assumptions C06_tv_not_mono.

(* ==================================================================== *)
(* PROOF EXTENSION: formulas WITH tree quantifiers (Logic/Eval3Compl.v, Logic/Eval3Stable.v)  *)
(* ==================================================================== *)
(* ---- stability of definite verdicts, at the level of evaluate(): formulas with tree quantifiers
        (qfrag: no match expression, no numeric quantifier, no semantic predicate; structural
        predicates before/after/inside/same_position/different_position/direct_child/level; SMT atoms
        of the family atom3), quantified types are nonterminals, outside K_selfrec_open
        (K_nth_open and K_count_insert are excluded by the fragment: theorems below).
        Remaining premise: the evaluation on the completion returns (does not raise) — the model
        short-cuts ill-scoped bodies under UNKNOWN on t, so this cannot be dropped without a
        well-scopedness premise.  `_partial`: the full statement verdict_stable_stmt is refuted. ---- *)
Theorem C06_verdict_stable_quant_partial : forall g t t' cst f v v',
  compl g t t' -> is_openT t' = false -> uniq_ids t' -> reach_closedb g = true ->
  qfrag atom3 f = true -> forallb is_nt (qtypes atom3 f) = true -> K_selfrec_open atom3 g t f = false ->
  m3_evaluate g t cst f = Ok v -> v <> UU -> m3_evaluate g t' cst f = Ok v' -> v' = v.
Proof. exact verdict_stable_quant. Qed.
Print Assumptions C06_verdict_stable_quant_partial.

(* the same in the information order (UU below TT and FF), without `v <> UU` *)
Theorem C06_verdict_mono_quant_partial : forall g t t' cst f v v',
  compl g t t' -> is_openT t' = false -> uniq_ids t' -> reach_closedb g = true ->
  qfrag atom3 f = true -> forallb is_nt (qtypes atom3 f) = true -> K_selfrec_open atom3 g t f = false ->
  m3_evaluate g t cst f = Ok v -> m3_evaluate g t' cst f = Ok v' -> tv_le v v'.
Proof. exact verdict_mono_quant. Qed.
Print Assumptions C06_verdict_mono_quant_partial.

Example C06_verdict_stable_quant_nonvacuous :
  (compl NTH_g NTH_t NTH_t' /\ is_openT NTH_t' = false /\ uniq_ids NTH_t' /\ reach_closedb NTH_g = true /\
   qfrag atom3 QX_f1 = true /\ forallb is_nt (qtypes atom3 QX_f1) = true /\
   K_selfrec_open atom3 NTH_g NTH_t QX_f1 = false /\ is_openT NTH_t = true /\
   m3_evaluate NTH_g NTH_t W_cst3 QX_f1 = Ok TT /\ m3_evaluate NTH_g NTH_t' W_cst3 QX_f1 = Ok TT) /\
  (compl NTH_g QX_t NTH_t' /\
   qfrag atom3 QX_f2 = true /\ forallb is_nt (qtypes atom3 QX_f2) = true /\
   K_selfrec_open atom3 NTH_g QX_t QX_f2 = false /\ is_openT QX_t = true /\
   m3_evaluate NTH_g QX_t W_cst3 QX_f2 = Ok TT /\ m3_evaluate NTH_g NTH_t' W_cst3 QX_f2 = Ok TT).
Proof. exact verdict_stable_quant_example. Qed.
Print Assumptions C06_verdict_stable_quant_nonvacuous.

(* the fragment excludes the two other recorded classes *)
Theorem C06_qfrag_not_nth : forall A t f, qfrag A f = true -> K_nth_open A t f = false.
Proof. exact qfrag_not_nth. Qed.
Print Assumptions C06_qfrag_not_nth.

Theorem C06_qfrag_not_count_insert : forall A g t f, qfrag A f = true -> K_count_insert A g t f = false.
Proof. exact qfrag_not_count_insert. Qed.
Print Assumptions C06_qfrag_not_count_insert.

(* ---- the generic induction: abstract SMT atoms, might-match test of the model on t, ANY test on t'
        (t' is closed, it is never consulted); formulas related by frel (same shape; tree arguments
        and in-trees agree on their ids; atoms related by arel); assignments related by asg_rel (same
        variables and paths, every entry a node of its own reference tree).
        The ONLY premise about atoms: one SMT atom is monotone under related assignments. ---- *)
Theorem C06_eval_mono_generic :
  forall (A : Type) (afree : A -> list var) (aopen : A -> bool) (aeval : A -> asg -> res TV)
         (reach' : str -> str -> bool) (count_open : tree -> str -> Z -> res TV)
         (qmm' : var -> path -> option mexpr -> asg -> path -> bool)
         (arel : A -> A -> Prop) (g : grammar) (t t' : tree),
    compl g t t' -> is_openT t' = false -> uniq_ids t' -> reach_closedb g = true ->
    (forall (x x' : A) (a a' : asg) (r r' : TV),
       arel x x' -> asg_rel t t' a a' ->
       eval_legacy A afree aopen aeval (m3_qmm g t) reach' count_open t (FSmt x) a = Ok r ->
       eval_legacy A afree aopen aeval qmm' reach' count_open t' (FSmt x') a' = Ok r' -> tv_le r r') ->
    forall f f' : formula A, frel A arel f f' ->
    forall (a a' : asg) (r r' : TV),
      asg_rel t t' a a' -> Forall (qt_ok g t) (qtypes A f) ->
      eval_legacy A afree aopen aeval (m3_qmm g t) reach' count_open t f a = Ok r ->
      eval_legacy A afree aopen aeval qmm' reach' count_open t' f' a' = Ok r' -> tv_le r r'.
Proof. exact eval_mono. Qed.
Print Assumptions C06_eval_mono_generic.

(* ---- that premise is a THEOREM for the atom family atom3 (soundness of the atom evaluator under
        completion): a definite atom verdict is computed from closed assigned trees, which a
        completion leaves unchanged; an atom carrying an open substitution is UNKNOWN ---- *)
Theorem C06_atom3_mono :
  forall (g : grammar) (t t' : tree), compl g t t' ->
  forall (qmm qmm' : var -> path -> option mexpr -> asg -> path -> bool)
         (reach' : str -> str -> bool) (count_open : tree -> str -> Z -> res TV)
         (x x' : atom3) (a a' : asg) (r r' : TV),
    arel3 t t' x x' -> asg_rel t t' a a' ->
    eval_legacy atom3 afree3 aopen3 aeval3 qmm reach' count_open t (FSmt x) a = Ok r ->
    eval_legacy atom3 afree3 aopen3 aeval3 qmm' reach' count_open t' (FSmt x') a' = Ok r' -> tv_le r r'.
Proof. exact atom3_mono. Qed.
Print Assumptions C06_atom3_mono.

(* ---- key lemmas ---- *)
(* a node of t' that is not a node of t and carries a nonterminal label lies strictly below an open
   leaf of t whose label reaches that nonterminal (reachb: the model's computed reachability) *)
Theorem C06_compl_new_label : forall g t t' p s',
  reach_closedb g = true -> compl g t t' -> subtree t' p = Some s' -> subtree t p = None ->
  is_nt (lbl s') = true ->
  exists q r n, p = q ++ r /\ r <> [] /\ subtree t q = Some n /\ opn n = true /\ kids n = [] /\
                reachb g (lbl n) (lbl s') = true.
Proof. exact compl_new_label. Qed.
Print Assumptions C06_compl_new_label.

(* labels inside a valid derivation tree are grammar-reachable from its root *)
Theorem C06_wf_desc_reach : forall g r w s',
  wf_tree g w -> subtree w r = Some s' -> r <> [] -> is_nt (lbl s') = true -> reach g (lbl w) (lbl s').
Proof. exact wf_desc_reach. Qed.
Print Assumptions C06_wf_desc_reach.

(* without a potential match (and outside K_selfrec_open: qt_ok) the quantifier domain has the same
   positions in t and in t' *)
Theorem C06_quant_domain_stable : forall g t t' v ip si a,
  compl g t t' -> reach_closedb g = true -> subtree t ip = Some si -> qt_ok g t (vtype v) ->
  existsb (fun ps => m3_qmm g t v ip None a (fst ps)) (open_leaves t) = false ->
  map fst (filter (fun ps : path * tree => str_eqb (lbl (snd ps)) (vtype v)) (trie_items t' ip)) =
  map fst (filter (fun ps : path * tree => str_eqb (lbl (snd ps)) (vtype v)) (trie_items t ip)).
Proof. exact quant_domain_stable. Qed.
Print Assumptions C06_quant_domain_stable.

(* level only reads labels on the root paths of its two argument nodes: unchanged by completion *)
Theorem C06_level_check_compl : forall g t t', compl g t t' -> is_openT t' = false ->
  forall o nt p1 p2 s1 s2, subtree t p1 = Some s1 -> subtree t p2 = Some s2 ->
    level_check t o nt p1 p2 = level_check t' o nt p1 p2.
Proof. exact level_check_compl. Qed.
Print Assumptions C06_level_check_compl.

(* a closed tree is its only completion *)
Theorem C06_compl_closed_eq : forall g s s', compl g s s' -> is_openT s = false -> s' = s.
Proof. exact compl_closed_eq. Qed.
Print Assumptions C06_compl_closed_eq.

(* ==================================================================== *)
(* PROOF EXTENSION, part 2 (Logic/Eval3Total.v): the returns-premise is discharged for WELL-SCOPED
   formulas.  wsb u dom f: f is in the fragment, every predicate call has the arity/kinds of its
   predicate (two node arguments; level: op, nonterminal, two nodes, op one of EQ GE LE GT LT), every
   variable argument / in-variable is in scope (dom = the constant, then the enclosing quantified
   variables), tree arguments and in-trees are the instantiated constant (same id as u).        *)
(* ==================================================================== *)
(* on a closed tree the evaluation of a well-scoped formula mentioning the constant returns *)
Theorem C06_evaluate_closed_returns : forall g u cst f,
  is_openT u = false -> wsb atom3 u [cst] f = true ->
  existsb (var_eqb cst) (fvars atom3 afree3 f) = true ->
  exists r, m3_evaluate g u cst f = Ok r.
Proof. exact m3_evaluate_returns. Qed.
Print Assumptions C06_evaluate_closed_returns.

(* THE STABILITY THEOREM in the shape of the full statement (conclusion `m3_evaluate g t' cst f = Ok v`),
   for well-scoped formulas with tree quantifiers outside K_selfrec_open.  No premise about the
   evaluation on t' is left.  (`wf_tree g t` of the full statement is not needed.)
   `_partial` because the full statement (all formulas) is refuted. *)
Theorem C06_verdict_stable_wellscoped_partial : forall g t t' cst f v,
  compl g t t' -> is_openT t' = false -> uniq_ids t' -> reach_closedb g = true ->
  wsb atom3 t' [cst] f = true -> existsb (var_eqb cst) (fvars atom3 afree3 f) = true ->
  forallb is_nt (qtypes atom3 f) = true -> K_selfrec_open atom3 g t f = false ->
  m3_evaluate g t cst f = Ok v -> v <> UU -> m3_evaluate g t' cst f = Ok v.
Proof. exact verdict_stable_quant_ws. Qed.
Print Assumptions C06_verdict_stable_wellscoped_partial.

Theorem C06_wsb_qfrag : forall A u f dom, wsb A u dom f = true -> qfrag A f = true.
Proof. exact wsb_qfrag. Qed.
Print Assumptions C06_wsb_qfrag.

Example C06_wellscoped_nonvacuous :
  wsb atom3 NTH_t' [W_cst3] QX_f1 = true /\ existsb (var_eqb W_cst3) (fvars atom3 afree3 QX_f1) = true /\
  wsb atom3 NTH_t' [W_cst3] QX_f2 = true /\ existsb (var_eqb W_cst3) (fvars atom3 afree3 QX_f2) = true.
Proof. exact verdict_stable_quant_ws_example. Qed.
Print Assumptions C06_wellscoped_nonvacuous.

(* generic form of the no-raise theorem: abstract atoms whose SMT clause returns *)
Theorem C06_no_raise_generic :
  forall (A : Type) (afree : A -> list var) (aopen : A -> bool) (aeval : A -> asg -> res TV)
         (qmm : var -> path -> option mexpr -> asg -> path -> bool) (reach' : str -> str -> bool)
         (count_open : tree -> str -> Z -> res TV) (u : tree),
    is_openT u = false ->
    (forall x a, exists r, eval_legacy A afree aopen aeval qmm reach' count_open u (FSmt x) a = Ok r) ->
    forall f dom a, wsb A u dom f = true -> nodes_asg u a ->
      (forall v, In v dom -> dict_mem a v = true) ->
      exists r, eval_legacy A afree aopen aeval qmm reach' count_open u f a = Ok r.
Proof. exact no_raise. Qed.
Print Assumptions C06_no_raise_generic.

(* ==================================================================== *)
(* SECOND PROOF EXTENSION (Logic/Eval3Preds.v, Logic/Eval3Stable2.v): consecutive, nth, count      *)
(* ==================================================================== *)

(* ---- consecutive, the code as it is (Preds.consecutive = consecutive_gen false) ---- *)
(* FULL statement for consecutive (FALSE): for all g t t' p1 p2 b b', compl g t t' -> closed t' ->
   p1, p2 nodes of t -> consecutive t p1 p2 = Ok b -> consecutive t' p1 p2 = Ok b' -> b' = b.
   Refuted on the model and on isla.evaluator.evaluate (TRUE on `<a>bc`, FALSE on `11bc`); the
   arguments are in C04's class K_cons_rel; the repaired predicate answers false on both trees. *)
Theorem C06_consecutive_unstable_refuted :
  compl CW_g CW_t CW_t' /\ is_openT CW_t' = false /\ uniq_ids CW_t' /\ reach_closedb CW_g = true /\
  qfragP CW_f1 = true /\ qfragP CW_f2 = true /\
  m3_evaluate CW_g CW_t W_cst3 CW_f1 = Ok TT /\ m3_evaluate CW_g CW_t' W_cst3 CW_f1 = Ok FF /\
  m3_evaluate CW_g CW_t W_cst3 CW_f2 = Ok FF /\ m3_evaluate CW_g CW_t' W_cst3 CW_f2 = Ok TT /\
  K_cons_rel_open atom3 CW_t CW_f1 = true /\
  K_selfrec_open atom3 CW_g CW_t CW_f1 = false /\ K_nth_open atom3 CW_t CW_f1 = false /\
  K_count_insert atom3 CW_g CW_t CW_f1 = false /\
  K_cons_rel [0;0] [0;2] = true /\
  consecutive CW_t [0;0] [0;2] = Ok true /\ consecutive CW_t' [0;0] [0;2] = Ok false /\
  consecutive_fixed CW_t [0;0] [0;2] = Ok false /\ consecutive_fixed CW_t' [0;0] [0;2] = Ok false.
Proof. exact cons_unstable_refuted. Qed.
Print Assumptions C06_consecutive_unstable_refuted.

(* a FALSE of consecutive is stable under completion, no guard (a leaf between the arguments stays
   between them however it is expanded - also with the relative-path defect) *)
Theorem C06_consecutive_false_stable : forall g t t', compl g t t' -> is_openT t' = false ->
  forall p1 p2 s1 b', subtree t p1 = Some s1 ->
    consecutive t p1 p2 = Ok false -> consecutive t' p1 p2 = Ok b' -> b' = false.
Proof. exact consecutive_false_compl. Qed.
Print Assumptions C06_consecutive_false_stable.

(* exact dynamic guard: no open leaf of the subtree at the common prefix has a relative path that is a
   proper list prefix of an (absolute) argument path *)
Theorem C06_consecutive_compl_exact : forall g t t', compl g t t' -> is_openT t' = false ->
  forall p1 p2 s1 b b', subtree t p1 = Some s1 ->
    consecutive t p1 p2 = Ok b -> consecutive t' p1 p2 = Ok b' ->
    (b = false -> b' = false) /\
    ((forall q n, subtree t (lcp p1 p2 ++ q) = Some n -> opn n = true -> ~ sprefix q p1 /\ ~ sprefix q p2) -> b' = b).
Proof. exact consecutive_compl_gen. Qed.
Print Assumptions C06_consecutive_compl_exact.

(* static class guard *)
Theorem C06_consecutive_compl_partial : forall g t t', compl g t t' -> is_openT t' = false ->
  forall p1 p2 s1 s2 b b', subtree t p1 = Some s1 -> subtree t p2 = Some s2 -> cons_unsafe t = false ->
    consecutive t p1 p2 = Ok b -> consecutive t' p1 p2 = Ok b' -> b' = b.
Proof. exact consecutive_compl. Qed.
Print Assumptions C06_consecutive_compl_partial.

(* ---- nth ---- *)
(* exact dynamic guard: no open leaf inside node_2 and before node_1 (pre-order) can reach node_1's label;
   then is_nth has the same OUTCOME (value or exception) on t and t' *)
Theorem C06_nth_compl_exact : forall g t t', compl g t t' -> is_openT t' = false -> reach_closedb g = true ->
  forall n p1 p2 s1 s2, subtree t p1 = Some s1 -> subtree t p2 = Some s2 ->
    (forall q1, p1 = p2 ++ q1 ->
       forall o x, subtree t (p2 ++ o) = Some x -> opn x = true -> pre_lt o q1 -> reachb g (lbl x) (lbl s1) = false) ->
    is_nth t' n p1 p2 = is_nth t n p1 p2.
Proof. exact is_nth_compl. Qed.
Print Assumptions C06_nth_compl_exact.

Theorem C06_nth_compl_partial : forall g t t', compl g t t' -> is_openT t' = false -> reach_closedb g = true ->
  forall n p1 p2 s1 s2, subtree t p1 = Some s1 -> subtree t p2 = Some s2 -> nth_unsafe g t = false ->
    is_nth t' n p1 p2 = is_nth t n p1 p2.
Proof. exact is_nth_compl_static. Qed.
Print Assumptions C06_nth_compl_partial.

(* what nth computes: the number of nodes with node_1's label at or before node_1 in pre-order *)
Theorem C06_nth_scan_spec : forall L n p1 p2 q1, p1 = p2 ++ q1 -> forall l idx,
  Sorted.StronglySorted pre_lt (map fst l) -> (exists s1, In (q1, s1) l /\ lbl s1 = L) ->
  nth_scan l L n idx p1 p2 = Nat.eqb (idx + length (filter (selQ (cntQ L q1)) l)) n.
Proof. exact nth_scan_count. Qed.
Print Assumptions C06_nth_scan_spec.

(* the new class refines the recorded one; the recorded witness lies in it *)
Theorem C06_K_nth_before_refines : forall A g t f, K_nth_before A g t f = true -> K_nth_open A t f = true.
Proof. exact K_nth_before_open. Qed.
Print Assumptions C06_K_nth_before_refines.

Example C06_nth_witness_in_K_nth_before : K_nth_before atom3 NTH_g NTH_t NTH_f = true.
Proof. exact nth_witness_in_K_nth_before. Qed.
Print Assumptions C06_nth_witness_in_K_nth_before.

(* ---- count ---- *)
(* when the model's count (= isla_predicates.count outside its tree-insertion search) is definite,
   UNKNOWN, or in the unmodelled insertion regime (Raise NotImpl; for the constant as in-tree this is
   the class K_count_insert) *)
Theorem C06_count_definite_spec : forall g s needle num target, py_int num = Some target ->
  let n := Z.of_nat (count_nodes needle s) in
  ((exists b, count_eval (reachb g) count_open3 s needle num = Ok (tv_of_bool b)) <->
   (target < 0 \/ target < n \/ more_needles g s needle = false)%Z) /\
  (count_eval (reachb g) count_open3 s needle num = Ok UU <->
   (0 <= target /\ more_needles g s needle = true /\ n = target)%Z) /\
  ((exists e, count_eval (reachb g) count_open3 s needle num = Raise e) <->
   (more_needles g s needle = true /\ n < target)%Z).
Proof. exact count_definite_spec. Qed.
Print Assumptions C06_count_definite_spec.

(* every verdict the model's count returns on s is sound for every closed completion s' *)
Theorem C06_count_eval_compl : forall g, reach_closedb g = true ->
  forall s s' needle num r r', compl g s s' -> is_openT s' = false -> is_nt needle = true ->
    count_eval (reachb g) count_open3 s needle num = Ok r ->
    count_eval (reachb g) count_open3 s' needle num = Ok r' -> tv_le r r'.
Proof. exact count_eval_compl. Qed.
Print Assumptions C06_count_eval_compl.

(* ---- the stability theorem for the extended fragment ---- *)
Theorem C06_qfrag_in_qfragP : forall f, qfrag atom3 f = true -> qfragP f = true.
Proof. exact qfrag_in_qfragP. Qed.
Print Assumptions C06_qfrag_in_qfragP.

Theorem C06_verdict_mono_preds_partial : forall g t t' cst f v v',
  compl g t t' -> is_openT t' = false -> uniq_ids t' -> reach_closedb g = true ->
  qfragP f = true -> forallb is_nt (qtypes atom3 f) = true ->
  K_selfrec_open atom3 g t f = false -> K_cons_rel_open atom3 t f = false -> K_nth_before atom3 g t f = false ->
  K_mexpr_open atom3 t f = false ->
  m3_evaluate g t cst f = Ok v -> m3_evaluate g t' cst f = Ok v' -> tv_le v v'.
Proof. exact verdict_mono_preds. Qed.
Print Assumptions C06_verdict_mono_preds_partial.

(* `_partial`: the statement over all formulas is refuted; here: formulas of qfragP (tree quantifiers
   with or without match expression; before/after/inside/same_position/different_position/direct_child/level/
   consecutive/nth; count(<variable>, <nonterminal>, <literal>); SMT atoms atom3) outside the four
   classes; premise that the evaluation on t' returns. *)
Theorem C06_verdict_stable_preds_partial : forall g t t' cst f v v',
  compl g t t' -> is_openT t' = false -> uniq_ids t' -> reach_closedb g = true ->
  qfragP f = true -> forallb is_nt (qtypes atom3 f) = true ->
  K_selfrec_open atom3 g t f = false -> K_cons_rel_open atom3 t f = false -> K_nth_before atom3 g t f = false ->
  K_mexpr_open atom3 t f = false ->
  m3_evaluate g t cst f = Ok v -> v <> UU -> m3_evaluate g t' cst f = Ok v' -> v' = v.
Proof. exact verdict_stable_preds. Qed.
Print Assumptions C06_verdict_stable_preds_partial.

(* generic form: abstract atoms, one premise (a single SMT atom is monotone under related assignments) *)
Theorem C06_eval_mono_preds_generic :
  forall (A : Type) (afree : A -> list var) (aopen : A -> bool) (aeval : A -> asg -> res TV)
         (qmm' : var -> path -> option mexpr -> asg -> path -> bool) (arel : A -> A -> Prop) (okc okn : bool)
         (g : grammar) (t t' : tree),
    compl g t t' -> is_openT t' = false -> uniq_ids t' -> reach_closedb g = true ->
    (okc = true -> cons_unsafe t = false) -> (okn = true -> nth_unsafe g t = false) ->
    (forall x x' a a' r r', arel x x' -> asg_rel t t' a a' ->
       eval_legacy A afree aopen aeval (m3_qmm g t) (reachb g) count_open3 t (FSmt x) a = Ok r ->
       eval_legacy A afree aopen aeval qmm' (reachb g) count_open3 t' (FSmt x') a' = Ok r' -> tv_le r r') ->
    forall f f', frel2 A okc okn g arel f f' -> forall a a' r r',
      asg_rel t t' a a' -> Forall (qt_ok g t) (qtypes A f) -> Forall (mx_ok t) (mtypes A f) ->
      eval_legacy A afree aopen aeval (m3_qmm g t) (reachb g) count_open3 t f a = Ok r ->
      eval_legacy A afree aopen aeval qmm' (reachb g) count_open3 t' f' a' = Ok r' -> tv_le r r'.
Proof. exact eval_mono2. Qed.
Print Assumptions C06_eval_mono_preds_generic.

(* the quantifier lemma for match expressions (class guard mx_ok = not K_mexpr_open for the type) *)
Theorem C06_quant_mexpr_mono :
  forall (qmm' : var -> path -> option mexpr -> asg -> path -> bool) (g : grammar) (t t' : tree),
    compl g t t' -> is_openT t' = false -> uniq_ids t' -> reach_closedb g = true ->
    forall is_forall v i i' me (body body' : asg -> res TV) a a' r r',
      irel i i' -> asg_rel t t' a a' ->
      (is_nt (vtype v) = true /\ forall p n, subtree t p = Some n -> lbl n = vtype v -> is_openT n = false) ->
      (forall na na' x x', asg_rel t t' na na' -> body na = Ok x -> body' na' = Ok x' -> tv_le x x') ->
      eval_quant (m3_qmm g t) t is_forall v i (Some me) body a = Ok r ->
      eval_quant qmm' t' is_forall v i' (Some me) body' a' = Ok r' -> tv_le r r'.
Proof. exact quant_mono_mx. Qed.
Print Assumptions C06_quant_mexpr_mono.

Theorem C06_no_mexpr_not_K : forall A t f, has_mexpr A f = false -> K_mexpr_open A t f = false.
Proof. exact no_mexpr_not_K. Qed.
Print Assumptions C06_no_mexpr_not_K.

Example C06_verdict_stable_mexpr_nonvacuous :
  (compl MX_g MX_t MX_t' /\ is_openT MX_t' = false /\ uniq_ids MX_t' /\ reach_closedb MX_g = true /\ is_openT MX_t = true /\
   qfragP MX_f1 = true /\ has_mexpr atom3 MX_f1 = true /\ forallb is_nt (qtypes atom3 MX_f1) = true /\
   K_selfrec_open atom3 MX_g MX_t MX_f1 = false /\ K_cons_rel_open atom3 MX_t MX_f1 = false /\
   K_nth_before atom3 MX_g MX_t MX_f1 = false /\ K_mexpr_open atom3 MX_t MX_f1 = false /\
   m3_evaluate MX_g MX_t W_cst3 MX_f1 = Ok TT /\ m3_evaluate MX_g MX_t' W_cst3 MX_f1 = Ok TT /\
   qfragP MX_f2 = true /\ K_mexpr_open atom3 MX_t MX_f2 = false /\
   m3_evaluate MX_g MX_t W_cst3 MX_f2 = Ok FF /\ m3_evaluate MX_g MX_t' W_cst3 MX_f2 = Ok FF) /\
  (compl MY_g MY_t MY_t' /\ is_openT MY_t' = false /\ uniq_ids MY_t' /\ reach_closedb MY_g = true /\ is_openT MY_t = true /\
   qfragP MY_f1 = true /\ has_mexpr atom3 MY_f1 = true /\ forallb is_nt (qtypes atom3 MY_f1) = true /\
   K_selfrec_open atom3 MY_g MY_t MY_f1 = false /\ K_cons_rel_open atom3 MY_t MY_f1 = false /\
   K_nth_before atom3 MY_g MY_t MY_f1 = false /\ K_mexpr_open atom3 MY_t MY_f1 = false /\
   m3_evaluate MY_g MY_t W_cst3 MY_f1 = Ok TT /\ m3_evaluate MY_g MY_t' W_cst3 MY_f1 = Ok TT).
Proof. exact verdict_stable_mexpr_example. Qed.
Print Assumptions C06_verdict_stable_mexpr_nonvacuous.

(* non-vacuity: every premise of C06_verdict_stable_preds_partial holds with a definite verdict on an open tree
   - consecutive with an open leaf between the arguments (`a<b>c`), nth with an open leaf that can still
   produce the counted label but only AFTER every node (`1,<item>`: in K_nth_open, not in K_nth_before),
   count with more needles possible but already above the target, nth and count on `(1,2),<d>` *)
Example C06_verdict_stable_preds_nonvacuous :
  (compl CX_g CX_t CX_t' /\ is_openT CX_t' = false /\ uniq_ids CX_t' /\ reach_closedb CX_g = true /\ is_openT CX_t = true /\
   qfragP CX_f1 = true /\ forallb is_nt (qtypes atom3 CX_f1) = true /\ K_selfrec_open atom3 CX_g CX_t CX_f1 = false /\
   K_cons_rel_open atom3 CX_t CX_f1 = false /\ K_nth_before atom3 CX_g CX_t CX_f1 = false /\
   mem_str s_consecutive (spred_names atom3 CX_f1) = true /\
   m3_evaluate CX_g CX_t W_cst3 CX_f1 = Ok TT /\ m3_evaluate CX_g CX_t' W_cst3 CX_f1 = Ok TT /\
   m3_evaluate CX_g CX_t W_cst3 CX_f2 = Ok FF /\ m3_evaluate CX_g CX_t' W_cst3 CX_f2 = Ok FF) /\
  (compl NX_g NX_t NX_t' /\ is_openT NX_t' = false /\ uniq_ids NX_t' /\ reach_closedb NX_g = true /\ is_openT NX_t = true /\
   qfragP NX_f1 = true /\ forallb is_nt (qtypes atom3 NX_f1) = true /\ K_selfrec_open atom3 NX_g NX_t NX_f1 = false /\
   K_cons_rel_open atom3 NX_t NX_f1 = false /\ K_nth_before atom3 NX_g NX_t NX_f1 = false /\
   K_nth_open atom3 NX_t NX_f1 = true /\
   m3_evaluate NX_g NX_t W_cst3 NX_f1 = Ok TT /\ m3_evaluate NX_g NX_t' W_cst3 NX_f1 = Ok TT) /\
  (qfragP NX_f5 = true /\ more_needles NX_g NX_t [60;108;105;115;116;62]%N = true /\
   K_count_insert atom3 NX_g NX_t NX_f5 = false /\
   m3_evaluate NX_g NX_t W_cst3 NX_f5 = Ok TT /\ m3_evaluate NX_g NX_t' W_cst3 NX_f5 = Ok TT) /\
  (compl NY_g NY_t NY_t' /\ is_openT NY_t = true /\ nth_unsafe NY_g NY_t = false /\
   qfragP NY_f1 = true /\ qfragP NY_f2 = true /\ qfragP NY_f3 = true /\
   more_needles NY_g NY_t [60;105;116;101;109;62]%N = false /\
   m3_evaluate NY_g NY_t W_cst3 NY_f1 = Ok TT /\ m3_evaluate NY_g NY_t' W_cst3 NY_f1 = Ok TT /\
   m3_evaluate NY_g NY_t W_cst3 NY_f2 = Ok TT /\ m3_evaluate NY_g NY_t' W_cst3 NY_f2 = Ok TT /\
   m3_evaluate NY_g NY_t W_cst3 NY_f3 = Ok TT /\ m3_evaluate NY_g NY_t' W_cst3 NY_f3 = Ok TT).
Proof. exact verdict_stable_preds_example. Qed.
Print Assumptions C06_verdict_stable_preds_nonvacuous.

Example C06_preds_examples_not_K_mexpr :
  K_mexpr_open atom3 CX_t CX_f1 = false /\ K_mexpr_open atom3 CX_t CX_f2 = false /\
  K_mexpr_open atom3 NX_t NX_f1 = false /\ K_mexpr_open atom3 NX_t NX_f5 = false /\
  K_mexpr_open atom3 NY_t NY_f1 = false /\ K_mexpr_open atom3 NY_t NY_f2 = false /\ K_mexpr_open atom3 NY_t NY_f3 = false.
Proof. exact preds_examples_not_K_mexpr. Qed.
Print Assumptions C06_preds_examples_not_K_mexpr.

(* ==================================================================== *)
(* SECOND PROOF EXTENSION, part 2 (Logic/Eval3Total2.v): the returns-premise is discharged for
   well-scoped formulas of the extended fragment without match expressions.  wsbx true u dom f:
   Eval3Total.wsb plus consecutive(a1, a2) with node arguments in scope; nth(k, a1, a2) with k a decimal
   literal, node arguments in scope and a1 of nonterminal type (is_nth asserts it); count(x, needle, num)
   with x a variable in scope, needle a nonterminal, num an integer literal.                      *)
(* ==================================================================== *)
Theorem C06_evaluate_closed_returns_preds : forall g u cst f,
  is_openT u = false -> lbl u = vtype cst -> wsbx atom3 true u [cst] f = true ->
  existsb (var_eqb cst) (fvars atom3 afree3 f) = true ->
  exists r, m3_evaluate g u cst f = Ok r.
Proof. exact m3_evaluate_returns2. Qed.
Print Assumptions C06_evaluate_closed_returns_preds.

(* the shape of the full statement: no premise about the evaluation on t'.  `lbl t' = vtype cst`: the
   constant has the type of the root (Constant("start", "<start>")). *)
Theorem C06_verdict_stable_preds_wellscoped_partial : forall g t t' cst f v,
  compl g t t' -> is_openT t' = false -> uniq_ids t' -> reach_closedb g = true ->
  lbl t' = vtype cst -> wsbx atom3 true t' [cst] f = true -> existsb (var_eqb cst) (fvars atom3 afree3 f) = true ->
  forallb is_nt (qtypes atom3 f) = true ->
  K_selfrec_open atom3 g t f = false -> K_cons_rel_open atom3 t f = false -> K_nth_before atom3 g t f = false ->
  m3_evaluate g t cst f = Ok v -> v <> UU -> m3_evaluate g t' cst f = Ok v.
Proof. exact verdict_stable_preds_ws. Qed.
Print Assumptions C06_verdict_stable_preds_wellscoped_partial.

Theorem C06_wsb_wsbx : forall src u f dom, wsb atom3 u dom f = true -> wsbx atom3 src u dom f = true.
Proof. exact wsb_wsbx. Qed.
Print Assumptions C06_wsb_wsbx.

Theorem C06_wsbx_qfragP : forall u f dom, wsbx atom3 true u dom f = true -> qfragP f = true.
Proof. exact wsbx_qfragP. Qed.
Print Assumptions C06_wsbx_qfragP.

Example C06_preds_wellscoped_nonvacuous :
  (lbl CX_t' = vtype W_cst3 /\ wsbx atom3 true CX_t' [W_cst3] CX_f1 = true /\ wsbx atom3 true CX_t' [W_cst3] CX_f2 = true /\
   existsb (var_eqb W_cst3) (fvars atom3 afree3 CX_f1) = true) /\
  (lbl NX_t' = vtype W_cst3 /\ wsbx atom3 true NX_t' [W_cst3] NX_f1 = true /\ wsbx atom3 true NX_t' [W_cst3] NX_f5 = true /\
   existsb (var_eqb W_cst3) (fvars atom3 afree3 NX_f1) = true /\ existsb (var_eqb W_cst3) (fvars atom3 afree3 NX_f5) = true) /\
  (lbl NY_t' = vtype W_cst3 /\ wsbx atom3 true NY_t' [W_cst3] NY_f1 = true /\ wsbx atom3 true NY_t' [W_cst3] NY_f2 = true /\
   wsbx atom3 true NY_t' [W_cst3] NY_f3 = true).
Proof. exact verdict_stable_preds_ws_example. Qed.
Print Assumptions C06_preds_wellscoped_nonvacuous.
