(* C08 — Simplified syntax means exactly its documented core translation.
   Only statements + `exact`; proofs are in Logic/SugarFacts.v, (wave 3: SugarUniq/Walk/Compose/Ghost/Addm/ComposeX.v), Logic/SugarMore.v (coincidence lemma, recursive
   push-in, `..` axis), Logic/SugarXPath.v (XPath child axis at the level of `ev`), Logic/SugarTotal.v (totality of
   the push-in), Logic/SugarClose.v (the closure loop of close_over_free_nonterminals).  Model: Logic/Sugar.v (elaboration of ISLaEmitter); `ev` is the abstract two-valued evaluation over
   arbitrary quantifier domains (possibly empty).

   FULL STATEMENT (not provable for the faithful model; kept visible):
     forall g s f, elab g s = Ok f -> forall rho, ev rho f = ev rho (elab_doc s)
   where elab_doc wraps the whole formula in `forall` for every free nonterminal.  It is REFUTED
   (C08_pushin_refuted, C08_fresh_clash_refuted; three more classes are recorded from the correspondence:
   K_dotdot_polarity, K_root_also_free, K_xpath_dup, see design_notes/C08.md).  What is proved instead:

   FULL (all formulas, environments, domains): derived connectives, negation, and/or smart constructors; the
     coincidence lemma C08_ev_coincidence (meaning depends only on `fv`, for formulas in which no quantifier ranges
     over its own bound variable) and C08_indep_syntactic (the syntactic independence test of the push-in implies
     the semantic premise `indep` of the one-step theorems); totality of the push-in with the model's fuel
     (C08_pushin_total, C08_close_fnt_total: no assertion failure, no fuel exhaustion).
   PARTIAL, now for the ACTUAL recursive function push_in (all fuels, all nesting of and/or/forall):
     C08_close_fnt_sound_partial — the whole loop of close_over_free_nonterminals (no XPath registered) == the
       documented closure `forall v1 in start: ... forall vk in start: f` around the WHOLE formula, outside
       K_pushin_empty (and with pairwise distinct, not re-bound closure variables: violated only by K_fresh_clash);
     C08_pushin_sound_partial  — push_in v inv f  ==  forall v in inv: f   outside K_pushin_empty (and outside
       K_pushin_rebind: v / inv bound again inside f, which only name clashes K_fresh_clash produce);
     C08_dotdot_forall_partial — `x..<T>` with x bound by a universal quantifier in positive position ==
       `forall <T> y in x` directly inside that quantifier (other polarities: recorded class K_dotdot_polarity);
     C08_xpath_child_forall_partial / _exists_partial — `x.<T>[pos]` on a universally / existentially quantified x,
       as rewritten by AddMexprTransformer over the alternatives of expand_mexpr_trees, == "the pos-th <T> child of x"
       under a concrete tree semantics of one-level match expressions (guards: no empty-string symbol in the
       alternatives of x's type, the nodes ranged over are expanded by grammar alternatives).
   END-TO-END (wave 3; Logic/SugarUniq.v, SugarWalk.v, SugarCompose.v, SugarGhost.v, SugarAddm.v, SugarComposeX.v):
     C08_sugar_core_noxpath_partial — for the WHOLE pipeline `elab` (walk, ensure_unique_bound_variables, closure loop,
       close_over_xpath_expressions, second uniqueness pass, final free-variable check) on the XPath-free fragment:
       elab g s = Ok c -> ev c = ev (elab_doc_nox s), elab_doc_nox = plain documented translation (walk_doc) + closure
       of the whole formula; boolean guard sugar_guard_nox s (evaluated by the harness on every case) + semantic
       premise "no closure variable has an empty domain" (= not K_pushin_empty);
     C08_sugar_core_xpath1_partial — the same with ONE XPath expression (any number of child steps) rooted at a
       quantified variable; documented side = quantifier of the first variable replaced by the plain conjunction /
       disjunction of its match-expression copies (C08_addm_sem, FULL: AddMexprTransformer == evaluation over the
       concatenated match-expression domains);
     C08_elab_total_noxpath_partial — inside the guard the pipeline returns a formula or raises the SyntaxError of the
       final "Unbound variables" check (nothing else);
     C08_uniq_nodup_sound_partial — ensure_unique_bound_variables is total and meaning-preserving when binder names
       are pairwise distinct;  C08_walk_doc_equiv (FULL) — listener walk == plain documented translation.
   ALPHA-RENAMING (wave 4; Logic/SugarFresh.v, SugarAlpha.v, SugarAlpha2.v, SugarAlpha3.v, SugarCompose2.v, SugarComposeX2.v):
     C08_uniq_sound_partial — ensure_unique_bound_variables WITH renaming (blind substitute_variables, fresh_vars over the
       threaded used-name set) preserves the meaning of every formula without shadowing whose free BoundVariables are
       protected from the invented names (guard uniq_ok; new premise: quantifier domains do not depend on the names of
       bound variables, C08_dom_ren_witnesses); C08_sub_capture_free (substitution lemma), C08_fresh_vars_fresh,
       C08_uniq_total (FULL: the pass returns with the model's fuel).  The unguarded statement is REFUTED:
       C08_uniq_capture_refuted (new defect class K_uniq_capture: the pass starts with an empty used-name set and renames a
       binder to the name already invented for a free nonterminal).
     C08_sugar_core_noxpath2_partial / C08_sugar_core_xpath1b_partial / C08_elab_total_noxpath2_partial — the end-to-end
       theorems with the condition "binder names pairwise distinct" REPLACED by "pairwise distinct or uniq_ok" (guards
       sugar_guard_nox2, sugar_guard_xp1b; harness guard sugar_guard2): repeated user names, xor/iff over quantified
       operands, XPath on a type with >= 2 alternatives and a quantified body are now inside.
   STILL MISSING: XPath expressions rooted at a free nonterminal (close_groups), several XPath expressions, `..` in the
     end-to-end statement and below conjunctions (push_in_formulas) [gap (2) of wave 4: not done]; discharge of the final
     free-variable check (needs fv-monotonicity of every stage AND a surface condition "user variables are used inside
     the scope of their quantifier": without it the SyntaxError is the correct outcome) [gap (3): not done]; renaming in
     the FIRST pass when an XPath expression is present (the documented side finds the first variable by name); an
     independent (state-free) specification of which variable an occurrence of <T> denotes. *)
From Coq Require Import List NArith Bool.
Import ListNotations.
From ISLA Require Import Str Outcome Tree Grammar Formula Sugar SugarFacts SugarMore SugarXPath SugarTotal SugarClose SugarUniq SugarWalk SugarCompose SugarGhost SugarAddm SugarComposeX SugarFresh SugarAlpha SugarAlpha2 SugarAlpha3 SugarCompose2 SugarComposeX2 SugarFv.

(* implies / iff / xor, as built by the parser from the smart constructors, have their truth-table meaning *)
Theorem C08_derived_connectives :
  forall (D : Type) aev pev (dom : D -> var -> option mexpr -> list (list (var * D))) idom tval,
  (forall d v m k, mexpr_eqb m k = true -> dom d v m = dom d v k) ->
  forall l r rho,
    ev D aev pev dom idom tval rho (f_imp l r) = implb (ev D aev pev dom idom tval rho l) (ev D aev pev dom idom tval rho r) /\
    ev D aev pev dom idom tval rho (f_iff l r) = Bool.eqb (ev D aev pev dom idom tval rho l) (ev D aev pev dom idom tval rho r) /\
    ev D aev pev dom idom tval rho (f_xor l r) = xorb (ev D aev pev dom idom tval rho l) (ev D aev pev dom idom tval rho r).
Proof. exact derived_connectives. Qed.
Print Assumptions C08_derived_connectives.

(* `not`: Formula.__neg__ (De Morgan through n-ary and/or, quantifier dualisation, SMT negation) is negation *)
Theorem C08_negation :
  forall (D : Type) aev pev (dom : D -> var -> option mexpr -> list (list (var * D))) idom tval,
  (forall d v m k, mexpr_eqb m k = true -> dom d v m = dom d v k) ->
  forall f rho, ev D aev pev dom idom tval rho (f_neg f) = negb (ev D aev pev dom idom tval rho f).
Proof. exact f_neg_sound. Qed.
Print Assumptions C08_negation.

(* `and` / `or` with all shortcuts of Formula.__and__ / __or__ (equal operands compared up to flattening,
   true/false literals, A and not A) *)
Theorem C08_and_or :
  forall (D : Type) aev pev (dom : D -> var -> option mexpr -> list (list (var * D))) idom tval,
  (forall d v m k, mexpr_eqb m k = true -> dom d v m = dom d v k) ->
  forall rho a b,
    ev D aev pev dom idom tval rho (f_and a b) = ev D aev pev dom idom tval rho a && ev D aev pev dom idom tval rho b /\
    ev D aev pev dom idom tval rho (f_or a b) = ev D aev pev dom idom tval rho a || ev D aev pev dom idom tval rho b.
Proof. intros D aev pev dom idom tval H rho a b. split; [apply f_and_sound|apply f_or_sound]; exact H. Qed.
Print Assumptions C08_and_or.

(* push-in of the universal closure into a conjunction == documented closure around the whole conjunction,
   PARTIAL: under the guard that excludes exactly the class K_pushin_empty, and for the one-step shape
   I /\ (forall v. /\O) that univ_close_over_var_push_in produces (in-variable not bound inside); independence of
   the conjuncts I is a semantic premise (missing: the coincidence lemma linking it to the syntactic test
   `isnil (vinter qfd (fv e))`, and the induction over the recursion of push_in). *)
Theorem C08_pushin_and_partial :
  forall (D : Type) aev pev (dom : D -> var -> option mexpr -> list (list (var * D))) idom tval rho v i m (I O : list cform),
    Forall (indep D aev pev dom idom tval rho v i m) I ->
    K_pushin_empty D dom tval rho v i m = false ->
    ev D aev pev dom idom tval rho (FAnd (I ++ [FForall v i m (FAnd O)])) =
    ev D aev pev dom idom tval rho (FForall v i m (FAnd (I ++ O))).
Proof. exact pushin_and_sound. Qed.
Print Assumptions C08_pushin_and_partial.

(* disjunctions: harmless for every domain, also the empty one *)
Theorem C08_pushin_or_partial :
  forall (D : Type) aev pev (dom : D -> var -> option mexpr -> list (list (var * D))) idom tval rho v i m (I O : list cform),
    Forall (indep D aev pev dom idom tval rho v i m) I ->
    ev D aev pev dom idom tval rho (FOr (I ++ [FForall v i m (FOr O)])) =
    ev D aev pev dom idom tval rho (FForall v i m (FOr (I ++ O))).
Proof. exact pushin_or_sound. Qed.
Print Assumptions C08_pushin_or_partial.

(* closed-over variable that does not occur (early return): same guard *)
Theorem C08_pushin_absent_partial :
  forall (D : Type) aev pev (dom : D -> var -> option mexpr -> list (list (var * D))) idom tval rho v i m f,
    indep D aev pev dom idom tval rho v i m f -> K_pushin_empty D dom tval rho v i m = false ->
    ev D aev pev dom idom tval rho f = ev D aev pev dom idom tval rho (FForall v i m f).
Proof. exact pushin_absent_sound. Qed.
Print Assumptions C08_pushin_absent_partial.

(* REFUTED full statement: grammar <s> ::= <a> | <a><b>, `<a> = "x" and <b> = "y"`, input "z" (no <b>):
   the model's elaboration (= parse_isla's, tied by the correspondence) is FALSE, the documented core is TRUE,
   and the input is in the class K_pushin_empty *)
Theorem C08_pushin_refuted :
  elab G0 S_wit = Ok sugar_wit /\ ev_z rho0 sugar_wit = false /\ ev_z rho0 doc_wit = true /\
  K_pushin_empty str dom_z (fun _ => []) rho0 vb (InVar start_c) None = true.
Proof. exact pushin_refuted. Qed.
Print Assumptions C08_pushin_refuted.

(* non-vacuity of the guard: an input outside K_pushin_empty on which both forms agree *)
Theorem C08_pushin_nonvacuous :
  K_pushin_empty str dom_xy (fun _ => []) rho0 vb (InVar start_c) None = false /\
  ev str aev_z (fun _ _ => false) dom_xy [] (fun _ => []) rho0 sugar_wit = true /\
  ev str aev_z (fun _ _ => false) dom_xy [] (fun _ => []) rho0 doc_wit = true.
Proof. exact pushin_and_nonvacuous. Qed.
Print Assumptions C08_pushin_nonvacuous.

(* XPath child axis, one step: the bound element of a generated match expression is the pos-th occurrence of the
   type in the alternative, and every alternative with enough occurrences is generated (`..` axis: not proved,
   only tied by the correspondence; see K_dotdot_polarity) *)
Theorem C08_xpath_child_sound : forall alt t pos k,
  nth_occ alt t pos 0 = Some k <-> (nth_error alt k = Some t /\ occ_before alt t k = pos).
Proof. exact xpath_child_sound. Qed.
Print Assumptions C08_xpath_child_sound.

Theorem C08_xpath_expand_step : forall g leaves cur t pos res,
  In res (expand_step g [(leaves, cur)] (t, pos)) <->
  exists alt k, In alt (alts g (nth cur leaves [])) /\ nth_error alt k = Some t /\ occ_before alt t k = pos /\
                res = (firstn cur leaves ++ alt ++ skipn (S cur) leaves, cur + k).
Proof. exact expand_step_spec. Qed.
Print Assumptions C08_xpath_expand_step.

(* REFUTED "fresh names are fresh": `forall <t> in <a>: (<t> = <t>.<a>[2])` elaborates to a formula whose
   in-variable is bound by the very quantifier that ranges over it (class K_fresh_clash) *)
Theorem C08_fresh_clash_refuted : exists f, elab G3 S_clash = Ok f /\ well_scoped [] f = false.
Proof. exact fresh_clash_refuted. Qed.
Print Assumptions C08_fresh_clash_refuted.

(* ================= proof extension (wave 2) ================= *)

(* COINCIDENCE: the meaning of a formula depends only on the variables reported by the model's `fv`
   (= Python free_variables()), provided no quantifier ranges over one of its own bound variables (inq_ok; violated
   exactly by the K_fresh_clash witness above).  Premise about the abstract domains: an assignment binds exactly the
   quantifier's variable and the bound variables of its match expression. *)
Theorem C08_ev_coincidence :
  forall (D : Type) aev pev (dom : D -> var -> option mexpr -> list (list (var * D))) idom tval,
  (forall d v m asg, In asg (dom d v m) -> forall x, existsb (fun p => var_eqb (fst p) x) asg = vmem x (qbound v m)) ->
  forall f, inq_ok f = true -> forall rho rho',
    (forall x, In x (fv f) -> rho x = rho' x) ->
    ev D aev pev dom idom tval rho f = ev D aev pev dom idom tval rho' f.
Proof. exact ev_coincidence. Qed.
Print Assumptions C08_ev_coincidence.

(* the syntactic independence test of univ_close_over_var_push_in implies the semantic premise of
   C08_pushin_and_partial / C08_pushin_or_partial / C08_pushin_absent_partial *)
Theorem C08_indep_syntactic :
  forall (D : Type) aev pev (dom : D -> var -> option mexpr -> list (list (var * D))) idom tval,
  (forall d v m asg, In asg (dom d v m) -> forall x, existsb (fun p => var_eqb (fst p) x) asg = vmem x (qbound v m)) ->
  forall rho v i qfd e, vmem v qfd = true -> inq_ok e = true -> isnil (vinter qfd (fv e)) = true ->
    indep D aev pev dom idom tval rho v i None e.
Proof. exact indep_syntactic. Qed.
Print Assumptions C08_indep_syntactic.

(* the ACTUAL recursive push_in (every fuel, arbitrary nesting of and / or / forall): whenever it returns a formula,
   that formula means the documented closure `forall v in inv: f`.
   PARTIAL: guards K_pushin_empty (the refuted class) and K_pushin_rebind (v or inv bound again inside f, or a
   quantifier over its own variable: the documented closure itself would be ill-scoped); qfd must contain v (as at
   the call sites for free nonterminals and `..`; for XPath groups qfd are the XPath variables: not covered). *)
Theorem C08_pushin_sound_partial :
  forall (D : Type) aev pev (dom : D -> var -> option mexpr -> list (list (var * D))) idom tval,
  (forall d v m asg, In asg (dom d v m) -> forall x, existsb (fun p => var_eqb (fst p) x) asg = vmem x (qbound v m)) ->
  forall n v inv qfd f f' rho,
    push_in n v inv qfd f = Ok f' ->
    vmem v qfd = true ->
    K_pushin_rebind v inv f = false ->
    K_pushin_empty D dom tval rho v (InVar inv) None = false ->
    ev D aev pev dom idom tval rho f' = ev D aev pev dom idom tval rho (FForall v (InVar inv) None f).
Proof. exact pushin_sound_rec. Qed.
Print Assumptions C08_pushin_sound_partial.

(* non-vacuity: `<a> = "x" and <b> = "y"`, closing over b — push_in really pushes, all guards hold, and the domain
   function dom_k satisfies the premise about assignments *)
Theorem C08_pushin_sound_nonvacuous :
  push_in 4 vb start_c [vb] (FAnd [at_a; at_b]) = Ok (FAnd [at_a; FForall vb (InVar start_c) None at_b]) /\
  vmem vb [vb] = true /\ K_pushin_rebind vb start_c (FAnd [at_a; at_b]) = false /\
  K_pushin_empty str (dom_k (fun _ => [121]%N)) (fun _ => []) rho0 vb (InVar start_c) None = false.
Proof. exact pushin_rec_nonvacuous. Qed.
Print Assumptions C08_pushin_sound_nonvacuous.

Theorem C08_dom_k_keys : forall val d v m asg, In asg (dom_k val d v m) ->
  forall x, existsb (fun p => var_eqb (fst p) x) asg = vmem x (qbound v m).
Proof. exact dom_k_keys. Qed.
Print Assumptions C08_dom_k_keys.

(* `..` axis, the supported case: x bound by a universal quantifier (w binds x, possibly through a match expression)
   in positive position; close_over_xpath_expressions calls push_in with in-variable x.  The result means: the
   documented `forall <T> y in x` directly inside the quantifier of x.  PARTIAL: K_pushin_empty excluded for every
   x; other polarities / an existential binder are the recorded class K_dotdot_polarity. *)
Theorem C08_dotdot_forall_partial :
  forall (D : Type) aev pev (dom : D -> var -> option mexpr -> list (list (var * D))) idom tval,
  (forall d v m asg, In asg (dom d v m) -> forall x, existsb (fun p => var_eqb (fst p) x) asg = vmem x (qbound v m)) ->
  forall n y x qfd w i m body f' rho,
    push_in n y x qfd (FForall w i m body) = Ok f' ->
    vmem y qfd = true ->
    isnil (vinter qfd (fv (FForall w i m body))) = false ->
    invar_eqb (InVar y) i = false ->
    K_pushin_rebind y x body = false ->
    (forall aw, In aw (dom (ival D tval rho i) w m) ->
                K_pushin_empty D dom tval (upds D rho aw) y (InVar x) None = false) ->
    ev D aev pev dom idom tval rho f' =
    ev D aev pev dom idom tval rho (FForall w i m (FForall y (InVar x) None body)).
Proof. exact dotdot_forall_sound_rec. Qed.
Print Assumptions C08_dotdot_forall_partial.

Theorem C08_dotdot_nonvacuous :
  push_in 4 vb vs_ [vb] (FForall vs_ (InVar start_c) None at_b) =
    Ok (FForall vs_ (InVar start_c) None (FForall vb (InVar vs_) None at_b)) /\
  vmem vb [vb] = true /\ isnil (vinter [vb] (fv (FForall vs_ (InVar start_c) None at_b))) = false /\
  invar_eqb (InVar vb) (InVar start_c) = false /\ K_pushin_rebind vb vs_ at_b = false /\
  (forall aw, In aw (dom_k (fun _ => [121]%N) (rho0 start_c) vs_ None) ->
     K_pushin_empty str (dom_k (fun _ => [121]%N)) (fun _ => []) (upds str rho0 aw) vb (InVar vs_) None = false).
Proof. exact dotdot_nonvacuous. Qed.
Print Assumptions C08_dotdot_nonvacuous.

(* XPath child axis at the level of `ev`: `x.<T>[pos]` on `forall <X> x in c: b` is rewritten by
   AddMexprTransformer into a conjunction over the match expressions of expand_mexpr_trees (model: addm over
   mexprs = map mk_mexpr (expand g X [(T,pos)])).  Under the tree semantics dom_t of one-level match expressions
   (children labels must equal the element types; cands = the nodes a quantifier ranges over, arbitrary) this is the
   documented reading doc_child_forall: for every <X> node s, if s has a pos-th child ch of type T (nth_child:
   filter + nth_error), b holds with x := s, y := ch.
   PARTIAL: one segment; guards: y bound variable of type T, no empty-string symbol in the alternatives of X, the
   nodes ranged over are expanded by alternatives of g, x not bound again inside b. *)
Theorem C08_xpath_child_forall_partial :
  forall aev pev idom (cands : tree -> str -> list tree) g x y T pos,
    vk y = VBound -> vtype y = T ->
    (forall a, In a (alts g (vtype x)) -> eps_free a) ->
    forall rho c b f',
      addm x (mexprs g x y T pos) (FForall x c None b) = Ok f' ->
      binds x b = false ->
      (forall s, In s (cands (ival tree tid_ rho c) (vtype x)) -> In (map lbl (kids s)) (alts g (vtype x))) ->
      ev tree aev pev (dom_t cands) idom tid_ rho f' = doc_child_forall aev pev idom cands x y T pos rho c b.
Proof. exact xpath_child_addm_forall. Qed.
Print Assumptions C08_xpath_child_forall_partial.

(* existential quantifier: disjunction over the alternatives; additionally at least one alternative has a pos-th T
   (otherwise close_over_xpath_expressions raises SyntaxError before) *)
Theorem C08_xpath_child_exists_partial :
  forall aev pev idom (cands : tree -> str -> list tree) g x y T pos,
    vk y = VBound -> vtype y = T ->
    (forall a, In a (alts g (vtype x)) -> eps_free a) ->
    forall rho c b f',
      addm x (mexprs g x y T pos) (FExists x c None b) = Ok f' ->
      binds x b = false ->
      mexprs g x y T pos <> [] ->
      (forall s, In s (cands (ival tree tid_ rho c) (vtype x)) -> In (map lbl (kids s)) (alts g (vtype x))) ->
      ev tree aev pev (dom_t cands) idom tid_ rho f' = doc_child_exists aev pev idom cands x y T pos rho c b.
Proof. exact xpath_child_addm_exists. Qed.
Print Assumptions C08_xpath_child_exists_partial.

(* non-vacuity: grammar <s> ::= <a> | <a><b>, `s.<b>` on the derivation tree of "xy" *)
Theorem C08_xpath_child_nonvacuous :
  (forall a, In a (alts G0 (vtype xs_)) -> eps_free a) /\
  (forall s, In s (cands0 t_xy (vtype xs_)) -> In (map lbl (kids s)) (alts G0 (vtype xs_))) /\
  vk yb_ = VBound /\ vtype yb_ = nt 98 /\
  mexprs G0 xs_ yb_ (nt 98) 0 = [MkMexpr [dummy (nt 97); yb_] []] /\
  nth_child t_xy (nt 98) 0 = Some (Node (nt 98) 3 false [leaf [121]%N]).
Proof. exact xpath_child_nonvacuous. Qed.
Print Assumptions C08_xpath_child_nonvacuous.

(* TOTALITY of the push-in stage: on formulas whose and/or nodes have >= 2 operands (arity_ok; the only ones the
   Formula constructors build) and with more fuel than the formula size (the model passes S (fsize f)), push_in
   returns a formula — neither the out-of-fuel outcome nor `assert len(result_elements) > 1` can happen — and the
   result is again arity_ok. *)
Theorem C08_pushin_total : forall v inv qfd n f, fsize f < n -> arity_ok f = true ->
  exists f', push_in n v inv qfd f = Ok f' /\ arity_ok f' = true.
Proof. exact push_in_total. Qed.
Print Assumptions C08_pushin_total.

(* ... hence close_over_free_nonterminals never fails when no XPath expression is registered.
   PARTIAL w.r.t. `elab g s = Ok c unless a K class holds`: only this stage; see header. *)
Theorem C08_close_fnt_total : forall used st f, w_xp st = [] -> arity_ok f = true ->
  exists f', close_fnt used st f = Ok (f', used, []) /\ arity_ok f' = true.
Proof. exact close_fnt_total. Qed.
Print Assumptions C08_close_fnt_total.

(* the WHOLE closure loop of close_over_free_nonterminals, when no XPath expression is registered: the elaborated
   formula means the documented closure — one `forall v in start` per free nonterminal around the whole formula
   (nest; first registered nonterminal outermost).
   PARTIAL: K_pushin_empty excluded for every closure variable; the closure variables are pairwise distinct, differ
   from `start` and are not bound inside f (true for the names invented by register_var_for_free_nonterminal unless
   they clash: K_fresh_clash); XPath groups (close_groups) not covered. *)
Theorem C08_close_fnt_sound_partial :
  forall (D : Type) aev pev (dom : D -> var -> option mexpr -> list (list (var * D))) idom tval,
  (forall d v m asg, In asg (dom d v m) -> forall x, existsb (fun p => var_eqb (fst p) x) asg = vmem x (qbound v m)) ->
  forall used st f f' u xp rho,
    w_xp st = [] ->
    close_fnt used st f = Ok (f', u, xp) ->
    let vs := map snd (rev (w_fnt st)) in
    NoDup vs -> ~ In start_c vs ->
    (forall v, In v vs -> ~ In v (bvars f)) -> ~ In start_c (bvars f) -> inq_ok f = true ->
    (forall v, In v vs -> K_pushin_empty D dom tval rho v (InVar start_c) None = false) ->
    ev D aev pev dom idom tval rho f' = ev D aev pev dom idom tval rho (nest vs f).
Proof. exact close_fnt_sound. Qed.
Print Assumptions C08_close_fnt_sound_partial.

(* non-vacuity: the listener state after `<a> = "x" and <b> = "y"`: the loop produces exactly sugar_wit (the AST of
   C08_pushin_refuted), the documented nest is doc_wit, and on a domain with a <b> node every guard holds *)
Theorem C08_close_fnt_sound_nonvacuous :
  close_fnt [] st_wit (FAnd [at_a; at_b]) = Ok (sugar_wit, [], []) /\
  nest (map snd (rev (w_fnt st_wit))) (FAnd [at_a; at_b]) = doc_wit /\
  NoDup (map snd (rev (w_fnt st_wit))) /\ ~ In start_c (map snd (rev (w_fnt st_wit))) /\
  (forall v, In v (map snd (rev (w_fnt st_wit))) -> ~ In v (bvars (FAnd [at_a; at_b]))) /\
  ~ In start_c (bvars (FAnd [at_a; at_b])) /\ inq_ok (FAnd [at_a; at_b]) = true /\
  (forall v, In v (map snd (rev (w_fnt st_wit))) ->
     K_pushin_empty str (dom_k (fun _ => [121]%N)) (fun _ => []) rho0 v (InVar start_c) None = false).
Proof. exact close_fnt_nonvacuous. Qed.
Print Assumptions C08_close_fnt_sound_nonvacuous.

(* ================= wave 3: end-to-end composition (Logic/SugarUniq.v, SugarWalk.v, SugarCompose.v) ================= *)

(* ensure_unique_bound_variables (uniq, with its threaded `used_names` state): on a formula whose binder NAMES are
   pairwise distinct and not in the used set (and whose and/or nodes have >= 2 operands) the pass returns with the
   model's fuel, renames nothing, and the result (and/or rebuilt through the smart constructors) has the same
   meaning in every environment; the returned name set only grows by binder names.
   PARTIAL: formulas in which a binder name repeats (then the pass really renames: needs an alpha-renaming theorem
   for the blind substitution `sub` and a premise that quantifier domains are invariant under renaming). *)
Theorem C08_uniq_nodup_sound_partial :
  forall (D : Type) aev pev (dom : D -> var -> option mexpr -> list (list (var * D))) idom tval,
  (forall d v m k, mexpr_eqb m k = true -> dom d v m = dom d v k) ->
  forall n U f, fsize f < n -> arity_ok f = true -> NoDup (names (binders f)) ->
    (forall x, In x (names (binders f)) -> ~ In x U) ->
    exists f' U', uniq n U f = Ok (f', U') /\
      (forall rho, ev D aev pev dom idom tval rho f' = ev D aev pev dom idom tval rho f) /\
      (forall x, In x U' -> In x U \/ In x (names (binders f))).
Proof. exact uniq_nodup_sound. Qed.
Print Assumptions C08_uniq_nodup_sound_partial.

(* the listener walk (propositional layer + quantifiers) == the documented translation with PLAIN constructors
   (walk_doc: `A xor B` = (A and not B) or (B and not A), `A implies B` = not A or B, `A iff B` = (A and B) or
   (not A and not B) as in islaspec.rst; no shortcut, no De Morgan, no dualisation): same listener state, same meaning
   in every environment.  FULL (all surface formulas, states, environments, domains). *)
Theorem C08_walk_doc_equiv :
  forall (D : Type) aev pev (dom : D -> var -> option mexpr -> list (list (var * D))) idom tval,
  (forall d v m k, mexpr_eqb m k = true -> dom d v m = dom d v k) ->
  forall s used d st st' f,
    walk used d st s = Ok (st', f) ->
    exists f', walk_doc used d st s = Ok (st', f') /\
               forall rho, ev D aev pev dom idom tval rho f = ev D aev pev dom idom tval rho f'.
Proof. exact walk_equiv. Qed.
Print Assumptions C08_walk_doc_equiv.

(* END-TO-END, XPath-free surface fragment (free nonterminals, unnamed quantifiers, omitted / nonterminal `in`,
   user-written match expressions, numeric quantifiers, not/and/or/implies/iff/xor, all atom notations):
     elab g s = Ok c  ->  ev c = ev (elab_doc_nox s)
   elab_doc_nox = walk_doc + `forall v in start` per free nonterminal around the WHOLE formula; no renaming pass, no
   push-in.  Guard sugar_guard_nox s (boolean, evaluated by the harness on every generated case): the listener
   registered no XPath expression; before both passes of ensure_unique_bound_variables the binder names are pairwise
   distinct; and/or nodes have >= 2 operands; the closure variables are pairwise distinct, not `start`, not bound
   inside the formula, and no quantifier ranges over its own variable (conditions checked on the model's intermediate
   formulas; they fail only through name clashes = K_fresh_clash, or when xor/iff duplicates a quantified operand).
   Semantic premise = negation of the refuted class K_pushin_empty for every closure variable.
   PARTIAL: XPath expressions (incl. `..`), formulas whose binder names repeat. *)
Theorem C08_sugar_core_noxpath_partial :
  forall (D : Type) aev pev (dom : D -> var -> option mexpr -> list (list (var * D))) idom tval,
  (forall d v m k, mexpr_eqb m k = true -> dom d v m = dom d v k) ->
  (forall d v m asg, In asg (dom d v m) -> forall x, existsb (fun p => var_eqb (fst p) x) asg = vmem x (qbound v m)) ->
  forall g s c, sugar_guard_nox s = true -> elab g s = Ok c ->
    exists c', elab_doc_nox s = Ok c' /\
      forall rho,
        (forall v, In v (sugar_closure_vars s) -> K_pushin_empty D dom tval rho v (InVar start_c) None = false) ->
        ev D aev pev dom idom tval rho c = ev D aev pev dom idom tval rho c'.
Proof. exact sugar_core_noxpath. Qed.
Print Assumptions C08_sugar_core_noxpath_partial.

(* TOTALITY of the whole pipeline inside the same guard: elab returns a formula, or raises the SyntaxError of the final
   "Unbound variables" check — no fuel exhaustion, no AssertionError / StopIteration / NotImplemented in walk, both
   ensure_unique_bound_variables passes, the closure loop and close_over_xpath_expressions.
   PARTIAL: the final free-variable check itself is not discharged (needs `fv` monotonicity of every stage). *)
Theorem C08_elab_total_noxpath_partial :
  forall g s, sugar_guard_nox s = true -> (exists c, elab g s = Ok c) \/ elab g s = Raise SyntaxErr.
Proof. exact elab_total_noxpath. Qed.
Print Assumptions C08_elab_total_noxpath_partial.

(* non-vacuity: `<a> = "x" and <b> = "y"` is inside the guard, elab gives ISLa's pushed-in AST (sugar_wit), elab_doc_nox
   the closure of the whole conjunction (doc_wit), and on a domain with a <b> node the semantic premise holds
   (on the input `z` of C08_pushin_refuted it does not, and the two formulas differ) *)
Theorem C08_sugar_core_noxpath_nonvacuous :
  sugar_guard_nox S_wit = true /\ elab G0 S_wit = Ok sugar_wit /\ elab_doc_nox S_wit = Ok doc_wit /\
  sugar_closure_vars S_wit = [vb; va] /\
  (forall v, In v (sugar_closure_vars S_wit) ->
     K_pushin_empty str (dom_k (fun _ => [121]%N)) (fun _ => []) rho0 v (InVar start_c) None = false).
Proof. exact sugar_core_noxpath_nonvacuous. Qed.
Print Assumptions C08_sugar_core_noxpath_nonvacuous.

(* AddMexprTransformer (addm, quantifiers without match expression; reduce(&) / reduce(|) over the alternatives with
   all smart-constructor shortcuts) == evaluating the ORIGINAL formula over the domain function domX in which the
   domain of the first variable is the concatenation of its match-expression domains; the documented plain form
   addm_doc (FAnd / FOr of the copies) means the same.  FULL (all formulas; ms <> [] is what the code guarantees:
   an empty expansion raises SyntaxError before). *)
Theorem C08_addm_sem :
  forall (D : Type) aev pev (dom : D -> var -> option mexpr -> list (list (var * D))) idom tval,
  (forall d v m k, mexpr_eqb m k = true -> dom d v m = dom d v k) ->
  forall first ms, ms <> [] ->
  forall F F', addm first ms F = Ok F' ->
  forall rho, ev D aev pev dom idom tval rho F' = ev D aev pev (domX D dom first ms) idom tval rho F /\
              ev D aev pev dom idom tval rho (addm_doc first ms F) = ev D aev pev (domX D dom first ms) idom tval rho F.
Proof. exact addm_both. Qed.
Print Assumptions C08_addm_sem.

(* END-TO-END with ONE XPath expression rooted at a quantified variable (`x.<a>[2]`, `x.<a>.<b>` - any number of child
   steps -, `<X>.<a>` inside `forall <X>:`), together with free nonterminals and all propositional sugar:
     elab g s = Ok c  ->  ev c = ev (elab_doc_xp1 g s)
   elab_doc_xp1 = walk_doc, closure of the WHOLE formula, then the quantifier of the first variable replaced by the
   plain conjunction / disjunction of its copies carrying the match expressions of expand_mexpr_trees (tree-level
   meaning of those: C08_xpath_child_forall_partial / _exists_partial).
   Guard sugar_guard_xp1 g s: the conditions of C08_sugar_core_noxpath_partial on the intermediate formulas, plus: the
   XPath root is a variable name (not a free nonterminal: group closure in close_groups NOT covered), one segment
   group (no `..`), the result variable and the first variable are not closure variables, every generated match
   expression binds exactly the result variable, and the binder names are still pairwise distinct AFTER the match
   expressions were attached (i.e. one alternative, or a quantifier-free body: otherwise the second
   ensure_unique_bound_variables pass renames, not covered).  Same semantic premise (K_pushin_empty excluded). *)
Theorem C08_sugar_core_xpath1_partial :
  forall (D : Type) aev pev (dom : D -> var -> option mexpr -> list (list (var * D))) idom tval,
  (forall d v m k, mexpr_eqb m k = true -> dom d v m = dom d v k) ->
  (forall d v m asg, In asg (dom d v m) -> forall x, existsb (fun p => var_eqb (fst p) x) asg = vmem x (qbound v m)) ->
  forall g s c, sugar_guard_xp1 g s = true -> elab g s = Ok c ->
    exists c', elab_doc_xp1 g s = Ok c' /\
      forall rho,
        (forall v, In v (sugar_closure_vars s) -> K_pushin_empty D dom tval rho v (InVar start_c) None = false) ->
        ev D aev pev dom idom tval rho c = ev D aev pev dom idom tval rho c'.
Proof. exact sugar_core_xpath1. Qed.
Print Assumptions C08_sugar_core_xpath1_partial.

(* non-vacuity: forall <start> x: (x.<s> = "x" and <b> = "y") *)
Theorem C08_sugar_core_xpath1_nonvacuous :
  sugar_guard_xp1 G0 S_xp = true /\
  (exists c c', elab G0 S_xp = Ok c /\ elab_doc_xp1 G0 S_xp = Ok c' /\ cf_eqb c c' = false) /\
  (forall v, In v (sugar_closure_vars S_xp) ->
     K_pushin_empty str (dom_k (fun _ => [121]%N)) (fun _ => []) rho0 v (InVar start_c) None = false).
Proof. exact sugar_core_xpath1_nonvacuous. Qed.
Print Assumptions C08_sugar_core_xpath1_nonvacuous.

(* ================= wave 4: alpha-renaming (Logic/SugarFresh.v, SugarAlpha.v, SugarAlpha2.v, SugarAlpha3.v) ================= *)

(* SUBSTITUTION LEMMA for the blind renaming `sub` (substitute_variables): a renaming that leaves the binders of f (and
   every non-BoundVariable) alone and maps no other variable onto a bound variable of f acts on the meaning as
   composition of the environment.  FULL for well-scoped f (inq_ok). *)
Theorem C08_sub_capture_free :
  forall (D : Type) aev pev (dom : D -> var -> option mexpr -> list (list (var * D))) idom tval,
  (forall d v m asg, In asg (dom d v m) -> forall x, existsb (fun p => var_eqb (fst p) x) asg = vmem x (qbound v m)) ->
  forall s f,
    (forall w, In w (binders f) -> rlook s w = w) /\ (forall z, vk z <> VBound -> rlook s z = z) ->
    (forall z, In (rlook s z) (bvars f) -> rlook s z = z) ->
    inq_ok f = true ->
    forall e e', (forall x, In x (fv f) -> e' x = e (rlook s x)) ->
      ev D aev pev dom idom tval e (sub s f) = ev D aev pev dom idom tval e' f.
Proof. exact sub_ev. Qed.
Print Assumptions C08_sub_capture_free.

(* fresh_vars (threaded used-name set): the chosen names are pairwise different and not in the used set; a variable is
   either kept or becomes a BoundVariable of the same type named stem_j.  Bound 10^20 = the model's digit fuel of `dec`. *)
Theorem C08_fresh_vars_fresh : forall own U s U2, fresh_vars own U = (s, U2) ->
  (N.of_nat (length U + length own) < BIG)%N ->
  map fst s = own /\ U2 = U ++ names (map snd s) /\ Forall pair_ok s /\
  NoDup (names (map snd s)) /\ (forall x, In x (names (map snd s)) -> ~ In x U).
Proof. exact fresh_vars_spec. Qed.
Print Assumptions C08_fresh_vars_fresh.

(* FULL STATEMENT (false, see C08_uniq_capture_refuted):
     uniq n U f = Ok (f', U') -> forall rho, ev rho f' = ev rho f.
   ALPHA-RENAMING THEOREM, PARTIAL with the boolean guard uniq_ok U f:
     - no quantifier of f re-binds a variable bound by an enclosing quantifier (nosh: "without shadowing"), quantifiers
       bind BoundVariables, no quantifier ranges over its own variable (inq_ok), and/or have >= 2 operands;
     - every free BoundVariable x of f is protected from the invented names: its name is in the used set U, or no binder
       of f has the same stem (strip_idx; invented names are stem_0, stem_1, ...)   [excludes exactly the capture];
     - |U| + number of binders < 10^20 (digit fuel of the model's `dec`).
   Then the pass - which now really RENAMES (blind substitution into the body, fresh names from the threaded used-name
   set, recursion into the renamed body, and/or rebuilt by reduce(&,|)) - preserves the meaning in every environment.
   New premise about the abstract domains (third one): they do not depend on the names of the bound variables
   (satisfied by the tree domains: C08_dom_ren_witnesses). *)
Theorem C08_uniq_sound_partial :
  forall (D : Type) aev pev (dom : D -> var -> option mexpr -> list (list (var * D))) idom tval,
  (forall d v m k, mexpr_eqb m k = true -> dom d v m = dom d v k) ->
  (forall d v m asg, In asg (dom d v m) -> forall x, existsb (fun p => var_eqb (fst p) x) asg = vmem x (qbound v m)) ->
  (forall s d v m, kt_pres (rlook s) -> dom d (rlook s v) (sub_me s m) = map (ren_asg (rlook s)) (dom d v m)) ->
  forall n U f f' U', uniq n U f = Ok (f', U') -> uniq_ok U f = true ->
    (forall rho, ev D aev pev dom idom tval rho f' = ev D aev pev dom idom tval rho f) /\ incl U U'.
Proof. exact uniq_sound_guard. Qed.
Print Assumptions C08_uniq_sound_partial.

(* the pass is TOTAL with the model's fuel (no side condition) *)
Theorem C08_uniq_total : forall n U f, fsize f < n -> exists f' U', uniq n U f = Ok (f', U').
Proof. exact uniq_total. Qed.
Print Assumptions C08_uniq_total.

(* non-vacuity: two sibling quantifiers over the same variable a; the guard holds and the second one is renamed to a_0 *)
Theorem C08_uniq_sound_nonvacuous :
  uniq_ok [] f_dup = true /\
  uniq 4 [] f_dup = Ok (FAnd [FForall va (InVar start_c) None (FSmt (MkAtom false 1 [va]));
                               FForall va0 (InVar start_c) None (FSmt (MkAtom false 2 [va0]))], [[97]; [97; 95; 48]]%N).
Proof. exact uniq_sound_nonvacuous. Qed.
Print Assumptions C08_uniq_sound_nonvacuous.

(* the premise dom_ren holds for the tree semantics dom_t of match expressions (any candidate function) and for dom_k *)
Theorem C08_dom_ren_witnesses :
  (forall cands s d v m, kt_pres (rlook s) ->
     dom_t cands d (rlook s v) (sub_me s m) = map (ren_asg (rlook s)) (dom_t cands d v m)) /\
  (forall (c : str) s d v m, kt_pres (rlook s) ->
     dom_k (fun _ => c) d (rlook s v) (sub_me s m) = map (ren_asg (rlook s)) (dom_k (fun _ => c) d v m)).
Proof. exact (conj dom_t_ren dom_k_ren). Qed.
Print Assumptions C08_dom_ren_witnesses.

(* REFUTED (new defect class K_uniq_capture, reproduced through parse_isla / evaluate, see design_notes/C08.md):
     (exists <a> a in start: a = "x") and (forall <a> a in start: a = <a>)
   The free <a> is registered as a_0; ensure_unique_bound_variables (used-name set initially EMPTY) renames the second
   binder `a` to a_0 too, capturing it: `forall <a> a_0 in start: a_0 = a_0`; the closure of <a> then finds nothing to
   close.  On a domain with two <a> nodes "x","z" (which satisfies all three premises about domains) the elaborated
   formula is TRUE, the documented `forall <a> a_0 in start: ((exists a ...) and (forall a: a = a_0))` is FALSE.  The
   input is outside uniq_ok (and outside the wave-3 guard). *)
Theorem C08_uniq_capture_refuted :
  elab G0 S_cap = Ok sugar_cap /\ elab_doc_nox S_cap = Ok doc_cap /\
  ev_c rho0 sugar_cap = true /\ ev_c rho0 doc_cap = false /\
  (exists st f0, walk0 S_cap = Ok (st, f0) /\ uniq_ok [] f0 = false /\ nodupb (names (binders f0)) = false).
Proof. exact uniq_capture_refuted. Qed.
Print Assumptions C08_uniq_capture_refuted.

Theorem C08_uniq_capture_domain_ok :
  (forall d v m k, mexpr_eqb m k = true -> dom_2 d v m = dom_2 d v k) /\
  (forall d v m asg, In asg (dom_2 d v m) -> forall x, existsb (fun p => var_eqb (fst p) x) asg = vmem x (qbound v m)) /\
  (forall s d v m, kt_pres (rlook s) -> dom_2 d (rlook s v) (sub_me s m) = map (ren_asg (rlook s)) (dom_2 d v m)).
Proof. exact (conj dom_2_ext (conj dom_2_keys dom_2_ren)). Qed.
Print Assumptions C08_uniq_capture_domain_ok.

(* END-TO-END with the RELAXED guards (Logic/SugarCompose2.v, SugarComposeX2.v): "binder names pairwise distinct" before a
   pass of ensure_unique_bound_variables is replaced by "pairwise distinct OR uniq_ok [] f" (uniq_pre2).
   sugar_guard_nox2: both passes relaxed (repeated user-chosen names, xor / iff over quantified operands). *)
Theorem C08_sugar_core_noxpath2_partial :
  forall (D : Type) aev pev (dom : D -> var -> option mexpr -> list (list (var * D))) idom tval,
  (forall d v m k, mexpr_eqb m k = true -> dom d v m = dom d v k) ->
  (forall d v m asg, In asg (dom d v m) -> forall x, existsb (fun p => var_eqb (fst p) x) asg = vmem x (qbound v m)) ->
  (forall s d v m, kt_pres (rlook s) -> dom d (rlook s v) (sub_me s m) = map (ren_asg (rlook s)) (dom d v m)) ->
  forall g s c, sugar_guard_nox2 s = true -> elab g s = Ok c ->
    exists c', elab_doc_nox s = Ok c' /\
      forall rho,
        (forall v, In v (sugar_closure_vars s) -> K_pushin_empty D dom tval rho v (InVar start_c) None = false) ->
        ev D aev pev dom idom tval rho c = ev D aev pev dom idom tval rho c'.
Proof. exact sugar_core_noxpath2. Qed.
Print Assumptions C08_sugar_core_noxpath2_partial.

(* sugar_guard_xp1b: one XPath expression rooted at a quantified variable; the SECOND pass is relaxed, i.e. the XPath may
   expand to >= 2 grammar alternatives over a QUANTIFIED body (AddMexprTransformer copies the body, the copies repeat
   binder names, the pass renames them).  The first pass keeps the wave-3 condition (the first variable must keep its
   name: the documented side looks it up by name). *)
Theorem C08_sugar_core_xpath1b_partial :
  forall (D : Type) aev pev (dom : D -> var -> option mexpr -> list (list (var * D))) idom tval,
  (forall d v m k, mexpr_eqb m k = true -> dom d v m = dom d v k) ->
  (forall d v m asg, In asg (dom d v m) -> forall x, existsb (fun p => var_eqb (fst p) x) asg = vmem x (qbound v m)) ->
  (forall s d v m, kt_pres (rlook s) -> dom d (rlook s v) (sub_me s m) = map (ren_asg (rlook s)) (dom d v m)) ->
  forall g s c, sugar_guard_xp1b g s = true -> elab g s = Ok c ->
    exists c', elab_doc_xp1 g s = Ok c' /\
      forall rho,
        (forall v, In v (sugar_closure_vars s) -> K_pushin_empty D dom tval rho v (InVar start_c) None = false) ->
        ev D aev pev dom idom tval rho c = ev D aev pev dom idom tval rho c'.
Proof. exact sugar_core_xpath1b. Qed.
Print Assumptions C08_sugar_core_xpath1b_partial.

Theorem C08_elab_total_noxpath2_partial :
  forall g s, sugar_guard_nox2 s = true -> (exists c, elab g s = Ok c) \/ elab g s = Raise SyntaxErr.
Proof. exact elab_total_noxpath2. Qed.
Print Assumptions C08_elab_total_noxpath2_partial.

(* non-vacuity: (forall <a> a: a = "x") and (forall <a> a: a = "z") and <b> = "y"  (pass 1 renames) and
   forall <s> x in start: (x.<a> = "x" and exists <b> y in x: y = "y")  over <s> ::= <a> | <a><b>  (pass 2 renames) are
   OUTSIDE the wave-3 guards, INSIDE the relaxed ones; elab and the documented translation return different ASTs *)
Theorem C08_sugar_core2_nonvacuous :
  sugar_guard_nox S_ren = false /\ sugar_guard_nox2 S_ren = true /\
  (exists c c', elab G0 S_ren = Ok c /\ elab_doc_nox S_ren = Ok c' /\ cf_eqb c c' = false) /\
  sugar_guard_xp1 G0 S_xp2 = false /\ sugar_guard_xp1b G0 S_xp2 = true /\
  (exists c c', elab G0 S_xp2 = Ok c /\ elab_doc_xp1 G0 S_xp2 = Ok c' /\ cf_eqb c c' = false).
Proof. exact sugar_core2_nonvacuous. Qed.
Print Assumptions C08_sugar_core2_nonvacuous.

(* first piece of gap (3) (discharge of the final "Unbound variables" check): ensure_unique_bound_variables introduces NO
   new free variable - for every formula whose quantifiers bind BoundVariables, every used-name set and every fuel; no
   freshness argument is needed for this direction (a capture only removes free variables).  FULL for this stage;
   the corresponding lemmas for the push-in / closure loop / AddMexprTransformer and the surface condition "user
   variables are used inside the scope of their quantifier" are still missing. *)
Theorem C08_uniq_fv : forall n U f f' U', uniq n U f = Ok (f', U') -> vbound_all f = true ->
  forall x, In x (fv f') -> In x (fv f).
Proof. exact uniq_fv. Qed.
Print Assumptions C08_uniq_fv.
