(* C08 — Simplified syntax means exactly its documented core translation.
   Only statements + `exact`; proofs are in Logic/SugarFacts.v.  Model: Logic/Sugar.v (elaboration of
   ISLaEmitter); `ev` is the abstract two-valued evaluation over arbitrary quantifier domains (possibly empty).

   FULL STATEMENT (not provable for the faithful model; kept visible):
     forall g s f, elab g s = Ok f -> forall rho, ev rho f = ev rho (elab_doc s)
   where elab_doc wraps the whole formula in `forall` for every free nonterminal.  It is REFUTED
   (C08_pushin_refuted, C08_fresh_clash_refuted; three more classes are recorded from the correspondence:
   K_dotdot_polarity, K_root_also_free, K_xpath_dup, see design_notes/C08.md).  What is proved instead:
   every building block of the elaboration preserves meaning, the push-in step exactly outside the class
   K_pushin_empty. *)
From Coq Require Import List NArith Bool.
Import ListNotations.
From ISLA Require Import Str Outcome Tree Grammar Formula Sugar SugarFacts.

(* implies / iff / xor, as built by the parser from the smart constructors, have their truth-table meaning *)
Theorem C08_derived_connectives :
  forall (D : Type) aev pev (dom : D -> var -> option mexpr -> list (list (var * D))) idom tval,
  (forall d v m k, mexpr_eqb m k = true -> dom d v m = dom d v k) ->
  forall l r rho,
    ev D aev pev dom idom tval rho (f_imp l r) = implb (ev D aev pev dom idom tval rho l) (ev D aev pev dom idom tval rho r) /\
    ev D aev pev dom idom tval rho (f_iff l r) = Bool.eqb (ev D aev pev dom idom tval rho l) (ev D aev pev dom idom tval rho r) /\
    ev D aev pev dom idom tval rho (f_xor l r) = xorb (ev D aev pev dom idom tval rho l) (ev D aev pev dom idom tval rho r).
Proof. exact derived_connectives. Qed.
Print Assumptions C08_derived_connectives.

(* `not`: Formula.__neg__ (De Morgan through n-ary and/or, quantifier dualisation, SMT negation) is negation *)
Theorem C08_negation :
  forall (D : Type) aev pev (dom : D -> var -> option mexpr -> list (list (var * D))) idom tval,
  (forall d v m k, mexpr_eqb m k = true -> dom d v m = dom d v k) ->
  forall f rho, ev D aev pev dom idom tval rho (f_neg f) = negb (ev D aev pev dom idom tval rho f).
Proof. exact f_neg_sound. Qed.
Print Assumptions C08_negation.

(* `and` / `or` with all shortcuts of Formula.__and__ / __or__ (equal operands compared up to flattening,
   true/false literals, A and not A) *)
Theorem C08_and_or :
  forall (D : Type) aev pev (dom : D -> var -> option mexpr -> list (list (var * D))) idom tval,
  (forall d v m k, mexpr_eqb m k = true -> dom d v m = dom d v k) ->
  forall rho a b,
    ev D aev pev dom idom tval rho (f_and a b) = ev D aev pev dom idom tval rho a && ev D aev pev dom idom tval rho b /\
    ev D aev pev dom idom tval rho (f_or a b) = ev D aev pev dom idom tval rho a || ev D aev pev dom idom tval rho b.
Proof. intros D aev pev dom idom tval H rho a b. split; [apply f_and_sound|apply f_or_sound]; exact H. Qed.
Print Assumptions C08_and_or.

(* push-in of the universal closure into a conjunction == documented closure around the whole conjunction,
   PARTIAL: under the guard that excludes exactly the class K_pushin_empty, and for the one-step shape
   I /\ (forall v. /\O) that univ_close_over_var_push_in produces (in-variable not bound inside); independence of
   the conjuncts I is a semantic premise (missing: the coincidence lemma linking it to the syntactic test
   `isnil (vinter qfd (fv e))`, and the induction over the recursion of push_in). *)
Theorem C08_pushin_and_partial :
  forall (D : Type) aev pev (dom : D -> var -> option mexpr -> list (list (var * D))) idom tval rho v i m (I O : list cform),
    Forall (indep D aev pev dom idom tval rho v i m) I ->
    K_pushin_empty D dom tval rho v i m = false ->
    ev D aev pev dom idom tval rho (FAnd (I ++ [FForall v i m (FAnd O)])) =
    ev D aev pev dom idom tval rho (FForall v i m (FAnd (I ++ O))).
Proof. exact pushin_and_sound. Qed.
Print Assumptions C08_pushin_and_partial.

(* disjunctions: harmless for every domain, also the empty one *)
Theorem C08_pushin_or_partial :
  forall (D : Type) aev pev (dom : D -> var -> option mexpr -> list (list (var * D))) idom tval rho v i m (I O : list cform),
    Forall (indep D aev pev dom idom tval rho v i m) I ->
    ev D aev pev dom idom tval rho (FOr (I ++ [FForall v i m (FOr O)])) =
    ev D aev pev dom idom tval rho (FForall v i m (FOr (I ++ O))).
Proof. exact pushin_or_sound. Qed.
Print Assumptions C08_pushin_or_partial.

(* closed-over variable that does not occur (early return): same guard *)
Theorem C08_pushin_absent_partial :
  forall (D : Type) aev pev (dom : D -> var -> option mexpr -> list (list (var * D))) idom tval rho v i m f,
    indep D aev pev dom idom tval rho v i m f -> K_pushin_empty D dom tval rho v i m = false ->
    ev D aev pev dom idom tval rho f = ev D aev pev dom idom tval rho (FForall v i m f).
Proof. exact pushin_absent_sound. Qed.
Print Assumptions C08_pushin_absent_partial.

(* REFUTED full statement: grammar <s> ::= <a> | <a><b>, `<a> = "x" and <b> = "y"`, input "z" (no <b>):
   the model's elaboration (= parse_isla's, tied by the correspondence) is FALSE, the documented core is TRUE,
   and the input is in the class K_pushin_empty *)
Theorem C08_pushin_refuted :
  elab G0 S_wit = Ok sugar_wit /\ ev_z rho0 sugar_wit = false /\ ev_z rho0 doc_wit = true /\
  K_pushin_empty str dom_z (fun _ => []) rho0 vb (InVar start_c) None = true.
Proof. exact pushin_refuted. Qed.
Print Assumptions C08_pushin_refuted.

(* non-vacuity of the guard: an input outside K_pushin_empty on which both forms agree *)
Theorem C08_pushin_nonvacuous :
  K_pushin_empty str dom_xy (fun _ => []) rho0 vb (InVar start_c) None = false /\
  ev str aev_z (fun _ _ => false) dom_xy [] (fun _ => []) rho0 sugar_wit = true /\
  ev str aev_z (fun _ _ => false) dom_xy [] (fun _ => []) rho0 doc_wit = true.
Proof. exact pushin_and_nonvacuous. Qed.
Print Assumptions C08_pushin_nonvacuous.

(* XPath child axis, one step: the bound element of a generated match expression is the pos-th occurrence of the
   type in the alternative, and every alternative with enough occurrences is generated (`..` axis: not proved,
   only tied by the correspondence; see K_dotdot_polarity) *)
Theorem C08_xpath_child_sound : forall alt t pos k,
  nth_occ alt t pos 0 = Some k <-> (nth_error alt k = Some t /\ occ_before alt t k = pos).
Proof. exact xpath_child_sound. Qed.
Print Assumptions C08_xpath_child_sound.

Theorem C08_xpath_expand_step : forall g leaves cur t pos res,
  In res (expand_step g [(leaves, cur)] (t, pos)) <->
  exists alt k, In alt (alts g (nth cur leaves [])) /\ nth_error alt k = Some t /\ occ_before alt t k = pos /\
                res = (firstn cur leaves ++ alt ++ skipn (S cur) leaves, cur + k).
Proof. exact expand_step_spec. Qed.
Print Assumptions C08_xpath_expand_step.

(* REFUTED "fresh names are fresh": `forall <t> in <a>: (<t> = <t>.<a>[2])` elaborates to a formula whose
   in-variable is bound by the very quantifier that ranges over it (class K_fresh_clash) *)
Theorem C08_fresh_clash_refuted : exists f, elab G3 S_clash = Ok f /\ well_scoped [] f = false.
Proof. exact fresh_clash_refuted. Qed.
Print Assumptions C08_fresh_clash_refuted.
