(* C18 — check, parse, repair and mutate agree with the constraint and with each other.
   Only statements + `exact`; proofs are in Solver/ApiFacts.v and (proof extension) Solver/ApiCompose.v,
   ApiComposeEval.v, ApiInst.v, FreshIds.v, ApiComposeEx.v.  Model: Solver/Api.v
   (glue code of ISLaSolver.check/parse/repair/mutate; components are parameters).

   FIRST HALF (abstract components).  Premises (definitions in ApiFacts.v) are what the component
   properties establish:
     parser_sound / parser_complete  (C10)   eval_definite / eval_correct (C03)
     subsolve_sound (C01)   mutant_valid (C12)   sat_respects_eqv (the specification
     semantics sees neither node ids nor the shape of epsilon expansions).

   SECOND HALF (proof extension: CROSS-PROPERTY COMPOSITION).  The parameters are instantiated with
   the component MODELS and the premises are derived from the component THEOREMS:
     parser     earley_first = first tree of Earley.solver_parse (C10 model) with fresh node ids
                (FreshIds.renum).  parser_sound: FULL for gram_ok grammars under the C10 guards
                (C18_earley_parser_sound; no fuel condition).  parser_complete and
                "SyntaxError <-> not in the language": under fuel_ok (C10's computable chart bound)
                and no_oof (the model's out-of-fuel outcome of the tree ENUMERATION excluded — the
                one thing C10_parse_member_outcomes_partial leaves open; extension 3 derives it
                from acyclicb, see (2) below).
     evaluator  isla_eval = EvalAtoms.m_evaluate (C03 model, concrete atoms), isla_sat = Semantics.sat.
                eval_definite/eval_correct are derived POINTWISE (C18_isla_eval_ok) for every closed
                valid tree with distinct ids that passes the boolean guard isla_guard (C03's fragment:
                wfmb + narrowb on the instantiated formula, no numeric quantifier; plus: cst occurs
                free, is not re-bound, root label not a numeral).  New for this: C18_models_inst,
                instantiating the constant preserves |= (C03 listed it as missing).
     mutator    mutant_valid from C12 (MutateFacts.mutate_valid) under mutant_is_run.
   FULL now (no component premise at all): C18_check_str_spec_earley_isla,
   C18_check_str_total_earley_isla, C18_parse_api_spec_earley_isla — for the concrete parser and
   evaluator models, check(s) = true <-> the first Earley tree of s satisfies phi in the
   specification semantics; verdict table of parse().  Side conditions: gram_ok, guards, guard_on s
   (and fuel_ok, no_oof for the SyntaxError row).
   STILL PREMISES (after proof extension 3, see below): subsolve_sound (C01; `abstractions` is not
   modelled), for repair/mutate the evaluator premise in its global form (isla_guard depends on the
   tree, repair/mutate evaluate trees that come from the sub-solver), mutant_is_run (or the filter
   of extension 3).

   PROOF EXTENSION 3 (Solver/EraseSem.v, ApiAcyclicMore.v, ApiEqvMore.v):
     (1) sat_respects_eqv for Semantics.sat.  The full statement is FALSE (five witnesses:
         C18_sat_respects_eqv_{mexpr,count_eps,ids}_refuted and C18_sat_respects_eqv_more_refuted);
         the POSITIVE half is now PROVED for every constraint inside the boolean guard eqv_guard:
           no tree literal (InTree / PTree), no quantifier over the label "" and no count with the
           needle "", match expressions: no node of a prefix tree has the label "" and bound paths
           end in leaves of the prefix tree
         -- every conjunct is necessary (each has a refutation witness).  C18_sat_erase: t |= phi <-> erase t |= phi (same assignment; the positions of
         erase t are those of t minus the fuzzer's epsilon children, which carry the label "");
         before/after/inside/same/different/direct_child do not look at the tree; consecutive
         (epsilon leaves ARE leaves, but an erased node becomes a leaf at the same place in document
         order: C18_consecutive_eps_invariant), nth, level (any label), count (needle <> ""), the
         spec's match() and numeric quantifiers are invariant; SMT atoms see only strings.
         C18_sat_respects_eqv_partial (any atom family that sees only strings:
         C18_sat_respects_eqv_generic_partial).
     (2) no_oof is a THEOREM for grammars without cyclic unit/nullable derivations
         (acyclicb (cgram g <start>), C10's guard) once fuel_ok holds: C18_no_oof_acyclic; the
         completeness / SyntaxError / verdict-table theorems are restated without no_oof
         (C18_*_acyclic).
         check(tree) = check(str(tree)): C18_check_tree_str_earley_partial (abstract evaluator;
         premises sat_respects_eqv AND no_oof gone; partial = eqv_guard + acyclicb) and
         C18_check_tree_str_earley_isla (parser AND evaluator concrete, no component premise:
         side conditions gram_ok, guards, acyclicb, fuel_ok, eqv_guard, unambiguous, isla_guard on
         the tree, guard_on on its string).  Non-vacuity C18_check_tree_str_nonvacuous: ex_g is
         unambiguous and acyclic; the fuzzer-shaped epsilon tree, whose parse has the OTHER shape.
     (3) mutant premise: C18_checked_mutant_valid / C18_mutate_str_valid_earley_checked -- a mutant
         stream filtered by C12's acceptance procedure accept_mutate needs NO premise;
         C18_checked_mutant_id: on runs of C12's transition system (mutant_is_run) the filter is the
         identity.  A functional model of Mutator.mutate (random choices as an oracle) proved to
         stay inside mutate_star is still missing. *)
From ISLA Require Import Earley EarleyPrune EarleyAcyclic Semantics Eval EvalAtoms EvalFacts Mutate.
From ISLA Require Import FreshIds ApiInst ApiCompose ApiComposeEval ApiComposeEx.
From ISLA Require Import EraseSem ApiAcyclicMore ApiEqvMore.
(* Api / ApiFacts last: their names (eval_correct, TT, FF, START, ex_g, mutate_valid) win *)
From ISLA Require Import Api ApiFacts GrammarFacts.

(* check(str) is true exactly when the string parses and the parsed tree satisfies the constraint *)
Theorem C18_check_str_spec : forall g sat first_parse eval s,
  parser_sound g first_parse -> eval_correct g sat eval ->
  (check_str first_parse eval s = Ok true <-> exists t, first_parse START s = Some t /\ sat t).
Proof. exact check_str_spec. Qed.
Print Assumptions C18_check_str_spec.

(* ... and otherwise it is false: it never raises *)
Theorem C18_check_str_total : forall g sat first_parse eval s,
  parser_sound g first_parse -> eval_definite g eval -> eval_correct g sat eval ->
  (check_str first_parse eval s = Ok true /\ (exists t, first_parse START s = Some t /\ sat t)) \/
  (check_str first_parse eval s = Ok false /\ ~ (exists t, first_parse START s = Some t /\ sat t)).
Proof. exact check_str_total. Qed.
Print Assumptions C18_check_str_total.

Theorem C18_check_str_language : forall g sat first_parse eval s,
  parser_sound g first_parse -> eval_correct g sat eval ->
  check_str first_parse eval s = Ok true ->
  L g START s /\ exists t, good g t /\ yield t = s /\ sat t.
Proof. exact check_str_language. Qed.
Print Assumptions C18_check_str_language.

(* parse: returns the tree iff it parses and satisfies; SyntaxError iff outside the language;
   SemanticError iff it parses but violates the constraint *)
Theorem C18_parse_ok : forall g sat first_parse eval s t,
  parser_sound g first_parse -> eval_correct g sat eval ->
  (parse_api first_parse eval s START false = Ok t <-> first_parse START s = Some t /\ sat t).
Proof. exact parse_api_ok. Qed.
Print Assumptions C18_parse_ok.

Theorem C18_parse_syntax_error : forall g sat first_parse eval s,
  parser_sound g first_parse -> parser_complete g first_parse ->
  eval_definite g eval -> eval_correct g sat eval ->
  (parse_api first_parse eval s START false = Raise SyntaxErr <-> ~ L g START s).
Proof. exact parse_api_syntax. Qed.
Print Assumptions C18_parse_syntax_error.

Theorem C18_parse_semantic_error : forall g sat first_parse eval s,
  parser_sound g first_parse -> eval_definite g eval -> eval_correct g sat eval ->
  (parse_api first_parse eval s START false = Raise SemanticErr <->
   exists t, first_parse START s = Some t /\ ~ sat t).
Proof. exact parse_api_semantic. Qed.
Print Assumptions C18_parse_semantic_error.

(* skip_check=True or a sub-nonterminal: no semantic check at all *)
Theorem C18_parse_unchecked : forall first_parse eval s nt skip,
  skip = true \/ str_eqb nt START = false ->
  parse_api first_parse eval s nt skip =
  match first_parse nt s with Some t => Ok t | None => Raise SyntaxErr end.
Proof. exact parse_api_unchecked. Qed.
Print Assumptions C18_parse_unchecked.

(* for an unambiguous grammar check gives the same answer on a tree as on its string.
   `unambiguous` and `sat_respects_eqv` are stated modulo eqv (ids erased, the fuzzer's epsilon
   child ("", []) identified with the parser's empty child list): a fuzzed tree and the parse
   of its string are NOT structurally equal (Example eqv_eps_ex). *)
Theorem C18_check_tree_str : forall g sat first_parse eval t,
  parser_sound g first_parse -> parser_complete g first_parse ->
  eval_definite g eval -> eval_correct g sat eval ->
  sat_respects_eqv g sat -> unambiguous g -> good g t ->
  check_str first_parse eval (yield t) = check_tree eval t.
Proof. exact check_tree_str. Qed.
Print Assumptions C18_check_tree_str.

(* eqv is sound for strings: identified trees have the same string; eqvb decides eqv *)
Theorem C18_eqv_yield : forall g a b, wf_tree g a -> wf_tree g b -> eqv a b -> yield a = yield b.
Proof. exact eqv_yield. Qed.
Print Assumptions C18_eqv_yield.

Theorem C18_eqvb_spec : forall a b, eqvb a b = true <-> eqv a b.
Proof. exact eqvb_spec. Qed.
Print Assumptions C18_eqvb_spec.

(* repair returns an already valid input unchanged *)
Theorem C18_repair_id : forall eval has_top sem_false abstractions subsolve safe_ok fix_notop inp,
  check_tree eval inp = Ok true ->
  repair_tree eval has_top sem_false abstractions subsolve safe_ok fix_notop inp = Ok (Some inp).
Proof. exact repair_id. Qed.
Print Assumptions C18_repair_id.

(* repair returns only valid inputs.  The model's switch fix_notop is `true` = the code after
   commit 261d5a9 (constraints without a free tree constant no longer get the violating input
   back); no guard is needed any more. *)
Theorem C18_repair_valid :
  forall g sat eval has_top sem_false abstractions subsolve safe_ok inp t,
  eval_correct g sat eval -> subsolve_sound g sat abstractions subsolve -> good g inp ->
  repair_tree eval has_top sem_false abstractions subsolve safe_ok true inp = Ok (Some t) ->
  good g t /\ sat t.
Proof. exact repair_valid. Qed.
Print Assumptions C18_repair_valid.

Theorem C18_repair_str_valid :
  forall g sat first_parse eval has_top sem_false abstractions subsolve safe_ok s t,
  parser_sound g first_parse -> eval_correct g sat eval -> subsolve_sound g sat abstractions subsolve ->
  repair_str first_parse eval has_top sem_false abstractions subsolve safe_ok true s = Ok (Some t) ->
  good g t /\ sat t.
Proof. exact repair_str_valid. Qed.
Print Assumptions C18_repair_str_valid.

(* a violated constraint that does not mention the input cannot be repaired: Nothing *)
Theorem C18_repair_no_constant :
  forall eval has_top sem_false abstractions subsolve safe_ok inp,
  has_top = false -> check_tree eval inp = Ok false ->
  repair_tree eval has_top sem_false abstractions subsolve safe_ok true inp = Ok None.
Proof. exact repair_no_constant. Qed.
Print Assumptions C18_repair_no_constant.

(* where a repaired tree comes from: the input itself (then it was valid) or the sub-solver run
   on an abstraction whose verdict was "unknown" *)
Theorem C18_repair_result :
  forall eval has_top sem_false abstractions subsolve safe_ok fix_notop inp t,
  K_no_top_constant has_top fix_notop = false ->
  repair_tree eval has_top sem_false abstractions subsolve safe_ok fix_notop inp = Ok (Some t) ->
  (t = inp /\ check_tree eval inp = Ok true) \/
  (exists a, In a (abstractions inp) /\ check_tree eval a = Raise UnknownErr /\ subsolve a = Ok t).
Proof. exact repair_result. Qed.
Print Assumptions C18_repair_result.

Theorem C18_repair_str_syntax :
  forall first_parse eval has_top sem_false abstractions subsolve safe_ok fix_notop s,
  first_parse START s = None ->
  repair_str first_parse eval has_top sem_false abstractions subsolve safe_ok fix_notop s = Raise SyntaxErr.
Proof. exact repair_str_syntax. Qed.
Print Assumptions C18_repair_str_syntax.

(* every tree returned by mutate satisfies the constraint: for every number of loop iterations
   (fuel), every position k in the mutant stream and every mutant stream *)
Theorem C18_mutate_valid :
  forall g sat eval has_top sem_false abstractions subsolve safe_ok mutant inp fuel k t,
  eval_correct g sat eval -> subsolve_sound g sat abstractions subsolve -> mutant_valid g mutant ->
  good g inp ->
  mutate_loop eval has_top sem_false abstractions subsolve safe_ok true mutant inp fuel k = Some (Ok t) ->
  good g t /\ sat t.
Proof. exact mutate_valid. Qed.
Print Assumptions C18_mutate_valid.

Theorem C18_mutate_str_valid :
  forall g sat first_parse eval has_top sem_false abstractions subsolve safe_ok mutant s fuel t,
  parser_sound g first_parse -> eval_correct g sat eval -> subsolve_sound g sat abstractions subsolve ->
  mutant_valid g mutant ->
  mutate_str first_parse eval has_top sem_false abstractions subsolve safe_ok true mutant s fuel = Some (Ok t) ->
  good g t /\ sat t.
Proof. exact mutate_str_valid. Qed.
Print Assumptions C18_mutate_str_valid.

(* ---- history: what the two fixes repaired.  These are statements about the model with the
   pre-fix switches (fix_notop = false, safe_ok = false); the check forces both switches to
   `true` for findings whose status is `fixed`, so a regression to this behaviour is a VIOLATION.
   prefix_repair / prefix_mutate: before 261d5a9 a constraint without tree constant got the
   violating input / a violating mutant back.  prefix_safe_crash: before 9ee6a19, with
   returns 0.29, repair raised TypeError at the first abstraction with verdict "unknown". ---- *)
Theorem C18_prefix_repair_returned_invalid :
  exists (eval : tree -> res tv) sem_false abstractions subsolve safe_ok inp,
    check_tree eval inp = Ok false /\
    repair_tree eval false sem_false abstractions subsolve safe_ok false inp = Ok (Some inp).
Proof. exact repair_valid_refuted. Qed.
Print Assumptions C18_prefix_repair_returned_invalid.

Theorem C18_prefix_mutate_returned_invalid :
  exists (eval : tree -> res tv) sem_false abstractions subsolve safe_ok mutant inp t,
    mutate_tree eval false sem_false abstractions subsolve safe_ok false mutant inp 1 = Some (Ok t) /\
    check_tree eval t = Ok false.
Proof. exact mutate_valid_refuted. Qed.
Print Assumptions C18_prefix_mutate_returned_invalid.

Theorem C18_prefix_safe_crash :
  forall eval has_top sem_false abstractions subsolve safe_ok fix_notop a inp,
  safe_ok = false -> has_top = true -> sem_false inp = false -> abstractions inp = [a] ->
  eval inp = Ok FF -> eval a = Ok UU ->
  repair_tree eval has_top sem_false abstractions subsolve safe_ok fix_notop inp = Raise TypeErr.
Proof. exact repair_safe_crash. Qed.
Print Assumptions C18_prefix_safe_crash.

(* non-vacuity: a concrete instantiation satisfies the premises and exercises every branch *)
Example C18_nonvacuous :
  parser_sound ex_g ex_parse /\ eval_definite ex_g ex_eval /\ eval_correct ex_g ex_sat ex_eval /\
  subsolve_sound ex_g ex_sat ex_abs ex_sub /\ sat_respects_eqv ex_g ex_sat /\
  good ex_g ex_eps_parser /\ ~ ex_sat ex_eps_parser /\
  repair_tree ex_eval true (fun _ => false) ex_abs ex_sub true true ex_eps_parser = Ok (Some ex_t) /\
  mutate_tree ex_eval true (fun _ => false) ex_abs ex_sub true true (fun _ _ => Ok ex_eps_fuzzer) ex_t 3 = Some (Ok ex_t).
Proof.
  split; [exact ex_parser_sound|]. split; [exact ex_eval_definite|]. split; [exact ex_eval_correct|].
  split; [exact ex_subsolve_sound|]. split; [exact ex_sat_respects_eqv|].
  split; [exact (proj1 (proj2 good_ex))|]. split; [unfold ex_sat; simpl; discriminate|].
  split; reflexivity.
Qed.
Print Assumptions C18_nonvacuous.

(* ====================================================================================== *)
(* Proof extension: cross-property composition                                             *)
(* ====================================================================================== *)

(* ---- C10: the parser premises for the Earley model ---- *)
Theorem C18_earley_parser_sound : forall g fxA fxB fuelf,
  gram_ok g -> guards fxA fxB g -> parser_sound g (earley_first fxA fxB fuelf g).
Proof. exact earley_parser_sound. Qed.
Print Assumptions C18_earley_parser_sound.

Theorem C18_earley_parser_complete : forall g fxA fxB fuelf,
  gram_ok g -> guards fxA fxB g ->
  (forall s, fuel_ok fuelf g s) -> (forall s, no_oof fxA fxB fuelf g s) ->
  parser_complete g (earley_first fxA fxB fuelf g).
Proof. exact earley_parser_complete. Qed.
Print Assumptions C18_earley_parser_complete.

(* under the side conditions the parser model answers a tree or SyntaxError and nothing else, so
   reading "no tree" as SyntaxError (Api.parse_api) is faithful *)
Theorem C18_earley_outcomes : forall g fxA fxB fuelf,
  gram_ok g -> guards fxA fxB g -> forall s, fuel_ok fuelf g s -> no_oof fxA fxB fuelf g s ->
  (L g Api.START s /\ exists t0 ts, earley_parse fxA fxB (fuelf s) g Api.START Api.START s 1 = Ok (t0 :: ts)) \/
  (~ L g Api.START s /\ earley_parse fxA fxB (fuelf s) g Api.START Api.START s 1 = Raise SyntaxErr).
Proof. exact earley_outcomes. Qed.
Print Assumptions C18_earley_outcomes.

Theorem C18_earley_syntaxerr_iff : forall g fxA fxB fuelf,
  gram_ok g -> guards fxA fxB g -> forall s, fuel_ok fuelf g s -> no_oof fxA fxB fuelf g s ->
  (solver_parse fxA fxB (fuelf s) g Api.START s = Raise SyntaxErr <-> ~ L g Api.START s).
Proof. exact earley_syntaxerr_iff. Qed.
Print Assumptions C18_earley_syntaxerr_iff.

(* the ids of a parsed tree are pairwise different *)
Theorem C18_earley_first_uniq : forall g fxA fxB fuelf s t,
  earley_first fxA fxB fuelf g Api.START s = Some t -> NoDup (ids t).
Proof. exact earley_first_uniq. Qed.
Print Assumptions C18_earley_first_uniq.

(* ---- check / parse with the parser premises discharged (abstract evaluator) ---- *)
Theorem C18_check_str_spec_earley : forall g fxA fxB fuelf,
  gram_ok g -> guards fxA fxB g -> forall sat eval s, eval_correct g sat eval ->
  (check_str (earley_first fxA fxB fuelf g) eval s = Ok true <->
   exists t, earley_first fxA fxB fuelf g Api.START s = Some t /\ sat t).
Proof. exact check_str_spec_earley. Qed.
Print Assumptions C18_check_str_spec_earley.

Theorem C18_parse_api_spec_earley : forall g fxA fxB fuelf,
  gram_ok g -> guards fxA fxB g -> forall sat eval s,
  fuel_ok fuelf g s -> no_oof fxA fxB fuelf g s -> eval_definite g eval -> eval_correct g sat eval ->
  (L g Api.START s /\ exists t, earley_first fxA fxB fuelf g Api.START s = Some t /\ good g t /\ yield t = s /\
     NoDup (ids t) /\
     ((sat t /\ parse_api (earley_first fxA fxB fuelf g) eval s Api.START false = Ok t /\
       check_str (earley_first fxA fxB fuelf g) eval s = Ok true) \/
      (~ sat t /\ parse_api (earley_first fxA fxB fuelf g) eval s Api.START false = Raise SemanticErr /\
       check_str (earley_first fxA fxB fuelf g) eval s = Ok false))) \/
  (~ L g Api.START s /\ earley_first fxA fxB fuelf g Api.START s = None /\
     parse_api (earley_first fxA fxB fuelf g) eval s Api.START false = Raise SyntaxErr /\
     check_str (earley_first fxA fxB fuelf g) eval s = Ok false).
Proof. exact parse_api_spec_earley. Qed.
Print Assumptions C18_parse_api_spec_earley.

Theorem C18_check_tree_str_earley : forall g fxA fxB fuelf,
  gram_ok g -> guards fxA fxB g -> forall sat eval t,
  (forall s, fuel_ok fuelf g s) -> (forall s, no_oof fxA fxB fuelf g s) ->
  eval_definite g eval -> eval_correct g sat eval ->
  sat_respects_eqv g sat -> unambiguous g -> good g t ->
  check_str (earley_first fxA fxB fuelf g) eval (yield t) = check_tree eval t.
Proof. exact check_tree_str_earley. Qed.
Print Assumptions C18_check_tree_str_earley.

(* ---- C12: the mutator premise; repair / mutate on strings ---- *)
Theorem C18_mutant_valid_c12 : forall g mutant,
  good_grammar g -> mutant_is_run g mutant -> mutant_valid g mutant.
Proof. exact mutant_valid_c12. Qed.
Print Assumptions C18_mutant_valid_c12.

Theorem C18_repair_str_valid_earley : forall g fxA fxB fuelf,
  gram_ok g -> guards fxA fxB g ->
  forall sat eval has_top sem_false abstractions subsolve safe_ok s t,
  eval_correct g sat eval -> subsolve_sound g sat abstractions subsolve ->
  repair_str (earley_first fxA fxB fuelf g) eval has_top sem_false abstractions subsolve safe_ok true s = Ok (Some t) ->
  good g t /\ sat t.
Proof. exact repair_str_valid_earley. Qed.
Print Assumptions C18_repair_str_valid_earley.

Theorem C18_mutate_str_valid_earley : forall g fxA fxB fuelf,
  gram_ok g -> guards fxA fxB g ->
  forall sat eval has_top sem_false abstractions subsolve safe_ok mutant s fuel t,
  eval_correct g sat eval -> subsolve_sound g sat abstractions subsolve -> mutant_is_run g mutant ->
  mutate_str (earley_first fxA fxB fuelf g) eval has_top sem_false abstractions subsolve safe_ok true mutant s fuel = Some (Ok t) ->
  good g t /\ sat t.
Proof. exact mutate_str_valid_earley. Qed.
Print Assumptions C18_mutate_str_valid_earley.

(* ---- C03: the evaluator premise for the evaluator model ---- *)
(* instantiating the global constant by the reference tree preserves the specification semantics *)
Theorem C18_models_inst : forall t cst,
  uniq_ids t -> parse_dec (lbl t) = None -> forall f f',
  cst_unbound cst f = true -> inst_const atom atom_inst t cst f = Ok f' ->
  (models atom_denote t (upd env_empty cst (VPos [])) f <-> models atom_denote t env_empty f').
Proof. exact models_inst. Qed.
Print Assumptions C18_models_inst.

(* evaluate() on the UNINSTANTIATED constraint is definite and equals t |= phi, for closed valid
   trees with distinct ids inside C03's fragment *)
Theorem C18_isla_eval_ok : forall g cst phi t,
  good g t -> NoDup (ids t) -> isla_guard cst phi t = true ->
  (isla_eval cst phi t = Ok TT \/ isla_eval cst phi t = Ok FF) /\
  (isla_eval cst phi t = Ok TT <-> sat atom_denote t cst phi).
Proof. exact isla_eval_ok. Qed.
Print Assumptions C18_isla_eval_ok.

(* ---- parser AND evaluator concrete: no component premise left ---- *)
Theorem C18_check_str_spec_earley_isla : forall g fxA fxB fuelf cst phi,
  gram_ok g -> guards fxA fxB g -> forall s, guard_on g fxA fxB fuelf cst phi s ->
  (check_str (earley_first fxA fxB fuelf g) (isla_eval cst phi) s = Ok true <->
   exists t, earley_first fxA fxB fuelf g Api.START s = Some t /\ sat atom_denote t cst phi).
Proof. exact check_str_spec_composed. Qed.
Print Assumptions C18_check_str_spec_earley_isla.

Theorem C18_check_str_total_earley_isla : forall g fxA fxB fuelf cst phi,
  gram_ok g -> guards fxA fxB g -> forall s, guard_on g fxA fxB fuelf cst phi s ->
  (check_str (earley_first fxA fxB fuelf g) (isla_eval cst phi) s = Ok true /\
     (exists t, earley_first fxA fxB fuelf g Api.START s = Some t /\ sat atom_denote t cst phi)) \/
  (check_str (earley_first fxA fxB fuelf g) (isla_eval cst phi) s = Ok false /\
     ~ (exists t, earley_first fxA fxB fuelf g Api.START s = Some t /\ sat atom_denote t cst phi)).
Proof. exact check_str_total_composed. Qed.
Print Assumptions C18_check_str_total_earley_isla.

Theorem C18_parse_api_spec_earley_isla : forall g fxA fxB fuelf cst phi,
  gram_ok g -> guards fxA fxB g -> forall s,
  fuel_ok fuelf g s -> no_oof fxA fxB fuelf g s -> guard_on g fxA fxB fuelf cst phi s ->
  (L g Api.START s /\ exists t, earley_first fxA fxB fuelf g Api.START s = Some t /\ good g t /\ yield t = s /\
     ((sat atom_denote t cst phi /\
       parse_api (earley_first fxA fxB fuelf g) (isla_eval cst phi) s Api.START false = Ok t /\
       check_str (earley_first fxA fxB fuelf g) (isla_eval cst phi) s = Ok true) \/
      (~ sat atom_denote t cst phi /\
       parse_api (earley_first fxA fxB fuelf g) (isla_eval cst phi) s Api.START false = Raise SemanticErr /\
       check_str (earley_first fxA fxB fuelf g) (isla_eval cst phi) s = Ok false))) \/
  (~ L g Api.START s /\ earley_first fxA fxB fuelf g Api.START s = None /\
     parse_api (earley_first fxA fxB fuelf g) (isla_eval cst phi) s Api.START false = Raise SyntaxErr /\
     check_str (earley_first fxA fxB fuelf g) (isla_eval cst phi) s = Ok false).
Proof. exact parse_api_spec_composed. Qed.
Print Assumptions C18_parse_api_spec_earley_isla.

(* non-vacuity: grammar <start> ::= <a>; <a> ::= "" | "x", constraint forall <a> v in start: v = "x",
   pinned parser (fxA = fxB = false), fuel 100: every side condition holds for "x", "", "y", and
   the three verdicts true / SemanticError / SyntaxError occur *)
Example C18_composed_nonvacuous :
  gram_ok ex_g /\ guards false false ex_g /\
  (forall s, s = [120]%N \/ s = [] \/ s = [121]%N ->
     fuel_ok cx_fuel ex_g s /\ guard_on ex_g false false cx_fuel cx_cst cx_phi s) /\
  no_oof false false cx_fuel ex_g [120]%N /\ no_oof false false cx_fuel ex_g [] /\
  no_oof false false cx_fuel ex_g [121]%N /\
  check_str (earley_first false false cx_fuel ex_g) (isla_eval cx_cst cx_phi) [120]%N = Ok true /\
  parse_api (earley_first false false cx_fuel ex_g) (isla_eval cx_cst cx_phi) [] Api.START false = Raise SemanticErr /\
  parse_api (earley_first false false cx_fuel ex_g) (isla_eval cx_cst cx_phi) [121]%N Api.START false = Raise SyntaxErr.
Proof. exact composed_nonvacuous. Qed.
Print Assumptions C18_composed_nonvacuous.

(* ---- sat_respects_eqv for the specification semantics: FALSE in general.
   FULL STATEMENT (refuted):  forall g cst phi, sat_respects_eqv g (fun t => sat atom_denote t cst phi).
   Witnesses delimit the failing classes:
     (1) a match expression whose prefix tree contains a fuzzer-shaped epsilon expansion
         (class K_mexpr_eps_shape of C03),
     (2) `count` with the empty needle (likewise: a quantifier over the label ""),
     (3) formulas containing a tree literal (already instantiated): ids matter.
   The positive statement (formulas without tree literals, without epsilon expansions in prefix
   trees, needles and quantifier types <> "") is proved in extension 3 below
   (C18_sat_respects_eqv_partial). ---- *)
Theorem C18_sat_respects_eqv_mexpr_refuted :
  good ex_g ex_eps_parser /\ good ex_g ex_eps_fuzzer /\ eqv ex_eps_parser ex_eps_fuzzer /\
  ~ isla_sat cx_cst rx_phi ex_eps_parser /\ isla_sat cx_cst rx_phi ex_eps_fuzzer /\
  ~ sat_respects_eqv ex_g (isla_sat cx_cst rx_phi).
Proof. exact sat_respects_eqv_mexpr_refuted. Qed.
Print Assumptions C18_sat_respects_eqv_mexpr_refuted.

Theorem C18_sat_respects_eqv_count_eps_refuted :
  ~ isla_sat cx_cst rc_phi ex_eps_parser /\ isla_sat cx_cst rc_phi ex_eps_fuzzer /\
  ~ sat_respects_eqv ex_g (isla_sat cx_cst rc_phi).
Proof. exact sat_respects_eqv_count_eps_refuted. Qed.
Print Assumptions C18_sat_respects_eqv_count_eps_refuted.

Theorem C18_sat_respects_eqv_ids_refuted :
  good ex_g (renum 0 ex_eps_fuzzer) /\ eqv ex_eps_fuzzer (renum 0 ex_eps_fuzzer) /\
  isla_sat cx_cst ri_phi ex_eps_fuzzer /\ ~ isla_sat cx_cst ri_phi (renum 0 ex_eps_fuzzer) /\
  ~ sat_respects_eqv ex_g (isla_sat cx_cst ri_phi).
Proof. exact sat_respects_eqv_ids_refuted. Qed.
Print Assumptions C18_sat_respects_eqv_ids_refuted.

Example C18_mutant_is_run_nonvacuous :
  mutant_is_run ex_g (fun inp _ => Ok inp) /\ mutant_valid ex_g (fun inp _ => Ok inp).
Proof. exact mutant_is_run_ex. Qed.
Print Assumptions C18_mutant_is_run_nonvacuous.

(* ====================================================================================== *)
(* Proof extension 3                                                                        *)
(* ====================================================================================== *)

(* ---- (1) sat_respects_eqv, positive half.
   FULL STATEMENT (refuted above and in C18_sat_respects_eqv_more_refuted):
     forall g cst phi, sat_respects_eqv g (isla_sat cst phi).
   PARTIAL: under the boolean guard eqv_guard phi (definition: Solver/EraseSem.v). ---- *)

(* the specification semantics does not distinguish t from erase t (ids 0, epsilon children gone) *)
Theorem C18_sat_erase : forall g cst phi t,
  wf_tree g t -> lbl t <> [] -> eqv_guard phi = true ->
  (isla_sat cst phi t <-> isla_sat cst phi (erase t)).
Proof. exact isla_sat_erase. Qed.
Print Assumptions C18_sat_erase.

Theorem C18_sat_respects_eqv_partial : forall g cst phi,
  eqv_guard phi = true -> sat_respects_eqv g (isla_sat cst phi).
Proof. exact isla_sat_respects_eqv. Qed.
Print Assumptions C18_sat_respects_eqv_partial.

(* the same for ANY family of SMT atoms whose meaning depends only on the strings of the trees *)
Theorem C18_sat_respects_eqv_generic_partial :
  forall (A : Type) (adenote : A -> (var -> option tree) -> Prop),
  (forall a e e', (forall v, yrel (e v) (e' v)) -> (adenote a e <-> adenote a e')) ->
  forall g cst f, eqv_guard f = true -> sat_respects_eqv g (fun t => sat adenote t cst f).
Proof. exact sat_respects_eqv_guarded. Qed.
Print Assumptions C18_sat_respects_eqv_generic_partial.

(* `consecutive`: epsilon children ARE leaves, yet the spec predicate is invariant -- the erased
   node is a leaf of erase t at the same place in document order (q a position of t with a
   non-empty label) *)
Theorem C18_consecutive_eps_invariant : forall t p q,
  (exists s, subtree t q = Some s /\ lbl s <> []) ->
  (consecutive_spec t p q <-> consecutive_spec (erase t) p q).
Proof. exact consecutive_erase. Qed.
Print Assumptions C18_consecutive_eps_invariant.

(* the guard admits the running example and a formula with consecutive, nth, level, before, count,
   a match expression and a numeric quantifier; it rejects the witnesses of the failing classes *)
Example C18_eqv_guard_examples :
  eqv_guard cx_phi = true /\ eqv_guard rx_phi = false /\ eqv_guard rc_phi = false /\ eqv_guard ri_phi = false.
Proof. exact eqv_guard_examples. Qed.
Print Assumptions C18_eqv_guard_examples.

Example C18_eqv_guard_rich :
  eqv_guard gx_phi = true /\
  (isla_sat cx_cst gx_phi ex_eps_parser <-> isla_sat cx_cst gx_phi ex_eps_fuzzer).
Proof. exact eqv_guard_rich. Qed.
Print Assumptions C18_eqv_guard_rich.

(* the two remaining conjuncts of the guard are necessary as well: a variable bound at an INNER node
   of a prefix tree (rb_phi), a quantifier over the label "" (rq_phi) *)
Theorem C18_sat_respects_eqv_more_refuted :
  eqv_guard rb_phi = false /\ eqv_guard rq_phi = false /\
  ~ isla_sat cx_cst rb_phi ex_eps_parser /\ isla_sat cx_cst rb_phi ex_eps_fuzzer /\
  ~ sat_respects_eqv ex_g (isla_sat cx_cst rb_phi) /\
  ~ isla_sat cx_cst rq_phi ex_eps_parser /\ isla_sat cx_cst rq_phi ex_eps_fuzzer /\
  ~ sat_respects_eqv ex_g (isla_sat cx_cst rq_phi).
Proof. exact sat_respects_eqv_more_refuted. Qed.
Print Assumptions C18_sat_respects_eqv_more_refuted.

(* ---- (2) no_oof from C10's termination theorem ---- *)
Theorem C18_no_oof_acyclic : forall g fxA fxB fuelf s,
  gram_ok g -> guards fxA fxB g -> acyclicb (cgram g Api.START) = true -> fuel_ok fuelf g s ->
  no_oof fxA fxB fuelf g s.
Proof. exact no_oof_acyclic. Qed.
Print Assumptions C18_no_oof_acyclic.

Theorem C18_earley_parser_complete_acyclic : forall g fxA fxB fuelf,
  gram_ok g -> guards fxA fxB g -> acyclicb (cgram g Api.START) = true ->
  (forall s, fuel_ok fuelf g s) -> parser_complete g (earley_first fxA fxB fuelf g).
Proof. exact earley_parser_complete_acyclic. Qed.
Print Assumptions C18_earley_parser_complete_acyclic.

Theorem C18_earley_outcomes_acyclic : forall g fxA fxB fuelf,
  gram_ok g -> guards fxA fxB g -> acyclicb (cgram g Api.START) = true -> forall s, fuel_ok fuelf g s ->
  (L g Api.START s /\ exists t0 ts, earley_parse fxA fxB (fuelf s) g Api.START Api.START s 1 = Ok (t0 :: ts)) \/
  (~ L g Api.START s /\ earley_parse fxA fxB (fuelf s) g Api.START Api.START s 1 = Raise SyntaxErr).
Proof. exact earley_outcomes_acyclic. Qed.
Print Assumptions C18_earley_outcomes_acyclic.

Theorem C18_earley_syntaxerr_iff_acyclic : forall g fxA fxB fuelf,
  gram_ok g -> guards fxA fxB g -> acyclicb (cgram g Api.START) = true -> forall s, fuel_ok fuelf g s ->
  (solver_parse fxA fxB (fuelf s) g Api.START s = Raise SyntaxErr <-> ~ L g Api.START s).
Proof. exact earley_syntaxerr_iff_acyclic. Qed.
Print Assumptions C18_earley_syntaxerr_iff_acyclic.

Theorem C18_parse_api_spec_earley_acyclic : forall g fxA fxB fuelf,
  gram_ok g -> guards fxA fxB g -> acyclicb (cgram g Api.START) = true -> forall sat eval s,
  fuel_ok fuelf g s -> eval_definite g eval -> eval_correct g sat eval ->
  (L g Api.START s /\ exists t, earley_first fxA fxB fuelf g Api.START s = Some t /\ good g t /\ yield t = s /\
     NoDup (ids t) /\
     ((sat t /\ parse_api (earley_first fxA fxB fuelf g) eval s Api.START false = Ok t /\
       check_str (earley_first fxA fxB fuelf g) eval s = Ok true) \/
      (~ sat t /\ parse_api (earley_first fxA fxB fuelf g) eval s Api.START false = Raise SemanticErr /\
       check_str (earley_first fxA fxB fuelf g) eval s = Ok false))) \/
  (~ L g Api.START s /\ earley_first fxA fxB fuelf g Api.START s = None /\
     parse_api (earley_first fxA fxB fuelf g) eval s Api.START false = Raise SyntaxErr /\
     check_str (earley_first fxA fxB fuelf g) eval s = Ok false).
Proof. exact parse_api_spec_earley_acyclic. Qed.
Print Assumptions C18_parse_api_spec_earley_acyclic.

(* verdict table of parse()/check(str), parser and evaluator concrete, no no_oof *)
Theorem C18_parse_api_spec_earley_isla_acyclic : forall g fxA fxB fuelf,
  gram_ok g -> guards fxA fxB g -> acyclicb (cgram g Api.START) = true -> forall cst phi s,
  fuel_ok fuelf g s -> guard_on g fxA fxB fuelf cst phi s ->
  (L g Api.START s /\ exists t, earley_first fxA fxB fuelf g Api.START s = Some t /\ good g t /\ yield t = s /\
     ((isla_sat cst phi t /\
       parse_api (earley_first fxA fxB fuelf g) (isla_eval cst phi) s Api.START false = Ok t /\
       check_str (earley_first fxA fxB fuelf g) (isla_eval cst phi) s = Ok true) \/
      (~ isla_sat cst phi t /\
       parse_api (earley_first fxA fxB fuelf g) (isla_eval cst phi) s Api.START false = Raise SemanticErr /\
       check_str (earley_first fxA fxB fuelf g) (isla_eval cst phi) s = Ok false))) \/
  (~ L g Api.START s /\ earley_first fxA fxB fuelf g Api.START s = None /\
     parse_api (earley_first fxA fxB fuelf g) (isla_eval cst phi) s Api.START false = Raise SyntaxErr /\
     check_str (earley_first fxA fxB fuelf g) (isla_eval cst phi) s = Ok false).
Proof. exact parse_api_spec_composed_acyclic. Qed.
Print Assumptions C18_parse_api_spec_earley_isla_acyclic.

(* ---- check(tree) = check(str(tree)).
   FULL STATEMENT: forall unambiguous g, constraint phi, good t:
     check_str (yield t) = check_tree t.
   PARTIAL: eqv_guard phi (necessary for the specification semantics, see the refutations) and
   acyclicb (necessary for the MODEL's eager tree enumeration, C10_parse_complete_unguarded_refuted).
   The premises sat_respects_eqv and no_oof of C18_check_tree_str_earley are discharged. ---- *)
Theorem C18_check_tree_str_earley_partial : forall g fxA fxB fuelf,
  gram_ok g -> guards fxA fxB g -> acyclicb (cgram g Api.START) = true ->
  forall cst phi eval t,
  (forall s, fuel_ok fuelf g s) ->
  eval_definite g eval -> eval_correct g (isla_sat cst phi) eval ->
  eqv_guard phi = true -> unambiguous g -> good g t ->
  check_str (earley_first fxA fxB fuelf g) eval (yield t) = check_tree eval t.
Proof. exact check_tree_str_earley_guarded. Qed.
Print Assumptions C18_check_tree_str_earley_partial.

(* ... and with the evaluator model as well: no component premise at all *)
Theorem C18_check_tree_str_earley_isla : forall g fxA fxB fuelf,
  gram_ok g -> guards fxA fxB g -> acyclicb (cgram g Api.START) = true ->
  forall cst phi t,
  fuel_ok fuelf g (yield t) ->
  eqv_guard phi = true -> unambiguous g -> good g t -> NoDup (ids t) ->
  isla_guard cst phi t = true -> guard_on g fxA fxB fuelf cst phi (yield t) ->
  check_str (earley_first fxA fxB fuelf g) (isla_eval cst phi) (yield t) = check_tree (isla_eval cst phi) t.
Proof. exact check_tree_str_composed. Qed.
Print Assumptions C18_check_tree_str_earley_isla.

(* non-vacuity: ex_g (<start> ::= <a>; <a> ::= "" | "x") is unambiguous and acyclic; all hypotheses
   hold for the FUZZER-shaped epsilon tree (its string parses to the PARSER-shaped tree) and for the
   tree of "x"; verdicts false and true *)
Example C18_check_tree_str_nonvacuous :
  gram_ok ex_g /\ guards false false ex_g /\ acyclicb (cgram ex_g Api.START) = true /\ unambiguous ex_g /\
  eqv_guard cx_phi = true /\
  (forall t, t = ex_eps_fuzzer \/ t = ex_t ->
     fuel_ok cx_fuel ex_g (yield t) /\ good ex_g t /\ NoDup (ids t) /\ isla_guard cx_cst cx_phi t = true /\
     guard_on ex_g false false cx_fuel cx_cst cx_phi (yield t)) /\
  earley_first false false cx_fuel ex_g Api.START (yield ex_eps_fuzzer) = Some ex_eps_parser /\
  check_tree (isla_eval cx_cst cx_phi) ex_eps_fuzzer = Ok false /\
  check_str (earley_first false false cx_fuel ex_g) (isla_eval cx_cst cx_phi) (yield ex_eps_fuzzer) = Ok false /\
  check_tree (isla_eval cx_cst cx_phi) ex_t = Ok true /\
  check_str (earley_first false false cx_fuel ex_g) (isla_eval cx_cst cx_phi) (yield ex_t) = Ok true.
Proof. exact check_tree_str_nonvacuous. Qed.
Print Assumptions C18_check_tree_str_nonvacuous.

(* ---- (3) the mutator premise: filter by C12's acceptance procedure ---- *)
Theorem C18_checked_mutant_valid : forall g mutant, mutant_valid g (checked_mutant g mutant).
Proof. exact checked_mutant_valid. Qed.
Print Assumptions C18_checked_mutant_valid.

Theorem C18_checked_mutant_id : forall g mutant, good_grammar g -> mutant_is_run g mutant ->
  forall inp k, good g inp -> checked_mutant g mutant inp k = mutant inp k.
Proof. exact checked_mutant_id. Qed.
Print Assumptions C18_checked_mutant_id.

Theorem C18_mutate_str_valid_earley_checked : forall g fxA fxB fuelf,
  gram_ok g -> guards fxA fxB g ->
  forall sat eval has_top sem_false abstractions subsolve safe_ok mutant s fuel t,
  eval_correct g sat eval -> subsolve_sound g sat abstractions subsolve ->
  mutate_str (earley_first fxA fxB fuelf g) eval has_top sem_false abstractions subsolve safe_ok true
             (checked_mutant g mutant) s fuel = Some (Ok t) ->
  good g t /\ sat t.
Proof. exact mutate_str_valid_earley_checked. Qed.
Print Assumptions C18_mutate_str_valid_earley_checked.
