(* C18 — check, parse, repair and mutate agree with the constraint and with each other.
   Only statements + `exact`; proofs are in Solver/ApiFacts.v and (proof extension) Solver/ApiCompose.v,
   ApiComposeEval.v, ApiInst.v, FreshIds.v, ApiComposeEx.v.  Model: Solver/Api.v
   (glue code of ISLaSolver.check/parse/repair/mutate; components are parameters).

   FIRST HALF (abstract components).  Premises (definitions in ApiFacts.v) are what the component
   properties establish:
     parser_sound / parser_complete  (C10)   eval_definite / eval_correct (C03)
     subsolve_sound (C01)   mutant_valid (C12)   sat_respects_eqv (the specification
     semantics sees neither node ids nor the shape of epsilon expansions).

   SECOND HALF (proof extension: CROSS-PROPERTY COMPOSITION).  The parameters are instantiated with
   the component MODELS and the premises are derived from the component THEOREMS:
     parser     earley_first = first tree of Earley.solver_parse (C10 model) with fresh node ids
                (FreshIds.renum).  parser_sound: FULL for gram_ok grammars under the C10 guards
                (C18_earley_parser_sound; no fuel condition).  parser_complete and
                "SyntaxError <-> not in the language": under fuel_ok (C10's computable chart bound)
                and no_oof (the model's out-of-fuel outcome of the tree ENUMERATION excluded — the
                one thing C10_parse_member_outcomes_partial leaves open).
     evaluator  isla_eval = EvalAtoms.m_evaluate (C03 model, concrete atoms), isla_sat = Semantics.sat.
                eval_definite/eval_correct are derived POINTWISE (C18_isla_eval_ok) for every closed
                valid tree with distinct ids that passes the boolean guard isla_guard (C03's fragment:
                wfmb + narrowb on the instantiated formula, no numeric quantifier; plus: cst occurs
                free, is not re-bound, root label not a numeral).  New for this: C18_models_inst,
                instantiating the constant preserves |= (C03 listed it as missing).
     mutator    mutant_valid from C12 (MutateFacts.mutate_valid) under mutant_is_run.
   FULL now (no component premise at all): C18_check_str_spec_earley_isla,
   C18_check_str_total_earley_isla, C18_parse_api_spec_earley_isla — for the concrete parser and
   evaluator models, check(s) = true <-> the first Earley tree of s satisfies phi in the
   specification semantics; verdict table of parse().  Side conditions: gram_ok, guards, guard_on s
   (and fuel_ok, no_oof for the SyntaxError row).
   STILL PREMISES: subsolve_sound (C01; `abstractions` is not modelled), for repair/mutate the
   evaluator premise in its global form (isla_guard depends on the tree, repair/mutate evaluate
   trees that come from the sub-solver), mutant_is_run, no_oof.
   sat_respects_eqv for Semantics.sat: REFUTED in three precisely delimited classes
   (C18_sat_respects_eqv_*_refuted: match expressions whose prefix tree spells out an epsilon
   expansion, `count`/quantifier over the empty label "", formulas containing tree literals (ids));
   the positive statement for the remaining formulas is NOT proved (C18_check_tree_str_earley keeps
   sat_respects_eqv as a premise). *)
From ISLA Require Import Earley EarleyPrune Semantics Eval EvalAtoms EvalFacts Mutate.
From ISLA Require Import FreshIds ApiInst ApiCompose ApiComposeEval ApiComposeEx.
(* Api / ApiFacts last: their names (eval_correct, TT, FF, START, ex_g, mutate_valid) win *)
From ISLA Require Import Api ApiFacts GrammarFacts.

(* check(str) is true exactly when the string parses and the parsed tree satisfies the constraint *)
Theorem C18_check_str_spec : forall g sat first_parse eval s,
  parser_sound g first_parse -> eval_correct g sat eval ->
  (check_str first_parse eval s = Ok true <-> exists t, first_parse START s = Some t /\ sat t).
Proof. exact check_str_spec. Qed.
Print Assumptions C18_check_str_spec.

(* ... and otherwise it is false: it never raises *)
Theorem C18_check_str_total : forall g sat first_parse eval s,
  parser_sound g first_parse -> eval_definite g eval -> eval_correct g sat eval ->
  (check_str first_parse eval s = Ok true /\ (exists t, first_parse START s = Some t /\ sat t)) \/
  (check_str first_parse eval s = Ok false /\ ~ (exists t, first_parse START s = Some t /\ sat t)).
Proof. exact check_str_total. Qed.
Print Assumptions C18_check_str_total.

Theorem C18_check_str_language : forall g sat first_parse eval s,
  parser_sound g first_parse -> eval_correct g sat eval ->
  check_str first_parse eval s = Ok true ->
  L g START s /\ exists t, good g t /\ yield t = s /\ sat t.
Proof. exact check_str_language. Qed.
Print Assumptions C18_check_str_language.

(* parse: returns the tree iff it parses and satisfies; SyntaxError iff outside the language;
   SemanticError iff it parses but violates the constraint *)
Theorem C18_parse_ok : forall g sat first_parse eval s t,
  parser_sound g first_parse -> eval_correct g sat eval ->
  (parse_api first_parse eval s START false = Ok t <-> first_parse START s = Some t /\ sat t).
Proof. exact parse_api_ok. Qed.
Print Assumptions C18_parse_ok.

Theorem C18_parse_syntax_error : forall g sat first_parse eval s,
  parser_sound g first_parse -> parser_complete g first_parse ->
  eval_definite g eval -> eval_correct g sat eval ->
  (parse_api first_parse eval s START false = Raise SyntaxErr <-> ~ L g START s).
Proof. exact parse_api_syntax. Qed.
Print Assumptions C18_parse_syntax_error.

Theorem C18_parse_semantic_error : forall g sat first_parse eval s,
  parser_sound g first_parse -> eval_definite g eval -> eval_correct g sat eval ->
  (parse_api first_parse eval s START false = Raise SemanticErr <->
   exists t, first_parse START s = Some t /\ ~ sat t).
Proof. exact parse_api_semantic. Qed.
Print Assumptions C18_parse_semantic_error.

(* skip_check=True or a sub-nonterminal: no semantic check at all *)
Theorem C18_parse_unchecked : forall first_parse eval s nt skip,
  skip = true \/ str_eqb nt START = false ->
  parse_api first_parse eval s nt skip =
  match first_parse nt s with Some t => Ok t | None => Raise SyntaxErr end.
Proof. exact parse_api_unchecked. Qed.
Print Assumptions C18_parse_unchecked.

(* for an unambiguous grammar check gives the same answer on a tree as on its string.
   `unambiguous` and `sat_respects_eqv` are stated modulo eqv (ids erased, the fuzzer's epsilon
   child ("", []) identified with the parser's empty child list): a fuzzed tree and the parse
   of its string are NOT structurally equal (Example eqv_eps_ex). *)
Theorem C18_check_tree_str : forall g sat first_parse eval t,
  parser_sound g first_parse -> parser_complete g first_parse ->
  eval_definite g eval -> eval_correct g sat eval ->
  sat_respects_eqv g sat -> unambiguous g -> good g t ->
  check_str first_parse eval (yield t) = check_tree eval t.
Proof. exact check_tree_str. Qed.
Print Assumptions C18_check_tree_str.

(* eqv is sound for strings: identified trees have the same string; eqvb decides eqv *)
Theorem C18_eqv_yield : forall g a b, wf_tree g a -> wf_tree g b -> eqv a b -> yield a = yield b.
Proof. exact eqv_yield. Qed.
Print Assumptions C18_eqv_yield.

Theorem C18_eqvb_spec : forall a b, eqvb a b = true <-> eqv a b.
Proof. exact eqvb_spec. Qed.
Print Assumptions C18_eqvb_spec.

(* repair returns an already valid input unchanged *)
Theorem C18_repair_id : forall eval has_top sem_false abstractions subsolve safe_ok fix_notop inp,
  check_tree eval inp = Ok true ->
  repair_tree eval has_top sem_false abstractions subsolve safe_ok fix_notop inp = Ok (Some inp).
Proof. exact repair_id. Qed.
Print Assumptions C18_repair_id.

(* repair returns only valid inputs.  The model's switch fix_notop is `true` = the code after
   commit 261d5a9 (constraints without a free tree constant no longer get the violating input
   back); no guard is needed any more. *)
Theorem C18_repair_valid :
  forall g sat eval has_top sem_false abstractions subsolve safe_ok inp t,
  eval_correct g sat eval -> subsolve_sound g sat abstractions subsolve -> good g inp ->
  repair_tree eval has_top sem_false abstractions subsolve safe_ok true inp = Ok (Some t) ->
  good g t /\ sat t.
Proof. exact repair_valid. Qed.
Print Assumptions C18_repair_valid.

Theorem C18_repair_str_valid :
  forall g sat first_parse eval has_top sem_false abstractions subsolve safe_ok s t,
  parser_sound g first_parse -> eval_correct g sat eval -> subsolve_sound g sat abstractions subsolve ->
  repair_str first_parse eval has_top sem_false abstractions subsolve safe_ok true s = Ok (Some t) ->
  good g t /\ sat t.
Proof. exact repair_str_valid. Qed.
Print Assumptions C18_repair_str_valid.

(* a violated constraint that does not mention the input cannot be repaired: Nothing *)
Theorem C18_repair_no_constant :
  forall eval has_top sem_false abstractions subsolve safe_ok inp,
  has_top = false -> check_tree eval inp = Ok false ->
  repair_tree eval has_top sem_false abstractions subsolve safe_ok true inp = Ok None.
Proof. exact repair_no_constant. Qed.
Print Assumptions C18_repair_no_constant.

(* where a repaired tree comes from: the input itself (then it was valid) or the sub-solver run
   on an abstraction whose verdict was "unknown" *)
Theorem C18_repair_result :
  forall eval has_top sem_false abstractions subsolve safe_ok fix_notop inp t,
  K_no_top_constant has_top fix_notop = false ->
  repair_tree eval has_top sem_false abstractions subsolve safe_ok fix_notop inp = Ok (Some t) ->
  (t = inp /\ check_tree eval inp = Ok true) \/
  (exists a, In a (abstractions inp) /\ check_tree eval a = Raise UnknownErr /\ subsolve a = Ok t).
Proof. exact repair_result. Qed.
Print Assumptions C18_repair_result.

Theorem C18_repair_str_syntax :
  forall first_parse eval has_top sem_false abstractions subsolve safe_ok fix_notop s,
  first_parse START s = None ->
  repair_str first_parse eval has_top sem_false abstractions subsolve safe_ok fix_notop s = Raise SyntaxErr.
Proof. exact repair_str_syntax. Qed.
Print Assumptions C18_repair_str_syntax.

(* every tree returned by mutate satisfies the constraint: for every number of loop iterations
   (fuel), every position k in the mutant stream and every mutant stream *)
Theorem C18_mutate_valid :
  forall g sat eval has_top sem_false abstractions subsolve safe_ok mutant inp fuel k t,
  eval_correct g sat eval -> subsolve_sound g sat abstractions subsolve -> mutant_valid g mutant ->
  good g inp ->
  mutate_loop eval has_top sem_false abstractions subsolve safe_ok true mutant inp fuel k = Some (Ok t) ->
  good g t /\ sat t.
Proof. exact mutate_valid. Qed.
Print Assumptions C18_mutate_valid.

Theorem C18_mutate_str_valid :
  forall g sat first_parse eval has_top sem_false abstractions subsolve safe_ok mutant s fuel t,
  parser_sound g first_parse -> eval_correct g sat eval -> subsolve_sound g sat abstractions subsolve ->
  mutant_valid g mutant ->
  mutate_str first_parse eval has_top sem_false abstractions subsolve safe_ok true mutant s fuel = Some (Ok t) ->
  good g t /\ sat t.
Proof. exact mutate_str_valid. Qed.
Print Assumptions C18_mutate_str_valid.

(* ---- history: what the two fixes repaired.  These are statements about the model with the
   pre-fix switches (fix_notop = false, safe_ok = false); the check forces both switches to
   `true` for findings whose status is `fixed`, so a regression to this behaviour is a VIOLATION.
   prefix_repair / prefix_mutate: before 261d5a9 a constraint without tree constant got the
   violating input / a violating mutant back.  prefix_safe_crash: before 9ee6a19, with
   returns 0.29, repair raised TypeError at the first abstraction with verdict "unknown". ---- *)
Theorem C18_prefix_repair_returned_invalid :
  exists (eval : tree -> res tv) sem_false abstractions subsolve safe_ok inp,
    check_tree eval inp = Ok false /\
    repair_tree eval false sem_false abstractions subsolve safe_ok false inp = Ok (Some inp).
Proof. exact repair_valid_refuted. Qed.
Print Assumptions C18_prefix_repair_returned_invalid.

Theorem C18_prefix_mutate_returned_invalid :
  exists (eval : tree -> res tv) sem_false abstractions subsolve safe_ok mutant inp t,
    mutate_tree eval false sem_false abstractions subsolve safe_ok false mutant inp 1 = Some (Ok t) /\
    check_tree eval t = Ok false.
Proof. exact mutate_valid_refuted. Qed.
Print Assumptions C18_prefix_mutate_returned_invalid.

Theorem C18_prefix_safe_crash :
  forall eval has_top sem_false abstractions subsolve safe_ok fix_notop a inp,
  safe_ok = false -> has_top = true -> sem_false inp = false -> abstractions inp = [a] ->
  eval inp = Ok FF -> eval a = Ok UU ->
  repair_tree eval has_top sem_false abstractions subsolve safe_ok fix_notop inp = Raise TypeErr.
Proof. exact repair_safe_crash. Qed.
Print Assumptions C18_prefix_safe_crash.

(* non-vacuity: a concrete instantiation satisfies the premises and exercises every branch *)
Example C18_nonvacuous :
  parser_sound ex_g ex_parse /\ eval_definite ex_g ex_eval /\ eval_correct ex_g ex_sat ex_eval /\
  subsolve_sound ex_g ex_sat ex_abs ex_sub /\ sat_respects_eqv ex_g ex_sat /\
  good ex_g ex_eps_parser /\ ~ ex_sat ex_eps_parser /\
  repair_tree ex_eval true (fun _ => false) ex_abs ex_sub true true ex_eps_parser = Ok (Some ex_t) /\
  mutate_tree ex_eval true (fun _ => false) ex_abs ex_sub true true (fun _ _ => Ok ex_eps_fuzzer) ex_t 3 = Some (Ok ex_t).
Proof.
  split; [exact ex_parser_sound|]. split; [exact ex_eval_definite|]. split; [exact ex_eval_correct|].
  split; [exact ex_subsolve_sound|]. split; [exact ex_sat_respects_eqv|].
  split; [exact (proj1 (proj2 good_ex))|]. split; [unfold ex_sat; simpl; discriminate|].
  split; reflexivity.
Qed.
Print Assumptions C18_nonvacuous.

(* ====================================================================================== *)
(* Proof extension: cross-property composition                                             *)
(* ====================================================================================== *)

(* ---- C10: the parser premises for the Earley model ---- *)
Theorem C18_earley_parser_sound : forall g fxA fxB fuelf,
  gram_ok g -> guards fxA fxB g -> parser_sound g (earley_first fxA fxB fuelf g).
Proof. exact earley_parser_sound. Qed.
Print Assumptions C18_earley_parser_sound.

Theorem C18_earley_parser_complete : forall g fxA fxB fuelf,
  gram_ok g -> guards fxA fxB g ->
  (forall s, fuel_ok fuelf g s) -> (forall s, no_oof fxA fxB fuelf g s) ->
  parser_complete g (earley_first fxA fxB fuelf g).
Proof. exact earley_parser_complete. Qed.
Print Assumptions C18_earley_parser_complete.

(* under the side conditions the parser model answers a tree or SyntaxError and nothing else, so
   reading "no tree" as SyntaxError (Api.parse_api) is faithful *)
Theorem C18_earley_outcomes : forall g fxA fxB fuelf,
  gram_ok g -> guards fxA fxB g -> forall s, fuel_ok fuelf g s -> no_oof fxA fxB fuelf g s ->
  (L g Api.START s /\ exists t0 ts, earley_parse fxA fxB (fuelf s) g Api.START Api.START s 1 = Ok (t0 :: ts)) \/
  (~ L g Api.START s /\ earley_parse fxA fxB (fuelf s) g Api.START Api.START s 1 = Raise SyntaxErr).
Proof. exact earley_outcomes. Qed.
Print Assumptions C18_earley_outcomes.

Theorem C18_earley_syntaxerr_iff : forall g fxA fxB fuelf,
  gram_ok g -> guards fxA fxB g -> forall s, fuel_ok fuelf g s -> no_oof fxA fxB fuelf g s ->
  (solver_parse fxA fxB (fuelf s) g Api.START s = Raise SyntaxErr <-> ~ L g Api.START s).
Proof. exact earley_syntaxerr_iff. Qed.
Print Assumptions C18_earley_syntaxerr_iff.

(* the ids of a parsed tree are pairwise different *)
Theorem C18_earley_first_uniq : forall g fxA fxB fuelf s t,
  earley_first fxA fxB fuelf g Api.START s = Some t -> NoDup (ids t).
Proof. exact earley_first_uniq. Qed.
Print Assumptions C18_earley_first_uniq.

(* ---- check / parse with the parser premises discharged (abstract evaluator) ---- *)
Theorem C18_check_str_spec_earley : forall g fxA fxB fuelf,
  gram_ok g -> guards fxA fxB g -> forall sat eval s, eval_correct g sat eval ->
  (check_str (earley_first fxA fxB fuelf g) eval s = Ok true <->
   exists t, earley_first fxA fxB fuelf g Api.START s = Some t /\ sat t).
Proof. exact check_str_spec_earley. Qed.
Print Assumptions C18_check_str_spec_earley.

Theorem C18_parse_api_spec_earley : forall g fxA fxB fuelf,
  gram_ok g -> guards fxA fxB g -> forall sat eval s,
  fuel_ok fuelf g s -> no_oof fxA fxB fuelf g s -> eval_definite g eval -> eval_correct g sat eval ->
  (L g Api.START s /\ exists t, earley_first fxA fxB fuelf g Api.START s = Some t /\ good g t /\ yield t = s /\
     NoDup (ids t) /\
     ((sat t /\ parse_api (earley_first fxA fxB fuelf g) eval s Api.START false = Ok t /\
       check_str (earley_first fxA fxB fuelf g) eval s = Ok true) \/
      (~ sat t /\ parse_api (earley_first fxA fxB fuelf g) eval s Api.START false = Raise SemanticErr /\
       check_str (earley_first fxA fxB fuelf g) eval s = Ok false))) \/
  (~ L g Api.START s /\ earley_first fxA fxB fuelf g Api.START s = None /\
     parse_api (earley_first fxA fxB fuelf g) eval s Api.START false = Raise SyntaxErr /\
     check_str (earley_first fxA fxB fuelf g) eval s = Ok false).
Proof. exact parse_api_spec_earley. Qed.
Print Assumptions C18_parse_api_spec_earley.

Theorem C18_check_tree_str_earley : forall g fxA fxB fuelf,
  gram_ok g -> guards fxA fxB g -> forall sat eval t,
  (forall s, fuel_ok fuelf g s) -> (forall s, no_oof fxA fxB fuelf g s) ->
  eval_definite g eval -> eval_correct g sat eval ->
  sat_respects_eqv g sat -> unambiguous g -> good g t ->
  check_str (earley_first fxA fxB fuelf g) eval (yield t) = check_tree eval t.
Proof. exact check_tree_str_earley. Qed.
Print Assumptions C18_check_tree_str_earley.

(* ---- C12: the mutator premise; repair / mutate on strings ---- *)
Theorem C18_mutant_valid_c12 : forall g mutant,
  good_grammar g -> mutant_is_run g mutant -> mutant_valid g mutant.
Proof. exact mutant_valid_c12. Qed.
Print Assumptions C18_mutant_valid_c12.

Theorem C18_repair_str_valid_earley : forall g fxA fxB fuelf,
  gram_ok g -> guards fxA fxB g ->
  forall sat eval has_top sem_false abstractions subsolve safe_ok s t,
  eval_correct g sat eval -> subsolve_sound g sat abstractions subsolve ->
  repair_str (earley_first fxA fxB fuelf g) eval has_top sem_false abstractions subsolve safe_ok true s = Ok (Some t) ->
  good g t /\ sat t.
Proof. exact repair_str_valid_earley. Qed.
Print Assumptions C18_repair_str_valid_earley.

Theorem C18_mutate_str_valid_earley : forall g fxA fxB fuelf,
  gram_ok g -> guards fxA fxB g ->
  forall sat eval has_top sem_false abstractions subsolve safe_ok mutant s fuel t,
  eval_correct g sat eval -> subsolve_sound g sat abstractions subsolve -> mutant_is_run g mutant ->
  mutate_str (earley_first fxA fxB fuelf g) eval has_top sem_false abstractions subsolve safe_ok true mutant s fuel = Some (Ok t) ->
  good g t /\ sat t.
Proof. exact mutate_str_valid_earley. Qed.
Print Assumptions C18_mutate_str_valid_earley.

(* ---- C03: the evaluator premise for the evaluator model ---- *)
(* instantiating the global constant by the reference tree preserves the specification semantics *)
Theorem C18_models_inst : forall t cst,
  uniq_ids t -> parse_dec (lbl t) = None -> forall f f',
  cst_unbound cst f = true -> inst_const atom atom_inst t cst f = Ok f' ->
  (models atom_denote t (upd env_empty cst (VPos [])) f <-> models atom_denote t env_empty f').
Proof. exact models_inst. Qed.
Print Assumptions C18_models_inst.

(* evaluate() on the UNINSTANTIATED constraint is definite and equals t |= phi, for closed valid
   trees with distinct ids inside C03's fragment *)
Theorem C18_isla_eval_ok : forall g cst phi t,
  good g t -> NoDup (ids t) -> isla_guard cst phi t = true ->
  (isla_eval cst phi t = Ok TT \/ isla_eval cst phi t = Ok FF) /\
  (isla_eval cst phi t = Ok TT <-> sat atom_denote t cst phi).
Proof. exact isla_eval_ok. Qed.
Print Assumptions C18_isla_eval_ok.

(* ---- parser AND evaluator concrete: no component premise left ---- *)
Theorem C18_check_str_spec_earley_isla : forall g fxA fxB fuelf cst phi,
  gram_ok g -> guards fxA fxB g -> forall s, guard_on g fxA fxB fuelf cst phi s ->
  (check_str (earley_first fxA fxB fuelf g) (isla_eval cst phi) s = Ok true <->
   exists t, earley_first fxA fxB fuelf g Api.START s = Some t /\ sat atom_denote t cst phi).
Proof. exact check_str_spec_composed. Qed.
Print Assumptions C18_check_str_spec_earley_isla.

Theorem C18_check_str_total_earley_isla : forall g fxA fxB fuelf cst phi,
  gram_ok g -> guards fxA fxB g -> forall s, guard_on g fxA fxB fuelf cst phi s ->
  (check_str (earley_first fxA fxB fuelf g) (isla_eval cst phi) s = Ok true /\
     (exists t, earley_first fxA fxB fuelf g Api.START s = Some t /\ sat atom_denote t cst phi)) \/
  (check_str (earley_first fxA fxB fuelf g) (isla_eval cst phi) s = Ok false /\
     ~ (exists t, earley_first fxA fxB fuelf g Api.START s = Some t /\ sat atom_denote t cst phi)).
Proof. exact check_str_total_composed. Qed.
Print Assumptions C18_check_str_total_earley_isla.

Theorem C18_parse_api_spec_earley_isla : forall g fxA fxB fuelf cst phi,
  gram_ok g -> guards fxA fxB g -> forall s,
  fuel_ok fuelf g s -> no_oof fxA fxB fuelf g s -> guard_on g fxA fxB fuelf cst phi s ->
  (L g Api.START s /\ exists t, earley_first fxA fxB fuelf g Api.START s = Some t /\ good g t /\ yield t = s /\
     ((sat atom_denote t cst phi /\
       parse_api (earley_first fxA fxB fuelf g) (isla_eval cst phi) s Api.START false = Ok t /\
       check_str (earley_first fxA fxB fuelf g) (isla_eval cst phi) s = Ok true) \/
      (~ sat atom_denote t cst phi /\
       parse_api (earley_first fxA fxB fuelf g) (isla_eval cst phi) s Api.START false = Raise SemanticErr /\
       check_str (earley_first fxA fxB fuelf g) (isla_eval cst phi) s = Ok false))) \/
  (~ L g Api.START s /\ earley_first fxA fxB fuelf g Api.START s = None /\
     parse_api (earley_first fxA fxB fuelf g) (isla_eval cst phi) s Api.START false = Raise SyntaxErr /\
     check_str (earley_first fxA fxB fuelf g) (isla_eval cst phi) s = Ok false).
Proof. exact parse_api_spec_composed. Qed.
Print Assumptions C18_parse_api_spec_earley_isla.

(* non-vacuity: grammar <start> ::= <a>; <a> ::= "" | "x", constraint forall <a> v in start: v = "x",
   pinned parser (fxA = fxB = false), fuel 100: every side condition holds for "x", "", "y", and
   the three verdicts true / SemanticError / SyntaxError occur *)
Example C18_composed_nonvacuous :
  gram_ok ex_g /\ guards false false ex_g /\
  (forall s, s = [120]%N \/ s = [] \/ s = [121]%N ->
     fuel_ok cx_fuel ex_g s /\ guard_on ex_g false false cx_fuel cx_cst cx_phi s) /\
  no_oof false false cx_fuel ex_g [120]%N /\ no_oof false false cx_fuel ex_g [] /\
  no_oof false false cx_fuel ex_g [121]%N /\
  check_str (earley_first false false cx_fuel ex_g) (isla_eval cx_cst cx_phi) [120]%N = Ok true /\
  parse_api (earley_first false false cx_fuel ex_g) (isla_eval cx_cst cx_phi) [] Api.START false = Raise SemanticErr /\
  parse_api (earley_first false false cx_fuel ex_g) (isla_eval cx_cst cx_phi) [121]%N Api.START false = Raise SyntaxErr.
Proof. exact composed_nonvacuous. Qed.
Print Assumptions C18_composed_nonvacuous.

(* ---- sat_respects_eqv for the specification semantics: FALSE in general.
   FULL STATEMENT (refuted):  forall g cst phi, sat_respects_eqv g (fun t => sat atom_denote t cst phi).
   Witnesses delimit the failing classes:
     (1) a match expression whose prefix tree contains a fuzzer-shaped epsilon expansion
         (class K_mexpr_eps_shape of C03),
     (2) `count` with the empty needle (likewise: a quantifier over the label ""),
     (3) formulas containing a tree literal (already instantiated): ids matter.
   The positive statement (formulas without tree literals, without epsilon expansions in prefix
   trees, needles and quantifier types <> "") is NOT proved. ---- *)
Theorem C18_sat_respects_eqv_mexpr_refuted :
  good ex_g ex_eps_parser /\ good ex_g ex_eps_fuzzer /\ eqv ex_eps_parser ex_eps_fuzzer /\
  ~ isla_sat cx_cst rx_phi ex_eps_parser /\ isla_sat cx_cst rx_phi ex_eps_fuzzer /\
  ~ sat_respects_eqv ex_g (isla_sat cx_cst rx_phi).
Proof. exact sat_respects_eqv_mexpr_refuted. Qed.
Print Assumptions C18_sat_respects_eqv_mexpr_refuted.

Theorem C18_sat_respects_eqv_count_eps_refuted :
  ~ isla_sat cx_cst rc_phi ex_eps_parser /\ isla_sat cx_cst rc_phi ex_eps_fuzzer /\
  ~ sat_respects_eqv ex_g (isla_sat cx_cst rc_phi).
Proof. exact sat_respects_eqv_count_eps_refuted. Qed.
Print Assumptions C18_sat_respects_eqv_count_eps_refuted.

Theorem C18_sat_respects_eqv_ids_refuted :
  good ex_g (renum 0 ex_eps_fuzzer) /\ eqv ex_eps_fuzzer (renum 0 ex_eps_fuzzer) /\
  isla_sat cx_cst ri_phi ex_eps_fuzzer /\ ~ isla_sat cx_cst ri_phi (renum 0 ex_eps_fuzzer) /\
  ~ sat_respects_eqv ex_g (isla_sat cx_cst ri_phi).
Proof. exact sat_respects_eqv_ids_refuted. Qed.
Print Assumptions C18_sat_respects_eqv_ids_refuted.

Example C18_mutant_is_run_nonvacuous :
  mutant_is_run ex_g (fun inp _ => Ok inp) /\ mutant_valid ex_g (fun inp _ => Ok inp).
Proof. exact mutant_is_run_ex. Qed.
Print Assumptions C18_mutant_is_run_nonvacuous.
