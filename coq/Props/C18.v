(* C18 — check, parse, repair and mutate agree with the constraint and with each other.
   Only statements + `exact`; proofs are in Solver/ApiFacts.v.  Model: Solver/Api.v
   (glue code of ISLaSolver.check/parse/repair/mutate; components are parameters).
   Premises (definitions in ApiFacts.v) are what the component properties establish:
     parser_sound / parser_complete  (C10)   eval_definite / eval_correct (C03)
     subsolve_sound (C01)   mutant_valid (C12)   sat_respects_eqv (the specification
     semantics sees neither node ids nor the shape of epsilon expansions). *)
From ISLA Require Import Api ApiFacts GrammarFacts.

(* check(str) is true exactly when the string parses and the parsed tree satisfies the constraint *)
Theorem C18_check_str_spec : forall g sat first_parse eval s,
  parser_sound g first_parse -> eval_correct g sat eval ->
  (check_str first_parse eval s = Ok true <-> exists t, first_parse START s = Some t /\ sat t).
Proof. exact check_str_spec. Qed.
Print Assumptions C18_check_str_spec.

(* ... and otherwise it is false: it never raises *)
Theorem C18_check_str_total : forall g sat first_parse eval s,
  parser_sound g first_parse -> eval_definite g eval -> eval_correct g sat eval ->
  (check_str first_parse eval s = Ok true /\ (exists t, first_parse START s = Some t /\ sat t)) \/
  (check_str first_parse eval s = Ok false /\ ~ (exists t, first_parse START s = Some t /\ sat t)).
Proof. exact check_str_total. Qed.
Print Assumptions C18_check_str_total.

Theorem C18_check_str_language : forall g sat first_parse eval s,
  parser_sound g first_parse -> eval_correct g sat eval ->
  check_str first_parse eval s = Ok true ->
  L g START s /\ exists t, good g t /\ yield t = s /\ sat t.
Proof. exact check_str_language. Qed.
Print Assumptions C18_check_str_language.

(* parse: returns the tree iff it parses and satisfies; SyntaxError iff outside the language;
   SemanticError iff it parses but violates the constraint *)
Theorem C18_parse_ok : forall g sat first_parse eval s t,
  parser_sound g first_parse -> eval_correct g sat eval ->
  (parse_api first_parse eval s START false = Ok t <-> first_parse START s = Some t /\ sat t).
Proof. exact parse_api_ok. Qed.
Print Assumptions C18_parse_ok.

Theorem C18_parse_syntax_error : forall g sat first_parse eval s,
  parser_sound g first_parse -> parser_complete g first_parse ->
  eval_definite g eval -> eval_correct g sat eval ->
  (parse_api first_parse eval s START false = Raise SyntaxErr <-> ~ L g START s).
Proof. exact parse_api_syntax. Qed.
Print Assumptions C18_parse_syntax_error.

Theorem C18_parse_semantic_error : forall g sat first_parse eval s,
  parser_sound g first_parse -> eval_definite g eval -> eval_correct g sat eval ->
  (parse_api first_parse eval s START false = Raise SemanticErr <->
   exists t, first_parse START s = Some t /\ ~ sat t).
Proof. exact parse_api_semantic. Qed.
Print Assumptions C18_parse_semantic_error.

(* skip_check=True or a sub-nonterminal: no semantic check at all *)
Theorem C18_parse_unchecked : forall first_parse eval s nt skip,
  skip = true \/ str_eqb nt START = false ->
  parse_api first_parse eval s nt skip =
  match first_parse nt s with Some t => Ok t | None => Raise SyntaxErr end.
Proof. exact parse_api_unchecked. Qed.
Print Assumptions C18_parse_unchecked.

(* for an unambiguous grammar check gives the same answer on a tree as on its string.
   `unambiguous` and `sat_respects_eqv` are stated modulo eqv (ids erased, the fuzzer's epsilon
   child ("", []) identified with the parser's empty child list): a fuzzed tree and the parse
   of its string are NOT structurally equal (Example eqv_eps_ex). *)
Theorem C18_check_tree_str : forall g sat first_parse eval t,
  parser_sound g first_parse -> parser_complete g first_parse ->
  eval_definite g eval -> eval_correct g sat eval ->
  sat_respects_eqv g sat -> unambiguous g -> good g t ->
  check_str first_parse eval (yield t) = check_tree eval t.
Proof. exact check_tree_str. Qed.
Print Assumptions C18_check_tree_str.

(* eqv is sound for strings: identified trees have the same string; eqvb decides eqv *)
Theorem C18_eqv_yield : forall g a b, wf_tree g a -> wf_tree g b -> eqv a b -> yield a = yield b.
Proof. exact eqv_yield. Qed.
Print Assumptions C18_eqv_yield.

Theorem C18_eqvb_spec : forall a b, eqvb a b = true <-> eqv a b.
Proof. exact eqvb_spec. Qed.
Print Assumptions C18_eqvb_spec.

(* repair returns an already valid input unchanged *)
Theorem C18_repair_id : forall eval has_top sem_false abstractions subsolve safe_ok fix_notop inp,
  check_tree eval inp = Ok true ->
  repair_tree eval has_top sem_false abstractions subsolve safe_ok fix_notop inp = Ok (Some inp).
Proof. exact repair_id. Qed.
Print Assumptions C18_repair_id.

(* repair returns only valid inputs.  The model's switch fix_notop is `true` = the code after
   commit 261d5a9 (constraints without a free tree constant no longer get the violating input
   back); no guard is needed any more. *)
Theorem C18_repair_valid :
  forall g sat eval has_top sem_false abstractions subsolve safe_ok inp t,
  eval_correct g sat eval -> subsolve_sound g sat abstractions subsolve -> good g inp ->
  repair_tree eval has_top sem_false abstractions subsolve safe_ok true inp = Ok (Some t) ->
  good g t /\ sat t.
Proof. exact repair_valid. Qed.
Print Assumptions C18_repair_valid.

Theorem C18_repair_str_valid :
  forall g sat first_parse eval has_top sem_false abstractions subsolve safe_ok s t,
  parser_sound g first_parse -> eval_correct g sat eval -> subsolve_sound g sat abstractions subsolve ->
  repair_str first_parse eval has_top sem_false abstractions subsolve safe_ok true s = Ok (Some t) ->
  good g t /\ sat t.
Proof. exact repair_str_valid. Qed.
Print Assumptions C18_repair_str_valid.

(* a violated constraint that does not mention the input cannot be repaired: Nothing *)
Theorem C18_repair_no_constant :
  forall eval has_top sem_false abstractions subsolve safe_ok inp,
  has_top = false -> check_tree eval inp = Ok false ->
  repair_tree eval has_top sem_false abstractions subsolve safe_ok true inp = Ok None.
Proof. exact repair_no_constant. Qed.
Print Assumptions C18_repair_no_constant.

(* where a repaired tree comes from: the input itself (then it was valid) or the sub-solver run
   on an abstraction whose verdict was "unknown" *)
Theorem C18_repair_result :
  forall eval has_top sem_false abstractions subsolve safe_ok fix_notop inp t,
  K_no_top_constant has_top fix_notop = false ->
  repair_tree eval has_top sem_false abstractions subsolve safe_ok fix_notop inp = Ok (Some t) ->
  (t = inp /\ check_tree eval inp = Ok true) \/
  (exists a, In a (abstractions inp) /\ check_tree eval a = Raise UnknownErr /\ subsolve a = Ok t).
Proof. exact repair_result. Qed.
Print Assumptions C18_repair_result.

Theorem C18_repair_str_syntax :
  forall first_parse eval has_top sem_false abstractions subsolve safe_ok fix_notop s,
  first_parse START s = None ->
  repair_str first_parse eval has_top sem_false abstractions subsolve safe_ok fix_notop s = Raise SyntaxErr.
Proof. exact repair_str_syntax. Qed.
Print Assumptions C18_repair_str_syntax.

(* every tree returned by mutate satisfies the constraint: for every number of loop iterations
   (fuel), every position k in the mutant stream and every mutant stream *)
Theorem C18_mutate_valid :
  forall g sat eval has_top sem_false abstractions subsolve safe_ok mutant inp fuel k t,
  eval_correct g sat eval -> subsolve_sound g sat abstractions subsolve -> mutant_valid g mutant ->
  good g inp ->
  mutate_loop eval has_top sem_false abstractions subsolve safe_ok true mutant inp fuel k = Some (Ok t) ->
  good g t /\ sat t.
Proof. exact mutate_valid. Qed.
Print Assumptions C18_mutate_valid.

Theorem C18_mutate_str_valid :
  forall g sat first_parse eval has_top sem_false abstractions subsolve safe_ok mutant s fuel t,
  parser_sound g first_parse -> eval_correct g sat eval -> subsolve_sound g sat abstractions subsolve ->
  mutant_valid g mutant ->
  mutate_str first_parse eval has_top sem_false abstractions subsolve safe_ok true mutant s fuel = Some (Ok t) ->
  good g t /\ sat t.
Proof. exact mutate_str_valid. Qed.
Print Assumptions C18_mutate_str_valid.

(* ---- history: what the two fixes repaired.  These are statements about the model with the
   pre-fix switches (fix_notop = false, safe_ok = false); the check forces both switches to
   `true` for findings whose status is `fixed`, so a regression to this behaviour is a VIOLATION.
   prefix_repair / prefix_mutate: before 261d5a9 a constraint without tree constant got the
   violating input / a violating mutant back.  prefix_safe_crash: before 9ee6a19, with
   returns 0.29, repair raised TypeError at the first abstraction with verdict "unknown". ---- *)
Theorem C18_prefix_repair_returned_invalid :
  exists (eval : tree -> res tv) sem_false abstractions subsolve safe_ok inp,
    check_tree eval inp = Ok false /\
    repair_tree eval false sem_false abstractions subsolve safe_ok false inp = Ok (Some inp).
Proof. exact repair_valid_refuted. Qed.
Print Assumptions C18_prefix_repair_returned_invalid.

Theorem C18_prefix_mutate_returned_invalid :
  exists (eval : tree -> res tv) sem_false abstractions subsolve safe_ok mutant inp t,
    mutate_tree eval false sem_false abstractions subsolve safe_ok false mutant inp 1 = Some (Ok t) /\
    check_tree eval t = Ok false.
Proof. exact mutate_valid_refuted. Qed.
Print Assumptions C18_prefix_mutate_returned_invalid.

Theorem C18_prefix_safe_crash :
  forall eval has_top sem_false abstractions subsolve safe_ok fix_notop a inp,
  safe_ok = false -> has_top = true -> sem_false inp = false -> abstractions inp = [a] ->
  eval inp = Ok FF -> eval a = Ok UU ->
  repair_tree eval has_top sem_false abstractions subsolve safe_ok fix_notop inp = Raise TypeErr.
Proof. exact repair_safe_crash. Qed.
Print Assumptions C18_prefix_safe_crash.

(* non-vacuity: a concrete instantiation satisfies the premises and exercises every branch *)
Example C18_nonvacuous :
  parser_sound ex_g ex_parse /\ eval_definite ex_g ex_eval /\ eval_correct ex_g ex_sat ex_eval /\
  subsolve_sound ex_g ex_sat ex_abs ex_sub /\ sat_respects_eqv ex_g ex_sat /\
  good ex_g ex_eps_parser /\ ~ ex_sat ex_eps_parser /\
  repair_tree ex_eval true (fun _ => false) ex_abs ex_sub true true ex_eps_parser = Ok (Some ex_t) /\
  mutate_tree ex_eval true (fun _ => false) ex_abs ex_sub true true (fun _ _ => Ok ex_eps_fuzzer) ex_t 3 = Some (Ok ex_t).
Proof.
  split; [exact ex_parser_sound|]. split; [exact ex_eval_definite|]. split; [exact ex_eval_correct|].
  split; [exact ex_subsolve_sound|]. split; [exact ex_sat_respects_eqv|].
  split; [exact (proj1 (proj2 good_ex))|]. split; [unfold ex_sat; simpl; discriminate|].
  split; reflexivity.
Qed.
Print Assumptions C18_nonvacuous.
