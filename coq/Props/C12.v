(* C12 — Fuzzer expansions and mutations produce valid trees of the same kind.
   Only statements + `exact`; proofs are in Grammar/FuzzFacts.v and Grammar/MutateFacts.v.
   Models: Grammar/Fuzz.v (expand1, expand_star, fuzz_expand) and Grammar/Mutate.v (mutate1,
   mutate_star): nondeterministic transition systems, EVERY choice of open leaf / alternative /
   mutator / position / fresh id is a behaviour.  Strength: partial — the cost heuristics,
   coverage bookkeeping and random choices of the Python code are abstracted to "any choice";
   the tie is acceptance of every observed output by the procedures proved sound below. *)
From ISLA Require Import PathFacts Grammar GrammarFacts TreeFacts Fuzz FuzzFacts Mutate MutateFacts.

(* ---- fuzzer ---- *)

(* every run of expand_tree from a valid tree: valid result, completion of the input *)
Theorem C12_expand_valid : forall g t t',
  uses_defined g -> wf_tree g t -> expand_star g t t' -> wf_tree g t' /\ completion g t t'.
Proof. exact expand_valid. Qed.
Print Assumptions C12_expand_valid.

(* the full statement of the fuzzer half: closed valid tree, completion, same root symbol *)
Theorem C12_fuzz_expand : forall g t t',
  uses_defined g -> wf_tree g t -> fuzz_expand g t t' ->
  wf_tree g t' /\ is_openT t' = false /\ completion g t t' /\ lbl t' = lbl t.
Proof. exact fuzz_expand_valid. Qed.
Print Assumptions C12_fuzz_expand.

Theorem C12_fuzz_expand_language : forall g t t',
  uses_defined g -> wf_tree g t -> fuzz_expand g t t' -> L g (lbl t) (yield t').
Proof. exact fuzz_expand_language. Qed.
Print Assumptions C12_fuzz_expand_language.

Example C12_fuzz_expand_nonvacuous :
  uses_definedb ex_g = true /\ wf_treeb ex_g ex_t = true /\ is_openT ex_t = true /\ fuzz_expand ex_g ex_t ex_out.
Proof. repeat split; try reflexivity; apply ex_run. Qed.
Print Assumptions C12_fuzz_expand_nonvacuous.

(* what "keeps every already-expanded part unchanged" means, position by position *)
Theorem C12_completion_keeps_expanded : forall g p t t' s,
  completion g t t' -> subtree t p = Some s -> opn s = false ->
  exists s', subtree t' p = Some s' /\ lbl s' = lbl s /\ tid s' = tid s /\ opn s' = false /\
             length (kids s') = length (kids s).
Proof. exact completion_keeps_expanded. Qed.
Print Assumptions C12_completion_keeps_expanded.

Theorem C12_completion_of_closed_is_identity : forall g t t',
  completion g t t' -> is_openT t = false -> t' = t.
Proof. exact completion_closed_id. Qed.
Print Assumptions C12_completion_of_closed_is_identity.

(* the acceptance procedures decide the specification / imply the property *)
Theorem C12_is_completionb_spec : forall g t t', is_completionb g t t' = true <-> completion g t t'.
Proof. exact is_completionb_spec. Qed.
Print Assumptions C12_is_completionb_spec.

Theorem C12_accept_expand_sound : forall g t out,
  accept_expand g t out = true ->
  wf_tree g out /\ is_openT out = false /\ completion g t out /\ lbl out = lbl t.
Proof. exact accept_expand_sound. Qed.
Print Assumptions C12_accept_expand_sound.

(* progress: an open valid tree always offers a step; the loop stops exactly at closed trees *)
Theorem C12_expand_total : forall g t,
  nonempty_alts g -> wf_tree g t -> is_openT t = true -> exists t', expand1 g t t'.
Proof. exact expand_total. Qed.
Print Assumptions C12_expand_total.

Theorem C12_normal_form_closed : forall g t,
  nonempty_alts g -> wf_tree g t -> (is_openT t = false <-> forall t', ~ expand1 g t t').
Proof. exact normal_form_closed. Qed.
Print Assumptions C12_normal_form_closed.

(* termination of the minimum-cost closing phase.  `cost` is Python's symbol_cost (external):
   the hypothesis is checked on the real tables of every generated grammar (cost_okb). *)
Theorem C12_mincost_bound : forall g cost n t t',
  steps_min g cost n t t' -> n + open_cost cost t' <= open_cost cost t.
Proof. exact steps_min_bound. Qed.
Print Assumptions C12_mincost_bound.

Theorem C12_mincost_terminates : forall g cost,
  (forall A, defined g A = true -> exists a, In a (alts g A) /\ alt_cost cost a < cost A) ->
  uses_defined g -> forall t, wf_tree g t ->
  exists n t', steps_min g cost n t t' /\ is_openT t' = false /\ n <= open_cost cost t.
Proof. exact mincost_terminates. Qed.
Print Assumptions C12_mincost_terminates.

Theorem C12_cost_okb_sound : forall g cost ecost,
  cost_okb g cost ecost = true ->
  forall A, defined g A = true -> exists a, In a (alts g A) /\ alt_cost cost a < cost A.
Proof. exact cost_okb_sound. Qed.
Print Assumptions C12_cost_okb_sound.

Example C12_mincost_nonvacuous :
  cost_okb ex_g ex_cost (fun A a => S (alt_cost ex_cost a)) = true /\ uses_definedb ex_g = true.
Proof. split; reflexivity. Qed.
Print Assumptions C12_mincost_nonvacuous.

(* ---- mutator ---- *)

(* the shared key lemma *)
Theorem C12_replace_valid : forall g p t s s' t',
  wf_tree g t -> subtree t p = Some s -> wf_tree g s' -> lbl s' = lbl s ->
  replace_path t p s' = Some t' ->
  wf_tree g t' /\ lbl t' = lbl t /\ (p <> [] -> tid t' = tid t).
Proof. exact replace_valid. Qed.
Print Assumptions C12_replace_valid.

Theorem C12_swap_valid : forall g t p1 p2 s1 s2 t1 t',
  wf_tree g t -> subtree t p1 = Some s1 -> subtree t p2 = Some s2 ->
  ~ prefix p1 p2 -> ~ prefix p2 p1 -> lbl s1 = lbl s2 ->
  replace_path t p1 s2 = Some t1 -> replace_path t1 p2 s1 = Some t' ->
  wf_tree g t' /\ lbl t' = lbl t /\ tid t' = tid t.
Proof. exact swap_valid. Qed.
Print Assumptions C12_swap_valid.

(* one mutation (replace / swap / generalize, any choice) and any sequence of mutations *)
Theorem C12_mutate1_valid : forall g t t',
  uses_defined g -> wf_tree g t -> is_openT t = false -> mutate1 g t t' ->
  wf_tree g t' /\ is_openT t' = false /\ lbl t' = lbl t.
Proof. exact mutate1_valid. Qed.
Print Assumptions C12_mutate1_valid.

Theorem C12_mutate_valid : forall g t t',
  uses_defined g -> wf_tree g t -> is_openT t = false -> mutate_star g t t' ->
  wf_tree g t' /\ is_openT t' = false /\ lbl t' = lbl t.
Proof. exact mutate_valid. Qed.
Print Assumptions C12_mutate_valid.

Theorem C12_mutate_language : forall g t t',
  uses_defined g -> wf_tree g t -> is_openT t = false -> mutate_star g t t' -> L g (lbl t) (yield t').
Proof. exact mutate_language. Qed.
Print Assumptions C12_mutate_language.

Example C12_mutate_nonvacuous :
  uses_definedb ex_g = true /\ wf_treeb ex_g mx_t = true /\ is_openT mx_t = false /\ mutate1 ex_g mx_t mx_swapped.
Proof. repeat split; try reflexivity; apply mx_swap_step. Qed.
Print Assumptions C12_mutate_nonvacuous.

Theorem C12_accept_mutate_sound : forall g t out,
  accept_mutate g t out = true -> wf_tree g out /\ is_openT out = false /\ lbl out = lbl t.
Proof. exact accept_mutate_sound. Qed.
Print Assumptions C12_accept_mutate_sound.

Theorem C12_accept_replace_sound : forall g t out,
  wf_tree g t -> accept_replace g t out = true ->
  wf_tree g out /\ is_openT out = false /\ lbl out = lbl t /\
  exists p s t1, subtree t p = Some s /\ kids s <> [] /\
                 replace_path t p (Node (lbl s) 0 true []) = Some t1 /\ completion g t1 out.
Proof. exact accept_replace_sound. Qed.
Print Assumptions C12_accept_replace_sound.

Theorem C12_accept_swap_sound : forall g t out,
  wf_tree g t -> is_openT t = false -> accept_swap t out = true ->
  wf_tree g out /\ is_openT out = false /\ lbl out = lbl t /\ tid out = tid t /\ mutate1 g t out.
Proof. exact accept_swap_sound. Qed.
Print Assumptions C12_accept_swap_sound.

Theorem C12_accept_generalize_sound : forall g t out,
  wf_tree g t -> accept_generalize g t out = true ->
  wf_tree g out /\ is_openT out = false /\ lbl out = lbl t /\
  exists p q s, subtree t p = Some s /\ kids s <> [] /\ q <> [] /\ subtree out (p ++ q) = Some s.
Proof. exact accept_generalize_sound. Qed.
Print Assumptions C12_accept_generalize_sound.

(* Full statement of "a mutation of a closed tree YIELDS a tree" (progress):
     forall g t, <productive g> -> wf_tree g t -> is_openT t = false -> exists t', mutate1 g t t'.
   It is false for the faithful model exactly on the class K_no_inner (a closed tree none of
   whose nodes has children, e.g. <start> with children () for <start> ::= ""): Python's
   replace_subtree_randomly raises IndexError there (recorded finding replace-no-inner-node),
   and the model offers no step.  Outside the class progress holds. *)
Theorem C12_mutate_progress_refuted :
  exists g t, uses_definedb g = true /\ wf_treeb g t = true /\ is_openT t = false /\
              forall t', ~ mutate1 g t t'.
Proof.
  exists [(start_sym, [[]; [[97]%N]])], (Node start_sym 1 false []).
  repeat split; try reflexivity. intro t'. apply mutate_none_without_inner. reflexivity.
Qed.
Print Assumptions C12_mutate_progress_refuted.

Theorem C12_mutate_progress_partial : forall g cost t,
  uses_defined g ->
  (forall A, defined g A = true -> exists a, In a (alts g A) /\ alt_cost cost a < cost A) ->
  wf_tree g t -> is_openT t = false -> K_no_inner t = false -> exists t', mutate1 g t t'.
Proof. exact mutate_total_partial. Qed.
Print Assumptions C12_mutate_progress_partial.

Example C12_mutate_progress_nonvacuous :
  wf_treeb ex_g mx_t = true /\ is_openT mx_t = false /\ K_no_inner mx_t = false.
Proof. exact mx_hyps. Qed.
Print Assumptions C12_mutate_progress_nonvacuous.
