(* C15 — Integer intervals inferred from a regex are exactly the numbers it matches; compressing a
   regex concatenation keeps its language.
   Only statements + `exact`; models: Smt/Intervals.v (merge, compress, nifr), semantics Smt/IvRe.v
   (matches), spec and proofs: Smt/IntervalsFacts.v, Smt/IvCompressFacts.v.

   FULL STATEMENT (kept visible; refuted as it stands, see the _refuted theorems):
     forall r fuel ivs n, documented_shapeb r = true -> nifr true fuel r = Val (Some ivs) ->
       (In_ivs n ivs <-> exists s, matches r s /\ intval s = Some n).
   Proved below: both halves on the concatenation-free part of the documented shape (`basic`:
   <single> <range> <zeroes> <full> <union>), the exact half under the guard ~K_full_sign, the
   over-approximation half without guard.  NOT proved (stated here, covered only by the
   correspondence + search of harness/c15.py): the over-approximation half for <sequence>
   (concatenations), i.e.
     recognizedb r = true -> nifr q fuel r = Val (Some ivs) -> matches r s -> intval s = Some n -> In_ivs n ivs. *)
From ISLA Require Import Str Outcome IvRe Intervals IvShape IntervalsFacts IvCompressFacts.
From Coq Require Import List ZArith.
Import ListNotations.

(* ---- merge_intervals ---- *)
Theorem C15_merge_member : forall l n, Forall bounded l -> (In_ivs n (merge l) <-> In_ivs n l).
Proof. exact merge_ok_member. Qed.
Print Assumptions C15_merge_member.

Theorem C15_merge_member_closed : forall l n, In_cls n (merge l) <-> In_cls n l.
Proof. exact merge_ok_member_closed. Qed.
Print Assumptions C15_merge_member_closed.

Theorem C15_merge_separated : forall l, separated (merge l).
Proof. exact merge_ok_separated. Qed.
Print Assumptions C15_merge_separated.

Theorem C15_merge_wf : forall l, Forall wf_iv l -> Forall wf_iv (merge l).
Proof. exact merge_ok_wf. Qed.
Print Assumptions C15_merge_wf.

(* ---- intervals: over-approximation half, no guard (partial: concatenation-free shape) ---- *)
Theorem C15_intervals_overapprox_partial : forall q r fuel ivs s n,
  basic r -> nifr q fuel r = Val (Some ivs) -> matches r s -> intval s = Some n -> In_ivs n ivs.
Proof. exact basic_overapprox. Qed.
Print Assumptions C15_intervals_overapprox_partial.

(* ---- intervals: exactness under the guard ~K_full_sign (partial: concatenation-free shape) ---- *)
Theorem C15_intervals_exact_partial : forall q r fuel ivs n,
  basic r -> K_full_sign r = false -> nifr q fuel r = Val (Some ivs) ->
  (In_ivs n ivs <-> exists s, matches r s /\ intval s = Some n).
Proof. exact basic_exact. Qed.
Print Assumptions C15_intervals_exact_partial.

(* ---- refutations of the full statement ---- *)
Theorem C15_intervals_exact_refuted :
  exists r ivs n, documented_shapeb r = true /\ nifr_top true r = Val (Some ivs) /\ In_ivs n ivs /\
                  ~ exists s, matches r s /\ intval s = Some n.
Proof. exact full_refuted. Qed.
Print Assumptions C15_intervals_exact_refuted.

Theorem C15_intervals_inner_sign_refuted :
  exists r ivs n, documented_shapeb r = true /\ K_full_sign r = false /\ K_inner_sign r = true /\
                  nifr_top true r = Val (Some ivs) /\ In_ivs n ivs /\
                  ~ exists s, matches r s /\ intval s = Some n.
Proof. exact inner_sign_refuted. Qed.
Print Assumptions C15_intervals_inner_sign_refuted.

Theorem C15_outside_shape_unsound_refuted :
  exists r ivs s n, K_valueor_lambda r = true /\ nifr_top true r = Val (Some ivs) /\
                    matches r s /\ intval s = Some n /\ ~ In_ivs n ivs /\
                    nifr_top false r = Val None.
Proof. exact valueor_lambda_refuted. Qed.
Print Assumptions C15_outside_shape_unsound_refuted.

(* outside the documented shape, also after the value_or repair: a zero-valued element that can carry a sign
   is stripped as zero padding (class K_signed_zero); the class never meets the documented shape *)
Theorem C15_signed_zero_unsound_refuted :
  exists r ivs s n, K_signed_zero r = true /\ documented_shapeb r = false /\
                    nifr_top false r = Val (Some ivs) /\ nifr_top true r = Val (Some ivs) /\
                    matches r s /\ intval s = Some n /\ ~ In_ivs n ivs.
Proof. exact signed_zero_refuted. Qed.
Print Assumptions C15_signed_zero_unsound_refuted.

Theorem C15_signed_zero_outside_shape : forall r, recognizedb r = true -> K_signed_zero r = false.
Proof. exact signed_zero_outside_shape. Qed.
Print Assumptions C15_signed_zero_outside_shape.

(* ---- compress_concatenation_elements: its two asserts and the final `assert False` are unreachable ---- *)
Theorem C15_compress_no_assert : forall l, exists r, compress l = Ok r.
Proof. exact compress_no_assert. Qed.
Print Assumptions C15_compress_no_assert.

(* NOT proved (stated; covered by the correspondence and the language search of harness/c15.py):
   C15_compress_lang : forall l r, compress l = Ok r -> forall s, matches_cat r s <-> matches_cat l s. *)
