(* C15 — Integer intervals inferred from a regex are exactly the numbers it matches; compressing a
   regex concatenation keeps its language.
   Only statements + `exact`; models: Smt/Intervals.v (merge, compress, nifr), semantics Smt/IvRe.v
   (matches), spec and proofs: Smt/IntervalsFacts.v, Smt/IvCompressFacts.v, and (proof extension)
   Smt/IvReFacts.v (matcher), Smt/IvCompressLang.v (language of compress), Smt/IvConcatFacts.v +
   Smt/IvConcatSound.v (concatenation case of the intervals).

   FULL STATEMENT (kept visible; refuted as it stands, see the _refuted theorems):
     forall r fuel ivs n, documented_shapeb r = true -> nifr true fuel r = Val (Some ivs) ->
       (In_ivs n ivs <-> exists s, matches r s /\ intval s = Some n).
   FULL (proved for all inputs):
     * merge_intervals (membership, separation, well-formedness);
     * compress_concatenation_elements never asserts AND keeps the language of the concatenation
       (C15_compress_lang, C15_compress_lang_re);
     * the derivative matcher is the declarative semantics (C15_matchb_spec) — the matcher that the harness
       ties to Z3's InRe is no longer trusted separately.
   PARTIAL:
     * over-approximation half (every integer value of a matched string lies in the intervals), now for the
       WHOLE recognised vocabulary — concatenations included: flattening, Range(c,c) rewriting, compression,
       sign prefix -/+/Option(sign), union distribution, zero stripping, the three [1-9][0-9]* cases —
       for both values of q and any fuel, under the guard  K_inner_sign r = false
       (C15_intervals_overapprox_concat_partial).  The guard is NEEDED: the unguarded statement
         recognizedb r = true -> nifr q fuel r = Val (Some ivs) -> matches r s -> intval s = Some n -> In_ivs n ivs
       is FALSE of the model and of the code (C15_intervals_overapprox_refuted: a union that carries a sign and
       evaluates to [(0,0)] is stripped as zero padding).  Missing: the inputs with an inner sign for which the
       half still holds (e.g. Concat(Re 0, Concat(Re -, Range 1 9))) — a tighter guard would have to follow the
       flattening of union alternatives.
     * exactness on the concatenation-free shape under ~K_full_sign (as before); exactness for concatenations
       is not proved (and refuted for K_full_sign / K_inner_sign). *)
From ISLA Require Import Str Outcome IvRe Intervals IvShape IntervalsFacts IvCompressFacts.
From ISLA Require Import IvReFacts IvCompressLang IvConcatFacts IvConcatSound.
From Coq Require Import List ZArith.
Import ListNotations.

(* ---- merge_intervals ---- *)
Theorem C15_merge_member : forall l n, Forall bounded l -> (In_ivs n (merge l) <-> In_ivs n l).
Proof. exact merge_ok_member. Qed.
Print Assumptions C15_merge_member.

Theorem C15_merge_member_closed : forall l n, In_cls n (merge l) <-> In_cls n l.
Proof. exact merge_ok_member_closed. Qed.
Print Assumptions C15_merge_member_closed.

Theorem C15_merge_separated : forall l, separated (merge l).
Proof. exact merge_ok_separated. Qed.
Print Assumptions C15_merge_separated.

Theorem C15_merge_wf : forall l, Forall wf_iv l -> Forall wf_iv (merge l).
Proof. exact merge_ok_wf. Qed.
Print Assumptions C15_merge_wf.

(* ---- intervals: over-approximation half, no guard (partial: concatenation-free shape) ---- *)
Theorem C15_intervals_overapprox_partial : forall q r fuel ivs s n,
  basic r -> nifr q fuel r = Val (Some ivs) -> matches r s -> intval s = Some n -> In_ivs n ivs.
Proof. exact basic_overapprox. Qed.
Print Assumptions C15_intervals_overapprox_partial.

(* ---- intervals: exactness under the guard ~K_full_sign (partial: concatenation-free shape) ---- *)
Theorem C15_intervals_exact_partial : forall q r fuel ivs n,
  basic r -> K_full_sign r = false -> nifr q fuel r = Val (Some ivs) ->
  (In_ivs n ivs <-> exists s, matches r s /\ intval s = Some n).
Proof. exact basic_exact. Qed.
Print Assumptions C15_intervals_exact_partial.

(* ---- refutations of the full statement ---- *)
Theorem C15_intervals_exact_refuted :
  exists r ivs n, documented_shapeb r = true /\ nifr_top true r = Val (Some ivs) /\ In_ivs n ivs /\
                  ~ exists s, matches r s /\ intval s = Some n.
Proof. exact full_refuted. Qed.
Print Assumptions C15_intervals_exact_refuted.

Theorem C15_intervals_inner_sign_refuted :
  exists r ivs n, documented_shapeb r = true /\ K_full_sign r = false /\ K_inner_sign r = true /\
                  nifr_top true r = Val (Some ivs) /\ In_ivs n ivs /\
                  ~ exists s, matches r s /\ intval s = Some n.
Proof. exact inner_sign_refuted. Qed.
Print Assumptions C15_intervals_inner_sign_refuted.

Theorem C15_outside_shape_unsound_refuted :
  exists r ivs s n, K_valueor_lambda r = true /\ nifr_top true r = Val (Some ivs) /\
                    matches r s /\ intval s = Some n /\ ~ In_ivs n ivs /\
                    nifr_top false r = Val None.
Proof. exact valueor_lambda_refuted. Qed.
Print Assumptions C15_outside_shape_unsound_refuted.

(* outside the documented shape, also after the value_or repair: a zero-valued element that can carry a sign
   is stripped as zero padding (class K_signed_zero); the class never meets the documented shape *)
Theorem C15_signed_zero_unsound_refuted :
  exists r ivs s n, K_signed_zero r = true /\ documented_shapeb r = false /\
                    nifr_top false r = Val (Some ivs) /\ nifr_top true r = Val (Some ivs) /\
                    matches r s /\ intval s = Some n /\ ~ In_ivs n ivs.
Proof. exact signed_zero_refuted. Qed.
Print Assumptions C15_signed_zero_unsound_refuted.

Theorem C15_signed_zero_outside_shape : forall r, recognizedb r = true -> K_signed_zero r = false.
Proof. exact signed_zero_outside_shape. Qed.
Print Assumptions C15_signed_zero_outside_shape.

(* ---- compress_concatenation_elements: its two asserts and the final `assert False` are unreachable ---- *)
Theorem C15_compress_no_assert : forall l, exists r, compress l = Ok r.
Proof. exact compress_no_assert. Qed.
Print Assumptions C15_compress_no_assert.

(* ---- compress_concatenation_elements keeps the language (k k* = k+, k* k* = k*, k+ k* = k+, commutation
        inside a groupby group); hypothesis non-vacuous by C15_compress_no_assert, example compress_example ---- *)
Theorem C15_compress_lang : forall l r, compress l = Ok r -> forall s, matches_cat r s <-> matches_cat l s.
Proof. exact compress_lang. Qed.
Print Assumptions C15_compress_lang.

(* the same on the regular expressions z3.Concat( *elements ) (cat_re: left-nested concatenation) *)
Theorem C15_compress_lang_re : forall l r, compress l = Ok r ->
  forall s, matches (cat_re r) s <-> matches (cat_re l) s.
Proof. exact compress_lang_re. Qed.
Print Assumptions C15_compress_lang_re.

(* ---- the executable derivative matcher (tied to Z3 InRe by the harness) is the declarative semantics ---- *)
Theorem C15_matchb_spec : forall r s, matchb r s = true <-> matches r s.
Proof. exact matchb_spec. Qed.
Print Assumptions C15_matchb_spec.

(* ---- intervals: over-approximation half INCLUDING concatenations, whole recognised vocabulary (a superset of
        the documented shape), both q, any fuel; partial: guard ~K_inner_sign.  Non-vacuity: overapprox_example
        (optional minus, zero padding, [1-9], digits) in Smt/IvConcatSound.v ---- *)
Theorem C15_intervals_overapprox_concat_partial : forall q r fuel ivs s n,
  recognizedb r = true -> K_inner_sign r = false -> nifr q fuel r = Val (Some ivs) ->
  matches r s -> intval s = Some n -> In_ivs n ivs.
Proof. exact recognized_overapprox. Qed.
Print Assumptions C15_intervals_overapprox_concat_partial.

(* the same with the documented-shape recogniser as hypothesis *)
Theorem C15_intervals_overapprox_documented_partial : forall q r fuel ivs s n,
  documented_shapeb r = true -> K_inner_sign r = false -> nifr q fuel r = Val (Some ivs) ->
  matches r s -> intval s = Some n -> In_ivs n ivs.
Proof. exact documented_overapprox. Qed.
Print Assumptions C15_intervals_overapprox_documented_partial.

(* the guard is needed: inside documented_shapeb, with an inner sign, the half fails (repaired and unrepaired code):
   Concat(Star(Re 0), Union(Concat(Re -, Re 0), Re 0), Re 5) |-> [(5,5)], matches "-05" *)
Theorem C15_intervals_overapprox_refuted :
  exists r ivs s n, documented_shapeb r = true /\ K_inner_sign r = true /\ K_signed_zero r = false /\
                    nifr_top true r = Val (Some ivs) /\ nifr_top false r = Val (Some ivs) /\
                    matches r s /\ intval s = Some n /\ ~ In_ivs n ivs.
Proof. exact inner_sign_overapprox_refuted. Qed.
Print Assumptions C15_intervals_overapprox_refuted.
