(* C15 — Integer intervals inferred from a regex are exactly the numbers it matches; compressing a
   regex concatenation keeps its language.
   Only statements + `exact`; models: Smt/Intervals.v (merge, compress, nifr), semantics Smt/IvRe.v
   (matches), spec and proofs: Smt/IntervalsFacts.v, Smt/IvCompressFacts.v, and (proof extension)
   Smt/IvReFacts.v (matcher), Smt/IvCompressLang.v (language of compress), Smt/IvConcatFacts.v +
   Smt/IvConcatSound.v (concatenation case of the intervals), and (wave 3) Smt/IvConcatExact.v (exact half for
   concatenations), Smt/IvTightShape.v + Smt/IvTightSound.v + Smt/IvTightFamily.v (tight guard drops_signed).

   FULL STATEMENT (kept visible; refuted as it stands, see the _refuted theorems):
     forall r fuel ivs n, documented_shapeb r = true -> nifr true fuel r = Val (Some ivs) ->
       (In_ivs n ivs <-> exists s, matches r s /\ intval s = Some n).
   FULL (proved for all inputs):
     * merge_intervals (membership, separation, well-formedness);
     * compress_concatenation_elements never asserts AND keeps the language of the concatenation
       (C15_compress_lang, C15_compress_lang_re);
     * the derivative matcher is the declarative semantics (C15_matchb_spec) — the matcher that the harness
       ties to Z3's InRe is no longer trusted separately.
   PARTIAL:
     * over-approximation half (every integer value of a matched string lies in the intervals) for the WHOLE
       recognised vocabulary — concatenations included: flattening, Range(c,c) rewriting, compression,
       sign prefix -/+/Option(sign), union distribution, zero stripping, the three [1-9][0-9]* cases —
       for both values of q and any fuel,
         - under the guard  K_inner_sign r = false  (C15_intervals_overapprox_concat_partial), and now
         - under the TIGHT guard  drops_signed q fuel r = false  (C15_intervals_overapprox_tight_partial; wave 3):
           the guard follows the recursion of nifr (flattening of union alternatives included) and fires only when
           the zero-stripping loop drops an element that carries a sign literal while all elements stripped before
           it are nullable.  Inner signs are allowed (e.g. Concat(Re 0, Concat(Re -, Range 1 9)) and
           Concat(Re 0, Union(Concat(Re -, Re 0), Re 0), Re 5) are now covered); C15_tight_guard_subsumes shows
           that the old guard implies the new one.
       A guard is NEEDED: the unguarded statement
         recognizedb r = true -> nifr q fuel r = Val (Some ivs) -> matches r s -> intval s = Some n -> In_ivs n ivs
       is FALSE of the model and of the code (C15_intervals_overapprox_refuted), and the class is unsound on a whole
       FAMILY (C15_drops_signed_family_refuted: 0* (-0|0) t for EVERY tail element t with intervals not symmetric at
       a matched value; instances for all non-zero digits and all digit ranges).  Still missing: drops_signed is not
       an exact characterisation of unsoundness — members whose dropped element only matches "+0"-like strings, or
       whose tail intervals are symmetric (e.g. a <full> tail), are in the class but sound.
     * EXACTNESS (both halves) now INCLUDING concatenations (C15_intervals_exact_concat_partial, wave 3): on the whole
       recognised vocabulary, guards ~K_full_sign and ~K_inner_sign; the witness string (sign, zero padding per
       stripped element, digits) is constructed (C15_intervals_witness_concat_partial).  Both guards are needed
       (C15_intervals_exact_refuted, C15_intervals_inner_sign_refuted).
       ~K_full_sign is replaced by the TIGHT guard  full_alone q fuel r = false  in C15_intervals_exact_full_partial:
       only a <full> element evaluated ON ITS OWN (alone, in a union, behind a sign, behind stripped zeroes) is
       excluded; the three [1-9][0-9]* cases (1,inf), (10,inf), (0,inf) are proved exact (witness: decimal digits),
       so the flagship shape -?0*[1-9][0-9]* is covered; C15_full_guard_subsumes: the old guard implies the new one.
       Still missing: exactness for inputs WITH an inner sign where it holds (K_inner_sign is syntactic, not tight;
       Concat(Re -, Concat(Re -, Re 5)) |-> [(5,5)] is flagged and indeed inexact: "--5" is no integer), and a
       converse family for full_alone. *)
From ISLA Require Import Str Outcome IvRe Intervals IvShape IntervalsFacts IvCompressFacts.
From ISLA Require Import IvReFacts IvCompressLang IvConcatFacts IvConcatSound.
From ISLA Require Import IvConcatExact IvTightShape IvTightSound IvTightFamily IvFullShape IvFullExact.
From Coq Require Import List ZArith.
Import ListNotations.

(* ---- merge_intervals ---- *)
Theorem C15_merge_member : forall l n, Forall bounded l -> (In_ivs n (merge l) <-> In_ivs n l).
Proof. exact merge_ok_member. Qed.
Print Assumptions C15_merge_member.

Theorem C15_merge_member_closed : forall l n, In_cls n (merge l) <-> In_cls n l.
Proof. exact merge_ok_member_closed. Qed.
Print Assumptions C15_merge_member_closed.

Theorem C15_merge_separated : forall l, separated (merge l).
Proof. exact merge_ok_separated. Qed.
Print Assumptions C15_merge_separated.

Theorem C15_merge_wf : forall l, Forall wf_iv l -> Forall wf_iv (merge l).
Proof. exact merge_ok_wf. Qed.
Print Assumptions C15_merge_wf.

(* ---- intervals: over-approximation half, no guard (partial: concatenation-free shape) ---- *)
Theorem C15_intervals_overapprox_partial : forall q r fuel ivs s n,
  basic r -> nifr q fuel r = Val (Some ivs) -> matches r s -> intval s = Some n -> In_ivs n ivs.
Proof. exact basic_overapprox. Qed.
Print Assumptions C15_intervals_overapprox_partial.

(* ---- intervals: exactness under the guard ~K_full_sign (partial: concatenation-free shape) ---- *)
Theorem C15_intervals_exact_partial : forall q r fuel ivs n,
  basic r -> K_full_sign r = false -> nifr q fuel r = Val (Some ivs) ->
  (In_ivs n ivs <-> exists s, matches r s /\ intval s = Some n).
Proof. exact basic_exact. Qed.
Print Assumptions C15_intervals_exact_partial.

(* ---- refutations of the full statement ---- *)
Theorem C15_intervals_exact_refuted :
  exists r ivs n, documented_shapeb r = true /\ nifr_top true r = Val (Some ivs) /\ In_ivs n ivs /\
                  ~ exists s, matches r s /\ intval s = Some n.
Proof. exact full_refuted. Qed.
Print Assumptions C15_intervals_exact_refuted.

Theorem C15_intervals_inner_sign_refuted :
  exists r ivs n, documented_shapeb r = true /\ K_full_sign r = false /\ K_inner_sign r = true /\
                  nifr_top true r = Val (Some ivs) /\ In_ivs n ivs /\
                  ~ exists s, matches r s /\ intval s = Some n.
Proof. exact inner_sign_refuted. Qed.
Print Assumptions C15_intervals_inner_sign_refuted.

Theorem C15_outside_shape_unsound_refuted :
  exists r ivs s n, K_valueor_lambda r = true /\ nifr_top true r = Val (Some ivs) /\
                    matches r s /\ intval s = Some n /\ ~ In_ivs n ivs /\
                    nifr_top false r = Val None.
Proof. exact valueor_lambda_refuted. Qed.
Print Assumptions C15_outside_shape_unsound_refuted.

(* outside the documented shape, also after the value_or repair: a zero-valued element that can carry a sign
   is stripped as zero padding (class K_signed_zero); the class never meets the documented shape *)
Theorem C15_signed_zero_unsound_refuted :
  exists r ivs s n, K_signed_zero r = true /\ documented_shapeb r = false /\
                    nifr_top false r = Val (Some ivs) /\ nifr_top true r = Val (Some ivs) /\
                    matches r s /\ intval s = Some n /\ ~ In_ivs n ivs.
Proof. exact signed_zero_refuted. Qed.
Print Assumptions C15_signed_zero_unsound_refuted.

Theorem C15_signed_zero_outside_shape : forall r, recognizedb r = true -> K_signed_zero r = false.
Proof. exact signed_zero_outside_shape. Qed.
Print Assumptions C15_signed_zero_outside_shape.

(* ---- compress_concatenation_elements: its two asserts and the final `assert False` are unreachable ---- *)
Theorem C15_compress_no_assert : forall l, exists r, compress l = Ok r.
Proof. exact compress_no_assert. Qed.
Print Assumptions C15_compress_no_assert.

(* ---- compress_concatenation_elements keeps the language (k k* = k+, k* k* = k*, k+ k* = k+, commutation
        inside a groupby group); hypothesis non-vacuous by C15_compress_no_assert, example compress_example ---- *)
Theorem C15_compress_lang : forall l r, compress l = Ok r -> forall s, matches_cat r s <-> matches_cat l s.
Proof. exact compress_lang. Qed.
Print Assumptions C15_compress_lang.

(* the same on the regular expressions z3.Concat( *elements ) (cat_re: left-nested concatenation) *)
Theorem C15_compress_lang_re : forall l r, compress l = Ok r ->
  forall s, matches (cat_re r) s <-> matches (cat_re l) s.
Proof. exact compress_lang_re. Qed.
Print Assumptions C15_compress_lang_re.

(* ---- the executable derivative matcher (tied to Z3 InRe by the harness) is the declarative semantics ---- *)
Theorem C15_matchb_spec : forall r s, matchb r s = true <-> matches r s.
Proof. exact matchb_spec. Qed.
Print Assumptions C15_matchb_spec.

(* ---- intervals: over-approximation half INCLUDING concatenations, whole recognised vocabulary (a superset of
        the documented shape), both q, any fuel; partial: guard ~K_inner_sign.  Non-vacuity: overapprox_example
        (optional minus, zero padding, [1-9], digits) in Smt/IvConcatSound.v ---- *)
Theorem C15_intervals_overapprox_concat_partial : forall q r fuel ivs s n,
  recognizedb r = true -> K_inner_sign r = false -> nifr q fuel r = Val (Some ivs) ->
  matches r s -> intval s = Some n -> In_ivs n ivs.
Proof. exact recognized_overapprox. Qed.
Print Assumptions C15_intervals_overapprox_concat_partial.

(* the same with the documented-shape recogniser as hypothesis *)
Theorem C15_intervals_overapprox_documented_partial : forall q r fuel ivs s n,
  documented_shapeb r = true -> K_inner_sign r = false -> nifr q fuel r = Val (Some ivs) ->
  matches r s -> intval s = Some n -> In_ivs n ivs.
Proof. exact documented_overapprox. Qed.
Print Assumptions C15_intervals_overapprox_documented_partial.

(* the guard is needed: inside documented_shapeb, with an inner sign, the half fails (repaired and unrepaired code):
   Concat(Star(Re 0), Union(Concat(Re -, Re 0), Re 0), Re 5) |-> [(5,5)], matches "-05" *)
Theorem C15_intervals_overapprox_refuted :
  exists r ivs s n, documented_shapeb r = true /\ K_inner_sign r = true /\ K_signed_zero r = false /\
                    nifr_top true r = Val (Some ivs) /\ nifr_top false r = Val (Some ivs) /\
                    matches r s /\ intval s = Some n /\ ~ In_ivs n ivs.
Proof. exact inner_sign_overapprox_refuted. Qed.
Print Assumptions C15_intervals_overapprox_refuted.

(* ==================================================================================================== *)
(* Proof extension, wave 3                                                                                *)
(* ==================================================================================================== *)

Local Open Scope Z_scope.

(* ---- (1) over-approximation half under the TIGHT guard: drops_signed q fuel r (Smt/IvTightShape.v) follows the
        recursion of nifr q fuel r and is true iff the zero-stripping loop drops an element that carries a sign
        literal while every element stripped before it is nullable (or the signed element itself does so in its own
        evaluation).  Inner signs are allowed.  Non-vacuity: tight_examples (Smt/IvTightFamily.v): two inputs with
        K_inner_sign = true and drops_signed = false. ---- *)
Theorem C15_intervals_overapprox_tight_partial : forall q r fuel ivs s n,
  recognizedb r = true -> drops_signed q fuel r = false -> nifr q fuel r = Val (Some ivs) ->
  matches r s -> intval s = Some n -> In_ivs n ivs.
Proof. exact recognized_overapprox_tight. Qed.
Print Assumptions C15_intervals_overapprox_tight_partial.

(* the same for the documented shape, with the fuel of nifr_top (class K_drops_signed) *)
Theorem C15_intervals_overapprox_tight_documented_partial : forall q r ivs s n,
  documented_shapeb r = true -> K_drops_signed q r = false -> nifr_top q r = Val (Some ivs) ->
  matches r s -> intval s = Some n -> In_ivs n ivs.
Proof. exact documented_overapprox_tight. Qed.
Print Assumptions C15_intervals_overapprox_tight_documented_partial.

(* the tight guard is implied by the old one: the tight theorem subsumes C15_intervals_overapprox_concat_partial *)
Theorem C15_tight_guard_subsumes : forall q fuel r,
  recognizedb r = true -> K_inner_sign r = false -> drops_signed q fuel r = false.
Proof. exact inner_sign_no_drop. Qed.
Print Assumptions C15_tight_guard_subsumes.

(* converse-style refutation FAMILY: for EVERY tail element t (not a concatenation, Range(c,c)-normal, not the
   union itself) that the model maps to intervals ivs, the regex  0* (-0 | 0) t  is in the class drops_signed, is
   given exactly ivs, and matches "-0w" (value -v) for every digit string w (value v) matched by t: unsound
   whenever -v is not in ivs (i.e. whenever the intervals of the tail are not symmetric at v) *)
Theorem C15_drops_signed_family_refuted : forall q k t ivs,
  is_concat t = false -> norm_range t = t -> re_eqb sz_union (key t) = false ->
  nifr q (6 + k)%nat t = Val (Some ivs) ->
  forall w, matches t w -> forallb isdig w = true -> ~ In_ivs (- digits_val w 0) ivs ->
    nifr q (7 + k)%nat (sz_family t) = Val (Some ivs) /\ drops_signed q (7 + k)%nat (sz_family t) = true /\
    matches (sz_family t) (45%N :: 48%N :: w) /\ intval (45%N :: 48%N :: w) = Some (- digits_val w 0) /\
    ~ In_ivs (- digits_val w 0) ivs.
Proof. exact family_unsound. Qed.
Print Assumptions C15_drops_signed_family_refuted.

(* instances (all hypotheses discharged): every non-zero digit literal d:  0* (-0|0) d  |-> [(d,d)], matches "-0d" *)
Theorem C15_drops_signed_digit_refuted : forall q k d, isdig d = true -> d <> 48%N ->
  let r := sz_family (RStr [d]) in let n := (Z.of_N d - 48)%Z in
  recognizedb r = true /\ drops_signed q (7 + k)%nat r = true /\ nifr q (7 + k)%nat r = Val (Some [(n, n)]) /\
  matches r [45%N; 48%N; d] /\ intval [45%N; 48%N; d] = Some (- n)%Z /\ ~ In_ivs (- n)%Z [(n, n)].
Proof. exact family_digit. Qed.
Print Assumptions C15_drops_signed_digit_refuted.

(* every digit range [a-b], 1 <= a < b, inside the documented shape: all of -a .. -b are matched and missing *)
Theorem C15_drops_signed_range_refuted : forall q k a b,
  isdig a = true -> isdig b = true -> (48 < a)%N -> (a < b)%N ->
  let r := sz_family (RRange [a] [b]) in let lo := (Z.of_N a - 48)%Z in let hi := (Z.of_N b - 48)%Z in
  documented_shapeb r = true /\ drops_signed q (7 + k)%nat r = true /\ nifr q (7 + k)%nat r = Val (Some [(lo, hi)]) /\
  forall x, (a <= x <= b)%N ->
    matches r [45%N; 48%N; x] /\ intval [45%N; 48%N; x] = Some (- (Z.of_N x - 48))%Z /\
    ~ In_ivs (- (Z.of_N x - 48))%Z [(lo, hi)].
Proof. exact family_range. Qed.
Print Assumptions C15_drops_signed_range_refuted.

(* ---- (2) EXACT half INCLUDING concatenations (sign prefix -/+/Option(sign), union distribution, zero stripping,
        digit classes): every integer in the inferred intervals is the value of a matched string — the witness
        (sign, one zero string per stripped element, digits) is constructed.  Whole recognised vocabulary, both q,
        any fuel; guards ~K_full_sign, ~K_inner_sign.  Non-vacuity: exact_example (Smt/IvConcatExact.v). ---- *)
Theorem C15_intervals_witness_concat_partial : forall q fuel r ivs,
  recognizedb r = true -> K_inner_sign r = false -> K_full_sign r = false -> nifr q fuel r = Val (Some ivs) ->
  forall n, In_ivs n ivs -> exists s, matches r s /\ intval s = Some n.
Proof. exact nifr_exact. Qed.
Print Assumptions C15_intervals_witness_concat_partial.

(* both halves together: the intervals are EXACTLY the matched integers *)
Theorem C15_intervals_exact_concat_partial : forall q r fuel ivs n,
  recognizedb r = true -> K_full_sign r = false -> K_inner_sign r = false -> nifr q fuel r = Val (Some ivs) ->
  (In_ivs n ivs <-> exists s, matches r s /\ intval s = Some n).
Proof. exact recognized_exact. Qed.
Print Assumptions C15_intervals_exact_concat_partial.

Theorem C15_intervals_exact_documented_partial : forall q r fuel ivs n,
  documented_shapeb r = true -> K_full_sign r = false -> K_inner_sign r = false -> nifr q fuel r = Val (Some ivs) ->
  (In_ivs n ivs <-> exists s, matches r s /\ intval s = Some n).
Proof. exact documented_exact. Qed.
Print Assumptions C15_intervals_exact_documented_partial.

(* ---- (2b) EXACTNESS under the TIGHT guard for <full>: full_alone q fuel r (Smt/IvFullShape.v) follows the recursion
        of nifr and is true iff a <full> element Star/Plus(Range 0 9) is evaluated ON ITS OWN (alone, as a union
        alternative, behind a sign, or as the rest behind stripped zeroes), or the first element of one of the three
        [1-9][0-9]* cases is answered Nothing (value_or(lambda) quirk).  The three cases themselves are exact:
        witness = decimal digits of n.  Covers the flagship shape -?0*[1-9][0-9]* (exact_full_example). ---- *)
Theorem C15_intervals_exact_full_partial : forall q r fuel ivs n,
  recognizedb r = true -> K_inner_sign r = false -> full_alone q fuel r = false -> nifr q fuel r = Val (Some ivs) ->
  (In_ivs n ivs <-> exists s, matches r s /\ intval s = Some n).
Proof. exact recognized_exact_full. Qed.
Print Assumptions C15_intervals_exact_full_partial.

Theorem C15_intervals_exact_full_documented_partial : forall q r ivs n,
  documented_shapeb r = true -> K_inner_sign r = false -> K_full_alone q r = false -> nifr_top q r = Val (Some ivs) ->
  (In_ivs n ivs <-> exists s, matches r s /\ intval s = Some n).
Proof. exact documented_exact_full. Qed.
Print Assumptions C15_intervals_exact_full_documented_partial.

(* the tight guard is implied by ~K_full_sign: this theorem subsumes C15_intervals_exact_concat_partial *)
Theorem C15_full_guard_subsumes : forall q fuel r,
  recognizedb r = true -> K_full_sign r = false -> full_alone q fuel r = false.
Proof. exact no_full_not_alone. Qed.
Print Assumptions C15_full_guard_subsumes.
