(* C02 — solve() only returns solutions or signals exhaustion/timeout, then stays so.
   Only statements + `exact`; model: Solver/Loop.v (control skeleton of ISLaSolver.solve, with the
   queue discipline `pop`, the per-state work `process` and the clock `clk` as parameters);
   specification (`sticky`, `allowed`, `monotone`) and proofs: Solver/LoopFacts.v.

   Every theorem quantifies over ALL state/solution/queue types, ALL queue disciplines, ALL
   `process` functions, ALL clocks, ALL start states and ALL call histories (`fuels`: one entry
   per solve() call; OFuel = the call does not return within that many iterations). *)
From Coq Require Import List ZArith NArith.
From ISLA Require Import Outcome Loop LoopFacts.
Import ListNotations.

(* Once the queue and the pending solutions are empty, every later call raises StopIteration —
   whatever `process` is (it is never called again). *)
Theorem C02_stop_after_exhausted :
  forall St Tr Qu pop process clk (st : solver Tr Qu) fuels,
    pop (queue st) = None -> sols st = [] ->
    Forall (fun o => o = ORaise StopIter) (outcomes St Tr Qu pop process clk st fuels).
Proof. exact stop_after_exhausted. Qed.
Print Assumptions C02_stop_after_exhausted.

(* FULL STATEMENT (property text): for every call history, once StopIteration has been raised
   every later call raises it again.
   The skeleton guarantees it exactly when the StopIteration was its own, i.e. when `process`
   does not let a StopIteration of its own escape; without that premise the statement is false
   in the model (C02_stop_sticky_unguarded_refuted).  The premise is HUNTED by ./check C02: a
   StopIteration observed while queue or pending solutions are non-empty is a violation. *)
Theorem C02_stop_sticky :
  forall St Tr Qu pop process clk (st : solver Tr Qu) fuels,
    (forall s q, snd (process s q) <> Raise StopIter) ->
    sticky StopIter (outcomes St Tr Qu pop process clk st fuels).
Proof. exact stop_sticky. Qed.
Print Assumptions C02_stop_sticky.

Theorem C02_stop_sticky_unguarded_refuted :
  exists (tb : ttable) (q0 : tq) (fuels : list nat),
    ~ sticky StopIter (outcomes N N tq tpop (tprocess tb) (fun _ => 0%Z) (init q0 None) fuels).
Proof. exact stop_sticky_unguarded_refuted. Qed.
Print Assumptions C02_stop_sticky_unguarded_refuted.

(* FULL STATEMENT: for every call history and every non-decreasing clock, once TimeoutError has
   been raised every later call raises it again (and TimeoutError needs a configured timeout).
   REFUTED for the code as it is: `process` can raise TimeoutError from inside — with
   activate_unsat_support the nested self.solve() of the unsat check runs with timeout 2 and its
   TimeoutError is not caught (solver.py, process_new_state) — then the next call goes on with
   the rest of the queue.  Witness (model): state 0 raises TimeoutError inside process, state 1
   yields a solution, NO timeout configured: outcomes [TimeoutError; Tree].  Reproduced on the
   implementation (design_notes/C02.md; finding class K_inner_timeout; proposed fix
   proposed_fixes/C02-unsat-nested-timeout.diff). *)
Theorem C02_timeout_sticky_refuted :
  exists (tb : ttable) (q0 : tq) (fuels : list nat),
    monotone (fun _ => 0%Z) /\
    ~ sticky TimeoutErr (outcomes N N tq tpop (tprocess tb) (fun _ => 0%Z) (init q0 None) fuels).
Proof. exact timeout_sticky_unguarded_refuted. Qed.
Print Assumptions C02_timeout_sticky_refuted.

Theorem C02_timeout_without_timeout_refuted :
  exists (tb : ttable) (q0 : tq),
    In (ORaise TimeoutErr) (outcomes N N tq tpop (tprocess tb) (fun _ => 0%Z) (init q0 None) [5]).
Proof. exact timeout_without_timeout_refuted. Qed.
Print Assumptions C02_timeout_without_timeout_refuted.

(* PARTIAL: excluded class = `process` raises TimeoutError itself (K_inner_timeout).  What is
   missing for the full statement: that premise for the real `process` (it holds after the
   proposed fix for the one raise site found; in general it is hunted, not proved). *)
Theorem C02_timeout_sticky_partial :
  forall St Tr Qu pop process clk (st : solver Tr Qu) fuels,
    monotone clk ->
    (forall s q, snd (process s q) <> Raise TimeoutErr) ->
    sticky TimeoutErr (outcomes St Tr Qu pop process clk st fuels).
Proof. exact timeout_sticky. Qed.
Print Assumptions C02_timeout_sticky_partial.

(* If `process` never raises, every call returns a tree, raises StopIteration or TimeoutError
   (or does not return), and TimeoutError only when a timeout is configured.  The premise is
   exactly what cannot be proved from a model of 20 kLOC of Python: it is HUNTED by the check
   (every other exception escaping solve() is a violation or a recorded finding class). *)
Theorem C02_no_crash :
  forall St Tr Qu pop process clk (st : solver Tr Qu) fuels,
    (forall s q, exists new, snd (process s q) = Ok new) ->
    Forall (fun o => allowed o /\ (o = ORaise TimeoutErr -> timeout st <> None))
           (outcomes St Tr Qu pop process clk st fuels).
Proof. exact no_crash. Qed.
Print Assumptions C02_no_crash.

(* Every tree a call returns was pending at the start or was produced by `process`. *)
Theorem C02_tree_provenance :
  forall St Tr Qu pop process clk fuels (st : solver Tr Qu) t,
    In (OTree t) (outcomes St Tr Qu pop process clk st fuels) ->
    In t (sols st) \/ exists s q new, snd (process s q) = Ok new /\ In t new.
Proof. exact tree_provenance. Qed.
Print Assumptions C02_tree_provenance.

(* The same for table-driven runs (the instance the correspondence check evaluates), under the
   boolean class predicates that the harness computes on the observed process table. *)
Theorem C02_table_stop_sticky :
  forall tb rs q0 tmo fuels,
    K_inner_stop tb = false ->
    sticky StopIter (outcomes N N tq tpop (tprocess tb) (tclk rs) (init q0 tmo) fuels).
Proof. exact table_stop_sticky. Qed.
Print Assumptions C02_table_stop_sticky.

Theorem C02_table_timeout_sticky_partial :
  forall tb rs q0 tmo fuels,
    monotone (tclk rs) -> K_inner_timeout tb = false ->
    sticky TimeoutErr (outcomes N N tq tpop (tprocess tb) (tclk rs) (init q0 tmo) fuels).
Proof. exact table_timeout_sticky. Qed.
Print Assumptions C02_table_timeout_sticky_partial.

(* Non-vacuity: concrete histories that satisfy the hypotheses and reach the sticky outcome. *)
Example C02_ex_stop_history :
  outcomes N N tq tpop (tprocess tb_ok) (fun _ => 0%Z) (init [(0%N, 0%N)] None) [5; 5; 5; 5]
  = [OTree 3%N; OTree 4%N; ORaise StopIter; ORaise StopIter]
  /\ K_inner_stop tb_ok = false /\ K_inner_timeout tb_ok = false /\ K_crash tb_ok = false.
Proof. exact (conj stop_history stop_history_guard). Qed.
Print Assumptions C02_ex_stop_history.

Example C02_ex_timeout_history :
  outcomes N N tq tpop (tprocess tb_ok) (tclk [10; 10; 11; 13; 13]%Z) (init [(0%N, 0%N)] (Some 2%Z)) [5; 5; 5]
  = [OTree 3%N; ORaise TimeoutErr; ORaise TimeoutErr]
  /\ monotone (tclk [10; 10; 11; 13; 13]%Z).
Proof. exact (conj timeout_history timeout_history_monotone). Qed.
Print Assumptions C02_ex_timeout_history.

(* After a crash of `process` the popped state is lost and the solver continues (not sticky,
   and not required to be): TypeError, then a tree, then StopIteration. *)
Example C02_ex_crash_then_tree :
  outcomes N N tq tpop (tprocess tb_crash) (fun _ => 0%Z) (init [(0%N, 0%N); (1%N, 1%N)] None) [5; 5; 5]
  = [ORaise TypeErr; OTree 7%N; ORaise StopIter].
Proof. exact crash_then_tree. Qed.
Print Assumptions C02_ex_crash_then_tree.
