(* C01 — Every solver solution is grammar-valid and satisfies the constraint.
   Only statements + `exact`; proofs: Solver/Sound.v, RulesFacts.v, SolveSound.v, PredStable.v,
   SolveSoundMore.v (proof extension 2), SolveSoundMore3.v (proof extension 3).
   Models: Solver/State.v (acceptance check), Solver/Rules.v + RulesMore.v + RulesMore3.v (abstract
   rule system); Solver/TraceConf.v (proof extension 4: verified edge check for trace conformance).

   FULL STATEMENT (not proved about the Python code; see strength below):
     every tree returned by ISLaSolver.solve() is closed, a derivation tree of the grammar rooted at
     the start symbol, its string is in the language, and it satisfies the solver's constraint under
     the specification semantics — for every prefix of the sequence of solve() calls.
   STRENGTH: PARTIAL.  (a) C01_solve_sound_partial3 (proof extension 3; supersedes
   C01_solve_sound_partial2 and C01_solve_sound_partial, both kept) is about an ABSTRACT transition
   system that over-approximates the elimination chain of solve().  It has NO premise about any
   step relation any more (only the evaluated grammar check reach_closedb g): every step is a RULE
   WITH PROVED LOCAL SOUNDNESS:
     - core rules (split, nnf, matching, expansion, ExistsInt := some numeral), stable evaluation;
     - tree insertion for EVERY method mask (C13), removal of universals over OPEN in-trees (C06),
       definite verdicts of count (C14)                                     [proof extension 2];
     - SMT ELIMINATION (C01_local_sound_smt).  H_smt is decomposed: C01_smt_step_sound_given_model
       derives the rule's guards from (i) the ONLY external fact "the assignment Z3 returns satisfies
       the literals it was given" (meaning over strings, satom_sden), and (ii) reconstruction facts
       proved for the modelled components: the trees come from the parser (C10_parse_sound:
       C01_smt_tree_of_parse) or create_fixed_length_tree (C14_cflt_sound: C01_smt_tree_of_cflt)
       and are substituted at pairwise independent positions.  Guard that stays: every rebuilt tree
       is a COMPLETION of the subtree it replaces (automatic for open leaves — the only case with
       optimized Z3 queries; for a partially expanded instantiated tree the parser must return its
       completion: not proved for ambiguous grammars);
     - COUNT'S INSERTION SEARCH (C01_local_sound_count_search): H_sem_search is discharged OUTSIDE
       K_count — guard: the result c is substituted in place (compl in-tree c); its count guards are
       C14's count_target_met (C01_count_search_step_of_finish).  Inside K_count (replacement
       dropped by substitute) the step is REFUTED in the rule system too (C01_count_dropped_refuted);
     - NUMERIC QUANTIFIERS: ExistsInt = r_exists_int (prophecy of the numeral Z3 picks later; the
       SMT rule accepts variables bound to numerals) + the shortcut drop (C01_local_sound_drop_stable);
       ForallInt BY ENUMERATION AS THE CODE DOES IT (one instance replaces the quantifier, no
       exhaustiveness test) is REFUTED (C01_forall_int_inst_refuted; reproduced on /repo: a NEW
       defect, see design notes) and proved sound under the guard only_value_matters
       (C01_local_sound_forall_int_partial, C01_forall_int_exh_of_smt); the special-case
       transformation is sound (C01_local_sound_forall_int_transform).
   WHAT IS STILL PARTIAL: the rule system is an abstraction; TRACE CONFORMANCE (proof extension 4,
   Solver/TraceConf.v) covers the TREE part of a solver step only: the executable check edge_kind
   of one recorded edge (parent state tree, successor state tree) of ISLaSolver(debug=True).state_tree
   is proved sound (C01_trace_edge_sound: a non-zero kind means same root label, grammar-valid
   successor tree, and completion [Rules.compl] / completion up to node ids / replacement shape
   [tree guards of r_insert at every prefix of the hint; kind 4 additionally C13 inserted_lossy;
   kind 5 = nodes lost, a step OUTSIDE the modelled rules, see C01_trace_kind_replace]); a completion edge is a
   refinement step as soon as its constraint part is one (C01_trace_compl_edge_refines), an
   insertion edge is an instance of r_insert given the clause-level premises
   (C01_trace_insert_edge_step), and a whole trace of checked edges with the stated constraint
   parts ends in a valid solution (C01_trace_sound_given_constraints) — so the harness stream
   checks hypotheses of theorems, not an ad-hoc predicate.  NOT covered: the constraint part of a
   step (which conjuncts Python adds or drops is not replayed against the rules), and for edges of
   kind 3 (an SMT answer substituted for a partially expanded tree is re-parsed: its inner nodes get
   FRESH IDS, so Rules.compl — which compares ids — holds only up to ids; observed on /repo, see
   design notes) only the tree part up to ids (C01_trace_compl_ni_edge).  Semantic guards
   inside rules: me_settled (universal with match expression over an open in-tree), the compl guards
   of r_smt / r_count_search, only_value_matters, stable_g; and the external Z3 fact above.
   The old premise H_insert (sound_rel of insertion) is UNSATISFIABLE for insertions that move host
   nodes (C01_insert_not_refinement_refuted): soundness of insertion rests on re-conjoining the
   original formula, not on refinement; the invariant is relative to the initial state.
   (b) The full statement is
   REFUTED for constraints with nth (C01_eval_unsound_nth: the evaluation step the code performs
   without a stability side condition adds a non-solution; reproduced on the implementation, known
   finding K_nth), on the implementation for count (K_count) and for `forall int` (enumeration).
   (c) The tie to /repo is the runtime check of every returned tree by sol_check
   (C01_checked_solution_valid / _complete) and the trace-conformance stream (edge_kind evaluated in
   Coq on sampled edges of the debug state tree; theorems C01_trace_...). *)
From ISLA Require Import PredStable SolveSoundMore SolveSoundMore3 TraceConf.
From ISLA Require Eval3 Insert InsertFacts InsertSelfMore InsertCtxMore FixedLen.
From ISLA Require Earley EarleyPrune.
From Coq Require Import ZArith.

(* ---- runtime acceptance check ---- *)
Theorem C01_checked_solution_valid : forall g start cst f t,
  sol_check g start cst f t = 0%N -> valid_solution g start cst f t.
Proof. exact sol_check_sound. Qed.
Print Assumptions C01_checked_solution_valid.

Theorem C01_checked_solution_complete : forall g start cst f t,
  shape_ok t = true -> no_numq f = true ->
  valid_solution g start cst f t -> sol_check g start cst f t = 0%N.
Proof. exact sol_check_complete. Qed.
Print Assumptions C01_checked_solution_complete.

Theorem C01_checked_prefixes_valid : forall g start cst f (out : list tree),
  forallb (sol_ok g start cst f) out = true ->
  forall n, Forall (valid_solution g start cst f) (firstn n out).
Proof. exact sol_check_prefix. Qed.
Print Assumptions C01_checked_prefixes_valid.

Theorem C01_atom_decider_correct : forall a e, satom_dec a e = true <-> satom_denote a e.
Proof. exact satom_dec_spec. Qed.
Print Assumptions C01_atom_decider_correct.

(* ---- local soundness of the rules (Sol s' is a subset of Sol s) ---- *)
(* invariant split (and / or / nnf), universal matching, removal of universals over complete
   in-trees, existential matching (with and without match expressions), ExistsInt introduction,
   expansion / finishing *)
Theorem C01_local_sound_core : forall g s s', core_step g s s' -> forall t', Sol g s' t' -> Sol g s t'.
Proof. exact core_sound. Qed.
Print Assumptions C01_local_sound_core.

(* evaluation of a predicate / SMT conjunct on the current tree is sound when the verdict is stable *)
Theorem C01_local_sound_eval_partial : forall g s s',
  eval_step_stable s s' -> forall t', Sol g s' t' -> Sol g s t'.
Proof. exact eval_stable_sound. Qed.
Print Assumptions C01_local_sound_eval_partial.

(* ... which holds for the six position-only structural predicates ... *)
Theorem C01_stable_path_only : forall t b n args,
  path_only n = true -> forallb no_tree_arg args = true ->
  stable t b (FSPred n args) /\ stable t b (FNot (FSPred n args)).
Proof. exact stable_path_only. Qed.
Print Assumptions C01_stable_path_only.

(* ... for EVERY binary structural predicate (the six above and consecutive) and for level, on
   variables bound to positions of the state tree ... *)
Theorem C01_stable_pred2 : forall t b n a1 a2, arg_valid t b a1 -> arg_valid t b a2 ->
  stable t b (FSPred n [a1; a2]) /\ stable t b (FNot (FSPred n [a1; a2])).
Proof. exact stable_pred2. Qed.
Print Assumptions C01_stable_pred2.

Theorem C01_stable_level : forall t b op nt a2 a3, arg_valid t b a2 -> arg_valid t b a3 ->
  stable t b (FSPred s_level [PStr op; PStr nt; a2; a3]) /\
  stable t b (FNot (FSPred s_level [PStr op; PStr nt; a2; a3])).
Proof. exact stable_level. Qed.
Print Assumptions C01_stable_level.

(* ... and for SMT atoms over closed subtrees *)
Theorem C01_stable_smt_closed : forall t b a,
  vars_closed t b (satom_vars a) -> stable t b (FSmt a) /\ stable t b (FNot (FSmt a)).
Proof. exact stable_smt_closed. Qed.
Print Assumptions C01_stable_smt_closed.

(* ... but NOT for nth: the step as the code performs it (no side condition) adds a non-solution *)
Theorem C01_eval_unsound_nth_refuted : exists g s s' t',
  eval_step s s' /\ Sol g s' t' /\ ~ Sol g s t' /\
  K_nth (snd (hd (env_empty, FSmt (SBool true)) (fst s))) = true.
Proof. exact eval_unsound_nth. Qed.
Print Assumptions C01_eval_unsound_nth_refuted.

(* match-expression matching never looks below an open leaf *)
Theorem C01_match_stable : forall t2 s s' P q bs, compl s s' ->
  smatch t2 s P q = Some bs -> smatch t2 s' P q = Some bs.
Proof. exact smatch_compl. Qed.
Print Assumptions C01_match_stable.

(* ---- the abstract solver ---- *)
Theorem C01_solve_sound_partial :
  forall (g : grammar)
         (smt_step sem_step insert_step numq_step infeasible_step : cstate -> cstate -> Prop),
    sound_rel g smt_step -> sound_rel g sem_step -> sound_rel g insert_step ->
    sound_rel g numq_step -> sound_rel g infeasible_step ->
    forall start i0 cst phi s,
      is_nt start = true -> defined g start = true ->
      reachable g smt_step sem_step insert_step numq_step infeasible_step
                (init_state start i0 cst phi) s ->
      final s -> valid_solution g start cst phi (snd s).
Proof. exact solve_sound_partial. Qed.
Print Assumptions C01_solve_sound_partial.

Example C01_solve_sound_nonvacuous :
  let R := RunExample.none in
  reachable RunExample.g R R R R R (init_state RunExample.nt_s 0 RunExample.cst RunExample.phi)
            ([], RunExample.t1) /\
  final ([], RunExample.t1) /\ sound_rel RunExample.g R.
Proof. exact solve_sound_example. Qed.
Print Assumptions C01_solve_sound_nonvacuous.

(* ==================================================================== *)
(* PROOF EXTENSION (Solver/RulesMore.v, Solver/SolveSoundMore.v): insertion, infeasible universal
   quantifiers and count verdicts become RULES with proved local soundness (C13, C06, C14)        *)
(* ==================================================================== *)

(* ---- vocabulary: refinement steps and the invariant relative to the initial problem ---- *)
Theorem C01_refines_def : forall g R,
  refines g R <->
  (forall s s', R s s' ->
     lbl (snd s') = lbl (snd s) /\ (wf_tree g (snd s) -> wf_tree g (snd s')) /\
     (forall t', Sol g s' t' -> Sol g s t')).
Proof. exact (fun g R => iff_refl _). Qed.
Print Assumptions C01_refines_def.

Theorem C01_inv_def : forall g start i0 cst phi s,
  inv g start i0 cst phi s <->
  (wf_tree g (snd s) /\ lbl (snd s) = start /\
   forall t', Sol g s t' -> Sol g (init_state start i0 cst phi) t').
Proof. exact (fun g start i0 cst phi s => iff_refl _). Qed.
Print Assumptions C01_inv_def.

(* every refinement step preserves the invariant; the old premise shape (sound_rel) plus
   "the root label is kept" is a refinement *)
Theorem C01_refines_preserves : forall g start i0 cst phi R,
  refines g R -> preserves (inv g start i0 cst phi) R.
Proof. exact refines_preserves. Qed.
Print Assumptions C01_refines_preserves.

Theorem C01_sound_rel_refines : forall g R, sound_rel g R ->
  (forall s s', R s s' -> lbl (snd s') = lbl (snd s)) -> refines g R.
Proof. exact sound_rel_lbl_refines. Qed.
Print Assumptions C01_sound_rel_refines.

Theorem C01_local_sound_core_refines : forall g, refines g (core_step g).
Proof. exact core_refines. Qed.
Print Assumptions C01_local_sound_core_refines.

(* ---- (1) tree insertion (eliminate_existential_formula) ---- *)
(* the rule: the in-variable's subtree `host` is replaced by a grammar-valid tree with the same root
   label, and the new constraint contains the original formula; NOTHING else of C13's `inserted` is
   needed for soundness *)
Theorem C01_local_sound_insert : forall g start i0 cst phi,
  preserves (inv g start i0 cst phi) (insert_step g cst phi).
Proof. exact insert_preserves. Qed.
Print Assumptions C01_local_sound_insert.

(* every result of the modelled insert_tree (C13) for a mask WITHOUT context addition is such a step
   (via C13_insert_tree_partial: `inserted`) ... *)
Theorem C01_insert_tree_step :
  forall g chain pb maxn meth cst phi cs1 cs2 b v w m body t p0 host ins rs res t1 cs',
  InsertFacts.closed_g g -> InsertFacts.chain_ok chain -> wf_tree g t -> wf_tree g ins ->
  InsertSelfMore.uniq_ids host ins -> Insert.K_ctx meth = false ->
  b w = Some (VPos p0) -> subtree t p0 = Some host ->
  Insert.insert_tree g chain pb maxn meth ins host = Ok rs -> In res rs ->
  Insert.replace_at t p0 res = Some t1 -> In (env0 cst, phi) cs' ->
  insert_step g cst phi (cs1 ++ (b, FExists v (InVar w) m body) :: cs2, t) (cs', t1).
Proof. exact insert_tree_step. Qed.
Print Assumptions C01_insert_tree_step.

(* ... and for EVERY mask, context addition included (via C13_insert_tree_lossy_ok: the results
   that lose the inserted tree are still valid trees with the host's root label) *)
Theorem C01_insert_tree_step_any_mask :
  forall g chain pb maxn meth cst phi cs1 cs2 b v w m body t p0 host ins rs res t1 cs',
  InsertFacts.closed_g g -> InsertFacts.chain_ok chain -> InsertSelfMore.pb_start pb ->
  wf_tree g t -> wf_tree g ins -> InsertSelfMore.uniq_ids host ins ->
  b w = Some (VPos p0) -> subtree t p0 = Some host ->
  Insert.insert_tree g chain pb maxn meth ins host = Ok rs -> In res rs ->
  Insert.replace_at t p0 res = Some t1 -> In (env0 cst, phi) cs' ->
  insert_step g cst phi (cs1 ++ (b, FExists v (InVar w) m body) :: cs2, t) (cs', t1).
Proof. exact insert_tree_step_any_mask. Qed.
Print Assumptions C01_insert_tree_step_any_mask.

(* the premise H_insert of C01_solve_sound_partial was too strong: an insertion that moves host
   nodes (self embedding) has solutions that are no completions of the old state tree *)
Theorem C01_insert_not_refinement_refuted : exists g cst phi s s' t',
  insert_step g cst phi s s' /\ Sol g s' t' /\ ~ Sol g s t'.
Proof. exact insert_not_refinement. Qed.
Print Assumptions C01_insert_not_refinement_refuted.

(* ---- (2) removal of universal quantifiers whose in-tree may be open
        (remove_infeasible_universal_quantifiers) ---- *)
Theorem C01_infeasible_rule_def : forall g s s',
  infeasible_drop g s s' <->
  exists cs1 cs2 b v w m body t p0 s0,
    s = (cs1 ++ (b, FForall v (InVar w) m body) :: cs2, t) /\ s' = (cs1 ++ cs2, t) /\
    b w = Some (VPos p0) /\ subtree t p0 = Some s0 /\ is_nt (vtype v) = true /\
    (forall q b', qmatch t b v w m q b' -> In (b', body) (cs1 ++ cs2)) /\
    (forall leaf n, subtree t leaf = Some n -> opn n = true -> prefix p0 leaf ->
       Eval3.reachb g (lbl n) (vtype v) = false) /\
    match m with
    | None => True
    | Some me =>
        forall q s1 t2 P, in_dom t b (InVar w) (vtype v) q -> subtree t q = Some s1 ->
          In (t2, P) (me_trees me) -> smatch t2 s1 P q = None ->
          forall s1', compl s1 s1' -> smatch t2 s1' P q = None
    end.
Proof. exact infeasible_drop_def. Qed.
Print Assumptions C01_infeasible_rule_def.

Theorem C01_local_sound_infeasible : forall g,
  Eval3.reach_closedb g = true -> refines g (infeasible_drop g).
Proof. exact infeasible_refines. Qed.
Print Assumptions C01_local_sound_infeasible.

(* without match expression the reachability guard is what the modelled might-match test (C06,
   with the solver's already-matched ids) answers on the open leaves of the in-tree *)
Theorem C01_infeasible_guard_from_qmm : forall g t am v p0,
  (forall leaf n, subtree t leaf = Some n -> opn n = true -> prefix p0 leaf ->
     Eval3.qmm3 g t am v p0 None leaf = false /\
     (lbl n = vtype v -> Eval3.already_matched am n = true)) ->
  no_leaf_reaches g t p0 (vtype v).
Proof. exact qmm3_false_no_reach. Qed.
Print Assumptions C01_infeasible_guard_from_qmm.

(* the quantifier's domain gets no new position in any grammar-valid completion *)
Theorem C01_quant_domain_no_new : forall g t t' p0 s0 T q s',
  Eval3.reach_closedb g = true -> compl t t' -> wf_tree g t' ->
  subtree t p0 = Some s0 -> is_nt T = true -> no_leaf_reaches g t p0 T ->
  prefix p0 q -> subtree t' q = Some s' -> lbl s' = T ->
  exists s, subtree t q = Some s /\ compl s s'.
Proof. exact dom_no_new. Qed.
Print Assumptions C01_quant_domain_no_new.

(* ---- (3) definite verdicts of count (eliminate_all_ready_semantic_predicate_formulas,
        evaluation_result.is_boolean()) ---- *)
Theorem C01_local_sound_eval_g : forall g, refines g (eval_step_stable_g g).
Proof. exact eval_stable_g_refines. Qed.
Print Assumptions C01_local_sound_eval_g.

Theorem C01_stable_count_settled : forall g t b x needle a3 p s,
  Eval3.reach_closedb g = true -> is_nt needle = true ->
  b x = Some (VPos p) -> subtree t p = Some s ->
  (forall r n, subtree s r = Some n -> opn n = true -> Eval3.reachb g (lbl n) needle = false) ->
  stable_g g t b (count_atom x needle a3) /\ stable_g g t b (FNot (count_atom x needle a3)).
Proof. exact stable_count_settled. Qed.
Print Assumptions C01_stable_count_settled.

Theorem C01_stable_count_exceeded : forall t b x needle a3 p s,
  b x = Some (VPos p) -> subtree t p = Some s ->
  (forall k, num_val b a3 k -> (k < N.of_nat (count_lbl needle s))%N) ->
  stable t b (FNot (count_atom x needle a3)).
Proof. exact stable_count_exceeded. Qed.
Print Assumptions C01_stable_count_exceeded.

(* the verdicts True / False of the C14 model of isla_predicates.count (before its insertion
   search) are the truth value of the atom on the state tree and survive every grammar-valid
   completion: the evaluation step is an instance of eval_step_stable_g *)
Theorem C01_count_true_stable : forall g t b x needle a3 p s k,
  Eval3.reach_closedb g = true -> is_nt needle = true ->
  b x = Some (VPos p) -> subtree t p = Some s -> num_val b a3 k ->
  FixedLen.count_decide (Eval3.reachb g) needle s (Z.of_N k) = FixedLen.CTrue ->
  models satom_denote t b (count_atom x needle a3) /\ stable_g g t b (count_atom x needle a3).
Proof. exact count_decide_true_stable. Qed.
Print Assumptions C01_count_true_stable.

Theorem C01_count_false_stable : forall g t b x needle a3 p s k,
  Eval3.reach_closedb g = true -> is_nt needle = true ->
  b x = Some (VPos p) -> subtree t p = Some s -> num_val b a3 k ->
  FixedLen.count_decide (Eval3.reachb g) needle s (Z.of_N k) = FixedLen.CFalse ->
  models satom_denote t b (FNot (count_atom x needle a3)) /\
  stable_g g t b (FNot (count_atom x needle a3)).
Proof. exact count_decide_false_stable. Qed.
Print Assumptions C01_count_false_stable.

(* ---- the abstract solver, strengthened ---- *)
(* FULL STATEMENT would have no premise about smt_step / numq_step / sem_search_step.
   MISSING: SMT elimination (Z3 model + trees built from it), ForallInt instantiation, semantic
   predicates answering with a tree binding (count's insertion search; class K_count lives there);
   for universal quantifiers WITH match expression the rule's guard me_settled is semantic. *)
Theorem C01_solve_sound_partial2 :
  forall (g : grammar) (start : str) (i0 : N) (cst : var) (phi : cform)
         (smt_step numq_step sem_search_step : cstate -> cstate -> Prop),
    Eval3.reach_closedb g = true ->
    preserves (inv g start i0 cst phi) smt_step ->
    preserves (inv g start i0 cst phi) numq_step ->
    preserves (inv g start i0 cst phi) sem_search_step ->
    forall s,
      is_nt start = true -> defined g start = true ->
      reachable2 g cst phi smt_step numq_step sem_search_step (init_state start i0 cst phi) s ->
      final s -> valid_solution g start cst phi (snd s).
Proof. exact solve_sound_partial2. Qed.
Print Assumptions C01_solve_sound_partial2.

(* the steps of the strengthened system *)
Theorem C01_step2_def : forall g cst phi smt_step numq_step sem_search_step s s',
  step2 g cst phi smt_step numq_step sem_search_step s s' <->
  (core_step g s s' \/ eval_step_stable s s' \/ eval_step_stable_g g s s' \/
   infeasible_drop g s s' \/ insert_step g cst phi s s' \/
   smt_step s s' \/ numq_step s s' \/ sem_search_step s s').
Proof. exact step2_def. Qed.
Print Assumptions C01_step2_def.

(* non-vacuity: a run (no external steps) through split, INSERTION into the open root, split, match,
   DROP of a universal over the open tree, evaluation of a settled COUNT atom, expansion, evaluation
   of an SMT atom, reaching a final state; the grammar passes reach_closedb *)
Example C01_solve_sound2_nonvacuous :
  let R := Run2Example.none in
  reachable2 Run2Example.g Run2Example.cst Run2Example.phi R R R
             (init_state Run2Example.nt_s 0 Run2Example.cst Run2Example.phi) ([], Run2Example.t2) /\
  final ([], Run2Example.t2) /\ Eval3.reach_closedb Run2Example.g = true /\
  preserves (inv Run2Example.g Run2Example.nt_s 0 Run2Example.cst Run2Example.phi) R.
Proof. exact solve_sound2_example. Qed.
Print Assumptions C01_solve_sound2_nonvacuous.

(* ==================================================================== *)
(* PROOF EXTENSION 3 (Solver/RulesMore3.v, Solver/SolveSoundMore3.v): the three remaining premises
   of C01_solve_sound_partial2 become RULES with proved local soundness: SMT elimination (given the
   Z3 model), count's insertion search (C14), numeric quantifiers                                   *)
(* ==================================================================== *)

(* ---- vocabulary: refinement on grammar-valid states ---- *)
Theorem C01_refines_wf_def : forall g R,
  refines_wf g R <->
  (forall s s', R s s' -> wf_tree g (snd s) ->
     lbl (snd s') = lbl (snd s) /\ wf_tree g (snd s') /\ (forall t', Sol g s' t' -> Sol g s t')).
Proof. exact refines_wf_def. Qed.
Print Assumptions C01_refines_wf_def.

Theorem C01_refines_wf_preserves : forall g start i0 cst phi R,
  refines_wf g R -> preserves (inv g start i0 cst phi) R.
Proof. exact refines_wf_preserves. Qed.
Print Assumptions C01_refines_wf_preserves.

(* ---- (1) SMT elimination (eliminate_all_semantic_formulas / eliminate_semantic_formula) ---- *)
(* the rule: the new tree is a grammar-valid completion of the old one; every conjunct that
   disappears is an SMT literal over ground variables (closed subtrees of the new tree, numerals)
   that is TRUE on the new tree *)
Theorem C01_smt_rule_def : forall g s s',
  smt_solve_step g s s' <->
  exists solved,
    compl (snd s) (snd s') /\ wf_tree g (snd s') /\
    (forall c, In c (fst s) -> In c (fst s') \/ In c solved) /\
    (forall b f, In (b, f) solved ->
       exists neg a, f = plit neg (FSmt a) /\ vars_ground (snd s') b (satom_vars a) /\
                     models satom_denote (snd s') b f).
Proof. exact smt_solve_step_def. Qed.
Print Assumptions C01_smt_rule_def.

Theorem C01_local_sound_smt : forall g, refines g (smt_solve_step g).
Proof. exact smt_solve_refines. Qed.
Print Assumptions C01_local_sound_smt.

(* SMT literals over ground variables (closed subtrees or numerals) are stable *)
Theorem C01_stable_smt_ground : forall t b a, vars_ground t b (satom_vars a) ->
  stable t b (FSmt a) /\ stable t b (FNot (FSmt a)).
Proof. exact stable_smt_ground. Qed.
Print Assumptions C01_stable_smt_ground.

(* H_smt DECOMPOSED.  The only external premise is the last one: the assignment Z3 returns (mu on
   the positions of the instantiated trees; numeric constants carry their numeral) satisfies the
   literals it was given (satom_sden: SMT-LIB meaning over STRINGS).  Reconstruction premises (met
   by the modelled parser and create_fixed_length_tree: next two theorems): every rebuilt tree is a
   closed grammar-valid completion of the subtree it replaces and spells mu.  Then what Python does
   (tree.substitute(solution), solved conjuncts dropped, other conjuncts re-anchored by path) is a
   step of the rule. *)
Theorem C01_smt_step_sound_given_model :
  forall g cs cs' solved t t1 sol (mu : path -> str),
  wf_tree g t -> pairwise_indep (map fst sol) ->
  (forall p r, In (p, r) sol ->
     exists old, subtree t p = Some old /\ compl old r /\ wf_tree g r /\
                 is_openT r = false /\ yield r = mu p) ->
  replace_all t sol = Some t1 ->
  (forall c, In c cs -> In c cs' \/ In c solved) ->
  (forall b f, In (b, f) solved ->
     exists neg a, f = plit neg (FSmt a) /\
       (forall v, In v (satom_vars a) ->
          (exists p, b v = Some (VPos p) /\ In p (map fst sol)) \/ (exists n, b v = Some (VNum n))) /\
       (if neg then ~ satom_sden a (sigma mu b) else satom_sden a (sigma mu b))) ->
  smt_solve_step g (cs, t) (cs', t1).
Proof. exact smt_step_sound_given_model. Qed.
Print Assumptions C01_smt_step_sound_given_model.

(* the string of a numeric constant is its canonical numeral *)
Theorem C01_num_str_dec : forall n, num_str n = dec n.
Proof. exact num_str_dec. Qed.
Print Assumptions C01_num_str_dec.

(* the SMT-LIB meaning over strings is the meaning over the yields of the assigned trees *)
Theorem C01_satom_strings : forall a e, satom_denote a e <-> satom_sden a (strs e).
Proof. exact satom_denote_sden. Qed.
Print Assumptions C01_satom_strings.

(* reconstruction by the modelled Earley parser (C10_parse_sound) for an open leaf ... *)
Theorem C01_smt_tree_of_parse : forall fxA fxB fuel g cstart start w k ts r t p i,
  EarleyPrune.good_grammar g -> NoDup (map fst g) -> defined g Earley.WRAP = false ->
  defined g start = true -> defined g cstart = true ->
  (fxA = true \/ Earley.K_multistart g start = false) ->
  (fxB = true \/ Earley.K_recstart g cstart start = false) ->
  Earley.earley_parse fxA fxB fuel g cstart start w k = Ok ts -> In r ts ->
  subtree t p = Some (Node start i true []) ->
  exists old, subtree t p = Some old /\ compl old r /\ wf_tree g r /\ is_openT r = false /\ yield r = w.
Proof. exact sol_entry_of_parse. Qed.
Print Assumptions C01_smt_tree_of_parse.

(* ... and by create_fixed_length_tree (C14_cflt_sound; Z3 only fixed the length n) *)
Theorem C01_smt_tree_of_cflt : forall g A n fuel o r t p i,
  is_nt A = true -> FixedLen.cflt fuel g A n o = FixedLen.Found r ->
  subtree t p = Some (Node A i true []) ->
  (exists old, subtree t p = Some old /\ compl old r /\ wf_tree g r /\ is_openT r = false) /\
  length (yield r) = n.
Proof. exact sol_entry_of_cflt. Qed.
Print Assumptions C01_smt_tree_of_cflt.

(* ... where an atom on str.len holds of every string of that length *)
Theorem C01_smt_len_atom : forall (m : var -> option str) v u op k n,
  m v = Some u -> length u = n -> cmp_holds op (Z.of_nat n) k -> satom_sden (SLen op (SVar v) k) m.
Proof. exact slen_of_length. Qed.
Print Assumptions C01_smt_len_atom.

(* ---- (2) semantic predicates answering with a tree binding: count's insertion search ---- *)
Theorem C01_count_search_rule_def : forall g s s',
  count_search_step g s s' <->
  exists cs1 cs2 b x needle a3 (neg : bool) t p s0 c t1 k,
    s = (cs1 ++ (b, plit neg (count_atom x needle a3)) :: cs2, t) /\ s' = (cs1 ++ cs2, t1) /\
    b x = Some (VPos p) /\ subtree t p = Some s0 /\ num_val b a3 k /\ is_nt needle = true /\
    compl s0 c /\ wf_tree g c /\
    (if neg then N.of_nat (count_lbl needle c) <> k else N.of_nat (count_lbl needle c) = k) /\
    (forall r n, subtree c r = Some n -> opn n = true -> Eval3.reachb g (lbl n) needle = false) /\
    Insert.replace_at t p c = Some t1.
Proof. exact count_search_step_def. Qed.
Print Assumptions C01_count_search_rule_def.

(* the premise H_sem_search, discharged outside K_count: the result c is substituted IN PLACE (c is
   a completion of the in-tree: what the path-based re-anchoring subtree_solutions presupposes) *)
Theorem C01_local_sound_count_search : forall g,
  Eval3.reach_closedb g = true -> refines_wf g (count_search_step g).
Proof. exact count_search_refines. Qed.
Print Assumptions C01_local_sound_count_search.

(* every result of the modelled completion loop of count() (C14 finish_candidate, with the computed
   reachability) that is a completion of the in-tree gives a step of the rule: the two count guards
   are C14_count_result_target_met *)
Theorem C01_count_search_step_of_finish :
  forall g fuel cs1 cs2 (b : env) (x : var) needle a3 t p s cand c t1 k,
  b x = Some (VPos p) -> subtree t p = Some s -> num_val b a3 k -> is_nt needle = true ->
  shape_ok cand = true ->
  FixedLen.finish_candidate (Eval3.reachb g) fuel g needle cand = FixedLen.FinTree c ->
  N.of_nat (FixedLen.count_nodes needle cand) = k ->
  compl s c -> wf_tree g c ->
  Insert.replace_at t p c = Some t1 ->
  count_search_step g (cs1 ++ (b, count_atom x needle a3) :: cs2, t) (cs1 ++ cs2, t1).
Proof. exact count_search_step_of_finish. Qed.
Print Assumptions C01_count_search_step_of_finish.

(* the class K_count in the rule system: the conjunct is dropped but the tree is NOT substituted
   (DerivationTree.substitute filtered the nested replacement) — adds a non-solution *)
Theorem C01_count_dropped_refuted : exists g s s' t',
  count_search_dropped s s' /\ Sol g s' t' /\ ~ Sol g s t'.
Proof. exact count_dropped_unsound. Qed.
Print Assumptions C01_count_dropped_refuted.

(* any conjunct whose truth survives every grammar-valid completion may be dropped (the shortcut of
   eliminate_existential_integer_quantifiers: evaluate() already finds `exists int` true) *)
Theorem C01_local_sound_drop_stable : forall g, refines g (drop_stable_g g).
Proof. exact drop_stable_refines. Qed.
Print Assumptions C01_local_sound_drop_stable.

(* ---- (3) universal numeric quantifiers (instantiate_universal_integer_quantifiers) ---- *)
(* FULL STATEMENT (what the code does: replace `forall int i: body` by ONE instance body[i := n], no
   guard) is REFUTED; reproduced on /repo (design_notes/C01.md) *)
Theorem C01_forall_int_inst_refuted : exists g s s' t',
  forall_int_inst s s' /\ Sol g s' t' /\ ~ Sol g s t'.
Proof. exact forall_int_inst_unsound. Qed.
Print Assumptions C01_forall_int_inst_refuted.

Theorem C01_forall_int_exh_rule_def : forall g s s',
  forall_int_exh g s s' <->
  exists cs1 cs2 b v body n t,
    s = (cs1 ++ (b, FForallInt v body) :: cs2, t) /\
    s' = (cs1 ++ (upd b v (VNum n), body) :: cs2, t) /\
    (forall n' t', n' <> n -> compl t t' -> wf_tree g t' -> is_openT t' = false ->
       models satom_denote t' (upd b v (VNum n')) body).
Proof. exact forall_int_exh_def. Qed.
Print Assumptions C01_forall_int_exh_rule_def.

(* sound under the guard "n is the only value that matters" ... *)
Theorem C01_local_sound_forall_int_partial : forall g, refines g (forall_int_exh g).
Proof. exact forall_int_exh_refines. Qed.
Print Assumptions C01_local_sound_forall_int_partial.

(* ... which holds when the SMT disjuncts over the bound variable alone are falsified by n only *)
Theorem C01_forall_int_exh_of_smt : forall g t b v fs n,
  (forall n', n' <> n -> exists a, In (FSmt a) fs /\ (forall w, In w (satom_vars a) -> w = v) /\
                                   satom_sden a (only_num v n')) ->
  only_value_matters g t b v (FOr fs) n.
Proof. exact forall_int_exh_of_smt. Qed.
Print Assumptions C01_forall_int_exh_of_smt.

(* the special-case transformation  forall int i: exists e in w: not count(e, N, i)
   ==> exists int i: (exists e' in w: count(e', N, i)) and (exists e in w: not count(e, N, i)) *)
Theorem C01_local_sound_forall_int_transform : forall g, refines g forall_int_transform.
Proof. exact forall_int_transform_refines. Qed.
Print Assumptions C01_local_sound_forall_int_transform.

(* ---- the abstract solver: every step is a rule ---- *)
(* FULL STATEMENT would be about solve() itself.  Here: NO premise about any step relation is left;
   what remains external sits in the GUARDS of the rules (Z3's model satisfies its input:
   C01_smt_step_sound_given_model; in-place results: compl guards of r_smt / r_count_search; the
   semantic guards me_settled, only_value_matters, stable_g) and in the abstraction itself (no trace
   conformance). *)
Theorem C01_solve_sound_partial3 : forall g start i0 cst phi s,
  Eval3.reach_closedb g = true -> is_nt start = true -> defined g start = true ->
  reachable3 g cst phi (init_state start i0 cst phi) s -> final s ->
  valid_solution g start cst phi (snd s).
Proof. exact solve_sound_partial3. Qed.
Print Assumptions C01_solve_sound_partial3.

Theorem C01_step3_def : forall g cst phi s s',
  step3 g cst phi s s' <->
  (core_step g s s' \/ eval_step_stable s s' \/ eval_step_stable_g g s s' \/
   infeasible_drop g s s' \/ insert_step g cst phi s s' \/
   smt_solve_step g s s' \/
   (forall_int_exh g s s' \/ forall_int_transform s s') \/
   (count_search_step g s s' \/ drop_stable_g g s s')).
Proof. exact step3_def. Qed.
Print Assumptions C01_step3_def.

Theorem C01_reachable3_def : forall g cst phi s0 s,
  reachable3 g cst phi s0 s <->
  reachable2 g cst phi (smt_solve_step g)
             (fun s s' => forall_int_exh g s s' \/ forall_int_transform s s')
             (fun s s' => count_search_step g s s' \/ drop_stable_g g s s') s0 s.
Proof. exact (fun g cst phi s0 s => iff_refl _). Qed.
Print Assumptions C01_reachable3_def.

(* non-vacuity: a 7-step run — split, ForallInt instantiated by its only relevant value, choice of a
   disjunct, COUNT SEARCH on the open root, a second count atom over the numeral, existential match,
   SMT STEP from a Z3 model and a rebuilt tree — reaching a final state *)
Example C01_solve_sound3_nonvacuous :
  reachable3 Run3Example.g Run3Example.cst Run3Example.phi
             (init_state Run3Example.nt_s 0 Run3Example.cst Run3Example.phi) ([], Run3Example.t2) /\
  final ([], Run3Example.t2) /\ Eval3.reach_closedb Run3Example.g = true.
Proof. exact solve_sound3_example. Qed.
Print Assumptions C01_solve_sound3_nonvacuous.

(* ================================================================== *)
(* proof extension 4: TRACE CONFORMANCE (Solver/TraceConf.v)           *)
(* ================================================================== *)
(* FULL STATEMENT would be: every step ISLaSolver.solve() performs is an instance of a rule of the
   abstract system.  Proved here: the executable check the harness evaluates on recorded edges of
   the debug state tree is SOUND for the TREE part of the rules.  Missing: the constraint part of a
   step is a stated premise (constraint_part / the clause-level premises of r_insert), not checked. *)

(* vocabulary *)
Theorem C01_trace_edge_spec_def : forall g t p t1,
  edge_spec g t p t1 <->
  (lbl t1 = lbl t /\ wf_tree g t1 /\
   (compl t t1 \/ compl_ni t t1 \/ (forall p', prefix p' p -> insert_shape g t p' t1))).
Proof. exact (fun g t p t1 => iff_refl _). Qed.
Print Assumptions C01_trace_edge_spec_def.

Theorem C01_trace_insert_shape_def : forall g t p t1,
  insert_shape g t p t1 <->
  exists host res, subtree t p = Some host /\ wf_tree g res /\ lbl res = lbl host /\
                   Insert.replace_at t p res = Some t1.
Proof. exact (fun g t p t1 => iff_refl _). Qed.
Print Assumptions C01_trace_insert_shape_def.

Theorem C01_trace_compl_ni_def : forall t t', compl_ni t t' <-> compl (zid t) (zid t').
Proof. exact (fun t t' => iff_refl _). Qed.
Print Assumptions C01_trace_compl_ni_def.

Theorem C01_trace_edge_okb_def : forall g t p t1,
  edge_okb g t p t1 = negb (N.eqb (edge_kind g t p t1) 0).
Proof. exact (fun g t p t1 => eq_refl). Qed.
Print Assumptions C01_trace_edge_okb_def.

(* the checkers decide the relations of the rule system *)
Theorem C01_trace_complb_spec : forall t t', complb t t' = true <-> compl t t'.
Proof. exact complb_spec. Qed.
Print Assumptions C01_trace_complb_spec.

Theorem C01_trace_complb_ni_spec : forall t t', complb_ni t t' = true <-> compl_ni t t'.
Proof. exact complb_ni_spec. Qed.
Print Assumptions C01_trace_complb_ni_spec.

Theorem C01_trace_compl_ni_of_compl : forall t t', compl t t' -> compl_ni t t'.
Proof. exact compl_ni_of_compl. Qed.
Print Assumptions C01_trace_compl_ni_of_compl.

(* SOUNDNESS OF THE EDGE CHECK (what the harness stream evaluates) *)
Theorem C01_trace_edge_sound : forall g t p t1, edge_okb g t p t1 = true -> edge_spec g t p t1.
Proof. exact edge_okb_sound. Qed.
Print Assumptions C01_trace_edge_sound.

Theorem C01_trace_kind_equal : forall g t p t1, edge_kind g t p t1 = 1%N -> t1 = t.
Proof. exact edge_kind1_equal. Qed.
Print Assumptions C01_trace_kind_equal.

Theorem C01_trace_kind_compl : forall g t p t1,
  edge_kind g t p t1 = 1%N \/ edge_kind g t p t1 = 2%N -> wf_tree g t1 /\ compl t t1.
Proof. exact edge_kind12_compl. Qed.
Print Assumptions C01_trace_kind_compl.

Theorem C01_trace_kind_compl_ni : forall g t p t1,
  edge_kind g t p t1 = 3%N -> wf_tree g t1 /\ compl_ni t t1.
Proof. exact edge_kind3_compl_ni. Qed.
Print Assumptions C01_trace_kind_compl_ni.

Theorem C01_trace_kind_insert : forall g t p t1, edge_kind g t p t1 = 4%N ->
  InsertCtxMore.inserted_lossy g t t t1 /\ forall p', prefix p' p -> insert_shape g t p' t1.
Proof. exact edge_kind4_insert. Qed.
Print Assumptions C01_trace_kind_insert.

(* kind 5: a subtree replaced in place, nodes lost (SMT answer substituted BY ID for a node that
   was already expanded, after a CONTEXT_ADDITION insertion): outside the completion / insertion
   rules; only the tree part of inv and the position of the replacement are established *)
Theorem C01_trace_kind_replace : forall g t p t1, edge_kind g t p t1 = 5%N ->
  lbl t1 = lbl t /\ wf_tree g t1 /\ forall p', prefix p' p -> insert_shape g t p' t1.
Proof. exact edge_kind5_replace. Qed.
Print Assumptions C01_trace_kind_replace.

(* LINK TO THE INVARIANT MACHINERY *)
(* a completion edge is a refinement step as soon as its constraint part is one *)
Theorem C01_trace_compl_edge_refines : forall g cs t cs' t1,
  compl t t1 -> wf_tree g t1 ->
  (forall t', compl t1 t' -> is_openT t' = false -> wf_tree g t' -> holds t' cs' -> holds t' cs) ->
  refines g (fun s s' => s = (cs, t) /\ s' = (cs', t1)) /\
  refines_wf g (fun s s' => s = (cs, t) /\ s' = (cs', t1)).
Proof. exact compl_edge_refines_both. Qed.
Print Assumptions C01_trace_compl_edge_refines.

(* with the constraint unchanged it is rule r_expand *)
Theorem C01_trace_compl_edge_expand : forall g cs t t1,
  compl t t1 -> wf_tree g t1 -> core_step g (cs, t) (cs, t1).
Proof. exact compl_edge_expand. Qed.
Print Assumptions C01_trace_compl_edge_expand.

(* tree part of Sol along a completion edge, exactly and up to node ids (kind 3) *)
Theorem C01_trace_compl_edge_solutions : forall g cs' t t1 t',
  compl t t1 -> Sol g (cs', t1) t' -> compl t t' /\ is_openT t' = false /\ wf_tree g t'.
Proof. exact compl_edge_solutions. Qed.
Print Assumptions C01_trace_compl_edge_solutions.

Theorem C01_trace_compl_ni_edge : forall g cs' t t1 t',
  compl_ni t t1 -> Sol g (cs', t1) t' -> compl_ni t t' /\ is_openT t' = false /\ wf_tree g t'.
Proof. exact compl_ni_edge_solutions. Qed.
Print Assumptions C01_trace_compl_ni_edge.

(* an insertion edge is an instance of rule r_insert, and preserves the solver invariant *)
Theorem C01_trace_insert_edge_step : forall g cst phi cs1 cs2 b v w m body t p t1 cs',
  insert_shape g t p t1 -> b w = Some (VPos p) -> In (env0 cst, phi) cs' ->
  insert_step g cst phi (cs1 ++ (b, FExists v (InVar w) m body) :: cs2, t) (cs', t1).
Proof. exact insert_edge_step. Qed.
Print Assumptions C01_trace_insert_edge_step.

Theorem C01_trace_insert_edge_inv : forall g start i0 cst phi cs1 cs2 b v w m body t p t1 cs',
  insert_shape g t p t1 -> b w = Some (VPos p) -> In (env0 cst, phi) cs' ->
  inv g start i0 cst phi (cs1 ++ (b, FExists v (InVar w) m body) :: cs2, t) ->
  inv g start i0 cst phi (cs', t1).
Proof. exact insert_edge_inv. Qed.
Print Assumptions C01_trace_insert_edge_inv.

(* WHOLE TRACES *)
(* every tree of the recorded state tree is grammar-valid and rooted in the start symbol *)
Theorem C01_trace_tree_inv : forall g start (E : list (tree * path * tree)) t0 t,
  (forall e, In e E -> edge_okb g (fst (fst e)) (snd (fst e)) (snd e) = true) ->
  wf_tree g t0 -> lbl t0 = start -> reach_tree E t0 t -> wf_tree g t /\ lbl t = start.
Proof. exact trace_tree_inv. Qed.
Print Assumptions C01_trace_tree_inv.

Theorem C01_trace_reach_tree_def : forall (E : list (tree * path * tree)) t0 t,
  reach_tree E t0 t <-> (t = t0 \/ exists t' p, reach_tree E t0 t' /\ In (t', p, t) E).
Proof. exact reach_tree_def. Qed.
Print Assumptions C01_trace_reach_tree_def.

(* chains of completion edges compose *)
Theorem C01_trace_compl_chain : forall g (E : list (tree * path * tree)) t0 t,
  (forall e, In e E -> let k := edge_kind g (fst (fst e)) (snd (fst e)) (snd e) in
                       k = 1%N \/ k = 2%N \/ k = 3%N) ->
  reach_tree E t0 t -> t = t0 \/ (wf_tree g t /\ compl_ni t0 t).
Proof. exact trace_compl_chain. Qed.
Print Assumptions C01_trace_compl_chain.

Theorem C01_trace_compl_chain_ids : forall g (E : list (tree * path * tree)) t0 t,
  (forall e, In e E -> let k := edge_kind g (fst (fst e)) (snd (fst e)) (snd e) in
                       k = 1%N \/ k = 2%N) ->
  reach_tree E t0 t -> t = t0 \/ (wf_tree g t /\ compl t0 t).
Proof. exact trace_compl_chain_ids. Qed.
Print Assumptions C01_trace_compl_chain_ids.

(* a trace of checked edges (kinds 1, 2, 4) with the stated constraint parts *)
Theorem C01_trace_checked_step_def : forall g cst phi s s',
  checked_step g cst phi s s' <->
  ((exists p, (edge_kind g (snd s) p (snd s') = 1%N \/ edge_kind g (snd s) p (snd s') = 2%N) /\
              constraint_part g (fst s) (snd s') (fst s')) \/
   (exists cs1 cs2 b v w m body p p',
      fst s = cs1 ++ (b, FExists v (InVar w) m body) :: cs2 /\
      edge_kind g (snd s) p (snd s') = 4%N /\ prefix p' p /\ b w = Some (VPos p') /\
      In (env0 cst, phi) (fst s'))).
Proof. exact checked_step_def. Qed.
Print Assumptions C01_trace_checked_step_def.

Theorem C01_trace_checked_step_preserves : forall g start i0 cst phi,
  preserves (inv g start i0 cst phi) (checked_step g cst phi).
Proof. exact checked_step_preserves. Qed.
Print Assumptions C01_trace_checked_step_preserves.

(* PARTIAL: premises = the constraint parts inside checked_step; kind-3 edges are not admitted *)
Theorem C01_trace_sound_given_constraints : forall g start i0 cst phi s,
  is_nt start = true -> defined g start = true ->
  checked_trace g cst phi (init_state start i0 cst phi) s -> final s ->
  valid_solution g start cst phi (snd s).
Proof. exact trace_sound_given_constraints. Qed.
Print Assumptions C01_trace_sound_given_constraints.

(* non-vacuity: one edge of every kind, two rejected edges; a checked state tree; a checked trace
   reaching a final state *)
Example C01_trace_edge_kinds_nonvacuous :
  edge_kind tc_g tc_t1 [] tc_t1 = 1%N /\ edge_kind tc_g tc_t0 [] tc_t1 = 2%N /\
  edge_kind tc_g tc_t1 [] tc_t2 = 2%N /\ edge_kind tc_g tc_t1 [] tc_t2' = 3%N /\
  edge_kind tc_g tc_t2 [] tc_t3 = 4%N /\ edge_kind tc_g tc_t3 [1] tc_t3' = 5%N /\
  edge_kind tc_g tc_t3 [] tc_t0 = 5%N /\ edge_kind tc_g tc_t1 [] (Node tc_s 1 false [tc_la]) = 0%N /\
  edge_kind tc_g tc_t2 [] (Node tc_a 2 false [tc_la]) = 0%N.
Proof. exact edge_kinds_ex. Qed.
Print Assumptions C01_trace_edge_kinds_nonvacuous.

Example C01_trace_sound_nonvacuous :
  checked_trace tc_g tc_cst (FAnd []) (init_state tc_s 1 tc_cst (FAnd [])) ([], tc_t2) /\
  final ([], tc_t2) /\ valid_solution tc_g tc_s tc_cst (FAnd []) tc_t2.
Proof. exact trace_sound_ex. Qed.
Print Assumptions C01_trace_sound_nonvacuous.
