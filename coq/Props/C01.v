(* C01 — Every solver solution is grammar-valid and satisfies the constraint.
   Only statements + `exact`; proofs: Solver/Sound.v, RulesFacts.v, SolveSound.v, PredStable.v,
   SolveSoundMore.v (proof extension).
   Models: Solver/State.v (acceptance check), Solver/Rules.v + RulesMore.v (abstract rule system).

   FULL STATEMENT (not proved about the Python code; see strength below):
     every tree returned by ISLaSolver.solve() is closed, a derivation tree of the grammar rooted at
     the start symbol, its string is in the language, and it satisfies the solver's constraint under
     the specification semantics — for every prefix of the sequence of solve() calls.
   STRENGTH: PARTIAL.  (a) C01_solve_sound_partial2 (proof extension; supersedes
   C01_solve_sound_partial, which is kept) is about an ABSTRACT transition system that
   over-approximates the elimination chain of solve().  NOW RULES WITH PROVED SOUNDNESS (were
   premises): tree insertion for EVERY method mask (C01_local_sound_insert + C13:
   C01_insert_tree_step / _any_mask), removal of universal quantifiers over OPEN in-trees
   (C01_local_sound_infeasible + C06 reachability; without match expression the guard is the
   computed might-match test, C01_infeasible_guard_from_qmm; WITH a match expression the rule keeps
   the semantic guard me_settled — completeness of can_extend_leaf_... is not proved), definite
   verdicts of count (C01_count_true_stable / C01_count_false_stable + C14 count_decide).
   STILL PREMISES: SMT elimination (H_smt), universal numeric quantifiers (H_numq), semantic
   predicates that answer with a tree binding (H_sem_search: count's insertion search, class
   K_count), each in the weaker form "preserves the invariant inv" (implied by the old sound_rel +
   root label kept: C01_refines_preserves), and the evaluated grammar check reach_closedb g.
   The old premise H_insert (sound_rel of insertion) is UNSATISFIABLE for insertions that move host
   nodes (C01_insert_not_refinement_refuted): soundness of insertion rests on re-conjoining the
   original formula, not on refinement; the invariant is now relative to the initial state.
   (b) The full statement is
   REFUTED for constraints with nth (C01_eval_unsound_nth: the evaluation step the code performs
   without a stability side condition adds a non-solution; reproduced on the implementation, known
   finding K_nth) and, on the implementation, for count (K_count, inside the premise H_sem_search).
   (c) The tie to /repo is the runtime check of every returned tree by sol_check
   (C01_checked_solution_valid / _complete). *)
From ISLA Require Import PredStable SolveSoundMore.
From ISLA Require Eval3 Insert InsertFacts InsertSelfMore InsertCtxMore FixedLen.
From Coq Require Import ZArith.

(* ---- runtime acceptance check ---- *)
Theorem C01_checked_solution_valid : forall g start cst f t,
  sol_check g start cst f t = 0%N -> valid_solution g start cst f t.
Proof. exact sol_check_sound. Qed.
Print Assumptions C01_checked_solution_valid.

Theorem C01_checked_solution_complete : forall g start cst f t,
  shape_ok t = true -> no_numq f = true ->
  valid_solution g start cst f t -> sol_check g start cst f t = 0%N.
Proof. exact sol_check_complete. Qed.
Print Assumptions C01_checked_solution_complete.

Theorem C01_checked_prefixes_valid : forall g start cst f (out : list tree),
  forallb (sol_ok g start cst f) out = true ->
  forall n, Forall (valid_solution g start cst f) (firstn n out).
Proof. exact sol_check_prefix. Qed.
Print Assumptions C01_checked_prefixes_valid.

Theorem C01_atom_decider_correct : forall a e, satom_dec a e = true <-> satom_denote a e.
Proof. exact satom_dec_spec. Qed.
Print Assumptions C01_atom_decider_correct.

(* ---- local soundness of the rules (Sol s' is a subset of Sol s) ---- *)
(* invariant split (and / or / nnf), universal matching, removal of universals over complete
   in-trees, existential matching (with and without match expressions), ExistsInt introduction,
   expansion / finishing *)
Theorem C01_local_sound_core : forall g s s', core_step g s s' -> forall t', Sol g s' t' -> Sol g s t'.
Proof. exact core_sound. Qed.
Print Assumptions C01_local_sound_core.

(* evaluation of a predicate / SMT conjunct on the current tree is sound when the verdict is stable *)
Theorem C01_local_sound_eval_partial : forall g s s',
  eval_step_stable s s' -> forall t', Sol g s' t' -> Sol g s t'.
Proof. exact eval_stable_sound. Qed.
Print Assumptions C01_local_sound_eval_partial.

(* ... which holds for the six position-only structural predicates ... *)
Theorem C01_stable_path_only : forall t b n args,
  path_only n = true -> forallb no_tree_arg args = true ->
  stable t b (FSPred n args) /\ stable t b (FNot (FSPred n args)).
Proof. exact stable_path_only. Qed.
Print Assumptions C01_stable_path_only.

(* ... for EVERY binary structural predicate (the six above and consecutive) and for level, on
   variables bound to positions of the state tree ... *)
Theorem C01_stable_pred2 : forall t b n a1 a2, arg_valid t b a1 -> arg_valid t b a2 ->
  stable t b (FSPred n [a1; a2]) /\ stable t b (FNot (FSPred n [a1; a2])).
Proof. exact stable_pred2. Qed.
Print Assumptions C01_stable_pred2.

Theorem C01_stable_level : forall t b op nt a2 a3, arg_valid t b a2 -> arg_valid t b a3 ->
  stable t b (FSPred s_level [PStr op; PStr nt; a2; a3]) /\
  stable t b (FNot (FSPred s_level [PStr op; PStr nt; a2; a3])).
Proof. exact stable_level. Qed.
Print Assumptions C01_stable_level.

(* ... and for SMT atoms over closed subtrees *)
Theorem C01_stable_smt_closed : forall t b a,
  vars_closed t b (satom_vars a) -> stable t b (FSmt a) /\ stable t b (FNot (FSmt a)).
Proof. exact stable_smt_closed. Qed.
Print Assumptions C01_stable_smt_closed.

(* ... but NOT for nth: the step as the code performs it (no side condition) adds a non-solution *)
Theorem C01_eval_unsound_nth_refuted : exists g s s' t',
  eval_step s s' /\ Sol g s' t' /\ ~ Sol g s t' /\
  K_nth (snd (hd (env_empty, FSmt (SBool true)) (fst s))) = true.
Proof. exact eval_unsound_nth. Qed.
Print Assumptions C01_eval_unsound_nth_refuted.

(* match-expression matching never looks below an open leaf *)
Theorem C01_match_stable : forall t2 s s' P q bs, compl s s' ->
  smatch t2 s P q = Some bs -> smatch t2 s' P q = Some bs.
Proof. exact smatch_compl. Qed.
Print Assumptions C01_match_stable.

(* ---- the abstract solver ---- *)
Theorem C01_solve_sound_partial :
  forall (g : grammar)
         (smt_step sem_step insert_step numq_step infeasible_step : cstate -> cstate -> Prop),
    sound_rel g smt_step -> sound_rel g sem_step -> sound_rel g insert_step ->
    sound_rel g numq_step -> sound_rel g infeasible_step ->
    forall start i0 cst phi s,
      is_nt start = true -> defined g start = true ->
      reachable g smt_step sem_step insert_step numq_step infeasible_step
                (init_state start i0 cst phi) s ->
      final s -> valid_solution g start cst phi (snd s).
Proof. exact solve_sound_partial. Qed.
Print Assumptions C01_solve_sound_partial.

Example C01_solve_sound_nonvacuous :
  let R := RunExample.none in
  reachable RunExample.g R R R R R (init_state RunExample.nt_s 0 RunExample.cst RunExample.phi)
            ([], RunExample.t1) /\
  final ([], RunExample.t1) /\ sound_rel RunExample.g R.
Proof. exact solve_sound_example. Qed.
Print Assumptions C01_solve_sound_nonvacuous.

(* ==================================================================== *)
(* PROOF EXTENSION (Solver/RulesMore.v, Solver/SolveSoundMore.v): insertion, infeasible universal
   quantifiers and count verdicts become RULES with proved local soundness (C13, C06, C14)        *)
(* ==================================================================== *)

(* ---- vocabulary: refinement steps and the invariant relative to the initial problem ---- *)
Theorem C01_refines_def : forall g R,
  refines g R <->
  (forall s s', R s s' ->
     lbl (snd s') = lbl (snd s) /\ (wf_tree g (snd s) -> wf_tree g (snd s')) /\
     (forall t', Sol g s' t' -> Sol g s t')).
Proof. exact (fun g R => iff_refl _). Qed.
Print Assumptions C01_refines_def.

Theorem C01_inv_def : forall g start i0 cst phi s,
  inv g start i0 cst phi s <->
  (wf_tree g (snd s) /\ lbl (snd s) = start /\
   forall t', Sol g s t' -> Sol g (init_state start i0 cst phi) t').
Proof. exact (fun g start i0 cst phi s => iff_refl _). Qed.
Print Assumptions C01_inv_def.

(* every refinement step preserves the invariant; the old premise shape (sound_rel) plus
   "the root label is kept" is a refinement *)
Theorem C01_refines_preserves : forall g start i0 cst phi R,
  refines g R -> preserves (inv g start i0 cst phi) R.
Proof. exact refines_preserves. Qed.
Print Assumptions C01_refines_preserves.

Theorem C01_sound_rel_refines : forall g R, sound_rel g R ->
  (forall s s', R s s' -> lbl (snd s') = lbl (snd s)) -> refines g R.
Proof. exact sound_rel_lbl_refines. Qed.
Print Assumptions C01_sound_rel_refines.

Theorem C01_local_sound_core_refines : forall g, refines g (core_step g).
Proof. exact core_refines. Qed.
Print Assumptions C01_local_sound_core_refines.

(* ---- (1) tree insertion (eliminate_existential_formula) ---- *)
(* the rule: the in-variable's subtree `host` is replaced by a grammar-valid tree with the same root
   label, and the new constraint contains the original formula; NOTHING else of C13's `inserted` is
   needed for soundness *)
Theorem C01_local_sound_insert : forall g start i0 cst phi,
  preserves (inv g start i0 cst phi) (insert_step g cst phi).
Proof. exact insert_preserves. Qed.
Print Assumptions C01_local_sound_insert.

(* every result of the modelled insert_tree (C13) for a mask WITHOUT context addition is such a step
   (via C13_insert_tree_partial: `inserted`) ... *)
Theorem C01_insert_tree_step :
  forall g chain pb maxn meth cst phi cs1 cs2 b v w m body t p0 host ins rs res t1 cs',
  InsertFacts.closed_g g -> InsertFacts.chain_ok chain -> wf_tree g t -> wf_tree g ins ->
  InsertSelfMore.uniq_ids host ins -> Insert.K_ctx meth = false ->
  b w = Some (VPos p0) -> subtree t p0 = Some host ->
  Insert.insert_tree g chain pb maxn meth ins host = Ok rs -> In res rs ->
  Insert.replace_at t p0 res = Some t1 -> In (env0 cst, phi) cs' ->
  insert_step g cst phi (cs1 ++ (b, FExists v (InVar w) m body) :: cs2, t) (cs', t1).
Proof. exact insert_tree_step. Qed.
Print Assumptions C01_insert_tree_step.

(* ... and for EVERY mask, context addition included (via C13_insert_tree_lossy_ok: the results
   that lose the inserted tree are still valid trees with the host's root label) *)
Theorem C01_insert_tree_step_any_mask :
  forall g chain pb maxn meth cst phi cs1 cs2 b v w m body t p0 host ins rs res t1 cs',
  InsertFacts.closed_g g -> InsertFacts.chain_ok chain -> InsertSelfMore.pb_start pb ->
  wf_tree g t -> wf_tree g ins -> InsertSelfMore.uniq_ids host ins ->
  b w = Some (VPos p0) -> subtree t p0 = Some host ->
  Insert.insert_tree g chain pb maxn meth ins host = Ok rs -> In res rs ->
  Insert.replace_at t p0 res = Some t1 -> In (env0 cst, phi) cs' ->
  insert_step g cst phi (cs1 ++ (b, FExists v (InVar w) m body) :: cs2, t) (cs', t1).
Proof. exact insert_tree_step_any_mask. Qed.
Print Assumptions C01_insert_tree_step_any_mask.

(* the premise H_insert of C01_solve_sound_partial was too strong: an insertion that moves host
   nodes (self embedding) has solutions that are no completions of the old state tree *)
Theorem C01_insert_not_refinement_refuted : exists g cst phi s s' t',
  insert_step g cst phi s s' /\ Sol g s' t' /\ ~ Sol g s t'.
Proof. exact insert_not_refinement. Qed.
Print Assumptions C01_insert_not_refinement_refuted.

(* ---- (2) removal of universal quantifiers whose in-tree may be open
        (remove_infeasible_universal_quantifiers) ---- *)
Theorem C01_infeasible_rule_def : forall g s s',
  infeasible_drop g s s' <->
  exists cs1 cs2 b v w m body t p0 s0,
    s = (cs1 ++ (b, FForall v (InVar w) m body) :: cs2, t) /\ s' = (cs1 ++ cs2, t) /\
    b w = Some (VPos p0) /\ subtree t p0 = Some s0 /\ is_nt (vtype v) = true /\
    (forall q b', qmatch t b v w m q b' -> In (b', body) (cs1 ++ cs2)) /\
    (forall leaf n, subtree t leaf = Some n -> opn n = true -> prefix p0 leaf ->
       Eval3.reachb g (lbl n) (vtype v) = false) /\
    match m with
    | None => True
    | Some me =>
        forall q s1 t2 P, in_dom t b (InVar w) (vtype v) q -> subtree t q = Some s1 ->
          In (t2, P) (me_trees me) -> smatch t2 s1 P q = None ->
          forall s1', compl s1 s1' -> smatch t2 s1' P q = None
    end.
Proof. exact infeasible_drop_def. Qed.
Print Assumptions C01_infeasible_rule_def.

Theorem C01_local_sound_infeasible : forall g,
  Eval3.reach_closedb g = true -> refines g (infeasible_drop g).
Proof. exact infeasible_refines. Qed.
Print Assumptions C01_local_sound_infeasible.

(* without match expression the reachability guard is what the modelled might-match test (C06,
   with the solver's already-matched ids) answers on the open leaves of the in-tree *)
Theorem C01_infeasible_guard_from_qmm : forall g t am v p0,
  (forall leaf n, subtree t leaf = Some n -> opn n = true -> prefix p0 leaf ->
     Eval3.qmm3 g t am v p0 None leaf = false /\
     (lbl n = vtype v -> Eval3.already_matched am n = true)) ->
  no_leaf_reaches g t p0 (vtype v).
Proof. exact qmm3_false_no_reach. Qed.
Print Assumptions C01_infeasible_guard_from_qmm.

(* the quantifier's domain gets no new position in any grammar-valid completion *)
Theorem C01_quant_domain_no_new : forall g t t' p0 s0 T q s',
  Eval3.reach_closedb g = true -> compl t t' -> wf_tree g t' ->
  subtree t p0 = Some s0 -> is_nt T = true -> no_leaf_reaches g t p0 T ->
  prefix p0 q -> subtree t' q = Some s' -> lbl s' = T ->
  exists s, subtree t q = Some s /\ compl s s'.
Proof. exact dom_no_new. Qed.
Print Assumptions C01_quant_domain_no_new.

(* ---- (3) definite verdicts of count (eliminate_all_ready_semantic_predicate_formulas,
        evaluation_result.is_boolean()) ---- *)
Theorem C01_local_sound_eval_g : forall g, refines g (eval_step_stable_g g).
Proof. exact eval_stable_g_refines. Qed.
Print Assumptions C01_local_sound_eval_g.

Theorem C01_stable_count_settled : forall g t b x needle a3 p s,
  Eval3.reach_closedb g = true -> is_nt needle = true ->
  b x = Some (VPos p) -> subtree t p = Some s ->
  (forall r n, subtree s r = Some n -> opn n = true -> Eval3.reachb g (lbl n) needle = false) ->
  stable_g g t b (count_atom x needle a3) /\ stable_g g t b (FNot (count_atom x needle a3)).
Proof. exact stable_count_settled. Qed.
Print Assumptions C01_stable_count_settled.

Theorem C01_stable_count_exceeded : forall t b x needle a3 p s,
  b x = Some (VPos p) -> subtree t p = Some s ->
  (forall k, num_val b a3 k -> (k < N.of_nat (count_lbl needle s))%N) ->
  stable t b (FNot (count_atom x needle a3)).
Proof. exact stable_count_exceeded. Qed.
Print Assumptions C01_stable_count_exceeded.

(* the verdicts True / False of the C14 model of isla_predicates.count (before its insertion
   search) are the truth value of the atom on the state tree and survive every grammar-valid
   completion: the evaluation step is an instance of eval_step_stable_g *)
Theorem C01_count_true_stable : forall g t b x needle a3 p s k,
  Eval3.reach_closedb g = true -> is_nt needle = true ->
  b x = Some (VPos p) -> subtree t p = Some s -> num_val b a3 k ->
  FixedLen.count_decide (Eval3.reachb g) needle s (Z.of_N k) = FixedLen.CTrue ->
  models satom_denote t b (count_atom x needle a3) /\ stable_g g t b (count_atom x needle a3).
Proof. exact count_decide_true_stable. Qed.
Print Assumptions C01_count_true_stable.

Theorem C01_count_false_stable : forall g t b x needle a3 p s k,
  Eval3.reach_closedb g = true -> is_nt needle = true ->
  b x = Some (VPos p) -> subtree t p = Some s -> num_val b a3 k ->
  FixedLen.count_decide (Eval3.reachb g) needle s (Z.of_N k) = FixedLen.CFalse ->
  models satom_denote t b (FNot (count_atom x needle a3)) /\
  stable_g g t b (FNot (count_atom x needle a3)).
Proof. exact count_decide_false_stable. Qed.
Print Assumptions C01_count_false_stable.

(* ---- the abstract solver, strengthened ---- *)
(* FULL STATEMENT would have no premise about smt_step / numq_step / sem_search_step.
   MISSING: SMT elimination (Z3 model + trees built from it), ForallInt instantiation, semantic
   predicates answering with a tree binding (count's insertion search; class K_count lives there);
   for universal quantifiers WITH match expression the rule's guard me_settled is semantic. *)
Theorem C01_solve_sound_partial2 :
  forall (g : grammar) (start : str) (i0 : N) (cst : var) (phi : cform)
         (smt_step numq_step sem_search_step : cstate -> cstate -> Prop),
    Eval3.reach_closedb g = true ->
    preserves (inv g start i0 cst phi) smt_step ->
    preserves (inv g start i0 cst phi) numq_step ->
    preserves (inv g start i0 cst phi) sem_search_step ->
    forall s,
      is_nt start = true -> defined g start = true ->
      reachable2 g cst phi smt_step numq_step sem_search_step (init_state start i0 cst phi) s ->
      final s -> valid_solution g start cst phi (snd s).
Proof. exact solve_sound_partial2. Qed.
Print Assumptions C01_solve_sound_partial2.

(* the steps of the strengthened system *)
Theorem C01_step2_def : forall g cst phi smt_step numq_step sem_search_step s s',
  step2 g cst phi smt_step numq_step sem_search_step s s' <->
  (core_step g s s' \/ eval_step_stable s s' \/ eval_step_stable_g g s s' \/
   infeasible_drop g s s' \/ insert_step g cst phi s s' \/
   smt_step s s' \/ numq_step s s' \/ sem_search_step s s').
Proof. exact step2_def. Qed.
Print Assumptions C01_step2_def.

(* non-vacuity: a run (no external steps) through split, INSERTION into the open root, split, match,
   DROP of a universal over the open tree, evaluation of a settled COUNT atom, expansion, evaluation
   of an SMT atom, reaching a final state; the grammar passes reach_closedb *)
Example C01_solve_sound2_nonvacuous :
  let R := Run2Example.none in
  reachable2 Run2Example.g Run2Example.cst Run2Example.phi R R R
             (init_state Run2Example.nt_s 0 Run2Example.cst Run2Example.phi) ([], Run2Example.t2) /\
  final ([], Run2Example.t2) /\ Eval3.reach_closedb Run2Example.g = true /\
  preserves (inv Run2Example.g Run2Example.nt_s 0 Run2Example.cst Run2Example.phi) R.
Proof. exact solve_sound2_example. Qed.
Print Assumptions C01_solve_sound2_nonvacuous.
