(* C01 — Every solver solution is grammar-valid and satisfies the constraint.
   Only statements + `exact`; proofs: Solver/Sound.v, RulesFacts.v, SolveSound.v.
   Models: Solver/State.v (acceptance check), Solver/Rules.v (abstract rule system).

   FULL STATEMENT (not proved about the Python code; see strength below):
     every tree returned by ISLaSolver.solve() is closed, a derivation tree of the grammar rooted at
     the start symbol, its string is in the language, and it satisfies the solver's constraint under
     the specification semantics — for every prefix of the sequence of solve() calls.
   STRENGTH: PARTIAL.  (a) C01_solve_sound_partial is about an ABSTRACT transition system that
   over-approximates the elimination chain of solve(); SMT elimination, semantic predicates, tree
   insertion, universal numeric quantifiers and removal of universals over open in-trees are
   PREMISES (sound_rel hypotheses).  (b) The full statement is
   REFUTED for constraints with nth (C01_eval_unsound_nth: the evaluation step the code performs
   without a stability side condition adds a non-solution; reproduced on the implementation, known
   finding K_nth) and, on the implementation, for count (K_count, inside the premise H_sem).
   (c) The tie to /repo is the runtime check of every returned tree by sol_check
   (C01_checked_solution_valid / _complete). *)
From ISLA Require Import PredStable.

(* ---- runtime acceptance check ---- *)
Theorem C01_checked_solution_valid : forall g start cst f t,
  sol_check g start cst f t = 0%N -> valid_solution g start cst f t.
Proof. exact sol_check_sound. Qed.
Print Assumptions C01_checked_solution_valid.

Theorem C01_checked_solution_complete : forall g start cst f t,
  shape_ok t = true -> no_numq f = true ->
  valid_solution g start cst f t -> sol_check g start cst f t = 0%N.
Proof. exact sol_check_complete. Qed.
Print Assumptions C01_checked_solution_complete.

Theorem C01_checked_prefixes_valid : forall g start cst f (out : list tree),
  forallb (sol_ok g start cst f) out = true ->
  forall n, Forall (valid_solution g start cst f) (firstn n out).
Proof. exact sol_check_prefix. Qed.
Print Assumptions C01_checked_prefixes_valid.

Theorem C01_atom_decider_correct : forall a e, satom_dec a e = true <-> satom_denote a e.
Proof. exact satom_dec_spec. Qed.
Print Assumptions C01_atom_decider_correct.

(* ---- local soundness of the rules (Sol s' is a subset of Sol s) ---- *)
(* invariant split (and / or / nnf), universal matching, removal of universals over complete
   in-trees, existential matching (with and without match expressions), ExistsInt introduction,
   expansion / finishing *)
Theorem C01_local_sound_core : forall g s s', core_step g s s' -> forall t', Sol g s' t' -> Sol g s t'.
Proof. exact core_sound. Qed.
Print Assumptions C01_local_sound_core.

(* evaluation of a predicate / SMT conjunct on the current tree is sound when the verdict is stable *)
Theorem C01_local_sound_eval_partial : forall g s s',
  eval_step_stable s s' -> forall t', Sol g s' t' -> Sol g s t'.
Proof. exact eval_stable_sound. Qed.
Print Assumptions C01_local_sound_eval_partial.

(* ... which holds for the six position-only structural predicates ... *)
Theorem C01_stable_path_only : forall t b n args,
  path_only n = true -> forallb no_tree_arg args = true ->
  stable t b (FSPred n args) /\ stable t b (FNot (FSPred n args)).
Proof. exact stable_path_only. Qed.
Print Assumptions C01_stable_path_only.

(* ... for EVERY binary structural predicate (the six above and consecutive) and for level, on
   variables bound to positions of the state tree ... *)
Theorem C01_stable_pred2 : forall t b n a1 a2, arg_valid t b a1 -> arg_valid t b a2 ->
  stable t b (FSPred n [a1; a2]) /\ stable t b (FNot (FSPred n [a1; a2])).
Proof. exact stable_pred2. Qed.
Print Assumptions C01_stable_pred2.

Theorem C01_stable_level : forall t b op nt a2 a3, arg_valid t b a2 -> arg_valid t b a3 ->
  stable t b (FSPred s_level [PStr op; PStr nt; a2; a3]) /\
  stable t b (FNot (FSPred s_level [PStr op; PStr nt; a2; a3])).
Proof. exact stable_level. Qed.
Print Assumptions C01_stable_level.

(* ... and for SMT atoms over closed subtrees *)
Theorem C01_stable_smt_closed : forall t b a,
  vars_closed t b (satom_vars a) -> stable t b (FSmt a) /\ stable t b (FNot (FSmt a)).
Proof. exact stable_smt_closed. Qed.
Print Assumptions C01_stable_smt_closed.

(* ... but NOT for nth: the step as the code performs it (no side condition) adds a non-solution *)
Theorem C01_eval_unsound_nth_refuted : exists g s s' t',
  eval_step s s' /\ Sol g s' t' /\ ~ Sol g s t' /\
  K_nth (snd (hd (env_empty, FSmt (SBool true)) (fst s))) = true.
Proof. exact eval_unsound_nth. Qed.
Print Assumptions C01_eval_unsound_nth_refuted.

(* match-expression matching never looks below an open leaf *)
Theorem C01_match_stable : forall t2 s s' P q bs, compl s s' ->
  smatch t2 s P q = Some bs -> smatch t2 s' P q = Some bs.
Proof. exact smatch_compl. Qed.
Print Assumptions C01_match_stable.

(* ---- the abstract solver ---- *)
Theorem C01_solve_sound_partial :
  forall (g : grammar)
         (smt_step sem_step insert_step numq_step infeasible_step : cstate -> cstate -> Prop),
    sound_rel g smt_step -> sound_rel g sem_step -> sound_rel g insert_step ->
    sound_rel g numq_step -> sound_rel g infeasible_step ->
    forall start i0 cst phi s,
      is_nt start = true -> defined g start = true ->
      reachable g smt_step sem_step insert_step numq_step infeasible_step
                (init_state start i0 cst phi) s ->
      final s -> valid_solution g start cst phi (snd s).
Proof. exact solve_sound_partial. Qed.
Print Assumptions C01_solve_sound_partial.

Example C01_solve_sound_nonvacuous :
  let R := RunExample.none in
  reachable RunExample.g R R R R R (init_state RunExample.nt_s 0 RunExample.cst RunExample.phi)
            ([], RunExample.t1) /\
  final ([], RunExample.t1) /\ sound_rel RunExample.g R.
Proof. exact solve_sound_example. Qed.
Print Assumptions C01_solve_sound_nonvacuous.
