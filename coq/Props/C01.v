(* C01 — Every solver solution is grammar-valid and satisfies the constraint. *)
From ISLA Require Import Sound.

(* The runtime acceptance check applied by ./check C01 to EVERY tree returned by
   ISLaSolver.solve() is sound: a tree that passes is a closed derivation tree of the grammar
   rooted at the start symbol, its string is in the language, and it satisfies the original
   constraint under the specification semantics. *)
Theorem C01_checked_solution_valid : forall g start cst f t,
  sol_check g start cst f t = 0%N -> valid_solution g start cst f t.
Proof. exact sol_check_sound. Qed.
Print Assumptions C01_checked_solution_valid.
