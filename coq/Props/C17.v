(* C17 — Serialized trees and constraints round-trip without damaging the original.
   Only statements + `exact`; proofs are in Codec/TreeJsonFacts.v and Codec/SmtEscapeFacts.v.
   Models: Codec/TreeJson.v (object model of DerivationTree; flag fx: false = code as pinned,
   true = proposed fix serialising a filtered copy), Codec/SmtEscape.v (string literals through
   SMTFormula.__getstate__/__setstate__ and Z3; fx analogous).
   H, KP: Python hash and grammar_graph k-path sets, arbitrary functions of the denoted tree.

   FULL STATEMENT of the property on the model:
     (a) forall x j, to_json x returns j -> from_json j denotes the same tree (labels, ids, string)
     (b) forall histories ops over {str,len,hash,structural_hash,is_open,k_paths,to_json,pickle} and
         all objects x: the answers of the non-serialising operations are the same with and without
         the interleaved serialisations, and no serialisation raises
     (c) forall string values s (characters 0..0x2FFFF): pickling an SMT formula returns s
     (d) the command line's JSON tree is read back as the same tree.
   (a), (d) hold for the code as pinned.  (b) and (c) are REFUTED for the code as pinned
   (C17_*_refuted), proved in full for the proposed fixes (fx = true), and (c) is proved for the
   pinned code outside the classes K_smt_quote, K_smt_latin1.
   NOT PROVED (stated only): (b) for fx = false under the guard K_tojson ops = false, i.e.
     forall ops x, K_tojson ops = false -> kp-caches of x empty ->
       observe ops (fst (run H KP false fuel ops x)) = fst (run H KP false fuel (strip ops) x);
   the correspondence check evaluates exactly this on every generated history instead. *)
From ISLA Require Import Str Path Outcome Tree TreeJson TreeJsonFacts SmtEscape SmtEscapeFacts.
From Coq Require Import List NArith ZArith.
Import ListNotations.

(* (a) JSON round trip, pinned code and fixed code alike: structure, node identities, string;
   the decoded object has both k-path caches (present, empty) and all other cached slots of x *)
Theorem C17_json_roundtrip : forall (H : bool -> tree -> Z) (fx : bool) (x : obj) (j : json) (x' : obj),
  oshape x -> o_to_json fx x = (Ok j, x') ->
  forall fuel, odepth x <= fuel ->
  exists y, from_dict fuel j = Some (Ok y) /\ erase y = erase x /\
            yield (erase y) = yield (erase x) /\ healthy y /\ y = reset_kp x.
Proof. intros H. exact json_roundtrip. Qed.
Print Assumptions C17_json_roundtrip.

(* no operation, serialising or not, pinned or fixed, changes the tree an object denotes *)
Theorem C17_history_keeps_tree : forall H KP fx fuel ops x,
  erase (snd (run H KP fx fuel ops x)) = erase x.
Proof. exact run_erase. Qed.
Print Assumptions C17_history_keeps_tree.

Theorem C17_str_is_yield : forall H KP fx fuel x,
  fst (step H KP fx fuel OStr x) = Ok (AStr (yield (erase x))).
Proof. exact str_answer. Qed.
Print Assumptions C17_str_is_yield.

(* (b) for the proposed fix: every history, every object *)
Theorem C17_observational_eq_fixed : forall H KP fuel ops x,
  observe ops (fst (run H KP true fuel ops x)) = fst (run H KP true fuel (strip ops) x) /\
  snd (run H KP true fuel ops x) = snd (run H KP true fuel (strip ops) x).
Proof. exact observational_eq_fixed. Qed.
Print Assumptions C17_observational_eq_fixed.

Theorem C17_to_json_total_pure_fixed : forall x, exists j, o_to_json true x = (Ok j, x).
Proof. exact to_json_fixed_pure. Qed.
Print Assumptions C17_to_json_total_pure_fixed.

Theorem C17_pickle_roundtrip_fixed : forall H KP fuel x,
  oshape x -> odepth x <= fuel ->
  fst (step H KP true fuel OPickle x) = Ok (AObj (reset_kp x)) /\ erase (reset_kp x) = erase x.
Proof. exact pickle_roundtrip_fixed. Qed.
Print Assumptions C17_pickle_roundtrip_fixed.

(* (b) refuted for the code as pinned: to_json; k_paths  /  child.k_paths; to_json  /  k_paths; pickle; k_paths *)
Theorem C17_to_json_mutates_refuted : forall H KP,
  exists ops t, K_tojson ops = true /\
    observe ops (fst (run H KP false 10 ops (mk_obj t))) <> fst (run H KP false 10 (strip ops) (mk_obj t)).
Proof. exact to_json_mutates_refuted. Qed.
Print Assumptions C17_to_json_mutates_refuted.

Theorem C17_to_json_child_cache_refuted : forall H KP,
  exists ops t, K_tojson ops = true /\
    nth 1 (fst (run H KP false 10 ops (mk_obj t))) (Raise OtherErr) = Raise AttrErr.
Proof. exact to_json_child_cache_refuted. Qed.
Print Assumptions C17_to_json_child_cache_refuted.

Theorem C17_pickle_mutates_refuted : forall H KP,
  exists ops t, K_tojson ops = true /\
    observe ops (fst (run H KP false 10 ops (mk_obj t))) <> fst (run H KP false 10 (strip ops) (mk_obj t)).
Proof. exact pickle_mutates_refuted. Qed.
Print Assumptions C17_pickle_mutates_refuted.

(* (c) SMT string literals.  Spec: `denotes` (SMT-LIB 2.6 literal + Z3 unicode escapes), independent
   of the lexer model; the lexer model respects it, the written text denotes the value. *)
Theorem C17_smt_lexer_respects_spec : forall t v, denotes t v -> load_lit ([34%N] ++ t ++ [34%N]) = Ok v.
Proof. exact load_denotes. Qed.
Print Assumptions C17_smt_lexer_respects_spec.

Theorem C17_smt_text_is_codec : forall fx s, isla_lit fx s = [34%N] ++ codec fx s ++ [34%N].
Proof. exact isla_lit_codec. Qed.
Print Assumptions C17_smt_text_is_codec.

Theorem C17_smt_pickle_roundtrip_fixed : forall s, valid_str s = true -> smt_pickle_lit true s = Ok s.
Proof. exact smt_pickle_roundtrip_fixed. Qed.
Print Assumptions C17_smt_pickle_roundtrip_fixed.

Theorem C17_smt_pickle_roundtrip_partial : forall s,
  valid_str s = true -> K_smt_quote s = false -> K_smt_latin1 s = false -> smt_pickle_lit false s = Ok s.
Proof. exact smt_pickle_roundtrip_partial. Qed.
Print Assumptions C17_smt_pickle_roundtrip_partial.

Theorem C17_smt_pickle_quote_refuted : exists s, valid_str s = true /\ K_smt_quote s = true /\
  smt_pickle_lit false s = Raise OtherErr.
Proof.
  exists [97; 34; 98]%N. split; [reflexivity|]. split; [reflexivity|]. exact smt_pickle_quote_refuted.
Qed.
Print Assumptions C17_smt_pickle_quote_refuted.

Theorem C17_smt_pickle_latin1_refuted : exists s s', valid_str s = true /\ K_smt_latin1 s = true /\
  smt_pickle_lit false s = Ok s' /\ s' <> s.
Proof.
  exists [228]%N, [4294967235; 4294967204]%N. split; [reflexivity|]. split; [reflexivity|].
  split; [exact smt_pickle_latin1_refuted | discriminate].
Qed.
Print Assumptions C17_smt_pickle_latin1_refuted.

(* (d) command-line JSON trees (ids are fresh on reading: equality up to ids, same string) *)
Theorem C17_cli_json_roundtrip : forall t, shape_ok t = true ->
  forall fuel, tdepth t <= fuel -> cli_from_json fuel (cli_to_json t) = Some (Ok (strip_ids t)).
Proof. exact cli_json_roundtrip. Qed.
Print Assumptions C17_cli_json_roundtrip.

Theorem C17_cli_json_same_string : forall t, yield (strip_ids t) = yield t.
Proof. exact yield_strip_ids. Qed.
Print Assumptions C17_cli_json_same_string.
