(* C20 — Library semantic predicates decide their documented relation on concrete (closed) trees.
   Only statements + `exact`; proofs are in Logic/SemPredsFacts.v.  Model: Logic/SemPreds.v
   (count, crop, just = ljust/rjust/ljust_crop/rjust_crop/extend_crop, octal_to_dec family).
   Spec vocabulary (SemPredsFacts.v): numeral b s n (s is the base-b numeral of n), count_nodes
   (number of positions labelled with the needle), octal_rel, just_rel, width_denotes.
   The Earley parser is not modelled: `parse` is universally quantified under the soundness
   premise of C10 (C20_*_replacement theorems). *)
From ISLA Require Import SemPreds SemPredsFacts.
From Coq Require Import ZArith.

(* ---- count: holds exactly when the needle occurs the given number of times ---- *)
Theorem C20_count_closed_spec : forall needle t s n, is_openT t = false -> numeral 10 s n ->
  exists b, count (TTree t) needle (WStr s) = Ok (PBool b)
            /\ (b = true <-> count_nodes needle t = N.to_nat n).
Proof. exact count_closed_spec. Qed.
Print Assumptions C20_count_closed_spec.

Theorem C20_count_closed_tree_spec : forall needle t s i o n, is_openT t = false -> numeral 10 s n ->
  exists b, count (TTree t) needle (WTree (Node s i o [])) = Ok (PBool b)
            /\ (b = true <-> count_nodes needle t = N.to_nat n).
Proof. exact count_closed_tree_spec. Qed.
Print Assumptions C20_count_closed_tree_spec.

Theorem C20_count_var_spec : forall needle t, is_openT t = false ->
  exists l, count (TTree t) needle WVar = Ok (PNum 2 l)
            /\ numeral 10 l (N.of_nat (count_nodes needle t)).
Proof. exact count_var_spec. Qed.
Print Assumptions C20_count_var_spec.

Theorem C20_count_model_is_node_count : forall needle t, count_lbl needle t = count_nodes needle t.
Proof. exact count_lbl_spec. Qed.
Print Assumptions C20_count_model_is_node_count.

(* ---- justify / crop: hold exactly when the argument already has the requested width ---- *)
Theorem C20_just_spec : forall lj cr t w z fill, is_openT t = false -> width_denotes w z ->
  fill_ok fill (yield t) ->
  (just lj cr (TTree t) w fill = Ok (PBool true) <-> Z.of_nat (length (yield t)) = z).
Proof. exact just_spec. Qed.
Print Assumptions C20_just_spec.

Theorem C20_just_true_only_if : forall lj cr t w z fill, is_openT t = false -> width_denotes w z ->
  just lj cr (TTree t) w fill = Ok (PBool true) -> Z.of_nat (length (yield t)) = z.
Proof. exact just_true_only_if. Qed.
Print Assumptions C20_just_true_only_if.

(* crop is the one-sided relation: the tree is not longer than the width *)
Theorem C20_crop_spec : forall t wt n, is_openT t = false -> is_openT wt = false ->
  numeral 10 (yield wt) n ->
  (crop (TTree t) (WTree wt) = Ok (PBool true) <-> length (yield t) <= N.to_nat n).
Proof. exact crop_spec. Qed.
Print Assumptions C20_crop_spec.

Theorem C20_width_var_spec : forall lj cr t fill, is_openT t = false ->
  exists l, just lj cr (TTree t) WVar fill = Ok (PNum 1 l) /\ crop (TTree t) WVar = Ok (PNum 1 l)
            /\ numeral 10 l (N.of_nat (length (yield t))).
Proof. exact width_var_spec. Qed.
Print Assumptions C20_width_var_spec.

(* ---- octal_to_decimal ----
   FULL STATEMENT (octal_spec): on closed arguments the predicate holds exactly when the octal
   digits denote the decimal number, and every proposed replacement satisfies octal_rel.
   On the pinned code this is FALSE for two classes:
     K_octal_both : both arguments closed trees (conversion in the wrong direction)  -> C20_octal_both_refuted
     K_nonoctal   : digits 8 / 9 in the octal argument are accepted                   -> C20_octal_nonoctal_refuted
   Proved instead: the two conversion directions (partial, octal argument a proper octal
   numeral = not K_nonoctal), and the full relation for the both-trees case WITH the proposed
   fix proposed_fixes/C20-octal-both-trees.diff (model flag fx = true). *)
Theorem C20_octal_both_refuted : exists o d os ds,
  is_openT o = false /\ is_openT d = false /\ octal_rel (yield o) (yield d)
  /\ octal false os ds (TTree o) (TTree d) = Ok (PBool false).
Proof. exact octal_both_refuted. Qed.
Print Assumptions C20_octal_both_refuted.

Theorem C20_octal_nonoctal_refuted : exists o ds,
  is_openT o = false /\ (forall n, ~ numeral 8 (yield o) n)
  /\ exists s, octal false [] ds (TTree o) TVar = Ok (PParse 1 ds s).
Proof. exact octal_nonoctal_refuted. Qed.
Print Assumptions C20_octal_nonoctal_refuted.

Theorem C20_octal_to_decimal_partial : forall fx os ds o n, is_openT o = false -> numeral 8 (yield o) n ->
  exists s, octal fx os ds (TTree o) TVar = Ok (PParse 1 ds s) /\ numeral 10 s n.
Proof. exact octal_concrete_octal_spec. Qed.
Print Assumptions C20_octal_to_decimal_partial.

Theorem C20_decimal_to_octal_partial : forall fx os ds d n, is_openT d = false -> numeral 10 (yield d) n ->
  exists s, octal fx os ds TVar (TTree d) = Ok (PParse 0 os s) /\ numeral 8 s n.
Proof. exact octal_concrete_decimal_spec. Qed.
Print Assumptions C20_decimal_to_octal_partial.

Theorem C20_octal_both_fixed_spec : forall os ds o d n m, is_openT o = false -> is_openT d = false ->
  numeral 8 (yield o) n -> numeral 10 (yield d) m ->
  exists b, octal true os ds (TTree o) (TTree d) = Ok (PBool b)
            /\ (b = true <-> octal_rel (yield o) (yield d)).
Proof. exact octal_both_fixed_spec. Qed.
Print Assumptions C20_octal_both_fixed_spec.

(* the guard of the partial theorems is implied by their numeral hypothesis *)
Theorem C20_K_nonoctal_guard : forall os ds o d n, numeral 8 (yield o) n ->
  K_nonoctal (COctal os ds (TTree o) d) = false.
Proof. exact K_nonoctal_numeral. Qed.
Print Assumptions C20_K_nonoctal_guard.

(* ---- replacement trees (under the parser premise of C10) ----
   FULL STATEMENT (replacement_valid): every replacement a predicate proposes is a valid closed
   tree of the argument's nonterminal that satisfies the relation.  FALSE for negative widths
   (class K_neg_width: Python slice semantics) -> C20_neg_width_refuted; proved for widths >= 0. *)
Theorem C20_neg_width_refuted : exists t z s,
  is_openT t = false /\ K_neg_width (CJust true true (TTree t) (WInt z) (Some [48%N])) = true
  /\ pre_eval false (CJust true true (TTree t) (WInt z) (Some [48%N])) = Ok (PParse 0 (lbl t) s)
  /\ Z.of_nat (length s) <> z.
Proof. exact neg_width_refuted. Qed.
Print Assumptions C20_neg_width_refuted.

Theorem C20_K_neg_width_guard : forall w z, width_denotes w z -> (width_negb w = false <-> (0 <= z)%Z).
Proof. exact K_neg_width_denotes. Qed.
Print Assumptions C20_K_neg_width_guard.

Theorem C20_just_replacement_partial :
  forall (g : grammar) (parse : str -> str -> res tree),
  (forall nt s r, parse nt s = Ok r -> wf_tree g r /\ lbl r = nt /\ is_openT r = false /\ yield r = s) ->
  forall fx lj cr t w z fill k r,
  is_openT t = false -> width_denotes w z -> (0 <= z)%Z ->
  sem_eval parse fx (CJust lj cr (TTree t) w fill) = Ok (SAssign k r) ->
  k = 0 /\ wf_tree g r /\ lbl r = lbl t /\ is_openT r = false
  /\ Z.of_nat (length (yield r)) = z /\ just_rel lj (yield t) (yield r).
Proof. exact just_replacement_valid. Qed.
Print Assumptions C20_just_replacement_partial.

Theorem C20_crop_replacement :
  forall (g : grammar) (parse : str -> str -> res tree),
  (forall nt s r, parse nt s = Ok r -> wf_tree g r /\ lbl r = nt /\ is_openT r = false /\ yield r = s) ->
  forall fx t wt n k r,
  is_openT t = false -> is_openT wt = false -> numeral 10 (yield wt) n ->
  sem_eval parse fx (CCrop (TTree t) (WTree wt)) = Ok (SAssign k r) ->
  k = 0 /\ wf_tree g r /\ lbl r = lbl t /\ is_openT r = false
  /\ length (yield r) = N.to_nat n /\ exists rest, yield t = yield r ++ rest.
Proof. exact crop_replacement_valid. Qed.
Print Assumptions C20_crop_replacement.

Theorem C20_octal_to_decimal_replacement :
  forall (g : grammar) (parse : str -> str -> res tree),
  (forall nt s r, parse nt s = Ok r -> wf_tree g r /\ lbl r = nt /\ is_openT r = false /\ yield r = s) ->
  forall fx os ds o n k r,
  is_openT o = false -> numeral 8 (yield o) n ->
  sem_eval parse fx (COctal os ds (TTree o) TVar) = Ok (SAssign k r) ->
  k = 1 /\ wf_tree g r /\ lbl r = ds /\ is_openT r = false /\ octal_rel (yield o) (yield r).
Proof. exact octal_to_decimal_replacement. Qed.
Print Assumptions C20_octal_to_decimal_replacement.

Theorem C20_decimal_to_octal_replacement :
  forall (g : grammar) (parse : str -> str -> res tree),
  (forall nt s r, parse nt s = Ok r -> wf_tree g r /\ lbl r = nt /\ is_openT r = false /\ yield r = s) ->
  forall fx os ds d n k r,
  is_openT d = false -> numeral 10 (yield d) n ->
  sem_eval parse fx (COctal os ds TVar (TTree d)) = Ok (SAssign k r) ->
  k = 0 /\ wf_tree g r /\ lbl r = os /\ is_openT r = false /\ octal_rel (yield r) (yield d).
Proof. exact decimal_to_octal_replacement. Qed.
Print Assumptions C20_decimal_to_octal_replacement.

(* ---- numerals: printing and parsing are inverse on plain numerals (used by all of the above) ---- *)
Theorem C20_print_numeral : forall n, numeral 10 (dec_of_N n) n /\ numeral 8 (oct_of_N n) n.
Proof. exact print_numeral. Qed.
Print Assumptions C20_print_numeral.

Theorem C20_parse_numeral : forall b s n, (b = 8 \/ b = 10)%N -> numeral b s n -> py_int b s = Some (Z.of_N n).
Proof. exact py_int_numeral. Qed.
Print Assumptions C20_parse_numeral.
