(* C20 — Library semantic predicates decide their documented relation on concrete (closed) trees.
   Only statements + `exact`; proofs are in Logic/SemPredsFacts.v and (proof extension: composition
   with the parser) Logic/SemPredsCompose.v, Grammar/EarleySpecialise.v.
   Model: Logic/SemPreds.v (count, crop, just = ljust/rjust/ljust_crop/rjust_crop/extend_crop,
   octal_to_dec family) and Logic/SemPredsParser.v (isla_predicates.mk_parser over the Earley model
   of C10, Grammar/Earley.v: mk_grammar, mk_parse, sem_eval_earley).
   Spec vocabulary (SemPredsFacts.v): numeral b s n (s is the base-b numeral of n), count_nodes
   (number of positions labelled with the needle), octal_rel, just_rel, width_denotes; L g A w and
   wf_tree g t from Grammar/Grammar.v.

   FULL now:
     * verdicts of count / just / crop / width Variables (C20_count_*, C20_just_spec, C20_crop_spec, ...);
     * replacement trees WITHOUT any parser premise (C20_*_replacement_earley): with the Earley
       parser every proposed replacement is a valid closed tree of g rooted in the argument's
       nonterminal, spells a member of L g nt and satisfies the relation.  Hypotheses = the C10 side
       conditions on g only: canonical_form g, unique keys, "<start>" on no right-hand side, the
       nonterminal defined in g and different from "<start>" (just: width >= 0, see K_neg_width);
     * SyntaxError: the predicate raises SyntaxError exactly when the string it asks the parser for
       is outside L g nt (C20_*_syntaxerr_iff; needs chart fuel >= the computable fuel_bound);
     * all outcomes of the parser call / of crop (C20_mk_parse_outcomes, C20_crop_earley_outcomes);
     * a tree rooted in "<start>" is never replaced: mk_parser overwrites the start rule with
       <start> ::= <start> and the parser rejects every string (C20_start_rooted_syntaxerr,
       C20_crop_start_rooted_syntaxerr) — observed on the implementation, see design_notes/C20.md.
     * (proof extension 2) "a replacement exists iff the cropped / padded / converted string is in
       L g nt" (C20_crop_assign_iff, C20_just_assign_iff, C20_octal_to_decimal_assign_iff,
       C20_decimal_to_octal_assign_iff) and the two-outcome theorems C20_mk_parse_total,
       C20_crop_earley_total: the model's out-of-fuel outcome is EXCLUDED (C20_mk_parse_no_outoffuel)
       by C10's termination theorem for the tree enumeration (C10_parse_complete), applied to the
       grammar mk_parser hands to the parser.  New side condition: the boolean
       `acyclicb (cgram (mk_grammar g nt) START)` (no cyclic unit/nullable derivation in the
       specialised grammar; C10_acyclicb_spec) + fuel >= fuel_bound as before.  The guard is a real
       restriction of the MODEL (C20_acyclic_guard_needed: <a> ::= <a> | "1" runs out of fuel; the
       model enumerates the whole forest, Python's parser is lazy);
     * C20_request_guard_total: the boolean guards grammar_guard / request_guard (Logic/SemPredsGuard.v),
       which harness/c20.py evaluates per end-to-end case, imply: the call's parser request (nt, s) is
       answered by the replacement tree (s in L g nt) or SyntaxError (s not in L g nt) - nothing else.
   STILL PARTIAL:
     * grammars whose specialisation has a cyclic unit/nullable derivation: only the older
       C20_crop_assign_iff_partial / C20_just_assign_iff_partial (premise `... <> Raise OutOfFuel`) and the
       three-outcome theorems apply;
     * octal: the guards K_nonoctal / K_octal_both (recorded defects) and just: K_neg_width as before.
   The abstract-parser versions (C20_*_replacement, premise = soundness of an arbitrary `parse`) are kept. *)
From ISLA Require Import SemPreds SemPredsFacts SemPredsParser SemPredsCompose SemPredsGuard SemPredsComposeMore.
From ISLA Require Import Earley EarleyFuel EarleyPrune EarleyAcyclic.
From Coq Require Import ZArith List.
Import ListNotations.

(* ---- count: holds exactly when the needle occurs the given number of times ---- *)
Theorem C20_count_closed_spec : forall needle t s n, is_openT t = false -> numeral 10 s n ->
  exists b, count (TTree t) needle (WStr s) = Ok (PBool b)
            /\ (b = true <-> count_nodes needle t = N.to_nat n).
Proof. exact count_closed_spec. Qed.
Print Assumptions C20_count_closed_spec.

Theorem C20_count_closed_tree_spec : forall needle t s i o n, is_openT t = false -> numeral 10 s n ->
  exists b, count (TTree t) needle (WTree (Node s i o [])) = Ok (PBool b)
            /\ (b = true <-> count_nodes needle t = N.to_nat n).
Proof. exact count_closed_tree_spec. Qed.
Print Assumptions C20_count_closed_tree_spec.

Theorem C20_count_var_spec : forall needle t, is_openT t = false ->
  exists l, count (TTree t) needle WVar = Ok (PNum 2 l)
            /\ numeral 10 l (N.of_nat (count_nodes needle t)).
Proof. exact count_var_spec. Qed.
Print Assumptions C20_count_var_spec.

Theorem C20_count_model_is_node_count : forall needle t, count_lbl needle t = count_nodes needle t.
Proof. exact count_lbl_spec. Qed.
Print Assumptions C20_count_model_is_node_count.

(* ---- justify / crop: hold exactly when the argument already has the requested width ---- *)
Theorem C20_just_spec : forall lj cr t w z fill, is_openT t = false -> width_denotes w z ->
  fill_ok fill (yield t) ->
  (just lj cr (TTree t) w fill = Ok (PBool true) <-> Z.of_nat (length (yield t)) = z).
Proof. exact just_spec. Qed.
Print Assumptions C20_just_spec.

Theorem C20_just_true_only_if : forall lj cr t w z fill, is_openT t = false -> width_denotes w z ->
  just lj cr (TTree t) w fill = Ok (PBool true) -> Z.of_nat (length (yield t)) = z.
Proof. exact just_true_only_if. Qed.
Print Assumptions C20_just_true_only_if.

(* crop is the one-sided relation: the tree is not longer than the width *)
Theorem C20_crop_spec : forall t wt n, is_openT t = false -> is_openT wt = false ->
  numeral 10 (yield wt) n ->
  (crop (TTree t) (WTree wt) = Ok (PBool true) <-> length (yield t) <= N.to_nat n).
Proof. exact crop_spec. Qed.
Print Assumptions C20_crop_spec.

Theorem C20_width_var_spec : forall lj cr t fill, is_openT t = false ->
  exists l, just lj cr (TTree t) WVar fill = Ok (PNum 1 l) /\ crop (TTree t) WVar = Ok (PNum 1 l)
            /\ numeral 10 l (N.of_nat (length (yield t))).
Proof. exact width_var_spec. Qed.
Print Assumptions C20_width_var_spec.

(* ---- octal_to_decimal ----
   FULL STATEMENT (octal_spec): on closed arguments the predicate holds exactly when the octal
   digits denote the decimal number, and every proposed replacement satisfies octal_rel.
   On the pinned code this is FALSE for two classes:
     K_octal_both : both arguments closed trees (conversion in the wrong direction)  -> C20_octal_both_refuted
     K_nonoctal   : digits 8 / 9 in the octal argument are accepted                   -> C20_octal_nonoctal_refuted
   Proved instead: the two conversion directions (partial, octal argument a proper octal
   numeral = not K_nonoctal), and the full relation for the both-trees case WITH the proposed
   fix proposed_fixes/C20-octal-both-trees.diff (model flag fx = true). *)
Theorem C20_octal_both_refuted : exists o d os ds,
  is_openT o = false /\ is_openT d = false /\ octal_rel (yield o) (yield d)
  /\ octal false os ds (TTree o) (TTree d) = Ok (PBool false).
Proof. exact octal_both_refuted. Qed.
Print Assumptions C20_octal_both_refuted.

Theorem C20_octal_nonoctal_refuted : exists o ds,
  is_openT o = false /\ (forall n, ~ numeral 8 (yield o) n)
  /\ exists s, octal false [] ds (TTree o) TVar = Ok (PParse 1 ds s).
Proof. exact octal_nonoctal_refuted. Qed.
Print Assumptions C20_octal_nonoctal_refuted.

Theorem C20_octal_to_decimal_partial : forall fx os ds o n, is_openT o = false -> numeral 8 (yield o) n ->
  exists s, octal fx os ds (TTree o) TVar = Ok (PParse 1 ds s) /\ numeral 10 s n.
Proof. exact octal_concrete_octal_spec. Qed.
Print Assumptions C20_octal_to_decimal_partial.

Theorem C20_decimal_to_octal_partial : forall fx os ds d n, is_openT d = false -> numeral 10 (yield d) n ->
  exists s, octal fx os ds TVar (TTree d) = Ok (PParse 0 os s) /\ numeral 8 s n.
Proof. exact octal_concrete_decimal_spec. Qed.
Print Assumptions C20_decimal_to_octal_partial.

Theorem C20_octal_both_fixed_spec : forall os ds o d n m, is_openT o = false -> is_openT d = false ->
  numeral 8 (yield o) n -> numeral 10 (yield d) m ->
  exists b, octal true os ds (TTree o) (TTree d) = Ok (PBool b)
            /\ (b = true <-> octal_rel (yield o) (yield d)).
Proof. exact octal_both_fixed_spec. Qed.
Print Assumptions C20_octal_both_fixed_spec.

(* the guard of the partial theorems is implied by their numeral hypothesis *)
Theorem C20_K_nonoctal_guard : forall os ds o d n, numeral 8 (yield o) n ->
  K_nonoctal (COctal os ds (TTree o) d) = false.
Proof. exact K_nonoctal_numeral. Qed.
Print Assumptions C20_K_nonoctal_guard.

(* ---- replacement trees (under the parser premise of C10) ----
   FULL STATEMENT (replacement_valid): every replacement a predicate proposes is a valid closed
   tree of the argument's nonterminal that satisfies the relation.  FALSE for negative widths
   (class K_neg_width: Python slice semantics) -> C20_neg_width_refuted; proved for widths >= 0. *)
Theorem C20_neg_width_refuted : exists t z s,
  is_openT t = false /\ K_neg_width (CJust true true (TTree t) (WInt z) (Some [48%N])) = true
  /\ pre_eval false (CJust true true (TTree t) (WInt z) (Some [48%N])) = Ok (PParse 0 (lbl t) s)
  /\ Z.of_nat (length s) <> z.
Proof. exact neg_width_refuted. Qed.
Print Assumptions C20_neg_width_refuted.

Theorem C20_K_neg_width_guard : forall w z, width_denotes w z -> (width_negb w = false <-> (0 <= z)%Z).
Proof. exact K_neg_width_denotes. Qed.
Print Assumptions C20_K_neg_width_guard.

Theorem C20_just_replacement_partial :
  forall (g : grammar) (parse : str -> str -> res tree),
  (forall nt s r, parse nt s = Ok r -> wf_tree g r /\ lbl r = nt /\ is_openT r = false /\ yield r = s) ->
  forall fx lj cr t w z fill k r,
  is_openT t = false -> width_denotes w z -> (0 <= z)%Z ->
  sem_eval parse fx (CJust lj cr (TTree t) w fill) = Ok (SAssign k r) ->
  k = 0 /\ wf_tree g r /\ lbl r = lbl t /\ is_openT r = false
  /\ Z.of_nat (length (yield r)) = z /\ just_rel lj (yield t) (yield r).
Proof. exact just_replacement_valid. Qed.
Print Assumptions C20_just_replacement_partial.

Theorem C20_crop_replacement :
  forall (g : grammar) (parse : str -> str -> res tree),
  (forall nt s r, parse nt s = Ok r -> wf_tree g r /\ lbl r = nt /\ is_openT r = false /\ yield r = s) ->
  forall fx t wt n k r,
  is_openT t = false -> is_openT wt = false -> numeral 10 (yield wt) n ->
  sem_eval parse fx (CCrop (TTree t) (WTree wt)) = Ok (SAssign k r) ->
  k = 0 /\ wf_tree g r /\ lbl r = lbl t /\ is_openT r = false
  /\ length (yield r) = N.to_nat n /\ exists rest, yield t = yield r ++ rest.
Proof. exact crop_replacement_valid. Qed.
Print Assumptions C20_crop_replacement.

Theorem C20_octal_to_decimal_replacement :
  forall (g : grammar) (parse : str -> str -> res tree),
  (forall nt s r, parse nt s = Ok r -> wf_tree g r /\ lbl r = nt /\ is_openT r = false /\ yield r = s) ->
  forall fx os ds o n k r,
  is_openT o = false -> numeral 8 (yield o) n ->
  sem_eval parse fx (COctal os ds (TTree o) TVar) = Ok (SAssign k r) ->
  k = 1 /\ wf_tree g r /\ lbl r = ds /\ is_openT r = false /\ octal_rel (yield o) (yield r).
Proof. exact octal_to_decimal_replacement. Qed.
Print Assumptions C20_octal_to_decimal_replacement.

Theorem C20_decimal_to_octal_replacement :
  forall (g : grammar) (parse : str -> str -> res tree),
  (forall nt s r, parse nt s = Ok r -> wf_tree g r /\ lbl r = nt /\ is_openT r = false /\ yield r = s) ->
  forall fx os ds d n k r,
  is_openT d = false -> numeral 10 (yield d) n ->
  sem_eval parse fx (COctal os ds TVar (TTree d)) = Ok (SAssign k r) ->
  k = 0 /\ wf_tree g r /\ lbl r = os /\ is_openT r = false /\ octal_rel (yield r) (yield d).
Proof. exact decimal_to_octal_replacement. Qed.
Print Assumptions C20_decimal_to_octal_replacement.

(* ---- numerals: printing and parsing are inverse on plain numerals (used by all of the above) ---- *)
Theorem C20_print_numeral : forall n, numeral 10 (dec_of_N n) n /\ numeral 8 (oct_of_N n) n.
Proof. exact print_numeral. Qed.
Print Assumptions C20_print_numeral.

Theorem C20_parse_numeral : forall b s n, (b = 8 \/ b = 10)%N -> numeral b s n -> py_int b s = Some (Z.of_N n).
Proof. exact py_int_numeral. Qed.
Print Assumptions C20_parse_numeral.

(* ==================================================================================== *)
(* PROOF EXTENSION: the predicates composed with the Earley parser of C10                 *)
(*   mk_grammar g nt  = delete_unreachable (g | {"<start>": [nt]})                        *)
(*   mk_parse .. g nt inp = child (0,) of EarleyParser(mk_grammar g nt).parse(inp)[0]     *)
(*   sem_eval_earley fxA fxB fuel g = sem_eval (mk_parse fxA fxB fuel g)                  *)
(*   fxA / fxB: pinned (false) or repaired (true) form of the parser's two defect spots   *)
(*   (C10); the statements hold for all four combinations.                                *)
(* ==================================================================================== *)

(* the former parser premise is a theorem *)
Theorem C20_mk_parse_sound : forall g fxA fxB fuel nt,
  canonical_form g = true -> NoDup (map fst g) -> occurs_rhs g START = false ->
  defined g nt = true -> nt <> START ->
  forall w r, mk_parse fxA fxB fuel g nt w = Ok r ->
  wf_tree g r /\ lbl r = nt /\ is_openT r = false /\ yield r = w /\ L g nt w.
Proof. exact mk_parse_sound. Qed.
Print Assumptions C20_mk_parse_sound.

(* without the condition on "<start>": the same for the specialised grammar, under C10's guard *)
Theorem C20_mk_parse_sound_spec : forall g fxA fxB fuel nt,
  good_grammar g -> NoDup (map fst g) -> defined g WRAP = false -> defined g nt = true ->
  (fxB = true \/ K_recstart (mk_grammar g nt) START START = false) ->
  forall w r, mk_parse fxA fxB fuel g nt w = Ok r ->
  wf_tree (mk_grammar g nt) r /\ lbl r = nt /\ is_openT r = false /\ yield r = w
  /\ L (mk_grammar g nt) START w.
Proof. exact mk_parse_sound_spec. Qed.
Print Assumptions C20_mk_parse_sound_spec.

(* the specialised grammar has the language of nt *)
Theorem C20_mk_grammar_language : forall g nt, good_grammar g -> defined g nt = true ->
  occurs_rhs g START = false -> nt <> START ->
  forall w, L (mk_grammar g nt) START w <-> L g nt w.
Proof. exact EarleySpecialise.spec_language. Qed.
Print Assumptions C20_mk_grammar_language.

(* the three outcomes of the parser call (enough fuel for the chart) *)
Theorem C20_mk_parse_outcomes : forall g fxA fxB fuel nt,
  canonical_form g = true -> NoDup (map fst g) -> occurs_rhs g START = false ->
  defined g nt = true -> nt <> START ->
  forall w, fuel_bound (cgram (mk_grammar g nt) START) (length w) <= fuel ->
  (exists r, mk_parse fxA fxB fuel g nt w = Ok r /\ wf_tree g r /\ lbl r = nt /\ is_openT r = false
             /\ yield r = w /\ L g nt w)
  \/ (mk_parse fxA fxB fuel g nt w = Raise SyntaxErr /\ ~ L g nt w)
  \/ (mk_parse fxA fxB fuel g nt w = Raise OutOfFuel /\ L g nt w).
Proof. exact mk_parse_outcomes. Qed.
Print Assumptions C20_mk_parse_outcomes.

Theorem C20_mk_parse_syntaxerr_iff : forall g fxA fxB fuel nt,
  canonical_form g = true -> NoDup (map fst g) -> occurs_rhs g START = false ->
  defined g nt = true -> nt <> START ->
  forall w, fuel_bound (cgram (mk_grammar g nt) START) (length w) <= fuel ->
  (mk_parse fxA fxB fuel g nt w = Raise SyntaxErr <-> ~ L g nt w).
Proof. exact mk_parse_syntaxerr_iff. Qed.
Print Assumptions C20_mk_parse_syntaxerr_iff.

(* ---- replacement trees, no parser premise ---- *)
Theorem C20_just_replacement_earley : forall g fxA fxB fuel,
  canonical_form g = true -> NoDup (map fst g) -> occurs_rhs g START = false ->
  forall fx lj cr t w z fill k r,
  is_openT t = false -> defined g (lbl t) = true -> lbl t <> START ->
  width_denotes w z -> (0 <= z)%Z ->
  sem_eval_earley fxA fxB fuel g fx (CJust lj cr (TTree t) w fill) = Ok (SAssign k r) ->
  k = 0 /\ wf_tree g r /\ lbl r = lbl t /\ is_openT r = false
  /\ Z.of_nat (length (yield r)) = z /\ just_rel lj (yield t) (yield r) /\ L g (lbl t) (yield r).
Proof. exact just_replacement_earley. Qed.
Print Assumptions C20_just_replacement_earley.

Theorem C20_crop_replacement_earley : forall g fxA fxB fuel,
  canonical_form g = true -> NoDup (map fst g) -> occurs_rhs g START = false ->
  forall fx t wt n k r,
  is_openT t = false -> defined g (lbl t) = true -> lbl t <> START ->
  is_openT wt = false -> numeral 10 (yield wt) n ->
  sem_eval_earley fxA fxB fuel g fx (CCrop (TTree t) (WTree wt)) = Ok (SAssign k r) ->
  k = 0 /\ wf_tree g r /\ lbl r = lbl t /\ is_openT r = false
  /\ length (yield r) = N.to_nat n /\ (exists rest, yield t = yield r ++ rest) /\ L g (lbl t) (yield r).
Proof. exact crop_replacement_earley. Qed.
Print Assumptions C20_crop_replacement_earley.

Theorem C20_octal_to_decimal_replacement_earley : forall g fxA fxB fuel,
  canonical_form g = true -> NoDup (map fst g) -> occurs_rhs g START = false ->
  forall fx os ds o n k r,
  is_openT o = false -> defined g ds = true -> ds <> START -> numeral 8 (yield o) n ->
  sem_eval_earley fxA fxB fuel g fx (COctal os ds (TTree o) TVar) = Ok (SAssign k r) ->
  k = 1 /\ wf_tree g r /\ lbl r = ds /\ is_openT r = false /\ octal_rel (yield o) (yield r)
  /\ L g ds (yield r).
Proof. exact octal_to_decimal_replacement_earley. Qed.
Print Assumptions C20_octal_to_decimal_replacement_earley.

Theorem C20_decimal_to_octal_replacement_earley : forall g fxA fxB fuel,
  canonical_form g = true -> NoDup (map fst g) -> occurs_rhs g START = false ->
  forall fx os ds d n k r,
  is_openT d = false -> defined g os = true -> os <> START -> numeral 10 (yield d) n ->
  sem_eval_earley fxA fxB fuel g fx (COctal os ds TVar (TTree d)) = Ok (SAssign k r) ->
  k = 0 /\ wf_tree g r /\ lbl r = os /\ is_openT r = false /\ octal_rel (yield r) (yield d)
  /\ L g os (yield r).
Proof. exact decimal_to_octal_replacement_earley. Qed.
Print Assumptions C20_decimal_to_octal_replacement_earley.

(* ---- SyntaxError of the parser: the predicate raises SyntaxError, exactly for non-members ---- *)
Theorem C20_crop_syntaxerr_iff : forall g fxA fxB fuel,
  canonical_form g = true -> NoDup (map fst g) -> occurs_rhs g START = false ->
  forall fx t wt n,
  is_openT t = false -> defined g (lbl t) = true -> lbl t <> START ->
  is_openT wt = false -> numeral 10 (yield wt) n -> N.to_nat n < length (yield t) ->
  fuel_bound (cgram (mk_grammar g (lbl t)) START) (N.to_nat n) <= fuel ->
  (sem_eval_earley fxA fxB fuel g fx (CCrop (TTree t) (WTree wt)) = Raise SyntaxErr
   <-> ~ L g (lbl t) (firstn (N.to_nat n) (yield t))).
Proof. exact crop_syntaxerr_iff. Qed.
Print Assumptions C20_crop_syntaxerr_iff.

Theorem C20_just_syntaxerr_iff : forall g fxA fxB fuel,
  canonical_form g = true -> NoDup (map fst g) -> occurs_rhs g START = false ->
  forall fx lj cr t w z fill c,
  is_openT t = false -> defined g (lbl t) = true -> lbl t <> START ->
  width_denotes w z -> fill_of fill (yield t) = Ok [c] ->
  Z.of_nat (length (yield t)) <> z -> (cr = true \/ (Z.of_nat (length (yield t)) < z)%Z) ->
  fuel_bound (cgram (mk_grammar g (lbl t)) START) (length (just_output lj cr c z (yield t))) <= fuel ->
  (sem_eval_earley fxA fxB fuel g fx (CJust lj cr (TTree t) w fill) = Raise SyntaxErr
   <-> ~ L g (lbl t) (just_output lj cr c z (yield t))).
Proof. exact just_syntaxerr_iff. Qed.
Print Assumptions C20_just_syntaxerr_iff.

Theorem C20_octal_to_decimal_syntaxerr_iff : forall g fxA fxB fuel,
  canonical_form g = true -> NoDup (map fst g) -> occurs_rhs g START = false ->
  forall fx os ds o n,
  is_openT o = false -> defined g ds = true -> ds <> START -> numeral 8 (yield o) n ->
  fuel_bound (cgram (mk_grammar g ds) START) (length (dec_of_N n)) <= fuel ->
  (sem_eval_earley fxA fxB fuel g fx (COctal os ds (TTree o) TVar) = Raise SyntaxErr <-> ~ L g ds (dec_of_N n)).
Proof. exact octal_to_decimal_syntaxerr_iff. Qed.
Print Assumptions C20_octal_to_decimal_syntaxerr_iff.

Theorem C20_decimal_to_octal_syntaxerr_iff : forall g fxA fxB fuel,
  canonical_form g = true -> NoDup (map fst g) -> occurs_rhs g START = false ->
  forall fx os ds d n,
  is_openT d = false -> defined g os = true -> os <> START -> numeral 10 (yield d) n ->
  fuel_bound (cgram (mk_grammar g os) START) (length (oct_of_N n)) <= fuel ->
  (sem_eval_earley fxA fxB fuel g fx (COctal os ds TVar (TTree d)) = Raise SyntaxErr <-> ~ L g os (oct_of_N n)).
Proof. exact decimal_to_octal_syntaxerr_iff. Qed.
Print Assumptions C20_decimal_to_octal_syntaxerr_iff.

(* ---- "a replacement exists iff the cropped / padded string is in the language of the nonterminal"
   FULL STATEMENT: the equivalence below without the premise `... <> Raise OutOfFuel`: proved as
   C20_crop_assign_iff / C20_just_assign_iff (PROOF EXTENSION 2 at the end of this file) under the guard
   acyclicb of the specialised grammar.
   PARTIAL (kept for grammars outside that guard): -> holds unconditionally (C20_*_replacement_earley);
   <- holds unless the model's tree enumeration runs out of fuel (C10_parse_member_outcomes_partial).
   SyntaxError is excluded by C20_*_syntaxerr_iff. ---- *)
Theorem C20_crop_assign_iff_partial : forall g fxA fxB fuel,
  canonical_form g = true -> NoDup (map fst g) -> occurs_rhs g START = false ->
  forall fx t wt n,
  is_openT t = false -> defined g (lbl t) = true -> lbl t <> START ->
  is_openT wt = false -> numeral 10 (yield wt) n -> N.to_nat n < length (yield t) ->
  fuel_bound (cgram (mk_grammar g (lbl t)) START) (N.to_nat n) <= fuel ->
  sem_eval_earley fxA fxB fuel g fx (CCrop (TTree t) (WTree wt)) <> Raise OutOfFuel ->
  ((exists r, sem_eval_earley fxA fxB fuel g fx (CCrop (TTree t) (WTree wt)) = Ok (SAssign 0 r))
   <-> L g (lbl t) (firstn (N.to_nat n) (yield t))).
Proof. exact crop_assign_iff_partial. Qed.
Print Assumptions C20_crop_assign_iff_partial.

Theorem C20_just_assign_iff_partial : forall g fxA fxB fuel,
  canonical_form g = true -> NoDup (map fst g) -> occurs_rhs g START = false ->
  forall fx lj cr t w z fill c,
  is_openT t = false -> defined g (lbl t) = true -> lbl t <> START ->
  width_denotes w z -> fill_of fill (yield t) = Ok [c] ->
  Z.of_nat (length (yield t)) <> z -> (cr = true \/ (Z.of_nat (length (yield t)) < z)%Z) ->
  fuel_bound (cgram (mk_grammar g (lbl t)) START) (length (just_output lj cr c z (yield t))) <= fuel ->
  sem_eval_earley fxA fxB fuel g fx (CJust lj cr (TTree t) w fill) <> Raise OutOfFuel ->
  ((exists r, sem_eval_earley fxA fxB fuel g fx (CJust lj cr (TTree t) w fill) = Ok (SAssign 0 r))
   <-> L g (lbl t) (just_output lj cr c z (yield t))).
Proof. exact just_assign_iff_partial. Qed.
Print Assumptions C20_just_assign_iff_partial.

(* every outcome of crop on closed arguments *)
Theorem C20_crop_earley_outcomes : forall g fxA fxB fuel,
  canonical_form g = true -> NoDup (map fst g) -> occurs_rhs g START = false ->
  forall fx t wt n,
  is_openT t = false -> defined g (lbl t) = true -> lbl t <> START ->
  is_openT wt = false -> numeral 10 (yield wt) n ->
  fuel_bound (cgram (mk_grammar g (lbl t)) START) (N.to_nat n) <= fuel ->
  let s := firstn (N.to_nat n) (yield t) in
  let out := sem_eval_earley fxA fxB fuel g fx (CCrop (TTree t) (WTree wt)) in
  (length (yield t) <= N.to_nat n /\ out = Ok (SBool true))
  \/ (N.to_nat n < length (yield t) /\
      ((exists r, out = Ok (SAssign 0 r) /\ wf_tree g r /\ lbl r = lbl t /\ is_openT r = false /\ yield r = s /\ L g (lbl t) s)
       \/ (out = Raise SyntaxErr /\ ~ L g (lbl t) s)
       \/ (out = Raise OutOfFuel /\ L g (lbl t) s))).
Proof. exact crop_earley_outcomes. Qed.
Print Assumptions C20_crop_earley_outcomes.

(* ---- a tree rooted in "<start>" is never replaced (mk_parser: <start> ::= <start>) ---- *)
Theorem C20_start_rooted_syntaxerr : forall g fxA fxB fuel w,
  good_grammar g -> NoDup (map fst g) -> defined g WRAP = false -> defined g START = true ->
  fuel_bound (cgram (mk_grammar g START) START) (length w) <= fuel ->
  mk_parse fxA fxB fuel g START w = Raise SyntaxErr.
Proof. exact mk_parse_start_syntaxerr. Qed.
Print Assumptions C20_start_rooted_syntaxerr.

Theorem C20_crop_start_rooted_syntaxerr : forall g fxA fxB fuel fx t wt n,
  good_grammar g -> NoDup (map fst g) -> defined g WRAP = false -> defined g START = true ->
  is_openT t = false -> lbl t = START -> is_openT wt = false -> numeral 10 (yield wt) n ->
  N.to_nat n < length (yield t) ->
  fuel_bound (cgram (mk_grammar g START) START) (N.to_nat n) <= fuel ->
  sem_eval_earley fxA fxB fuel g fx (CCrop (TTree t) (WTree wt)) = Raise SyntaxErr.
Proof. exact crop_start_rooted_syntaxerr. Qed.
Print Assumptions C20_crop_start_rooted_syntaxerr.

(* ---- non-vacuity of the hypotheses above: <start> ::= <o>; <o> ::= <d><o> | <d>; <d> ::= 1|7|0 ---- *)
Example C20_compose_hypotheses_satisfiable :
  canonical_form ex_gs = true /\ NoDup (map fst ex_gs) /\ occurs_rhs ex_gs START = false /\
  is_openT ex_o17 = false /\ defined ex_gs (lbl ex_o17) = true /\ lbl ex_o17 <> START /\
  fuel_bound (cgram (mk_grammar ex_gs (lbl ex_o17)) START) 3 <= 200 /\
  sem_eval (mk_parse false false 200 ex_gs) false (CJust true false (TTree ex_o17) (WInt 3) (Some [48%N]))
    = Ok (SAssign 0 ex_o170) /\
  fill_of (Some [97%N]) (yield ex_o17) = Ok [97%N] /\
  sem_eval (mk_parse false false 200 ex_gs) false (CJust true false (TTree ex_o17) (WInt 3) (Some [97%N]))
    = Raise SyntaxErr /\
  numeral 10 (yield ex_w1) 1%N /\
  sem_eval (mk_parse false false 200 ex_gs) false (CCrop (TTree ex_o17) (WTree ex_w1)) = Ok (SAssign 0 ex_o1) /\
  sem_eval (mk_parse false false 200 ex_gs) false (CCrop (TTree ex_s17) (WTree ex_w1)) = Raise SyntaxErr /\
  L ex_gs START [49]%N.
Proof. exact ex_compose_hyps. Qed.
Print Assumptions C20_compose_hypotheses_satisfiable.

(* ==================================================================================== *)
(* PROOF EXTENSION 2: the out-of-fuel outcome is excluded (C10_parse_complete)            *)
(*   guard: acyclicb (cgram (mk_grammar g nt) START) = true  -- the grammar that mk_parser *)
(*   hands to EarleyParser has no cyclic unit/nullable derivation A =>+ A                  *)
(*   (C10_acyclicb_spec), and fuel >= fuel_bound (computable; Python has no fuel)          *)
(* ==================================================================================== *)

Theorem C20_mk_parse_no_outoffuel : forall g fxA fxB fuel nt,
  canonical_form g = true -> NoDup (map fst g) -> occurs_rhs g START = false ->
  defined g nt = true -> nt <> START ->
  acyclicb (cgram (mk_grammar g nt) START) = true ->
  forall w, fuel_bound (cgram (mk_grammar g nt) START) (length w) <= fuel ->
  mk_parse fxA fxB fuel g nt w <> Raise OutOfFuel.
Proof. exact mk_parse_no_outoffuel. Qed.
Print Assumptions C20_mk_parse_no_outoffuel.

(* exactly two outcomes of the parser call: a member of L g nt gets its tree, a non-member SyntaxError *)
Theorem C20_mk_parse_total : forall g fxA fxB fuel nt,
  canonical_form g = true -> NoDup (map fst g) -> occurs_rhs g START = false ->
  defined g nt = true -> nt <> START ->
  acyclicb (cgram (mk_grammar g nt) START) = true ->
  forall w, fuel_bound (cgram (mk_grammar g nt) START) (length w) <= fuel ->
  (exists r, mk_parse fxA fxB fuel g nt w = Ok r /\ wf_tree g r /\ lbl r = nt /\ is_openT r = false
             /\ yield r = w /\ L g nt w)
  \/ (mk_parse fxA fxB fuel g nt w = Raise SyntaxErr /\ ~ L g nt w).
Proof. exact mk_parse_total. Qed.
Print Assumptions C20_mk_parse_total.

Theorem C20_mk_parse_ok_iff : forall g fxA fxB fuel nt,
  canonical_form g = true -> NoDup (map fst g) -> occurs_rhs g START = false ->
  defined g nt = true -> nt <> START ->
  acyclicb (cgram (mk_grammar g nt) START) = true ->
  forall w, fuel_bound (cgram (mk_grammar g nt) START) (length w) <= fuel ->
  ((exists r, mk_parse fxA fxB fuel g nt w = Ok r) <-> L g nt w).
Proof. exact mk_parse_ok_iff. Qed.
Print Assumptions C20_mk_parse_ok_iff.

(* ---- "a replacement exists iff the cropped / padded / converted string is in L g nt": FULL ---- *)
Theorem C20_crop_assign_iff : forall g fxA fxB fuel,
  canonical_form g = true -> NoDup (map fst g) -> occurs_rhs g START = false ->
  forall fx t wt n,
  is_openT t = false -> defined g (lbl t) = true -> lbl t <> START ->
  acyclicb (cgram (mk_grammar g (lbl t)) START) = true ->
  is_openT wt = false -> numeral 10 (yield wt) n -> N.to_nat n < length (yield t) ->
  fuel_bound (cgram (mk_grammar g (lbl t)) START) (N.to_nat n) <= fuel ->
  ((exists r, sem_eval_earley fxA fxB fuel g fx (CCrop (TTree t) (WTree wt)) = Ok (SAssign 0 r))
   <-> L g (lbl t) (firstn (N.to_nat n) (yield t))).
Proof. exact crop_assign_iff. Qed.
Print Assumptions C20_crop_assign_iff.

Theorem C20_just_assign_iff : forall g fxA fxB fuel,
  canonical_form g = true -> NoDup (map fst g) -> occurs_rhs g START = false ->
  forall fx lj cr t w z fill c,
  is_openT t = false -> defined g (lbl t) = true -> lbl t <> START ->
  acyclicb (cgram (mk_grammar g (lbl t)) START) = true ->
  width_denotes w z -> fill_of fill (yield t) = Ok [c] ->
  Z.of_nat (length (yield t)) <> z -> (cr = true \/ (Z.of_nat (length (yield t)) < z)%Z) ->
  fuel_bound (cgram (mk_grammar g (lbl t)) START) (length (just_output lj cr c z (yield t))) <= fuel ->
  ((exists r, sem_eval_earley fxA fxB fuel g fx (CJust lj cr (TTree t) w fill) = Ok (SAssign 0 r))
   <-> L g (lbl t) (just_output lj cr c z (yield t))).
Proof. exact just_assign_iff. Qed.
Print Assumptions C20_just_assign_iff.

(* octal variants (the octal argument a proper octal numeral: not K_nonoctal) *)
Theorem C20_octal_to_decimal_assign_iff : forall g fxA fxB fuel,
  canonical_form g = true -> NoDup (map fst g) -> occurs_rhs g START = false ->
  forall fx os ds o n,
  is_openT o = false -> defined g ds = true -> ds <> START ->
  acyclicb (cgram (mk_grammar g ds) START) = true -> numeral 8 (yield o) n ->
  fuel_bound (cgram (mk_grammar g ds) START) (length (dec_of_N n)) <= fuel ->
  ((exists r, sem_eval_earley fxA fxB fuel g fx (COctal os ds (TTree o) TVar) = Ok (SAssign 1 r))
   <-> L g ds (dec_of_N n)).
Proof. exact octal_to_decimal_assign_iff. Qed.
Print Assumptions C20_octal_to_decimal_assign_iff.

Theorem C20_decimal_to_octal_assign_iff : forall g fxA fxB fuel,
  canonical_form g = true -> NoDup (map fst g) -> occurs_rhs g START = false ->
  forall fx os ds d n,
  is_openT d = false -> defined g os = true -> os <> START ->
  acyclicb (cgram (mk_grammar g os) START) = true -> numeral 10 (yield d) n ->
  fuel_bound (cgram (mk_grammar g os) START) (length (oct_of_N n)) <= fuel ->
  ((exists r, sem_eval_earley fxA fxB fuel g fx (COctal os ds TVar (TTree d)) = Ok (SAssign 0 r))
   <-> L g os (oct_of_N n)).
Proof. exact decimal_to_octal_assign_iff. Qed.
Print Assumptions C20_decimal_to_octal_assign_iff.

(* every outcome of crop on closed arguments; the out-of-fuel line of C20_crop_earley_outcomes is gone *)
Theorem C20_crop_earley_total : forall g fxA fxB fuel,
  canonical_form g = true -> NoDup (map fst g) -> occurs_rhs g START = false ->
  forall fx t wt n,
  is_openT t = false -> defined g (lbl t) = true -> lbl t <> START ->
  acyclicb (cgram (mk_grammar g (lbl t)) START) = true ->
  is_openT wt = false -> numeral 10 (yield wt) n ->
  fuel_bound (cgram (mk_grammar g (lbl t)) START) (N.to_nat n) <= fuel ->
  let s := firstn (N.to_nat n) (yield t) in
  let out := sem_eval_earley fxA fxB fuel g fx (CCrop (TTree t) (WTree wt)) in
  (length (yield t) <= N.to_nat n /\ out = Ok (SBool true))
  \/ (N.to_nat n < length (yield t) /\
      ((exists r, out = Ok (SAssign 0 r) /\ wf_tree g r /\ lbl r = lbl t /\ is_openT r = false /\ yield r = s /\ L g (lbl t) s)
       \/ (out = Raise SyntaxErr /\ ~ L g (lbl t) s))).
Proof. exact crop_earley_total. Qed.
Print Assumptions C20_crop_earley_total.

(* ---- the boolean guards evaluated by harness/c20.py (Logic/SemPredsGuard.v) ----
   grammar_guard g = canonical_form g && unique keys && "<start>" on no right-hand side;
   request_guard fuel g fx c = the call makes a parser request (nt, s) with nt <> "<start>" defined,
   acyclicb (cgram (mk_grammar g nt) START) and fuel_bound .. |s| <= fuel. *)
Theorem C20_grammar_guard_spec : forall g, grammar_guard g = true ->
  canonical_form g = true /\ NoDup (map fst g) /\ occurs_rhs g START = false.
Proof. exact grammar_guard_spec. Qed.
Print Assumptions C20_grammar_guard_spec.

Theorem C20_parse_guard_spec : forall fuel g nt n, parse_guard fuel g nt n = true ->
  nt <> START /\ defined g nt = true /\ acyclicb (cgram (mk_grammar g nt) START) = true
  /\ fuel_bound (cgram (mk_grammar g nt) START) n <= fuel.
Proof. exact parse_guard_spec. Qed.
Print Assumptions C20_parse_guard_spec.

Theorem C20_request_guard_total : forall g fxA fxB fuel fx c,
  grammar_guard g = true -> request_guard fuel g fx c = true ->
  exists k nt s, pre_eval fx c = Ok (PParse k nt s) /\
    ((exists r, sem_eval_earley fxA fxB fuel g fx c = Ok (SAssign k r) /\ wf_tree g r /\ lbl r = nt
                /\ is_openT r = false /\ yield r = s /\ L g nt s)
     \/ (sem_eval_earley fxA fxB fuel g fx c = Raise SyntaxErr /\ ~ L g nt s)).
Proof. exact request_guard_total. Qed.
Print Assumptions C20_request_guard_total.

(* the table form the harness evaluates (guard_table computed once per grammar, per-case lookup)
   implies request_guard, hence C20_request_guard_total applies to every case counted "inside_guard" *)
Theorem C20_request_guard_tab_sound : forall fuel g nmax fx c,
  request_guard_tab (guard_table fuel g nmax) nmax fx c = true -> request_guard fuel g fx c = true.
Proof. exact request_guard_tab_sound. Qed.
Print Assumptions C20_request_guard_tab_sound.

(* non-vacuity of the new hypotheses (same example grammar as above); a <start>-rooted argument
   makes a request but lies outside the guard *)
Example C20_acyclic_hypotheses_satisfiable :
  grammar_guard ex_gs = true /\
  acyclicb (cgram (mk_grammar ex_gs (lbl ex_o17)) START) = true /\
  parse_guard 200 ex_gs (lbl ex_o17) 3 = true /\
  request_guard 200 ex_gs false (CCrop (TTree ex_o17) (WTree ex_w1)) = true /\
  request_guard 200 ex_gs false (CJust true false (TTree ex_o17) (WInt 3) (Some [97%N])) = true /\
  request_guard 200 ex_gs false (CCrop (TTree ex_s17) (WTree ex_w1)) = false /\
  is_request false (CCrop (TTree ex_s17) (WTree ex_w1)) = true.
Proof. exact ex_acyclic_hyps. Qed.
Print Assumptions C20_acyclic_hypotheses_satisfiable.

(* the guard cannot be dropped FOR THE MODEL: <start> ::= <a>; <a> ::= <a> | "1" satisfies every other
   hypothesis, "1" is a member, and the model (which enumerates the whole, here infinite, forest)
   answers out-of-fuel.  Python's EarleyParser enumerates lazily; this is a limit of the model, not a
   defect of the code (C10_parse_complete_unguarded_refuted). *)
Example C20_acyclic_guard_needed :
  grammar_guard ex_gcyc = true /\
  acyclicb (cgram (mk_grammar ex_gcyc [60; 97; 62]%N) START) = false /\
  fuel_bound (cgram (mk_grammar ex_gcyc [60; 97; 62]%N) START) 1 <= 60 /\
  mk_parse false false 60 ex_gcyc [60; 97; 62]%N [49]%N = Raise OutOfFuel.
Proof. exact ex_cyclic_outoffuel. Qed.
Print Assumptions C20_acyclic_guard_needed.
