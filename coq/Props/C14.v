(* C14 — Solver helpers that build trees to a target meet that target.
   Only statements + `exact`; proofs are in Grammar/FixedLenFacts.v.  Model: Grammar/FixedLen.v
   (create_fixed_length_tree = cflt, compute_nullable_nonterminals = nullables, count = count_decide /
   count_var / finish_candidate / few).  The model is tied to /repo by harness/c14.py. *)
From ISLA Require Import Grammar GrammarFacts TreeFacts FixedLen FixedLenFacts.
From Coq Require Import ZArith.

(* Fixed-length creation: whatever the grammar, the start nonterminal, the target length, the stream
   of random choices and the fuel, a returned tree is a valid derivation tree of the grammar, closed,
   rooted in the requested nonterminal, and its string has EXACTLY the requested length. *)
Theorem C14_cflt_sound : forall g A n fuel o t,
  is_nt A = true -> cflt fuel g A n o = Found t ->
  wf_tree g t /\ closedb t = true /\ lbl t = A /\ length (yield t) = n.
Proof. exact cflt_sound. Qed.
Print Assumptions C14_cflt_sound.

(* ... hence a word of the language of A of that length *)
Theorem C14_cflt_language : forall g A n fuel o t,
  is_nt A = true -> cflt fuel g A n o = Found t -> L g A (yield t) /\ length (yield t) = n.
Proof. exact cflt_language. Qed.
Print Assumptions C14_cflt_language.

(* The same for ANY set used as "nullable nonterminals": exactness of the length does not depend on
   compute_nullable_nonterminals being right (only the pruning does). *)
Theorem C14_cflt_sound_any_nullable_set : forall g NU A n fuel o t,
  is_nt A = true -> cflt_with fuel g NU A n o = Found t -> meets g A n t.
Proof. exact cflt_with_sound. Qed.
Print Assumptions C14_cflt_sound_any_nullable_set.

(* Stack invariant: each entry (tree, curr_len, open_leaves) has a derivation tree rooted in the start
   symbol, open_leaves = exactly its open leaves with their paths (no duplicates), curr_len = length of
   the terminal leaves + number of non-nullable open leaves.  Preserved by every push. *)
Theorem C14_push_preserves_invariant : forall g NU A0 t cl ls idx p A e fr',
  Inv g NU A0 (t, cl, ls) -> nth_error ls idx = Some (p, A) -> In e (alts g A) ->
  push_frame NU (t, cl, ls) idx p A e = Ok fr' -> Inv g NU A0 fr'.
Proof. exact push_frame_inv. Qed.
Print Assumptions C14_push_preserves_invariant.

Theorem C14_expand_preserves_invariant : forall g NU A0 fr o fs o',
  Inv g NU A0 fr -> expand_frame g NU fr o = Ok (fs, o') -> Forall (Inv g NU A0) fs.
Proof. exact expand_frame_inv. Qed.
Print Assumptions C14_expand_preserves_invariant.

(* non-vacuity of the hypotheses of the theorems above *)
Example C14_cflt_nonvacuous : is_nt ex_A = true /\
  exists t, cflt 200 ex_g ex_A 3 [1; 0; 1; 1; 0] = Found t /\ yield t = [121;121;120]%N.
Proof. exact cflt_ex. Qed.
Print Assumptions C14_cflt_nonvacuous.

(* ---- count ---- *)

(* The acceptance test applied by the check to every binding {in_tree: c} returned by count() decides
   the property: exactly `tgt` nodes labelled needle (over ALL positions of c) and no open leaf from
   which the needle is still reachable. *)
Theorem C14_count_acceptance_decides : forall reach needle tgt c,
  meets_count reach needle tgt c = true <-> count_target_met reach needle tgt c.
Proof. exact meets_count_spec. Qed.
Print Assumptions C14_count_acceptance_decides.

(* Definite verdicts of count() before the insertion search are right. *)
Theorem C14_count_true_sound : forall reach needle t tgt,
  count_decide reach needle t tgt = CTrue ->
  exists k, tgt = Z.of_nat k /\ count_target_met reach needle k t.
Proof. exact count_decide_true. Qed.
Print Assumptions C14_count_true_sound.

Theorem C14_count_false_sound : forall reach needle t tgt,
  count_decide reach needle t tgt = CFalse ->
  (tgt < 0)%Z \/ (tgt < Z.of_nat (occurrences needle t))%Z \/
  (more_possible reach needle t = false /\ Z.of_nat (occurrences needle t) <> tgt).
Proof. exact count_decide_false. Qed.
Print Assumptions C14_count_false_sound.

(* count(..., num = variable): the number bound to num is the number of needle nodes, and it is only
   produced when no open leaf can still yield a needle. *)
Theorem C14_count_var_sound : forall reach needle t k,
  count_var reach needle t = CBind k -> count_target_met reach needle k t.
Proof. exact count_var_bind. Qed.
Print Assumptions C14_count_var_sound.

Example C14_count_nonvacuous :
  count_decide (fun _ _ => false) ex_A ex_t 2%Z = CTrue /\
  count_var (fun _ _ => false) ex_B ex_t = CBind 1 /\
  count_decide (fun _ _ => false) ex_A ex_t 3%Z = CFalse.
Proof. exact count_decide_ex. Qed.
Print Assumptions C14_count_nonvacuous.

(* NOT PROVED (full statement kept visible) — count_result_sound:
     forall reach fuel g needle cand c,
       finish_candidate reach fuel g needle cand = FinTree c ->
       count_nodes needle c = count_nodes needle cand /\ more_possible reach needle c = false
   i.e. completing a candidate whose needle count already equals the target (replacing every
   needle-reaching open leaf by the tree returned by find_expansion_without_needle) keeps the count
   and leaves no open leaf that reaches the needle.  Missing: a proof that `few` returns trees without
   inner needle nodes (induction over the DFS of expand_one_step products) and the bookkeeping of
   several replace_path calls at disjoint leaves.  What is checked instead on every run: `few` is
   compared functionally with find_expansion_without_needle, and every binding returned by count() is
   accepted by meets_count (proved above to decide the property) and by wf_treeb. *)
