(* C14 — Solver helpers that build trees to a target meet that target.
   Only statements + `exact`; proofs are in Grammar/FixedLenFacts.v, FixedLenCountMore.v,
   FixedLenPruneMore.v, FixedLenInsertMore.v, IntValueFacts.v.  Model: Grammar/FixedLen.v, IntValue.v
   (create_fixed_length_tree = cflt, compute_nullable_nonterminals = nullables, count = count_decide /
   count_var / finish_candidate / few).  The model is tied to /repo by harness/c14.py.

   FULL (all inputs, no bounds):
     cflt_sound / cflt_language / any nullable set / frame invariant        (create_fixed_length_tree)
     count_acceptance_decides, count_true/false/var_sound                   (count, decision skeleton)
     few_sound, count_result_sound, count_result_target_met                 (count, completion of a
       candidate: find_expansion_without_needle never creates a needle node; the result has exactly
       the candidate's needle count and no open leaf that reaches the needle)
     count_insert_result_sound   the same for the candidates produced by the C13 model of insert_tree
     curr_len_lower_bound, cflt_prune_sound_any_complete_set, closed/pruned step lemmas
     cflt_termination_refuted    the search diverges on <a> ::= <a> | "x", n = 2, for every fuel and
                                 every stream of random choices (reproduced on /repo: no return)
   PARTIAL (guard K_empty_terminal g = false: no alternative contains the symbol ""):
     nullables_complete_partial, cflt_prune_sound_partial, cflt_prune_initial_partial
     cflt_prune_refuted          with the symbol "" a feasible start frame IS pruned (reproduced on /repo
                                 with a hand-written canonical grammar; helpers.canonical never emits "")
     cflt_terminates_partial     guard grow_okb g (nullables g) = true (every alternative strictly
                                 increases curr_len or, keeping it, has no nonterminal): with fuel above
                                 the computable bound fuel_bound the model never answers OutOfFuel.
                                 The guard is sufficient, not necessary.
   FULL (proof extension 3, Grammar/IntValue.v + IntValueFacts.v; extract_model_value_int_var):
     int_value_sound             for every canonical grammar (<start> on no right-hand side), nonterminal
                                 nt <> <start>, integer z, EVERY answer of the Z3 query (oracle) and every
                                 fuel: a returned tree is a valid closed derivation tree rooted in nt whose
                                 string denotes z (intval) — composition with C10's Earley model
     supported_denotes, py_str_denotes, meets_int_decides (acceptance test of the check)
     int_value_runtime_iff / _outcomes (with the C10 chart fuel bound; hfuel of the check satisfies it):
                                 RuntimeError <-> str(z) not in L(nt) and the query is not sat
   PARTIAL / under explicit premises on the Z3 query:
     int_value_no_syntaxerr      premise oracle_sound (sat answers are words of L(nt))
     int_value_runtime_complete  premise oracle_complete (not sat only if no supported spelling in L(nt))
     int_value_ok_iff_partial    both premises + C10's out-of-fuel outcome of the tree enumeration excluded
     int_value_runtime_not_complete   oracle_complete FAILS on /repo for the non-regular
                                 <z> ::= "0"<z>"0" | "1", z = 100 (RuntimeError although "00100" is in L)
   STILL MISSING: the dispatcher around extract_model_value_int_var and nt = <start> (ISLaSolver.parse then
     also runs the semantic check); an exact
     characterisation of the grammars on which the search terminates; negate=True branches of count;
     the heapq order of count's candidates. *)
From ISLA Require Import Insert InsertFacts InsertSelfMore.
From ISLA Require Import Grammar GrammarFacts TreeFacts FixedLen FixedLenFacts.
From ISLA Require Import FixedLenCountMore FixedLenPruneMore FixedLenInsertMore FixedLenTermMore.
From Coq Require Import ZArith.

(* Fixed-length creation: whatever the grammar, the start nonterminal, the target length, the stream
   of random choices and the fuel, a returned tree is a valid derivation tree of the grammar, closed,
   rooted in the requested nonterminal, and its string has EXACTLY the requested length. *)
Theorem C14_cflt_sound : forall g A n fuel o t,
  is_nt A = true -> cflt fuel g A n o = Found t ->
  wf_tree g t /\ closedb t = true /\ lbl t = A /\ length (yield t) = n.
Proof. exact cflt_sound. Qed.
Print Assumptions C14_cflt_sound.

(* ... hence a word of the language of A of that length *)
Theorem C14_cflt_language : forall g A n fuel o t,
  is_nt A = true -> cflt fuel g A n o = Found t -> L g A (yield t) /\ length (yield t) = n.
Proof. exact cflt_language. Qed.
Print Assumptions C14_cflt_language.

(* The same for ANY set used as "nullable nonterminals": exactness of the length does not depend on
   compute_nullable_nonterminals being right (only the pruning does). *)
Theorem C14_cflt_sound_any_nullable_set : forall g NU A n fuel o t,
  is_nt A = true -> cflt_with fuel g NU A n o = Found t -> meets g A n t.
Proof. exact cflt_with_sound. Qed.
Print Assumptions C14_cflt_sound_any_nullable_set.

(* Stack invariant: each entry (tree, curr_len, open_leaves) has a derivation tree rooted in the start
   symbol, open_leaves = exactly its open leaves with their paths (no duplicates), curr_len = length of
   the terminal leaves + number of non-nullable open leaves.  Preserved by every push. *)
Theorem C14_push_preserves_invariant : forall g NU A0 t cl ls idx p A e fr',
  Inv g NU A0 (t, cl, ls) -> nth_error ls idx = Some (p, A) -> In e (alts g A) ->
  push_frame NU (t, cl, ls) idx p A e = Ok fr' -> Inv g NU A0 fr'.
Proof. exact push_frame_inv. Qed.
Print Assumptions C14_push_preserves_invariant.

Theorem C14_expand_preserves_invariant : forall g NU A0 fr o fs o',
  Inv g NU A0 fr -> expand_frame g NU fr o = Ok (fs, o') -> Forall (Inv g NU A0) fs.
Proof. exact expand_frame_inv. Qed.
Print Assumptions C14_expand_preserves_invariant.

(* non-vacuity of the hypotheses of the theorems above *)
Example C14_cflt_nonvacuous : is_nt ex_A = true /\
  exists t, cflt 200 ex_g ex_A 3 [1; 0; 1; 1; 0] = Found t /\ yield t = [121;121;120]%N.
Proof. exact cflt_ex. Qed.
Print Assumptions C14_cflt_nonvacuous.

(* ---- count ---- *)

(* The acceptance test applied by the check to every binding {in_tree: c} returned by count() decides
   the property: exactly `tgt` nodes labelled needle (over ALL positions of c) and no open leaf from
   which the needle is still reachable. *)
Theorem C14_count_acceptance_decides : forall reach needle tgt c,
  meets_count reach needle tgt c = true <-> count_target_met reach needle tgt c.
Proof. exact meets_count_spec. Qed.
Print Assumptions C14_count_acceptance_decides.

(* Definite verdicts of count() before the insertion search are right. *)
Theorem C14_count_true_sound : forall reach needle t tgt,
  count_decide reach needle t tgt = CTrue ->
  exists k, tgt = Z.of_nat k /\ count_target_met reach needle k t.
Proof. exact count_decide_true. Qed.
Print Assumptions C14_count_true_sound.

Theorem C14_count_false_sound : forall reach needle t tgt,
  count_decide reach needle t tgt = CFalse ->
  (tgt < 0)%Z \/ (tgt < Z.of_nat (occurrences needle t))%Z \/
  (more_possible reach needle t = false /\ Z.of_nat (occurrences needle t) <> tgt).
Proof. exact count_decide_false. Qed.
Print Assumptions C14_count_false_sound.

(* count(..., num = variable): the number bound to num is the number of needle nodes, and it is only
   produced when no open leaf can still yield a needle. *)
Theorem C14_count_var_sound : forall reach needle t k,
  count_var reach needle t = CBind k -> count_target_met reach needle k t.
Proof. exact count_var_bind. Qed.
Print Assumptions C14_count_var_sound.

Example C14_count_nonvacuous :
  count_decide (fun _ _ => false) ex_A ex_t 2%Z = CTrue /\
  count_var (fun _ _ => false) ex_B ex_t = CBind 1 /\
  count_decide (fun _ _ => false) ex_A ex_t 3%Z = CFalse.
Proof. exact count_decide_ex. Qed.
Print Assumptions C14_count_nonvacuous.

(* ---- count: completing a candidate whose needle count equals the target (count_result_sound) ---- *)

(* find_expansion_without_needle: the returned tree keeps the label of the root leaf, has as many
   needle nodes as that leaf (0 or 1: no needle node is created below the root), and none of its
   open leaves reaches the needle.  shape_ok = representation invariant of Python trees
   (children is None => no children). *)
Theorem C14_few_sound : forall reach needle g fuel root r,
  shape_ok root = true -> few reach fuel g needle root = FSome r ->
  shape_ok r = true /\ lbl r = lbl root /\ count_nodes needle r = count_nodes needle root /\
  (forall p s, subtree r p = Some s -> opn s = true -> reach (lbl s) needle = false).
Proof. exact few_sound. Qed.
Print Assumptions C14_few_sound.

(* count_result_sound (was: stated, not proved).  For every reachability relation, grammar, needle,
   fuel and candidate: a tree returned by the completion step has exactly the needle count of the
   candidate (= the target, that is when the step runs) and no open leaf that reaches the needle.
   Without shape_ok the statement is false of the model (an "open" node with needle children would
   lose them), but such a value does not encode any Python DerivationTree. *)
Theorem C14_count_result_sound : forall reach needle g fuel cand c,
  shape_ok cand = true ->
  finish_candidate reach fuel g needle cand = FinTree c ->
  count_nodes needle c = count_nodes needle cand /\ more_possible reach needle c = false.
Proof. exact finish_candidate_sound. Qed.
Print Assumptions C14_count_result_sound.

(* ... in the declarative vocabulary: the number of positions labelled needle is the target and no
   open position has a label that reaches the needle *)
Theorem C14_count_result_target_met : forall reach needle g fuel cand c,
  shape_ok cand = true ->
  finish_candidate reach fuel g needle cand = FinTree c ->
  count_target_met reach needle (occurrences needle cand) c.
Proof. exact finish_candidate_target_met. Qed.
Print Assumptions C14_count_result_target_met.

Example C14_count_result_nonvacuous :
  shape_ok fc_cand = true /\ more_possible fc_reach ex_B fc_cand = true /\
  finish_candidate fc_reach 10 ex_g ex_B fc_cand =
    FinTree (Node ex_A 1%N false [Node ex_B 2%N false [Node [120]%N 3%N false []];
                                  Node ex_A 4%N false []]).
Proof. exact finish_candidate_ex. Qed.
Print Assumptions C14_count_result_nonvacuous.

(* the candidates are no longer arbitrary: for every candidate that the C13 model of insert_tree
   returns (count() uses DIRECT_EMBEDDING | SELF_EMBEDDING, i.e. K_ctx m = false) the completion
   step is sound, and the candidate contains the host's nodes and the inserted tree *)
Theorem C14_count_insert_result_sound :
  forall reach needle fuel g chain pb maxn m ins host rs cand c,
  closed_g g -> chain_ok chain -> wf_tree g host -> wf_tree g ins -> uniq_ids host ins ->
  K_ctx m = false ->
  insert_tree g chain pb maxn m ins host = Ok rs -> In cand rs ->
  finish_candidate reach fuel g needle cand = FinTree c ->
  inserted g host ins cand /\
  count_target_met reach needle (occurrences needle cand) c.
Proof. exact count_insert_result_sound. Qed.
Print Assumptions C14_count_insert_result_sound.

Example C14_count_insert_nonvacuous :
  closed_g InsertFacts.ex_g /\ chain_ok ex_chain /\ wf_tree InsertFacts.ex_g ex_host /\
  wf_tree InsertFacts.ex_g ex_ins /\ uniq_ids ex_host ex_ins /\ K_ctx 3 = false /\
  exists rs cand c,
    insert_tree InsertFacts.ex_g ex_chain ex_pb 50 3 ex_ins ex_host = Ok rs /\
    nth_error rs 0 = Some cand /\
    finish_candidate ci_reach 50 InsertFacts.ex_g s1 cand = FinTree c /\
    tree_seqb c cand = false /\ count_nodes s1 cand = 2 /\ count_nodes s1 c = 2.
Proof. exact count_insert_nonvacuous. Qed.
Print Assumptions C14_count_insert_nonvacuous.

(* ---- create_fixed_length_tree: pruning (cflt_prune_sound) ---- *)

(* `completes g t t'`: t' is t with every open leaf replaced by a closed derivation tree with the same
   root label.  Completions of a frame's tree are closed derivation trees: *)
Theorem C14_completions_are_trees : forall g t t',
  wfo g t -> completes g t t' -> wf_tree g t' /\ is_openT t' = false.
Proof. exact completes_wf. Qed.
Print Assumptions C14_completions_are_trees.

(* compute_nullable_nonterminals is complete: every nonterminal that is the root of a closed
   derivation tree with empty string is in the set (fixpoint reached within |g| rounds).
   PARTIAL: guard K_empty_terminal g = false. *)
Theorem C14_nullables_complete_partial : forall g,
  K_empty_terminal g = false ->
  forall t, wf_tree g t -> is_openT t = false -> is_nt (lbl t) = true -> yield t = [] ->
  mem (lbl t) (nullables g) = true.
Proof. exact nullables_complete. Qed.
Print Assumptions C14_nullables_complete_partial.

(* lower bound: curr_len (= clen NU t by the frame invariant) never exceeds the string length of a
   completion, for every set NU that contains all nonterminals deriving the empty string *)
Theorem C14_curr_len_lower_bound : forall g NU,
  NU_complete g NU ->
  forall t t', wfo g t -> completes g t t' -> clen NU t <= length (yield t').
Proof. exact clen_lower_bound. Qed.
Print Assumptions C14_curr_len_lower_bound.

(* `discards n fr`: the top frame is popped without being returned or expanded
   (closed with curr_len <> n, or open with curr_len > n) — exactly these two steps of the loop: *)
Theorem C14_discard_step : forall f g NU n fr st o,
  discards n fr = true -> cflt_loop (S f) g NU n (fr :: st) o = cflt_loop f g NU n st o.
Proof. exact cflt_loop_discards. Qed.
Print Assumptions C14_discard_step.

Theorem C14_keep_step : forall f g NU n t cl ls st o,
  discards n (t, cl, ls) = false ->
  cflt_loop (S f) g NU n ((t, cl, ls) :: st) o =
  match ls with
  | [] => Found t
  | _ :: _ => match expand_frame g NU (t, cl, ls) o with
              | Raise e => Err e
              | Ok (fs, o') => cflt_loop f g NU n (fs ++ st) o'
              end
  end.
Proof. exact cflt_loop_keeps. Qed.
Print Assumptions C14_keep_step.

(* cflt_prune_sound: every discarded stack entry has NO completion of length n. *)
Theorem C14_cflt_prune_sound_any_complete_set : forall g NU A0 n t cl ls,
  NU_complete g NU -> Inv g NU A0 (t, cl, ls) -> discards n (t, cl, ls) = true ->
  forall t', completes g t t' -> length (yield t') <> n.
Proof. exact prune_sound_with. Qed.
Print Assumptions C14_cflt_prune_sound_any_complete_set.

Theorem C14_cflt_prune_sound_partial : forall g A0 n t cl ls,
  K_empty_terminal g = false ->
  Inv g (nullables g) A0 (t, cl, ls) -> discards n (t, cl, ls) = true ->
  forall t', completes g t t' -> length (yield t') <> n.
Proof. exact prune_sound. Qed.
Print Assumptions C14_cflt_prune_sound_partial.

(* relative completeness in the one case where it is unconditional: if the start frame itself is
   pruned, the answer is NotFound and there is no derivation tree of that length at all *)
Theorem C14_cflt_prune_initial_partial : forall g A n fuel o,
  K_empty_terminal g = false -> is_nt A = true -> n < nn (nullables g) A ->
  cflt (S (S fuel)) g A n o = NotFound /\
  forall t', wf_tree g t' -> closedb t' = true -> lbl t' = A -> length (yield t') <> n.
Proof. exact prune_initial_sound. Qed.
Print Assumptions C14_cflt_prune_initial_partial.

(* the guard excludes exactly the refuted class: grammar <a> ::= [""] (the SYMBOL "", not the empty
   alternative): <a> is missing from the nullable set, the start frame is pruned for n = 0 and
   NotFound is returned, although <a>("") is a valid closed tree of length 0 *)
Theorem C14_cflt_prune_refuted :
  K_empty_terminal pr_g = true /\
  Inv pr_g (nullables pr_g) ex_A (Node ex_A 0%N true [], 1, [([], ex_A)]) /\
  discards 0 (Node ex_A 0%N true [], 1, [([], ex_A)]) = true /\
  completes pr_g (Node ex_A 0%N true []) pr_t /\ length (yield pr_t) = 0 /\
  (forall fuel o, cflt (S (S fuel)) pr_g ex_A 0 o = NotFound) /\
  meets_length pr_g ex_A 0 pr_t = true.
Proof. exact prune_refuted. Qed.
Print Assumptions C14_cflt_prune_refuted.

Example C14_cflt_prune_nonvacuous :
  K_empty_terminal ex_g = false /\ nullables ex_g = [ex_A] /\
  let fr := (Node ex_A 0%N false [Node ex_B 0%N true []; Node ex_A 0%N true []], 1,
             [([0], ex_B); ([1], ex_A)]) in
  Inv ex_g (nullables ex_g) ex_A fr /\ discards 0 fr = true.
Proof. exact prune_nonvacuous. Qed.
Print Assumptions C14_cflt_prune_nonvacuous.

(* ---- termination ---- *)
(* Full statement that one would like:  "if every nonterminal has a terminal expansion there is a
   computable bound B(g, n) such that cflt fuel g A n o <> OutOfFuel for fuel >= B(g, n)".
   REFUTED: on  <a> ::= <a> | "x"  with n = 2 the model runs out of fuel for EVERY fuel and EVERY
   stream of random choices, i.e. create_fixed_length_tree does not return (the language of <a> is
   {"x"}; NotFound would be the right answer).  Reproduced on /repo (design notes). *)
Theorem C14_cflt_termination_refuted :
  term_exps dv_g ex_A = [[dv_X]] /\ forall fuel o, cflt fuel dv_g ex_A 2 o = OutOfFuel.
Proof. exact (conj dv_has_terminal_expansion cflt_diverges). Qed.
Print Assumptions C14_cflt_termination_refuted.

(* PARTIAL positive statement.  grow_okb g NU: for every alternative e of every nonterminal A,
   nn NU A < sum of child_len over e, or (equal and e has no nonterminal) — every expansion strictly
   increases the lower bound curr_len, or keeps it and closes the leaf.  Then the search terminates:
   with more fuel than  fuel_bound (max #alternatives) ((n + 1 - nn A) * (max #nonterminals per
   alternative) + 1)  the model never runs out of fuel, for every stream of random choices. *)
Theorem C14_cflt_terminates_partial : forall g A n o fuel,
  grow_okb g (nullables g) = true ->
  fuel_bound (max_alts g) ((n + 1 - nn (nullables g) A) * max_width g + 1) < fuel ->
  cflt fuel g A n o <> OutOfFuel.
Proof. exact cflt_terminates. Qed.
Print Assumptions C14_cflt_terminates_partial.

(* the same for any set used as nullable set and any bounds M, W *)
Theorem C14_cflt_with_terminates : forall g NU n M W,
  grow_ok g NU -> (forall A, length (alts g A) <= M) ->
  (forall A e, In e (alts g A) -> count_nt e <= W) -> 1 <= W ->
  forall A o fuel, fuel_bound M ((n + 1 - nn NU A) * W + 1) < fuel ->
  cflt_with fuel g NU A n o <> OutOfFuel.
Proof. exact cflt_with_terminates. Qed.
Print Assumptions C14_cflt_with_terminates.

(* non-vacuity: the running example (nullable, recursive <a>) satisfies the guard; the diverging
   grammar of C14_cflt_termination_refuted does not *)
Example C14_cflt_terminates_nonvacuous :
  grow_okb ex_g (nullables ex_g) = true /\ max_alts ex_g = 2 /\ max_width ex_g = 2 /\
  grow_okb dv_g (nullables dv_g) = false.
Proof. exact (conj (proj1 grow_ok_ex) (conj (proj1 (proj2 grow_ok_ex)) (conj (proj2 (proj2 grow_ok_ex)) eq_refl))). Qed.
Print Assumptions C14_cflt_terminates_nonvacuous.

(* ==================================================================================== *)
(* ---- extract_model_value_int_var: numeric model value -> derivation tree (int_value_sound) ---- *)
(* Model Grammar/IntValue.v:  int_value fxA fxB fuelf g oracle nt z                          *)
(*   = ISLaSolver.extract_model_value_int_var for an int variable of type nt whose Z3 value *)
(*     is z: parse str(z) with ISLaSolver.parse (C10's Earley model on the specialised      *)
(*     grammar); on SyntaxError ask Z3 for  maybe_plus in "+"?, padding in "0"*  such that  *)
(*     (maybe_plus | "-") padding str(|z|) matches the nonterminal's regular expression     *)
(*     (ORACLE: `oracle nt z = None` = not sat -> RuntimeError; `Some (plus, k)`), parse it. *)
(*   supported z w  :=  exists plus k, w = cand z plus k      ([+]0*digits(z) / -0*digits(|z|)) *)
(*   intval w       :=  optional sign, then >= 1 decimal digits, read as an integer          *)
(*   fxA / fxB: pinned or repaired form of the parser's two C10 defect spots (all four).    *)
(* ==================================================================================== *)
From ISLA Require Import IntValue IntValueFacts.

(* int_value_sound — FULL: for every grammar in canonical form whose <start> is on no right-hand
   side, every defined nonterminal nt <> <start>, every integer z, EVERY answer of the Z3 query
   (any oracle, no assumption on the regular expression) and every fuel: a returned tree is a valid
   closed derivation tree of the grammar rooted in nt, and its string denotes z (and is one of the
   supported spellings of z, and a word of L(nt)). *)
Theorem C14_int_value_sound : forall g fxA fxB fuelf oracle nt,
  canonical_form g = true -> NoDup (map fst g) -> occurs_rhs g START = false ->
  defined g nt = true -> nt <> START ->
  forall z t, int_value fxA fxB fuelf g oracle nt z = Ok t ->
  wf_tree g t /\ closedb t = true /\ lbl t = nt /\ intval (yield t) = Some z /\
  supported z (yield t) /\ L g nt (yield t).
Proof. exact int_value_sound. Qed.
Print Assumptions C14_int_value_sound.

(* every string the code may try denotes z; str(z) is one of them *)
Theorem C14_supported_denotes : forall z w, supported z w -> intval w = Some z.
Proof. exact supported_intval. Qed.
Print Assumptions C14_supported_denotes.

Theorem C14_py_str_denotes : forall z, intval (py_str_Z z) = Some z /\ supported z (py_str_Z z).
Proof. exact (fun z => conj (intval_py_str z) (supported_py_str z)). Qed.
Print Assumptions C14_py_str_denotes.

(* the acceptance test applied by the check to every tree the implementation returns decides
   the property *)
Theorem C14_meets_int_decides : forall g nt z t, meets_int g nt z t = true <->
  wf_tree g t /\ closedb t = true /\ lbl t = nt /\ intval (yield t) = Some z.
Proof. exact meets_int_spec. Qed.
Print Assumptions C14_meets_int_decides.

(* "RuntimeError otherwise" — with enough fuel for the parser's chart (C10 fuel bound):
   RuntimeError is raised exactly when str(z) is not in L(nt) and the Z3 query is not sat *)
Theorem C14_int_value_runtime_iff : forall g fxA fxB fuelf oracle nt,
  canonical_form g = true -> NoDup (map fst g) -> occurs_rhs g START = false ->
  defined g nt = true -> nt <> START ->
  (forall w, EarleyFuel.fuel_bound (cgram (SemPredsParser.mk_grammar g nt) START) (length w) <= fuelf w) ->
  forall z, int_value fxA fxB fuelf g oracle nt z = Raise RuntimeErr <->
            (~ L g nt (py_str_Z z) /\ oracle nt z = None).
Proof. exact int_value_runtime_iff. Qed.
Print Assumptions C14_int_value_runtime_iff.

(* all outcomes: a tree | RuntimeError (not sat) | SyntaxError of the second, unguarded parse
   (Z3 answered with a candidate outside the language) | out of fuel in the tree enumeration
   (only for members; the open part of C10) *)
Theorem C14_int_value_outcomes : forall g fxA fxB fuelf oracle nt,
  canonical_form g = true -> NoDup (map fst g) -> occurs_rhs g START = false ->
  defined g nt = true -> nt <> START ->
  (forall w, EarleyFuel.fuel_bound (cgram (SemPredsParser.mk_grammar g nt) START) (length w) <= fuelf w) ->
  forall z,
    (exists t, int_value fxA fxB fuelf g oracle nt z = Ok t)
    \/ (int_value fxA fxB fuelf g oracle nt z = Raise RuntimeErr /\ ~ L g nt (py_str_Z z) /\ oracle nt z = None)
    \/ (int_value fxA fxB fuelf g oracle nt z = Raise SyntaxErr /\ ~ L g nt (py_str_Z z) /\
        exists p k, oracle nt z = Some (p, k) /\ ~ L g nt (cand z p k))
    \/ (int_value fxA fxB fuelf g oracle nt z = Raise OutOfFuel /\ exists w, supported z w /\ L g nt w).
Proof. exact int_value_outcomes. Qed.
Print Assumptions C14_int_value_outcomes.

(* the fuel the check gives the model (hfuel g w = harness_fuel g |w|, from the ORIGINAL grammar)
   satisfies the fuel premise; int_guard is the boolean form of the five hypotheses *)
Theorem C14_int_hfuel_ok : forall g nt, canonical_form g = true -> defined g nt = true -> nt <> START ->
  forall w, EarleyFuel.fuel_bound (cgram (SemPredsParser.mk_grammar g nt) START) (length w) <= hfuel g w.
Proof. exact hfuel_ok. Qed.
Print Assumptions C14_int_hfuel_ok.

Theorem C14_int_guard_spec : forall g nt, int_guard g nt = true ->
  canonical_form g = true /\ NoDup (map fst g) /\ occurs_rhs g START = false /\ defined g nt = true /\ nt <> START.
Proof. exact int_guard_spec. Qed.
Print Assumptions C14_int_guard_spec.

Theorem C14_int_value_runtime_iff_hfuel : forall g fxA fxB oracle nt, int_guard g nt = true ->
  forall z, int_value fxA fxB (hfuel g) g oracle nt z = Raise RuntimeErr <->
            (~ L g nt (py_str_Z z) /\ oracle nt z = None).
Proof. exact int_value_runtime_iff_hf. Qed.
Print Assumptions C14_int_value_runtime_iff_hfuel.

(* premises about the Z3 query (external behaviour, explicit hypotheses):
   oracle_sound    : a sat answer gives a candidate in L(nt)  (L(regex) subseteq L(grammar), Z3 model right)
   oracle_complete : not sat only if NO supported spelling of z is in L(nt)
   Under oracle_sound the unguarded second parse never raises SyntaxError: *)
Theorem C14_int_value_no_syntaxerr : forall g fxA fxB fuelf oracle nt,
  canonical_form g = true -> NoDup (map fst g) -> occurs_rhs g START = false ->
  defined g nt = true -> nt <> START ->
  (forall w, EarleyFuel.fuel_bound (cgram (SemPredsParser.mk_grammar g nt) START) (length w) <= fuelf w) ->
  forall z, oracle_sound g oracle nt -> int_value fxA fxB fuelf g oracle nt z <> Raise SyntaxErr.
Proof. exact int_value_no_syntaxerr. Qed.
Print Assumptions C14_int_value_no_syntaxerr.

(* under oracle_complete a RuntimeError means that no supported spelling of z is in the language *)
Theorem C14_int_value_runtime_complete : forall g fxA fxB fuelf oracle nt,
  canonical_form g = true -> NoDup (map fst g) -> occurs_rhs g START = false ->
  defined g nt = true -> nt <> START ->
  (forall w, EarleyFuel.fuel_bound (cgram (SemPredsParser.mk_grammar g nt) START) (length w) <= fuelf w) ->
  forall z, oracle_complete g oracle nt ->
  int_value fxA fxB fuelf g oracle nt z = Raise RuntimeErr -> forall w, supported z w -> ~ L g nt w.
Proof. exact int_value_runtime_complete. Qed.
Print Assumptions C14_int_value_runtime_complete.

(* PARTIAL (two oracle premises + the out-of-fuel outcome of C10's tree enumeration excluded):
   a tree is returned iff some supported spelling of z is a word of L(nt) *)
Theorem C14_int_value_ok_iff_partial : forall g fxA fxB fuelf oracle nt,
  canonical_form g = true -> NoDup (map fst g) -> occurs_rhs g START = false ->
  defined g nt = true -> nt <> START ->
  (forall w, EarleyFuel.fuel_bound (cgram (SemPredsParser.mk_grammar g nt) START) (length w) <= fuelf w) ->
  forall z, oracle_sound g oracle nt -> oracle_complete g oracle nt ->
  int_value fxA fxB fuelf g oracle nt z <> Raise OutOfFuel ->
  ((exists t, int_value fxA fxB fuelf g oracle nt z = Ok t) <-> exists w, supported z w /\ L g nt w).
Proof. exact int_value_ok_iff_partial. Qed.
Print Assumptions C14_int_value_ok_iff_partial.

(* non-vacuity: the grammar of extract_model_value's docstring (<int> ::= <sign> "00" <lead> <digits>):
   5 -> "+005", -12 -> "-0012" (oracle: plus, two zeros), 0 -> RuntimeError (oracle: not sat), and an
   oracle answering with a candidate outside the language ("05") -> SyntaxError of the second parse *)
Example C14_int_value_nonvacuous :
  int_guard iv_g iv_int = true /\
  (exists t, int_value true true (hfuel iv_g) iv_g iv_oracle iv_int 5 = Ok t /\ yield t = [43;48;48;53]%N) /\
  (exists t, int_value true true (hfuel iv_g) iv_g iv_oracle iv_int (-12) = Ok t /\ yield t = [45;48;48;49;50]%N) /\
  int_value true true (hfuel iv_g) iv_g iv_oracle iv_int 0 = Raise RuntimeErr /\
  int_value true true (hfuel iv_g) iv_g (fun _ _ => Some (false, 1)) iv_int 5 = Raise SyntaxErr.
Proof. exact int_value_ex. Qed.
Print Assumptions C14_int_value_nonvacuous.

(* oracle_complete is a genuine restriction (observed on /repo): for the non-regular
   <z> ::= "0" <z> "0" | "1" and z = 100 the Z3 query is not sat (the regular expression is a bounded
   unwinding), RuntimeError is raised, although "00100" is a supported spelling of 100 in L(<z>);
   with the answer (no plus, two zeros) the same model returns a tree. *)
Example C14_int_value_runtime_not_complete :
  int_guard zz_g zz_nt = true /\
  int_value true true (hfuel zz_g) zz_g (fun _ _ => None) zz_nt 100 = Raise RuntimeErr /\
  supported 100 [48;48;49;48;48]%N /\ L zz_g zz_nt [48;48;49;48;48]%N /\
  ~ oracle_complete zz_g (fun _ _ => None) zz_nt /\
  (exists t, int_value true true (hfuel zz_g) zz_g (fun _ _ => Some (false, 2)) zz_nt 100 = Ok t).
Proof. exact int_value_runtime_not_complete. Qed.
Print Assumptions C14_int_value_runtime_not_complete.
