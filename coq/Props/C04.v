(* C04 — Structural predicates have their documented meaning for every pair of nodes.
   Only statements + `exact`; proofs are in Logic/PredsFacts.v.  Models: Logic/Preds.v. *)
From ISLA Require Import Tree PathFacts TreeFacts Preds PredsFacts.

Theorem C04_before : forall p q, is_before p q = true <-> doc_lt p q.
Proof. exact before_spec. Qed.
Print Assumptions C04_before.

Theorem C04_after : forall p q, is_after p q = true <-> doc_lt q p.
Proof. exact after_spec. Qed.
Print Assumptions C04_after.

Theorem C04_inside : forall p q, in_tree p q = true <-> prefix q p.
Proof. exact inside_spec. Qed.
Print Assumptions C04_inside.

Theorem C04_direct_child : forall p q, is_direct_child p q = true <-> exists i, p = q ++ [i].
Proof. exact child_spec. Qed.
Print Assumptions C04_direct_child.

Theorem C04_same_position : forall p q, is_same_position p q = true <-> p = q.
Proof. exact same_spec. Qed.
Print Assumptions C04_same_position.

Theorem C04_different_position : forall p q, is_different_position p q = true <-> p <> q.
Proof. exact diff_spec. Qed.
Print Assumptions C04_different_position.

(* before / after / inside / contains are exhaustive, and before excludes the others *)
Theorem C04_positions_exhaustive : forall p q,
  in_tree q p = true \/ in_tree p q = true \/ is_before p q = true \/ is_after p q = true.
Proof. exact positions_exhaustive. Qed.
Print Assumptions C04_positions_exhaustive.

Theorem C04_before_exclusive : forall p q,
  is_before p q = true -> in_tree p q = false /\ in_tree q p = false /\ is_after p q = false.
Proof. exact before_excludes_inside. Qed.
Print Assumptions C04_before_exclusive.

Theorem C04_nth : forall t n p1 p2 s1,
  shape_ok t = true -> valid t p2 -> subtree t p1 = Some s1 -> is_nt (lbl s1) = true ->
  (exists b, is_nth t n p1 p2 = Ok b) /\
  (is_nth t n p1 p2 = Ok true <-> nth_spec t n p1 p2).
Proof. exact nth_correct. Qed.
Print Assumptions C04_nth.

(* FULL STATEMENT (false of the code as it is, see C04_consecutive_refuted):
     forall t p1 p2, shape_ok t = true -> valid t p1 -> valid t p2 ->
       (consecutive t p1 p2 = Ok true <-> consecutive_spec t p1 p2)
   PROVED: the statement under the guard K_cons_rel p1 p2 = false (the two paths have no common
   prefix besides the root), and the full statement for the repaired form consecutive_fixed.
   The repair is not committed to /repo because the shipped reST formalization depends on the
   defective behaviour (DESIGN.md section 7). *)
Theorem C04_consecutive_partial : forall t p1 p2,
  K_cons_rel p1 p2 = false ->
  shape_ok t = true -> valid t p1 -> valid t p2 ->
  (exists b, consecutive t p1 p2 = Ok b) /\
  (consecutive t p1 p2 = Ok true <-> consecutive_spec t p1 p2).
Proof. exact consecutive_partial. Qed.
Print Assumptions C04_consecutive_partial.

Theorem C04_consecutive_fixed : forall t p1 p2,
  shape_ok t = true -> valid t p1 -> valid t p2 ->
  (exists b, consecutive_fixed t p1 p2 = Ok b) /\
  (consecutive_fixed t p1 p2 = Ok true <-> consecutive_spec t p1 p2).
Proof. exact consecutive_fixed_correct. Qed.
Print Assumptions C04_consecutive_fixed.

Theorem C04_consecutive_refuted :
  exists t p1 p2, shape_ok t = true /\ valid t p1 /\ valid t p2 /\ K_cons_rel p1 p2 = true /\
                  consecutive t p1 p2 = Ok true /\ ~ consecutive_spec t p1 p2.
Proof. exact consecutive_refuted. Qed.
Print Assumptions C04_consecutive_refuted.

Theorem C04_level : forall t op nt p1 p2,
  shape_ok t = true -> (level_check t op nt p1 p2 = true <-> level_spec t op nt p1 p2).
Proof. exact level_correct. Qed.
Print Assumptions C04_level.
