(* C03 — evaluate() agrees with the ISLa language specification on closed trees.
   Only statements + `exact`; proofs are in Logic/Semantics.v and Logic/EvalFacts.v.
   Specification: Logic/Semantics.v (`models`, transcribed from sphinx/islaspec.rst).
   Model of isla/evaluator.py: Logic/Eval.v (+ the concrete atom family in EvalAtoms.v).

   FULL STATEMENT (property C03): for every grammar, every closed derivation tree t and every
   constraint phi of the supported fragment,
       evaluate(phi, t) = TRUE  <->  t |= phi      evaluate(phi, t) = FALSE  <->  not t |= phi
   never UNKNOWN when Z3 decides the instantiated atoms, never an exception; same for
   ISLaSolver.check.  The faithful model REFUTES the full statement in five classes
   (C03_eval_wide_refuted, C03_mexpr_eps_shape_refuted, C03_eval_consecutive_refuted,
   C03_evaluate_rebound_refuted, C03_strategy2_numq_forall_refuted / _exists_refuted; a further one, vacuous universal quantifiers
   dropped by instantiation, was repaired in /repo by 0230f8f: C03_evaluate_vacuous_agrees); what is proved for ALL inputs is
   C03_eval_correct_partial: the statement for the evaluation proper (evaluate_legacy on the
   instantiated formula) under the guards
     narrow ref         (no child index >= 28: excludes K_wide),
     fresh_name         (no quantifier re-uses a name in scope: excludes K_rebound_name),
     names2             (the binary structural predicates covered are before, after, inside,
                        same_position, different_position, direct_child; a formula that uses
                        `consecutive` is EXCLUDED: /repo's consecutive() is defective on node pairs
                        with a non-root common prefix — C04 finding consecutive-relative-paths,
                        class K_cons_rel, fix withdrawn — and below <start> almost every pair has
                        one, so the guard is stated on the formula, not on the path pairs;
                        C03_eval_consecutive_refuted is the witness),
     m = None           (no match expressions) and no numeric quantifiers,
   for abstract SMT atoms under the explicit premise that every instantiated atom is decided
   as its meaning says, and C03_eval_correct_atoms with NO premise on atoms for the concrete
   family (string (in)equality, str.len comparisons, true/false).

   PROOF EXTENSION (second half of this file; Logic/MatchFacts.v, EvalMexprFacts.v,
   EvalMexprCheck.v): the guard `m = None` is GONE.  C03_eval_correct_mexpr (abstract atoms),
   _open_scope, _atoms prove the same statement for formulas whose quantifiers may carry match
   expressions (guard wfm, which contains wf: C03_wf_wfm), under these hypotheses per match
   expression me of a quantifier over v:
     mexpr_tree_ok v dom tp   for every prefix tree tp = (m, P) of me:  mtree_okb m P (every path
                        of P ends in a leaf of m, every leaf of m is bound by exactly one variable
                        of the leaf's type, terminal leaves by dummy variables, inner nodes not
                        open), has_closed_nt_leaf m = false (the guard that keeps the known class
                        K_mexpr_eps_shape excluded: C03_mexpr_eps_shape_rejected), variable names
                        pairwise distinct, different from v's and from every name in scope;
     mexpr_unambiguous ref me  all prefix trees of me matching a node of ref bind the same
                        positions (e.g. at most one matches; decidable: C03_mexpr_unambiguousb_sound;
                        cannot be dropped for the model: C03_eval_mexpr_ambiguous_refuted);
   and on the tree: term_leavesb ref (a node labelled with a terminal has no children).
   Proved on the way, for ALL prefix trees / subjects / paths: C03_py_match_spec (language.match
   never raises, = the specification's match, complete), C03_smatch_perm, C03_smatch_shift.
   Under these hypotheses the first-match rule of BindExpression.match and the leaf-coverage
   filter of matches_for_quantified_formula are invisible.  All hypotheses are decidable
   (mexpr_guard, C03_mexpr_guard_sound); the harness evaluates the guard on every generated
   match-expression case (138 of 168 inside, quick tier).
   SECOND PROOF EXTENSION (last part of this file; Logic/EvalInstFacts.v, EvalInstCheck.v): the
   theorems are now about the property's observable, evaluate(phi, t) and ISLaSolver.check(t) on
   the PARSED / API-built (uninstantiated) formula, against  t |= phi  (sat: [cst |-> t] |= phi):
     C03_inst_const_spec          instantiate_top_level_constant preserves the guard (the scope loses
                                  the constant) and the meaning, all formulas of the fragment;
     C03_evaluate_correct_partial / C03_solver_check_correct_partial   (abstract atoms; premises on
                                  SMTFormula.substitute_expressions listed there)
     C03_evaluate_correct_atoms / C03_solver_check_correct_atoms        (NO premise on atoms):
         evaluate = TRUE <-> t |= phi, = FALSE <-> not, never UNKNOWN, never an exception;
         check = True <-> t |= phi, = False <-> not, never raises (no UnknownResultError);
       guards = those of C03_eval_correct_mexpr on the uninstantiated formula with the constant in
       scope (wfm ... [cst] f), the constant is a Constant of the root's type, every match expression
       has at least one prefix tree (me_nonempty); all decidable: evaluate_guard,
       C03_evaluate_guard_sound; the harness evaluates the guard on the generated first-strategy
       cases (quick tier: about 78 % inside);
     C03_dispatch (FULL, every formula, no guard)   evaluate = instantiate iff the constant is free;
       numeric quantifier anywhere -> the result is the second strategy's (oracle strategy2), else
       evaluate_legacy on the instantiated formula; C03_wfm_no_numq: inside the guard it is legacy;
     C03_evaluate_rebound_refuted   the guard fresh_name can NOT be removed (class K_rebound_name has
       an evaluator side for API-built formulas, reproduced on /repo, recorded as finding
       rebound-name-evaluator): with wfm_nofresh (= wfm minus fresh_name, C03_wfm_wfm_nofresh) in
       place of wfm the statement fails.
   THIRD PROOF EXTENSION (end of this file; Logic/Eval2.v model, Eval2Dec.v, Eval2Facts.v,
   Eval2Check.v): the SECOND EVALUATION STRATEGY (numeric quantifiers) is modelled and proved:
     C03_strategy2_query (no premise on Z3)   for a closed tree and an instantiated formula of the
       fragment wf2 the elimination + predicate evaluation never raises and yields a PURE query
       (string constants, atoms, not/and/or, quantifiers over all strings) that is VALID exactly
       when the formula holds in the specification (numeric quantifiers over numerals);
       C03_strategy2_elim_correct is the open-scope form (induction on the formula);
     C03_strategy2_sound_partial (premise z3_sound: Z3's TRUE/FALSE on pure queries is right)
       TRUE -> t |= phi, FALSE -> not;   C03_strategy2_correct_partial (+ z3_decides: Z3 answers)
       TRUE <-> t |= phi, FALSE <-> not, never UNKNOWN, never an exception;
     guards wf2: well-scoped, fresh names, NO match expression, count's NUM a digit string or a
       numeric variable in scope, atoms of the family extended with str.to.int(n) REL k, and on every
       numeric quantifier `pins` (C03_pins_sound: the body of `exists int n` can only be true, that
       of `forall int n` only false, when n is a canonical numeral);  `narrow` is NOT needed (this
       strategy traverses the tree, not the datrie);
     C03_strategy2_numq_forall_refuted / _exists_refuted   without `pins` the statement FAILS for
       every sound oracle (new class K_numq_sort, reproduced on /repo, finding
       numeric-quantifier-string-sort): the bound variable of a numeric quantifier is a Z3 String
       variable and the query ranges over ALL strings:  forall int n: str.to.int(n) >= 0  is FALSE,
       exists int n: n = "abc"  is TRUE;
     C03_strategy2_dispatch   evaluate() with this strategy plugged in (every formula).
   Still missing for the full statement: match expressions and the instantiation step in front of
   the second strategy (the strategy-2 theorems are about the instantiated formula), numeric
   quantifiers that are insensitive to the sort for another reason than `pins` (e.g. the variable
   does not occur), BindExpression.to_tree_prefix (prefix trees are inputs), the `&`/`|` smart
   constructors (not modelled, see Eval.v / Eval2.v), and the five refuted classes (K_wide,
   K_mexpr_eps_shape, K_cons_rel, K_rebound_name, K_numq_sort) stay excluded. *)
From Coq Require Import ZArith.
From ISLA Require Import Semantics Eval EvalAtoms EvalFacts MatchFacts EvalMexprFacts EvalMexprCheck EvalInstFacts EvalInstCheck.

(* the executable specification-side oracle decides the specification semantics *)
Theorem C03_satb_spec : forall (A : Type) (adenote : A -> (var -> option tree) -> Prop) (c : tree)
    (adec : A -> (var -> option tree) -> bool),
  (forall a e, adec a e = true <-> adenote a e) ->
  forall bound f, shape_ok c = true -> no_numq f = true ->
  forall b, satb c adec bound b f = true <-> models adenote c b f.
Proof. exact satb_spec. Qed.
Print Assumptions C03_satb_spec.

(* evaluate_legacy = specification, abstract atoms *)
Theorem C03_eval_correct_partial :
  forall (A : Type) (afree : A -> list var) (aopen : A -> bool) (aeval : A -> asg -> res TV)
         (qmm : var -> path -> option mexpr -> asg -> path -> bool) (reach : str -> str -> bool)
         (count_open : tree -> str -> Z -> res TV)
         (adenote : A -> (var -> option tree) -> Prop) (ref : tree),
  shape_ok ref = true -> is_openT ref = false -> uniq_ids ref -> narrow ref ->
  (forall x a b, inv ref a b -> (forall v, In v (afree x) -> In v (keys a)) -> aopen x = false ->
     (aeval x a = Ok TT /\ adenote x (tenv ref b)) \/ (aeval x a = Ok FF /\ ~ adenote x (tenv ref b))) ->
  forall f, wf A afree aopen ref [] f ->
    (eval_legacy A afree aopen aeval qmm reach count_open ref f [] = Ok TT <-> models adenote ref env_empty f) /\
    (eval_legacy A afree aopen aeval qmm reach count_open ref f [] = Ok FF <-> ~ models adenote ref env_empty f) /\
    eval_legacy A afree aopen aeval qmm reach count_open ref f [] <> Ok UU /\
    (forall e, eval_legacy A afree aopen aeval qmm reach count_open ref f [] <> Raise e).
Proof. exact eval_correct_top. Qed.
Print Assumptions C03_eval_correct_partial.

(* the same under an arbitrary assignment (the induction-loaded statement) *)
Theorem C03_eval_correct_open_scope :
  forall (A : Type) (afree : A -> list var) (aopen : A -> bool) (aeval : A -> asg -> res TV)
         (qmm : var -> path -> option mexpr -> asg -> path -> bool) (reach : str -> str -> bool)
         (count_open : tree -> str -> Z -> res TV)
         (adenote : A -> (var -> option tree) -> Prop) (ref : tree),
  shape_ok ref = true -> is_openT ref = false -> uniq_ids ref -> narrow ref ->
  (forall x a b, inv ref a b -> (forall v, In v (afree x) -> In v (keys a)) -> aopen x = false ->
     (aeval x a = Ok TT /\ adenote x (tenv ref b)) \/ (aeval x a = Ok FF /\ ~ adenote x (tenv ref b))) ->
  forall f a b, inv ref a b -> wf A afree aopen ref (keys a) f ->
    (eval_legacy A afree aopen aeval qmm reach count_open ref f a = Ok TT /\ models adenote ref b f) \/
    (eval_legacy A afree aopen aeval qmm reach count_open ref f a = Ok FF /\ ~ models adenote ref b f).
Proof. exact eval_correct. Qed.
Print Assumptions C03_eval_correct_open_scope.

(* concrete atoms: the premise on atoms is discharged *)
Theorem C03_atom_sound : forall ref x a b,
  inv ref a b -> (forall v, In v (atom_free x) -> In v (keys a)) ->
  (atom_eval x a = Ok TT /\ atom_denote x (tenv ref b)) \/
  (atom_eval x a = Ok FF /\ ~ atom_denote x (tenv ref b)).
Proof. exact atom_sound. Qed.
Print Assumptions C03_atom_sound.

Theorem C03_eval_correct_atoms : forall ref f,
  shape_ok ref = true -> is_openT ref = false -> uniq_ids ref -> narrow ref ->
  wf atom atom_free (fun _ => false) ref [] f ->
  (m_legacy ref f = Ok TT <-> models atom_denote ref env_empty f) /\
  (m_legacy ref f = Ok FF <-> ~ models atom_denote ref env_empty f) /\
  m_legacy ref f <> Ok UU /\ (forall e, m_legacy ref f <> Raise e).
Proof. exact eval_correct_atoms. Qed.
Print Assumptions C03_eval_correct_atoms.

(* non-vacuity: a real parse tree of "x := 1 ; y := x" and an instantiated formula with two
   quantifiers, inside/before/count and a string equation satisfy every hypothesis *)
Example C03_hypotheses_satisfiable :
  shape_ok E1_tree = true /\ is_openT E1_tree = false /\ uniq_ids E1_tree /\ narrow E1_tree /\
  wf atom atom_free (fun _ => false) E1_tree [] E1_formula /\ m_legacy E1_tree E1_formula = Ok TT.
Proof. exact eval_correct_example. Qed.
Print Assumptions C03_hypotheses_satisfiable.

(* refuted: wide nodes (known finding K_wide) — every hypothesis but `narrow` holds *)
Theorem C03_eval_wide_refuted :
  shape_ok W1_tree = true /\ is_openT W1_tree = false /\ uniq_ids W1_tree /\
  wf atom atom_free (fun _ => false) W1_tree [] W1_formula /\ wide_tree W1_tree = true /\
  m_legacy W1_tree W1_formula = Ok TT /\ ~ models atom_denote W1_tree env_empty W1_formula.
Proof. exact eval_wide_refuted. Qed.
Print Assumptions C03_eval_wide_refuted.

(* former finding K_vacuous_forall (fixed: /repo 0230f8f): on its witness the repaired evaluate()
   and check() agree with the specification (vacuously true) *)
Theorem C03_evaluate_vacuous_agrees :
  shape_ok W2_tree = true /\ is_openT W2_tree = false /\ uniq_ids W2_tree /\ narrow W2_tree /\
  m_evaluate W2_tree W_cst W2_formula = Ok TT /\ m_check W2_tree W_cst W2_formula = Ok true /\
  sat atom_denote W2_tree W_cst W2_formula.
Proof. exact evaluate_vacuous_agrees. Qed.
Print Assumptions C03_evaluate_vacuous_agrees.

(* refuted (match expressions): the verdict depends on how an epsilon expansion is represented
   (known finding K_mexpr_eps_shape); same string, same derivation, TT on the parser's tree, FF on
   the fuzzer-shaped tree; the specification holds on both *)
Theorem C03_mexpr_eps_shape_refuted :
  yield W3_tree = yield W3p_tree /\
  K_mexpr_eps_shape W3_formula = true /\
  m_legacy W3p_tree W3p_formula = Ok TT /\ models atom_denote W3p_tree env_empty W3p_formula /\
  m_legacy W3_tree W3_formula = Ok FF /\ models atom_denote W3_tree env_empty W3_formula.
Proof. exact mexpr_eps_shape_refuted. Qed.
Print Assumptions C03_mexpr_eps_shape_refuted.

(* non-vacuity of C03_satb_spec: the concrete atom decider meets its premise, and the oracle is
   non-constant on a real tree (E1 holds, the wide witness does not) *)
Example C03_satb_hypotheses_satisfiable :
  (forall a e, atom_dec a e = true <-> atom_denote a e) /\
  shape_ok E1_tree = true /\ no_numq E1_formula = true /\
  satb E1_tree atom_dec 0 env_empty E1_formula = true /\
  satb W1_tree atom_dec 0 env_empty W1_formula = false.
Proof. split; [exact atom_dec_spec|]. repeat split; vm_compute; reflexivity. Qed.
Print Assumptions C03_satb_hypotheses_satisfiable.

(* refuted: a formula using `consecutive` on siblings x, y, z below a non-root node (C04 finding
   consecutive-relative-paths, class K_cons_rel, open): evaluator TT, specification false *)
Theorem C03_eval_consecutive_refuted :
  shape_ok W4_tree = true /\ is_openT W4_tree = false /\ uniq_ids W4_tree /\ narrow W4_tree /\
  K_cons_rel [1;0] [1;2] = true /\
  m_legacy W4_tree W4_formula = Ok TT /\ ~ models atom_denote W4_tree env_empty W4_formula.
Proof. exact eval_consecutive_refuted. Qed.
Print Assumptions C03_eval_consecutive_refuted.

(* ====================================================================================== *)
(* Proof extension: quantifiers WITH match expressions                                     *)
(* ====================================================================================== *)

(* Step 1 — language.match (py_match) against the specification's match (smatch).  For a prefix
   tree m with variable paths P that is well-formed (mtree_okb: every path ends in a leaf of m,
   every leaf of m is bound by exactly one variable of the leaf's type, terminal leaves by dummy
   variables, inner nodes are not open), has no closed nonterminal leaf (guard excluding
   K_mexpr_eps_shape) and pairwise distinct variables, and for a regular subject t (closed;
   terminal-labelled nodes have no children): match never raises (none of its asserts fires),
   returns None exactly when the specification's match is bottom, and otherwise returns the
   specification's assignment (positions), each position holding the recorded subtree of the
   variable's type, and covering every leaf of t (is_complete_match / the coverage filter). *)
Theorem C03_py_match_spec : forall m t P here,
  has_closed_nt_leaf m = false -> mtree_okb m P = true -> NoDup (map fst P) -> regb t = true ->
  match smatch m t P here with
  | None => py_match m t P here = Ok None
  | Some bs => exists r, py_match m t P here = Ok (Some r) /\ strip r = bs /\
                 Forall (entry_ok t here) r /\ complete_match t here r = true
  end.
Proof. exact py_match_spec. Qed.
Print Assumptions C03_py_match_spec.

(* the specification's match on a well-formed prefix tree binds exactly the variables of P, at
   the positions of P moved to the subject (up to order); and it commutes with moving the subject *)
Theorem C03_smatch_perm : forall m t P here bs,
  mtree_okb m P = true -> smatch m t P here = Some bs -> Permutation.Permutation bs (shift here P).
Proof. exact smatch_perm. Qed.
Print Assumptions C03_smatch_perm.

Theorem C03_smatch_shift : forall m t P h here,
  smatch m t P (h ++ here) = option_map (shift h) (smatch m t P here).
Proof. exact smatch_shift. Qed.
Print Assumptions C03_smatch_shift.

(* non-vacuity of C03_py_match_spec: the real prefix tree of "{<var> lhs} := {<var> rhs}" on the
   node "y := x" of the parse tree of "x := 1 ; y := x": three bindings *)
Example C03_py_match_example :
  exists t r, subtree M1_tree [0; 2; 0] = Some t /\
    has_closed_nt_leaf (fst M1_tp) = false /\ mtree_okb (fst M1_tp) (snd M1_tp) = true /\
    NoDup (map fst (snd M1_tp)) /\ regb t = true /\
    py_match (fst M1_tp) t (snd M1_tp) [] = Ok (Some r) /\
    smatch (fst M1_tp) t (snd M1_tp) [] = Some (strip r) /\ length r = 3.
Proof. exact py_match_example. Qed.
Print Assumptions C03_py_match_example.

(* Steps 2-4 — evaluate_legacy = specification, match expressions included (abstract atoms).
   Guard wfm = wf with `m = None` replaced by: for a quantifier with match expression me,
     mexpr_unambiguous ref me   (all prefix trees of me that match a node of ref bind the same
                                 positions — in particular: at most one matches),
     mexpr_tree_ok v dom tp     for every prefix tree tp of me (mtree_okb, no closed nonterminal
                                 leaf, names of its variables pairwise distinct, different from the
                                 quantified variable's name and from every name in scope),
   and on the tree additionally term_leavesb (terminal-labelled nodes have no children). *)
Theorem C03_eval_correct_mexpr :
  forall (A : Type) (afree : A -> list var) (aopen : A -> bool) (aeval : A -> asg -> res TV)
         (qmm : var -> path -> option mexpr -> asg -> path -> bool) (reach : str -> str -> bool)
         (count_open : tree -> str -> Z -> res TV)
         (adenote : A -> (var -> option tree) -> Prop) (ref : tree),
  shape_ok ref = true -> is_openT ref = false -> uniq_ids ref -> narrow ref -> term_leavesb ref = true ->
  (forall x a b, inv ref a b -> (forall v, In v (afree x) -> In v (keys a)) -> aopen x = false ->
     (aeval x a = Ok TT /\ adenote x (tenv ref b)) \/ (aeval x a = Ok FF /\ ~ adenote x (tenv ref b))) ->
  forall f, wfm A afree aopen ref [] f ->
    (eval_legacy A afree aopen aeval qmm reach count_open ref f [] = Ok TT <-> models adenote ref env_empty f) /\
    (eval_legacy A afree aopen aeval qmm reach count_open ref f [] = Ok FF <-> ~ models adenote ref env_empty f) /\
    eval_legacy A afree aopen aeval qmm reach count_open ref f [] <> Ok UU /\
    (forall e, eval_legacy A afree aopen aeval qmm reach count_open ref f [] <> Raise e).
Proof. exact eval_correct_mexpr_top. Qed.
Print Assumptions C03_eval_correct_mexpr.

(* the same under an arbitrary assignment (the induction-loaded statement) *)
Theorem C03_eval_correct_mexpr_open_scope :
  forall (A : Type) (afree : A -> list var) (aopen : A -> bool) (aeval : A -> asg -> res TV)
         (qmm : var -> path -> option mexpr -> asg -> path -> bool) (reach : str -> str -> bool)
         (count_open : tree -> str -> Z -> res TV)
         (adenote : A -> (var -> option tree) -> Prop) (ref : tree),
  shape_ok ref = true -> is_openT ref = false -> uniq_ids ref -> narrow ref -> term_leavesb ref = true ->
  (forall x a b, inv ref a b -> (forall v, In v (afree x) -> In v (keys a)) -> aopen x = false ->
     (aeval x a = Ok TT /\ adenote x (tenv ref b)) \/ (aeval x a = Ok FF /\ ~ adenote x (tenv ref b))) ->
  forall f a b, inv ref a b -> wfm A afree aopen ref (keys a) f ->
    (eval_legacy A afree aopen aeval qmm reach count_open ref f a = Ok TT /\ models adenote ref b f) \/
    (eval_legacy A afree aopen aeval qmm reach count_open ref f a = Ok FF /\ ~ models adenote ref b f).
Proof. exact eval_correct_mexpr. Qed.
Print Assumptions C03_eval_correct_mexpr_open_scope.

(* the new guard contains the old one: C03_eval_correct_mexpr subsumes C03_eval_correct_partial *)
Theorem C03_wf_wfm : forall (A : Type) (afree : A -> list var) (aopen : A -> bool) (ref : tree) f dom,
  wf A afree aopen ref dom f -> wfm A afree aopen ref dom f.
Proof. exact wf_wfm. Qed.
Print Assumptions C03_wf_wfm.

(* concrete atoms: no premise on atoms *)
Theorem C03_eval_correct_mexpr_atoms : forall ref f,
  shape_ok ref = true -> is_openT ref = false -> uniq_ids ref -> narrow ref -> term_leavesb ref = true ->
  wfm atom atom_free (fun _ => false) ref [] f ->
  (m_legacy ref f = Ok TT <-> models atom_denote ref env_empty f) /\
  (m_legacy ref f = Ok FF <-> ~ models atom_denote ref env_empty f) /\
  m_legacy ref f <> Ok UU /\ (forall e, m_legacy ref f <> Raise e).
Proof. exact eval_correct_mexpr_atoms. Qed.
Print Assumptions C03_eval_correct_mexpr_atoms.

(* all hypotheses are decidable: the boolean guard the harness evaluates is sound *)
Theorem C03_mexpr_guard_sound : forall ref f, mexpr_guard ref f = true ->
  shape_ok ref = true /\ is_openT ref = false /\ uniq_ids ref /\ narrow ref /\ term_leavesb ref = true /\
  wfm atom atom_free (fun _ => false) ref [] f.
Proof. exact mexpr_guard_hyps. Qed.
Print Assumptions C03_mexpr_guard_sound.

Theorem C03_mexpr_unambiguousb_sound : forall ref me,
  mexpr_unambiguousb ref me = true -> mexpr_unambiguous ref me.
Proof. exact mexpr_unambiguousb_spec. Qed.
Print Assumptions C03_mexpr_unambiguousb_sound.

(* non-vacuity: real match expressions of the assignment language (prefix trees computed by
   BindExpression.to_tree_prefix).  M1/M2: "every variable on a right-hand side is assigned before"
     forall <assgn> a="{<var> lhs} := {<var> rhs}" in start:
       exists <assgn> d="{<var> l2} := <rhs>" in start: (before(d, a) and (= l2 rhs))
   on "x := 1 ; y := x" (TT) and "x := 1 ; y := z" (FF);  M3 has an optional, i.e. TWO prefix trees:
     forall <stmt> s="{<assgn> a}[ ; <stmt>]" in start: exists <var> v in a: (= v "x")   (TT) *)
Example C03_mexpr_hypotheses_satisfiable :
  (shape_ok M1_tree = true /\ is_openT M1_tree = false /\ uniq_ids M1_tree /\ narrow M1_tree /\
   term_leavesb M1_tree = true /\ wfm atom atom_free (fun _ => false) M1_tree [] M1_formula) /\
  m_legacy M1_tree M1_formula = Ok TT /\
  mexpr_guard M2_tree M2_formula = true /\ m_legacy M2_tree M2_formula = Ok FF /\
  mexpr_guard M3_tree M3_formula = true /\ m_legacy M3_tree M3_formula = Ok TT.
Proof. exact eval_correct_mexpr_example. Qed.
Print Assumptions C03_mexpr_hypotheses_satisfiable.

(* the known class K_mexpr_eps_shape stays excluded: its witnesses fail the guard *)
Example C03_mexpr_eps_shape_rejected :
  K_mexpr_eps_shape W3_formula = true /\ K_mexpr_eps_shape W3p_formula = true /\
  mexpr_guard W3_tree W3_formula = false /\ mexpr_guard W3p_tree W3p_formula = false /\
  wfmb W3_tree [] W3_formula = false /\ wfmb W3p_tree [] W3p_formula = false.
Proof. exact mexpr_eps_shape_rejected. Qed.
Print Assumptions C03_mexpr_eps_shape_rejected.

(* refuted WITHOUT mexpr_unambiguous (model level; the prefix trees are inputs of the model): two
   well-formed prefix trees for <assgn> that both match "y := x" and bind l differently.  The
   evaluator takes the first match (FF), the specification ranges over both (true); every other
   hypothesis of C03_eval_correct_mexpr_atoms holds.  Hand-made set — no match expression was found
   for which BindExpression.to_tree_prefix returns such a set, hence not recorded as a finding. *)
Theorem C03_eval_mexpr_ambiguous_refuted :
  shape_ok W2_tree = true /\ is_openT W2_tree = false /\ uniq_ids W2_tree /\ narrow W2_tree /\
  term_leavesb W2_tree = true /\
  mexpr_tree_ok A_a [] A_T1 /\ mexpr_tree_ok A_a [] A_T2 /\
  wfm atom atom_free (fun _ => false) W2_tree (A_a :: map fst (snd A_T1)) (FSmt (AStr false (SVar A_l) (SLit [120]%N))) /\
  wfm atom atom_free (fun _ => false) W2_tree (A_a :: map fst (snd A_T2)) (FSmt (AStr false (SVar A_l) (SLit [120]%N))) /\
  ~ mexpr_unambiguous W2_tree A_me /\
  m_legacy W2_tree A_formula = Ok FF /\ models atom_denote W2_tree env_empty A_formula.
Proof. exact eval_mexpr_ambiguous_refuted. Qed.
Print Assumptions C03_eval_mexpr_ambiguous_refuted.

(* ====================================================================================== *)
(* Second proof extension: evaluate() / ISLaSolver.check() on the UNINSTANTIATED formula    *)
(* (Logic/EvalInstFacts.v, EvalInstCheck.v)                                                 *)
(* ====================================================================================== *)

(* (1a) instantiate_top_level_constant preserves guard and meaning.  Scope D = dom + the constant;
   b (cst |-> root) is the assignment of the parsed formula, b' that of the instantiated one
   (crel: b cst = root position, b and b' agree elsewhere).  Premises on abstract atoms: what
   SMTFormula.substitute_expressions({cst: ref}) does to free variables, openness and meaning
   (all PROVED for the concrete family: C03_atom_inst_sound). *)
Theorem C03_inst_const_spec :
  forall (A : Type) (afree : A -> list var) (aopen : A -> bool) (ainst : var -> tree -> A -> res A)
         (adenote : A -> (var -> option tree) -> Prop) (ref : tree) (cst : var),
  uniq_ids ref -> lbl ref = vtype cst ->
  (forall x y, ainst cst ref x = Ok y -> forall v, In v (afree y) -> In v (afree x) /\ v <> cst) ->
  (forall x y, ainst cst ref x = Ok y -> aopen x = false -> aopen y = false) ->
  (forall x y b b', ainst cst ref x = Ok y -> crel cst b b' ->
     (adenote x (tenv ref b) <-> adenote y (tenv ref b'))) ->
  forall f D dom f', scope cst D dom -> inst_const A ainst ref cst f = Ok f' -> wfm A afree aopen ref D f ->
    wfm A afree aopen ref dom f' /\
    forall b b', crel cst b b' -> (models adenote ref b f <-> models adenote ref b' f').
Proof. exact inst_spec. Qed.
Print Assumptions C03_inst_const_spec.

(* (1b) evaluate() on the parsed formula = the specification's  t |= phi  (sat: [cst |-> t] |= phi).
   Guards: those of C03_eval_correct_mexpr, stated on the UNINSTANTIATED formula with the constant
   in scope (wfm ... [cst] f: in particular no binder re-uses the constant's name), plus
     lbl ref = vtype cst, vk cst = VConst   (the constant is a Constant of the root's type),
     me_nonempty f                           (every match expression has >= 1 prefix tree; below an
                                              empty one wfm says nothing about the body, but evaluate
                                              still dispatches on numeric quantifiers in it). *)
Theorem C03_evaluate_correct_partial :
  forall (A : Type) (afree : A -> list var) (aopen : A -> bool) (aeval : A -> asg -> res TV)
         (ainst : var -> tree -> A -> res A)
         (qmm : var -> path -> option mexpr -> asg -> path -> bool) (reach : str -> str -> bool)
         (count_open : tree -> str -> Z -> res TV) (strategy2 : tree -> formula A -> res TV)
         (adenote : A -> (var -> option tree) -> Prop) (ref : tree) (cst : var),
  uniq_ids ref -> lbl ref = vtype cst -> vk cst = VConst ->
  (forall x, exists y, ainst cst ref x = Ok y) ->
  (forall x y, ainst cst ref x = Ok y -> forall v, In v (afree y) -> In v (afree x) /\ v <> cst) ->
  (forall x y, ainst cst ref x = Ok y -> aopen x = false -> aopen y = false) ->
  (forall x y b b', ainst cst ref x = Ok y -> crel cst b b' ->
     (adenote x (tenv ref b) <-> adenote y (tenv ref b'))) ->
  (forall x, ~ In cst (afree x) -> ainst cst ref x = Ok x) ->
  shape_ok ref = true -> is_openT ref = false -> narrow ref -> term_leavesb ref = true ->
  (forall x a b, inv ref a b -> (forall v, In v (afree x) -> In v (keys a)) -> aopen x = false ->
     (aeval x a = Ok TT /\ adenote x (tenv ref b)) \/ (aeval x a = Ok FF /\ ~ adenote x (tenv ref b))) ->
  forall f, wfm A afree aopen ref [cst] f -> me_nonempty f = true ->
    (evaluate A afree aopen aeval ainst qmm reach count_open strategy2 ref cst f = Ok TT <-> sat adenote ref cst f) /\
    (evaluate A afree aopen aeval ainst qmm reach count_open strategy2 ref cst f = Ok FF <-> ~ sat adenote ref cst f) /\
    evaluate A afree aopen aeval ainst qmm reach count_open strategy2 ref cst f <> Ok UU /\
    (forall e, evaluate A afree aopen aeval ainst qmm reach count_open strategy2 ref cst f <> Raise e).
Proof. exact evaluate_correct. Qed.
Print Assumptions C03_evaluate_correct_partial.

(* (2) ISLaSolver.check(tree): True iff t |= phi, False iff not, never raises (UNKNOWN ->
   UnknownResultError is impossible on closed trees in the fragment) *)
Theorem C03_solver_check_correct_partial :
  forall (A : Type) (afree : A -> list var) (aopen : A -> bool) (aeval : A -> asg -> res TV)
         (ainst : var -> tree -> A -> res A)
         (qmm : var -> path -> option mexpr -> asg -> path -> bool) (reach : str -> str -> bool)
         (count_open : tree -> str -> Z -> res TV) (strategy2 : tree -> formula A -> res TV)
         (adenote : A -> (var -> option tree) -> Prop) (ref : tree) (cst : var),
  uniq_ids ref -> lbl ref = vtype cst -> vk cst = VConst ->
  (forall x, exists y, ainst cst ref x = Ok y) ->
  (forall x y, ainst cst ref x = Ok y -> forall v, In v (afree y) -> In v (afree x) /\ v <> cst) ->
  (forall x y, ainst cst ref x = Ok y -> aopen x = false -> aopen y = false) ->
  (forall x y b b', ainst cst ref x = Ok y -> crel cst b b' ->
     (adenote x (tenv ref b) <-> adenote y (tenv ref b'))) ->
  (forall x, ~ In cst (afree x) -> ainst cst ref x = Ok x) ->
  shape_ok ref = true -> is_openT ref = false -> narrow ref -> term_leavesb ref = true ->
  (forall x a b, inv ref a b -> (forall v, In v (afree x) -> In v (keys a)) -> aopen x = false ->
     (aeval x a = Ok TT /\ adenote x (tenv ref b)) \/ (aeval x a = Ok FF /\ ~ adenote x (tenv ref b))) ->
  forall f, wfm A afree aopen ref [cst] f -> me_nonempty f = true ->
    (solver_check A afree aopen aeval ainst qmm reach count_open strategy2 ref cst f = Ok true <-> sat adenote ref cst f) /\
    (solver_check A afree aopen aeval ainst qmm reach count_open strategy2 ref cst f = Ok false <-> ~ sat adenote ref cst f) /\
    (forall e, solver_check A afree aopen aeval ainst qmm reach count_open strategy2 ref cst f <> Raise e).
Proof. exact solver_check_correct. Qed.
Print Assumptions C03_solver_check_correct_partial.

(* the concrete atom family meets every premise made of substitute_expressions (closed tree) *)
Theorem C03_atom_inst_sound : forall ref cst, is_openT ref = false ->
  (forall x, exists y, atom_inst cst ref x = Ok y) /\
  (forall x y, atom_inst cst ref x = Ok y -> forall v, In v (atom_free y) -> In v (atom_free x) /\ v <> cst) /\
  (forall x y b b', atom_inst cst ref x = Ok y -> crel cst b b' ->
     (atom_denote x (tenv ref b) <-> atom_denote y (tenv ref b'))) /\
  (forall x, ~ In cst (atom_free x) -> atom_inst cst ref x = Ok x).
Proof.
  exact (fun ref cst H => conj (atom_inst_ok ref cst H) (conj (atom_inst_free ref cst H)
          (conj (fun x y b b' => atom_inst_den ref cst H x y b b') (atom_inst_id ref cst H)))).
Qed.
Print Assumptions C03_atom_inst_sound.

(* (1c),(2) concrete atoms: NO premise on atoms or on their instantiation *)
Theorem C03_evaluate_correct_atoms : forall ref cst f,
  shape_ok ref = true -> is_openT ref = false -> uniq_ids ref -> narrow ref -> term_leavesb ref = true ->
  lbl ref = vtype cst -> vk cst = VConst ->
  wfm atom atom_free (fun _ => false) ref [cst] f -> me_nonempty f = true ->
  (m_evaluate ref cst f = Ok TT <-> sat atom_denote ref cst f) /\
  (m_evaluate ref cst f = Ok FF <-> ~ sat atom_denote ref cst f) /\
  m_evaluate ref cst f <> Ok UU /\ (forall e, m_evaluate ref cst f <> Raise e).
Proof. exact evaluate_correct_atoms. Qed.
Print Assumptions C03_evaluate_correct_atoms.

Theorem C03_solver_check_correct_atoms : forall ref cst f,
  shape_ok ref = true -> is_openT ref = false -> uniq_ids ref -> narrow ref -> term_leavesb ref = true ->
  lbl ref = vtype cst -> vk cst = VConst ->
  wfm atom atom_free (fun _ => false) ref [cst] f -> me_nonempty f = true ->
  (m_check ref cst f = Ok true <-> sat atom_denote ref cst f) /\
  (m_check ref cst f = Ok false <-> ~ sat atom_denote ref cst f) /\
  (forall e, m_check ref cst f <> Raise e).
Proof. exact solver_check_correct_atoms. Qed.
Print Assumptions C03_solver_check_correct_atoms.

(* all hypotheses as one boolean (evaluated by the harness on every generated first-strategy case) *)
Theorem C03_evaluate_guard_sound : forall ref cst f, evaluate_guard ref cst f = true ->
  shape_ok ref = true /\ is_openT ref = false /\ uniq_ids ref /\ narrow ref /\ term_leavesb ref = true /\
  lbl ref = vtype cst /\ vk cst = VConst /\
  wfm atom atom_free (fun _ => false) ref [cst] f /\ me_nonempty f = true.
Proof. exact evaluate_guard_hyps. Qed.
Print Assumptions C03_evaluate_guard_sound.

(* (3) the dispatch of evaluate(), for EVERY formula (no guard): instantiate iff the constant occurs
   free; then a numeric quantifier anywhere in the formula -> the second strategy
   (eliminate_quantifiers + one Z3 validity query: the Section variable strategy2, an oracle that is
   not modelled), otherwise evaluate_legacy with the empty dictionary.  Under the guard wfm (which
   has no case for numeric quantifiers) the legacy branch is taken: C03_wfm_no_numq. *)
Theorem C03_dispatch :
  forall (A : Type) (afree : A -> list var) (aopen : A -> bool) (aeval : A -> asg -> res TV)
         (ainst : var -> tree -> A -> res A)
         (qmm : var -> path -> option mexpr -> asg -> path -> bool) (reach : str -> str -> bool)
         (count_open : tree -> str -> Z -> res TV) (strategy2 : tree -> formula A -> res TV)
         (ref : tree) (cst : var) (f : formula A),
  evaluate A afree aopen aeval ainst qmm reach count_open strategy2 ref cst f =
  match pre_inst A afree ainst ref cst f with
  | Ok f' => if has_numq A f then strategy2 ref f'
             else eval_legacy A afree aopen aeval qmm reach count_open ref f' []
  | Raise e => Raise e
  end.
Proof. exact evaluate_dispatch. Qed.
Print Assumptions C03_dispatch.

Theorem C03_wfm_no_numq :
  forall (A : Type) (afree : A -> list var) (aopen : A -> bool) (ref : tree) (f : formula A) D,
  wfm A afree aopen ref D f -> me_nonempty f = true -> has_numq A f = false.
Proof. exact wfm_no_numq. Qed.
Print Assumptions C03_wfm_no_numq.

(* non-vacuity: an API-built and a parsed (match expressions) UNINSTANTIATED formula on the parse
   tree of "x := 1 ; y := x" / "x := 1 ; y := z" satisfy all hypotheses; verdicts FF, TT, FF *)
Example C03_evaluate_hypotheses_satisfiable :
  evaluate_guard E1_tree W_cst E2_formula = true /\ m_evaluate E1_tree W_cst E2_formula = Ok FF /\
  m_check E1_tree W_cst E2_formula = Ok false /\
  evaluate_guard M1_tree W_cst U1_formula = true /\ m_evaluate M1_tree W_cst U1_formula = Ok TT /\
  m_check M1_tree W_cst U1_formula = Ok true /\
  evaluate_guard M2_tree W_cst U1_formula = true /\ m_evaluate M2_tree W_cst U1_formula = Ok FF.
Proof. exact evaluate_correct_example. Qed.
Print Assumptions C03_evaluate_hypotheses_satisfiable.

(* (4) REFUTED without fresh_name (the guard cannot be removed; evaluator side of K_rebound_name,
   API-built formulas; reproduced on /repo):
   FULL statement that fails: C03_evaluate_correct_atoms with wfm_nofresh in place of wfm.
   R  = forall <assgn> a in start: exists <var> a in a: (= a "x") on "x := 1": two different
        variables with one name (well_formed() accepts): atoms look variables up by NAME, the outer
        `a` wins: evaluate FALSE, check False, specification TRUE (renamed inner variable: TRUE).
   R2 = forall <expr> e in start: exists <expr> e in e: (= e "a") on "((a))": the same variable bound
        twice (well_formed() rejects, evaluate() does not call it): `new | assignments` keeps the OLD
        binding: evaluate FALSE, specification TRUE. *)
Theorem C03_evaluate_rebound_refuted :
  (evaluate_guard R_tree W_cst R_formula_renamed = true /\ m_evaluate R_tree W_cst R_formula_renamed = Ok TT /\
   K_rebound_name [W_cst] R_formula_renamed = false /\ K_rebound_name [W_cst] R_formula = true /\
   K_rebound_name [W_cst] R2_formula = true) /\
  (shape_ok R_tree = true /\ is_openT R_tree = false /\ uniq_ids R_tree /\ narrow R_tree /\
   term_leavesb R_tree = true /\ lbl R_tree = vtype W_cst /\ vk W_cst = VConst /\
   wfm_nofresh R_tree [W_cst] R_formula /\ me_nonempty R_formula = true /\
   ~ wfm atom atom_free (fun _ => false) R_tree [W_cst] R_formula /\
   m_evaluate R_tree W_cst R_formula = Ok FF /\ m_check R_tree W_cst R_formula = Ok false /\
   sat atom_denote R_tree W_cst R_formula) /\
  (shape_ok R2_tree = true /\ is_openT R2_tree = false /\ uniq_ids R2_tree /\ narrow R2_tree /\
   term_leavesb R2_tree = true /\ lbl R2_tree = vtype W_cst /\ vk W_cst = VConst /\
   wfm_nofresh R2_tree [W_cst] R2_formula /\ me_nonempty R2_formula = true /\
   m_evaluate R2_tree W_cst R2_formula = Ok FF /\ m_check R2_tree W_cst R2_formula = Ok false /\
   sat atom_denote R2_tree W_cst R2_formula).
Proof. exact evaluate_rebound_refuted. Qed.
Print Assumptions C03_evaluate_rebound_refuted.

(* wfm_nofresh is wfm minus fresh_name *)
Theorem C03_wfm_wfm_nofresh : forall ref f dom,
  wfm atom atom_free (fun _ => false) ref dom f -> wfm_nofresh ref dom f.
Proof. exact wfm_wfm_nofresh. Qed.
Print Assumptions C03_wfm_wfm_nofresh.

(* ====================================================================================== *)
(* THIRD PROOF EXTENSION: the SECOND EVALUATION STRATEGY (numeric quantifiers).            *)
(* Model: Logic/Eval2.v (eliminate_quantifiers, evaluate_predicates_action, the pure query; *)
(* atoms extended with str.to.int(n) REL k).  Proofs: Logic/Eval2Dec.v, Eval2Facts.v,       *)
(* witnesses: Eval2Check.v.  The only external fact is Z3's answer on the PURE query       *)
(* (string constants, not/and/or, quantifiers over ALL strings), premises                  *)
(*    z3_sound   z3 p = TT -> pvalid p,  z3 p = FF -> ~ pvalid p        (pureb p)           *)
(*    z3_decides z3 p = TT \/ z3 p = FF                                 (pureb p).          *)
(* FULL statement that FAILS: strategy 2 = TRUE iff models (numeric quantifiers over        *)
(* numerals).  The bound variable of `forall int` / `exists int` is a Z3 STRING variable    *)
(* and the final query quantifies it over all strings: C03_strategy2_numq_forall_refuted,   *)
(* C03_strategy2_numq_exists_refuted (class K_numq_sort, reproduced on /repo).  PARTIAL:    *)
(* under the guard `pins` on every numeric quantifier (the body of `exists int n` can only  *)
(* be true, that of `forall int n` only false, when n is a canonical numeral -- e.g. it     *)
(* contains count(t, N, n) / not count(t, N, n) in the right place) the statement holds.    *)
(* ====================================================================================== *)
From ISLA Require Import Eval2 Eval2Dec Eval2Facts Eval2Check.

(* canonical numerals: parse_dec inverts dec (used for "is a numeral" being decidable) *)
Theorem C03_parse_dec_dec : forall n, parse_dec (dec n) = Some n.
Proof. exact parse_dec_dec. Qed.
Print Assumptions C03_parse_dec_dec.

(* the guard on numeric quantifiers does what it says, for EVERY formula and substitution: if the
   value of v is not a canonical numeral, a body with pins true is false and one with pins false is
   true (in the pure formula produced by the elimination) *)
Theorem C03_pins_sound : forall ref v f sg p e, dict_mem sg v = false -> elim ref f sg = Ok p ->
  (forall n, e v <> dec n) ->
  (pins true v f = true -> ~ pholds e p) /\ (pins false v f = true -> pholds e p).
Proof. exact pins_sound. Qed.
Print Assumptions C03_pins_sound.

(* open scope: eliminate_quantifiers + evaluate_predicates_action under a substitution sigma
   (= strip a) that represents the specification's assignment; numeric variables in scope are
   string constants of the pure formula holding the numeral *)
Theorem C03_strategy2_elim_correct : forall ref,
  shape_ok ref = true -> is_openT ref = false -> uniq_ids ref ->
  forall f a b e nums, inv2 ref a b -> nrel nums e b -> wf2 ref (keys a) nums f ->
  exists p, elim ref f (strip a) = Ok p /\ pureb p = true /\
            (pholds e p <-> models atom2_denote ref b f).
Proof. exact elim_correct. Qed.
Print Assumptions C03_strategy2_elim_correct.

(* the query sent to Z3: pure, and VALID iff the formula holds in the specification; no exception,
   no untranslatable rest (no P_i), for every formula of the fragment; NO premise on Z3 *)
Theorem C03_strategy2_query : forall z3 ref,
  shape_ok ref = true -> is_openT ref = false -> uniq_ids ref ->
  forall f, wf2 ref [] [] f ->
  exists p, elim ref f [] = Ok p /\ pureb p = true /\
            (pvalid p <-> models atom2_denote ref env_empty f) /\
            strategy2_m z3 ref f = z3 p.
Proof. exact strategy2_query. Qed.
Print Assumptions C03_strategy2_query.

Theorem C03_strategy2_sound_partial : forall z3 ref,
  shape_ok ref = true -> is_openT ref = false -> uniq_ids ref ->
  forall f, z3_sound z3 -> wf2 ref [] [] f ->
  (strategy2_m z3 ref f = Ok TT -> models atom2_denote ref env_empty f) /\
  (strategy2_m z3 ref f = Ok FF -> ~ models atom2_denote ref env_empty f).
Proof. exact strategy2_sound. Qed.
Print Assumptions C03_strategy2_sound_partial.

Theorem C03_strategy2_correct_partial : forall z3 ref,
  shape_ok ref = true -> is_openT ref = false -> uniq_ids ref ->
  forall f, z3_sound z3 -> z3_decides z3 -> wf2 ref [] [] f ->
  (strategy2_m z3 ref f = Ok TT <-> models atom2_denote ref env_empty f) /\
  (strategy2_m z3 ref f = Ok FF <-> ~ models atom2_denote ref env_empty f) /\
  strategy2_m z3 ref f <> Ok UU /\ (forall ex, strategy2_m z3 ref f <> Raise ex).
Proof. exact strategy2_correct. Qed.
Print Assumptions C03_strategy2_correct_partial.

(* evaluate() with the second strategy modelled: the dispatch, every formula *)
Theorem C03_strategy2_dispatch : forall z3 T cst f,
  m2_evaluate z3 T cst f =
    match (if existsb (var_eqb cst) (fvars atom2 atom2_free f)
           then inst_const atom2 atom2_inst T cst f else Ok f) with
    | Raise ex => Raise ex
    | Ok f' => if has_numq atom2 f' then strategy2_m z3 T f'
               else eval_legacy atom2 atom2_free (fun _ => false) atom2_eval no_qmm no_reach no_count_open T f' []
    end.
Proof. exact m2_evaluate_dispatch. Qed.
Print Assumptions C03_strategy2_dispatch.

(* REFUTED without the guard `pins` (class K_numq_sort), for EVERY sound oracle:
   forall int n: str.to.int(n) >= 0   holds in the specification, strategy 2 cannot answer TRUE
   (on /repo: FALSE);   exists int n: n = "abc"   does not hold, strategy 2 cannot answer FALSE
   (on /repo: TRUE). *)
Theorem C03_strategy2_numq_forall_refuted :
  wf2_nopins X_tree [] [] R1_formula /\ K_numq_sort R1_formula = true /\
  models atom2_denote X_tree env_empty R1_formula /\
  forall z3, z3_sound z3 -> strategy2_m z3 X_tree R1_formula <> Ok TT.
Proof. exact strategy2_numq_forall_refuted. Qed.
Print Assumptions C03_strategy2_numq_forall_refuted.

Theorem C03_strategy2_numq_exists_refuted :
  wf2_nopins X_tree [] [] Eval2Check.R2_formula /\ K_numq_sort Eval2Check.R2_formula = true /\
  ~ models atom2_denote X_tree env_empty Eval2Check.R2_formula /\
  forall z3, z3_sound z3 -> strategy2_m z3 X_tree Eval2Check.R2_formula <> Ok FF.
Proof. exact strategy2_numq_exists_refuted. Qed.
Print Assumptions C03_strategy2_numq_exists_refuted.

(* non-vacuity: exists int n: (count(start, "<d>", n) and exists <d> x in start: x = n) and
   forall int n: (not count(start, "<d>", n) or str.to.int(n) >= 2) on a tree with two <d> *)
Example C03_strategy2_hypotheses_satisfiable :
  shape_ok X_tree = true /\ is_openT X_tree = false /\ uniq_ids X_tree /\
  wf2 X_tree [] [] E_formula /\ wf2 X_tree [] [] Eval2Check.E2_formula /\
  K_numq_sort E_formula = false /\ K_numq_sort Eval2Check.E2_formula = false /\
  strategy2_m z3_by_cands X_tree E_formula = Ok TT /\
  strategy2_m z3_by_cands X_tree Eval2Check.E2_formula = Ok TT.
Proof. exact strategy2_hypotheses_satisfiable. Qed.
Print Assumptions C03_strategy2_hypotheses_satisfiable.
