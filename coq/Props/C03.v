(* C03 — evaluate() agrees with the ISLa language specification on closed trees.
   Only statements + `exact`; proofs are in Logic/Semantics.v and Logic/EvalFacts.v.
   Specification: Logic/Semantics.v (`models`, transcribed from sphinx/islaspec.rst).
   Model of isla/evaluator.py: Logic/Eval.v (+ the concrete atom family in EvalAtoms.v).

   FULL STATEMENT (property C03): for every grammar, every closed derivation tree t and every
   constraint phi of the supported fragment,
       evaluate(phi, t) = TRUE  <->  t |= phi      evaluate(phi, t) = FALSE  <->  not t |= phi
   never UNKNOWN when Z3 decides the instantiated atoms, never an exception; same for
   ISLaSolver.check.  The faithful model REFUTES the full statement in two classes
   (C03_eval_wide_refuted, C03_mexpr_eps_shape_refuted; a third, vacuous universal quantifiers
   dropped by instantiation, was repaired in /repo by 0230f8f: C03_evaluate_vacuous_agrees); what is proved for ALL inputs is
   C03_eval_correct_partial: the statement for the evaluation proper (evaluate_legacy on the
   instantiated formula) under the guards
     narrow ref         (no child index >= 28: excludes K_wide),
     fresh_name         (no quantifier re-uses a name in scope: excludes K_rebound_name),
     names2             (the binary structural predicates covered are before, after, inside,
                        same_position, different_position, direct_child; a formula that uses
                        `consecutive` is EXCLUDED: /repo's consecutive() is defective on node pairs
                        with a non-root common prefix — C04 finding consecutive-relative-paths,
                        class K_cons_rel, fix withdrawn — and below <start> almost every pair has
                        one, so the guard is stated on the formula, not on the path pairs;
                        C03_eval_consecutive_refuted is the witness),
     m = None           (no match expressions) and no numeric quantifiers,
   for abstract SMT atoms under the explicit premise that every instantiated atom is decided
   as its meaning says, and C03_eval_correct_atoms with NO premise on atoms for the concrete
   family (string (in)equality, str.len comparisons, true/false).
   Missing for the full statement: match expressions (the model has them, the theorem does not),
   the instantiation step inst_const (modelled, tied by the correspondence; no lemma yet that it
   preserves `models`), the second strategy for numeric quantifiers (Z3 oracle). *)
From ISLA Require Import Semantics Eval EvalAtoms EvalFacts.
From Coq Require Import ZArith.

(* the executable specification-side oracle decides the specification semantics *)
Theorem C03_satb_spec : forall (A : Type) (adenote : A -> (var -> option tree) -> Prop) (c : tree)
    (adec : A -> (var -> option tree) -> bool),
  (forall a e, adec a e = true <-> adenote a e) ->
  forall bound f, shape_ok c = true -> no_numq f = true ->
  forall b, satb c adec bound b f = true <-> models adenote c b f.
Proof. exact satb_spec. Qed.
Print Assumptions C03_satb_spec.

(* evaluate_legacy = specification, abstract atoms *)
Theorem C03_eval_correct_partial :
  forall (A : Type) (afree : A -> list var) (aopen : A -> bool) (aeval : A -> asg -> res TV)
         (qmm : var -> path -> option mexpr -> asg -> path -> bool) (reach : str -> str -> bool)
         (count_open : tree -> str -> Z -> res TV)
         (adenote : A -> (var -> option tree) -> Prop) (ref : tree),
  shape_ok ref = true -> is_openT ref = false -> uniq_ids ref -> narrow ref ->
  (forall x a b, inv ref a b -> (forall v, In v (afree x) -> In v (keys a)) -> aopen x = false ->
     (aeval x a = Ok TT /\ adenote x (tenv ref b)) \/ (aeval x a = Ok FF /\ ~ adenote x (tenv ref b))) ->
  forall f, wf A afree aopen ref [] f ->
    (eval_legacy A afree aopen aeval qmm reach count_open ref f [] = Ok TT <-> models adenote ref env_empty f) /\
    (eval_legacy A afree aopen aeval qmm reach count_open ref f [] = Ok FF <-> ~ models adenote ref env_empty f) /\
    eval_legacy A afree aopen aeval qmm reach count_open ref f [] <> Ok UU /\
    (forall e, eval_legacy A afree aopen aeval qmm reach count_open ref f [] <> Raise e).
Proof. exact eval_correct_top. Qed.
Print Assumptions C03_eval_correct_partial.

(* the same under an arbitrary assignment (the induction-loaded statement) *)
Theorem C03_eval_correct_open_scope :
  forall (A : Type) (afree : A -> list var) (aopen : A -> bool) (aeval : A -> asg -> res TV)
         (qmm : var -> path -> option mexpr -> asg -> path -> bool) (reach : str -> str -> bool)
         (count_open : tree -> str -> Z -> res TV)
         (adenote : A -> (var -> option tree) -> Prop) (ref : tree),
  shape_ok ref = true -> is_openT ref = false -> uniq_ids ref -> narrow ref ->
  (forall x a b, inv ref a b -> (forall v, In v (afree x) -> In v (keys a)) -> aopen x = false ->
     (aeval x a = Ok TT /\ adenote x (tenv ref b)) \/ (aeval x a = Ok FF /\ ~ adenote x (tenv ref b))) ->
  forall f a b, inv ref a b -> wf A afree aopen ref (keys a) f ->
    (eval_legacy A afree aopen aeval qmm reach count_open ref f a = Ok TT /\ models adenote ref b f) \/
    (eval_legacy A afree aopen aeval qmm reach count_open ref f a = Ok FF /\ ~ models adenote ref b f).
Proof. exact eval_correct. Qed.
Print Assumptions C03_eval_correct_open_scope.

(* concrete atoms: the premise on atoms is discharged *)
Theorem C03_atom_sound : forall ref x a b,
  inv ref a b -> (forall v, In v (atom_free x) -> In v (keys a)) ->
  (atom_eval x a = Ok TT /\ atom_denote x (tenv ref b)) \/
  (atom_eval x a = Ok FF /\ ~ atom_denote x (tenv ref b)).
Proof. exact atom_sound. Qed.
Print Assumptions C03_atom_sound.

Theorem C03_eval_correct_atoms : forall ref f,
  shape_ok ref = true -> is_openT ref = false -> uniq_ids ref -> narrow ref ->
  wf atom atom_free (fun _ => false) ref [] f ->
  (m_legacy ref f = Ok TT <-> models atom_denote ref env_empty f) /\
  (m_legacy ref f = Ok FF <-> ~ models atom_denote ref env_empty f) /\
  m_legacy ref f <> Ok UU /\ (forall e, m_legacy ref f <> Raise e).
Proof. exact eval_correct_atoms. Qed.
Print Assumptions C03_eval_correct_atoms.

(* non-vacuity: a real parse tree of "x := 1 ; y := x" and an instantiated formula with two
   quantifiers, inside/before/count and a string equation satisfy every hypothesis *)
Example C03_hypotheses_satisfiable :
  shape_ok E1_tree = true /\ is_openT E1_tree = false /\ uniq_ids E1_tree /\ narrow E1_tree /\
  wf atom atom_free (fun _ => false) E1_tree [] E1_formula /\ m_legacy E1_tree E1_formula = Ok TT.
Proof. exact eval_correct_example. Qed.
Print Assumptions C03_hypotheses_satisfiable.

(* refuted: wide nodes (known finding K_wide) — every hypothesis but `narrow` holds *)
Theorem C03_eval_wide_refuted :
  shape_ok W1_tree = true /\ is_openT W1_tree = false /\ uniq_ids W1_tree /\
  wf atom atom_free (fun _ => false) W1_tree [] W1_formula /\ wide_tree W1_tree = true /\
  m_legacy W1_tree W1_formula = Ok TT /\ ~ models atom_denote W1_tree env_empty W1_formula.
Proof. exact eval_wide_refuted. Qed.
Print Assumptions C03_eval_wide_refuted.

(* former finding K_vacuous_forall (fixed: /repo 0230f8f): on its witness the repaired evaluate()
   and check() agree with the specification (vacuously true) *)
Theorem C03_evaluate_vacuous_agrees :
  shape_ok W2_tree = true /\ is_openT W2_tree = false /\ uniq_ids W2_tree /\ narrow W2_tree /\
  m_evaluate W2_tree W_cst W2_formula = Ok TT /\ m_check W2_tree W_cst W2_formula = Ok true /\
  sat atom_denote W2_tree W_cst W2_formula.
Proof. exact evaluate_vacuous_agrees. Qed.
Print Assumptions C03_evaluate_vacuous_agrees.

(* refuted (match expressions): the verdict depends on how an epsilon expansion is represented
   (known finding K_mexpr_eps_shape); same string, same derivation, TT on the parser's tree, FF on
   the fuzzer-shaped tree; the specification holds on both *)
Theorem C03_mexpr_eps_shape_refuted :
  yield W3_tree = yield W3p_tree /\
  K_mexpr_eps_shape W3_formula = true /\
  m_legacy W3p_tree W3p_formula = Ok TT /\ models atom_denote W3p_tree env_empty W3p_formula /\
  m_legacy W3_tree W3_formula = Ok FF /\ models atom_denote W3_tree env_empty W3_formula.
Proof. exact mexpr_eps_shape_refuted. Qed.
Print Assumptions C03_mexpr_eps_shape_refuted.

(* non-vacuity of C03_satb_spec: the concrete atom decider meets its premise, and the oracle is
   non-constant on a real tree (E1 holds, the wide witness does not) *)
Example C03_satb_hypotheses_satisfiable :
  (forall a e, atom_dec a e = true <-> atom_denote a e) /\
  shape_ok E1_tree = true /\ no_numq E1_formula = true /\
  satb E1_tree atom_dec 0 env_empty E1_formula = true /\
  satb W1_tree atom_dec 0 env_empty W1_formula = false.
Proof. split; [exact atom_dec_spec|]. repeat split; vm_compute; reflexivity. Qed.
Print Assumptions C03_satb_hypotheses_satisfiable.

(* refuted: a formula using `consecutive` on siblings x, y, z below a non-root node (C04 finding
   consecutive-relative-paths, class K_cons_rel, open): evaluator TT, specification false *)
Theorem C03_eval_consecutive_refuted :
  shape_ok W4_tree = true /\ is_openT W4_tree = false /\ uniq_ids W4_tree /\ narrow W4_tree /\
  K_cons_rel [1;0] [1;2] = true /\
  m_legacy W4_tree W4_formula = Ok TT /\ ~ models atom_denote W4_tree env_empty W4_formula.
Proof. exact eval_consecutive_refuted. Qed.
Print Assumptions C03_eval_consecutive_refuted.
