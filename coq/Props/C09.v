(* C09 — Formula negation and normal-form rewrites preserve meaning.
   Only statements + `exact`; model: Logic/Rewrite.v, spec (`ev`, `atoms_sound`) and proofs:
   Logic/RewriteFacts.v.

   Reading guide.  `O : ops A` packages the abstract SMT-atom operations (z3 equality, true/false,
   is_true/is_false, z3_push_in_negations, z3 substitution); `S : sem A E` is an ARBITRARY
   interpretation (states E, denotation of atoms, of predicate formulas, finite quantifier
   domains); `ev S e f` is the truth value of f in state e.  `atoms_sound O S` is the only
   premise about the outside world.  Neg/And/Or/Nnf/Dnf/Invariant/Replace/Unique are the model
   functions of Formula.__neg__/__and__/__or__, convert_to_nnf, convert_to_dnf,
   ISLaSolver.establish_invariant, replace_formula, ensure_unique_bound_variables.
   The model mirrors /repo after the fix: commits 71bb9ab (convert_to_dnf iterates over whole
   product combinations; formerly ValueError on conjunctions with != 2 arguments). *)
From Coq Require Import List Bool.
From ISLA Require Import Rewrite RewriteFacts.
Import ListNotations.

(* ---- negation inverts the verdict ---- *)
Theorem C09_neg : forall A E (O : ops A) (S : sem A E), atoms_sound O S ->
  forall (f : formula A) e, ev S e (Neg O f) = negb (ev S e f).
Proof. exact neg_sound. Qed.
Print Assumptions C09_neg.

(* ---- the simplifying combinators & and | ---- *)
Theorem C09_and : forall A E (O : ops A) (S : sem A E), atoms_sound O S ->
  forall (a b : formula A) e, ev S e (And O a b) = ev S e a && ev S e b.
Proof. exact and_sound. Qed.
Print Assumptions C09_and.

Theorem C09_or : forall A E (O : ops A) (S : sem A E), atoms_sound O S ->
  forall (a b : formula A) e, ev S e (Or O a b) = ev S e a || ev S e b.
Proof. exact or_sound. Qed.
Print Assumptions C09_or.

(* Python `f == g` (equality modulo re-nesting of n-ary connectives) implies equal verdicts;
   this is what makes the `self == other` shortcuts of & and | sound *)
Theorem C09_eq : forall A E (O : ops A) (S : sem A E), atoms_sound O S ->
  forall (f g : formula A), Feq O f g = true -> forall e, ev S e f = ev S e g.
Proof. exact feqb_sound. Qed.
Print Assumptions C09_eq.

Theorem C09_split_conjunction : forall A E (S : sem A E) (f : formula A) e, forallb (fun x => ev S e x) (split_conj A f) = ev S e f.
Proof. exact split_conj_sound. Qed.
Print Assumptions C09_split_conjunction.

Theorem C09_split_disjunction : forall A E (S : sem A E) (f : formula A) e, existsb (fun x => ev S e x) (split_disj A f) = ev S e f.
Proof. exact split_disj_sound. Qed.
Print Assumptions C09_split_disjunction.

(* ---- negation normal form: convert_to_nnf(f, negate) ---- *)
Theorem C09_nnf : forall A E (O : ops A) (S : sem A E), atoms_sound O S ->
  forall (f : formula A) neg e, ev S e (Nnf O f neg) = xorb neg (ev S e f).
Proof. exact nnf_sound. Qed.
Print Assumptions C09_nnf.

(* shape: the output satisfies the precondition of convert_to_dnf (no negation on a connective)
   everywhere EXCEPT inside the quantifier bodies nnf does not traverse (bodies of un-negated
   quantifiers) - those must be safe already (`bodies_safe`) *)
Theorem C09_nnf_shape : forall A (O : ops A) (f : formula A) neg,
  bodies_safe neg f = true -> dsafe (Nnf O f neg) = true.
Proof. exact nnf_dsafe. Qed.
Print Assumptions C09_nnf_shape.

(* ---- disjunctive normal form ---- *)
(* whenever convert_to_dnf returns, the verdict is unchanged (deep or not) *)
Theorem C09_dnf : forall A E (O : ops A) (S : sem A E), atoms_sound O S ->
  forall (f : formula A) deep g, Dnf O deep f = Ok g -> forall e, ev S e g = ev S e f.
Proof. exact dnf_sound. Qed.
Print Assumptions C09_dnf.

(* FULL STATEMENT (holds since /repo commit 71bb9ab; was refuted on the pinned snapshot by
   ConjunctiveFormula(a, b | c, d) -> ValueError): convert_to_dnf does not raise on any formula,
   of any arity, that is in negation normal form at the positions it visits *)
Theorem C09_dnf_total : forall A (O : ops A) deep (f : formula A),
  K_dnf_not_nnf f = false -> exists g, Dnf O deep f = Ok g.
Proof. exact dnf_total. Qed.
Print Assumptions C09_dnf_total.

(* corpus (non-vacuity of C09_dnf_total on the formerly refuted class): the old witnesses convert *)
Example C09_dnf_nary_corpus :
  arity_ok catom w_nary = true /\ K_dnf_not_nnf w_nary = false /\
  (exists g, Dnf cops true w_nary = Ok g /\ dsafe g = true) /\
  (exists g, Dnf cops false w_nary = Ok g) /\
  (exists l, Invariant cops w_inv_nary = Ok l /\ length l = 2).
Proof. exact dnf_nary_corpus. Qed.
Print Assumptions C09_dnf_nary_corpus.

(* the only exception convert_to_dnf can raise is the AssertionError of its documented
   precondition, and only on input that violates it *)
Theorem C09_dnf_raises : forall A (O : ops A) deep (f : formula A) e,
  Dnf O deep f = Raise e -> e = AssertErr /\ K_dnf_not_nnf f = true.
Proof. exact dnf_raises. Qed.
Print Assumptions C09_dnf_raises.

(* ---- the solver's use: establish_invariant = split_disjunction(dnf(nnf(f), deep=False)) ---- *)
(* it cannot raise when the quantifier bodies that nnf leaves untouched are safe ... *)
Theorem C09_invariant_ok : forall A (O : ops A) (f : formula A),
  bodies_safe false f = true -> exists l, Invariant O f = Ok l.
Proof. exact invariant_ok. Qed.
Print Assumptions C09_invariant_ok.

Example C09_invariant_ok_nonvacuous :
  bodies_safe false (FAnd [FNot (FForall v_x (InVar v_start) None w_nary); FOr [at_c; at_d]]) = true.
Proof. exact bodies_safe_example. Qed.
Print Assumptions C09_invariant_ok_nonvacuous.

(* ... in particular on every formula without tree quantifiers (any arity, any nesting, any negations) *)
Theorem C09_invariant_ok_quantifier_free : forall A (O : ops A) (f : formula A),
  no_tree_quant f = true -> exists l, Invariant O f = Ok l.
Proof. exact invariant_ok_no_tree_quant. Qed.
Print Assumptions C09_invariant_ok_quantifier_free.

(* FULL STATEMENT (false): establish_invariant never raises.  Refutation (open finding
   dnf-body-not-nnf): an untouched quantifier body NegatedFormula(a & b) -> AssertionError,
   because the recursive calls of convert_to_dnf use deep=True on conjuncts even when
   deep=False was asked, and convert_to_nnf does not traverse un-negated quantifier bodies.
   PARTIAL = C09_invariant_ok (guard bodies_safe). *)
Theorem C09_invariant_refuted_not_nnf : exists f : cform,
  arity_ok catom f = true /\ Invariant cops f = Raise AssertErr.
Proof. exact invariant_refuted_not_nnf. Qed.
Print Assumptions C09_invariant_refuted_not_nnf.

(* ---- replace_formula ---- *)
Theorem C09_replace : forall A E (O : ops A) (S : sem A E), atoms_sound O S ->
  forall (tr rw : formula A), (forall e, ev S e tr = ev S e rw) ->
  forall f e, ev S e (Replace O f tr rw) = ev S e f.
Proof. exact replace_sound. Qed.
Print Assumptions C09_replace.

(* ---- bound-variable renaming ---- *)
(* FULL STATEMENT (not proved, and false on shadowing input):
     forall fuel f used g u, Unique O fuel f used = Some (g, u) -> forall e, ev S e g = ev S e f
   for every interpretation S (in particular name-sensitive ones).
   PARTIAL: proved for every interpretation that looks at variables only through their types
   (`name_insensitive`): substitute_variables / ensure_unique_bound_variables do nothing but
   rename variables (type preserving) and re-assemble connectives with & and |.  Missing: the
   capture-avoidance argument over the threading of `used_names` for formulas without shadowing. *)
Theorem C09_unique_partial : forall A E (O : ops A) (S : sem A E),
  atoms_sound O S -> name_insensitive O S ->
  forall fuel (f : formula A) used g u, Unique O fuel f used = Some (g, u) ->
  forall e, ev S e g = ev S e f.
Proof. exact unique_sound_partial. Qed.
Print Assumptions C09_unique_partial.

Example C09_unique_partial_nonvacuous :
  atoms_sound cops_t tsem /\ name_insensitive cops_t tsem /\
  exists g u, Unique cops_t 20 (FAnd [FForall v_x (InVar v_start) None x_is_a;
                                      FForall v_x (InVar v_start) None x_is_a]) [] = Some (g, u) /\
              g <> FAnd [FForall v_x (InVar v_start) None x_is_a; FForall v_x (InVar v_start) None x_is_a].
Proof. exact unique_partial_nonvacuous. Qed.
Print Assumptions C09_unique_partial_nonvacuous.

Theorem C09_subst_partial : forall A E (O : ops A) (S : sem A E),
  atoms_sound O S -> name_insensitive O S ->
  forall rho, type_preserving rho -> forall (f : formula A) e, ev S e (Subst O rho f) = ev S e f.
Proof. exact subst_sound. Qed.
Print Assumptions C09_subst_partial.

(* refutation of the full statement: `forall x in start: forall x in x: x == "a"` - the inner
   quantifier's in-variable is renamed together with its binder (-> `forall x_0 in x_0`), which
   changes the verdict under a sound name-sensitive interpretation *)
Theorem C09_unique_shadow_refuted : atoms_sound cops csem /\
  exists (f g : cform) u e, Unique cops 20 f [] = Some (g, u) /\ ev csem e g <> ev csem e f.
Proof. exact unique_shadow_refuted. Qed.
Print Assumptions C09_unique_shadow_refuted.

(* non-vacuity of the premise `atoms_sound`: a concrete, name-sensitive interpretation of the
   concrete atoms used by the correspondence check *)
Example C09_atoms_sound_nonvacuous : atoms_sound cops csem.
Proof. exact atoms_sound_csem. Qed.
Print Assumptions C09_atoms_sound_nonvacuous.
