(* C09 — Formula negation and normal-form rewrites preserve meaning.
   Only statements + `exact`; model: Logic/Rewrite.v, spec (`ev`, `atoms_sound`) and proofs:
   Logic/RewriteFacts.v.

   Reading guide.  `O : ops A` packages the abstract SMT-atom operations (z3 equality, true/false,
   is_true/is_false, z3_push_in_negations, z3 substitution); `S : sem A E` is an ARBITRARY
   interpretation (states E, denotation of atoms, of predicate formulas, finite quantifier
   domains); `ev S e f` is the truth value of f in state e.  `atoms_sound O S` is the only
   premise about the outside world.  Neg/And/Or/Nnf/Dnf/Invariant/Replace/Unique are the model
   functions of Formula.__neg__/__and__/__or__, convert_to_nnf, convert_to_dnf,
   ISLaSolver.establish_invariant, replace_formula, ensure_unique_bound_variables.
   The model mirrors /repo after the fix: commits 71bb9ab (convert_to_dnf iterates over whole
   product combinations; formerly ValueError on conjunctions with != 2 arguments).

   Status.  FULL: neg, and, or, eq, split_*, nnf (+shape), dnf (soundness, totality, raise
   characterisation), invariant_ok, replace.  Bound-variable renaming (proof extension, files
   Logic/FreshFacts.v and Logic/RewriteMore.v):
     * FULL for name-SENSITIVE interpretations (assignments keyed by the full variable
       kind/name/type, `sem_of N`) on every formula outside the recorded class K_shadow:
       C09_unique_name_sensitive_partial (guard = exactly K_shadow, refuted inside it by
       C09_unique_shadow_refuted), C09_subst_capture_free (substitution lemma),
       C09_fresh_name_free / C09_fresh_vars_fresh (the used_names threading yields fresh,
       pairwise different names);
     * for every name-INSENSITIVE interpretation on ALL formulas (incl. shadowing):
       C09_unique_partial, C09_subst_partial (unchanged);
     * uniqueness of the bound names of the result: C09_unique_spine (FULL for what the code
       guarantees: no quantifier of the result re-binds a name bound by an enclosing quantifier or
       contained in used_names - on every input, shadowing or not, without numeric quantifiers);
       global uniqueness across SIBLING quantifiers is false: C09_unique_siblings_refuted.
   Proof extension 2 (files Logic/UniqueTotal.v, Logic/UniqueLevels.v, Logic/NormalForms.v):
     * TOTALITY, FULL: C09_unique_total (ensure_unique returns for every fuel >= the computable
       measure `ufuel f` <= 2*fsize f - 1, every used_names), C09_unique_total_fsize,
       C09_unique_total_harness (the fuel 4*fsize f + 8 of the correspondence check always suffices),
       C09_unique_fuel_independent (more fuel, same result), C09_first_free_least (the index search
       of fresh_vars is the unbounded `while` loop: least free index, for every fuel > |used_names|);
     * UNIQUENESS after ONE application, FULL for what the code guarantees: C09_unique_once = spine
       uniqueness + LEVEL uniqueness (quantifiers with the same nearest enclosing quantifier bind
       pairwise different names, at every level; outermost names fresh w.r.t. used_names and added
       to it).  After TWO applications (parse_isla): the same and no more - C09_unique_twice_levels;
       global uniqueness after two applications is REFUTED on input without shadowing:
       C09_unique_twice_refuted (parse_isla returns y_1 twice; reproduced on /repo);
     * NNF, FULL: C09_nnf_idempotent (under `push_stable`: z3_push_in_negations(., False) leaves its
       own outputs and true/false alone), C09_nnf_shape_top / _deep (negations only on predicate atoms);
     * DNF shape: the full statement `is_dnf (dnf f)` is REFUTED - C09_dnf_shape_refuted:
       ((s or t) and not s) and r is returned unconverted (`return formula` when every argument has
       one disjunct; reachable from parsed constraints, reproduced on /repo), so establish_invariant
       can hand the solver a clause containing a disjunction; convert_to_dnf is not idempotent either
       (C09_dnf_idempotent_refuted).  PARTIAL with guard = exactly that class (K_dnf_shortcut):
       C09_dnf_shape_partial, C09_invariant_clauses_partial.  FULL: C09_dnf_dsafe (output satisfies
       the precondition again), C09_dnf_clause_fixed (clauses are fixed points for deep=False).
   STILL PARTIAL / OPEN: establish_invariant raises on API-built NegatedFormula(combinator)
   inside an un-negated quantifier body (C09_invariant_refuted_not_nnf; not reachable from
   parsed constraints); renaming inside K_shadow (refuted); DNF shape inside K_dnf_shortcut
   (refuted) and idempotence of convert_to_dnf outside it (not proved); shape theorems do not look
   into quantifier bodies (deep=True conversions of bodies are covered by C09_dnf_dsafe only). *)
From Coq Require Import List Bool NArith.
From ISLA Require Import Rewrite RewriteFacts FreshFacts RewriteMore UniqueTotal UniqueLevels NormalForms.
Import ListNotations.

(* ---- negation inverts the verdict ---- *)
Theorem C09_neg : forall A E (O : ops A) (S : sem A E), atoms_sound O S ->
  forall (f : formula A) e, ev S e (Neg O f) = negb (ev S e f).
Proof. exact neg_sound. Qed.
Print Assumptions C09_neg.

(* ---- the simplifying combinators & and | ---- *)
Theorem C09_and : forall A E (O : ops A) (S : sem A E), atoms_sound O S ->
  forall (a b : formula A) e, ev S e (And O a b) = ev S e a && ev S e b.
Proof. exact and_sound. Qed.
Print Assumptions C09_and.

Theorem C09_or : forall A E (O : ops A) (S : sem A E), atoms_sound O S ->
  forall (a b : formula A) e, ev S e (Or O a b) = ev S e a || ev S e b.
Proof. exact or_sound. Qed.
Print Assumptions C09_or.

(* Python `f == g` (equality modulo re-nesting of n-ary connectives) implies equal verdicts;
   this is what makes the `self == other` shortcuts of & and | sound *)
Theorem C09_eq : forall A E (O : ops A) (S : sem A E), atoms_sound O S ->
  forall (f g : formula A), Feq O f g = true -> forall e, ev S e f = ev S e g.
Proof. exact feqb_sound. Qed.
Print Assumptions C09_eq.

Theorem C09_split_conjunction : forall A E (S : sem A E) (f : formula A) e, forallb (fun x => ev S e x) (split_conj A f) = ev S e f.
Proof. exact split_conj_sound. Qed.
Print Assumptions C09_split_conjunction.

Theorem C09_split_disjunction : forall A E (S : sem A E) (f : formula A) e, existsb (fun x => ev S e x) (split_disj A f) = ev S e f.
Proof. exact split_disj_sound. Qed.
Print Assumptions C09_split_disjunction.

(* ---- negation normal form: convert_to_nnf(f, negate) ---- *)
Theorem C09_nnf : forall A E (O : ops A) (S : sem A E), atoms_sound O S ->
  forall (f : formula A) neg e, ev S e (Nnf O f neg) = xorb neg (ev S e f).
Proof. exact nnf_sound. Qed.
Print Assumptions C09_nnf.

(* shape: the output satisfies the precondition of convert_to_dnf (no negation on a connective)
   everywhere EXCEPT inside the quantifier bodies nnf does not traverse (bodies of un-negated
   quantifiers) - those must be safe already (`bodies_safe`) *)
Theorem C09_nnf_shape : forall A (O : ops A) (f : formula A) neg,
  bodies_safe neg f = true -> dsafe (Nnf O f neg) = true.
Proof. exact nnf_dsafe. Qed.
Print Assumptions C09_nnf_shape.

(* ---- disjunctive normal form ---- *)
(* whenever convert_to_dnf returns, the verdict is unchanged (deep or not) *)
Theorem C09_dnf : forall A E (O : ops A) (S : sem A E), atoms_sound O S ->
  forall (f : formula A) deep g, Dnf O deep f = Ok g -> forall e, ev S e g = ev S e f.
Proof. exact dnf_sound. Qed.
Print Assumptions C09_dnf.

(* FULL STATEMENT (holds since /repo commit 71bb9ab; was refuted on the pinned snapshot by
   ConjunctiveFormula(a, b | c, d) -> ValueError): convert_to_dnf does not raise on any formula,
   of any arity, that is in negation normal form at the positions it visits *)
Theorem C09_dnf_total : forall A (O : ops A) deep (f : formula A),
  K_dnf_not_nnf f = false -> exists g, Dnf O deep f = Ok g.
Proof. exact dnf_total. Qed.
Print Assumptions C09_dnf_total.

(* corpus (non-vacuity of C09_dnf_total on the formerly refuted class): the old witnesses convert *)
Example C09_dnf_nary_corpus :
  arity_ok catom w_nary = true /\ K_dnf_not_nnf w_nary = false /\
  (exists g, Dnf cops true w_nary = Ok g /\ dsafe g = true) /\
  (exists g, Dnf cops false w_nary = Ok g) /\
  (exists l, Invariant cops w_inv_nary = Ok l /\ length l = 2).
Proof. exact dnf_nary_corpus. Qed.
Print Assumptions C09_dnf_nary_corpus.

(* the only exception convert_to_dnf can raise is the AssertionError of its documented
   precondition, and only on input that violates it *)
Theorem C09_dnf_raises : forall A (O : ops A) deep (f : formula A) e,
  Dnf O deep f = Raise e -> e = AssertErr /\ K_dnf_not_nnf f = true.
Proof. exact dnf_raises. Qed.
Print Assumptions C09_dnf_raises.

(* ---- the solver's use: establish_invariant = split_disjunction(dnf(nnf(f), deep=False)) ---- *)
(* it cannot raise when the quantifier bodies that nnf leaves untouched are safe ... *)
Theorem C09_invariant_ok : forall A (O : ops A) (f : formula A),
  bodies_safe false f = true -> exists l, Invariant O f = Ok l.
Proof. exact invariant_ok. Qed.
Print Assumptions C09_invariant_ok.

Example C09_invariant_ok_nonvacuous :
  bodies_safe false (FAnd [FNot (FForall v_x (InVar v_start) None w_nary); FOr [at_c; at_d]]) = true.
Proof. exact bodies_safe_example. Qed.
Print Assumptions C09_invariant_ok_nonvacuous.

(* ... in particular on every formula without tree quantifiers (any arity, any nesting, any negations) *)
Theorem C09_invariant_ok_quantifier_free : forall A (O : ops A) (f : formula A),
  no_tree_quant f = true -> exists l, Invariant O f = Ok l.
Proof. exact invariant_ok_no_tree_quant. Qed.
Print Assumptions C09_invariant_ok_quantifier_free.

(* FULL STATEMENT (false): establish_invariant never raises.  Refutation (open finding
   dnf-body-not-nnf): an untouched quantifier body NegatedFormula(a & b) -> AssertionError,
   because the recursive calls of convert_to_dnf use deep=True on conjuncts even when
   deep=False was asked, and convert_to_nnf does not traverse un-negated quantifier bodies.
   PARTIAL = C09_invariant_ok (guard bodies_safe). *)
Theorem C09_invariant_refuted_not_nnf : exists f : cform,
  arity_ok catom f = true /\ Invariant cops f = Raise AssertErr.
Proof. exact invariant_refuted_not_nnf. Qed.
Print Assumptions C09_invariant_refuted_not_nnf.

(* ---- replace_formula ---- *)
Theorem C09_replace : forall A E (O : ops A) (S : sem A E), atoms_sound O S ->
  forall (tr rw : formula A), (forall e, ev S e tr = ev S e rw) ->
  forall f e, ev S e (Replace O f tr rw) = ev S e f.
Proof. exact replace_sound. Qed.
Print Assumptions C09_replace.

(* ---- bound-variable renaming ---- *)
(* FULL STATEMENT (not proved, and false on shadowing input):
     forall fuel f used g u, Unique O fuel f used = Some (g, u) -> forall e, ev S e g = ev S e f
   for every interpretation S (in particular name-sensitive ones).
   PARTIAL: proved for every interpretation that looks at variables only through their types
   (`name_insensitive`): substitute_variables / ensure_unique_bound_variables do nothing but
   rename variables (type preserving) and re-assemble connectives with & and |; this holds for
   ALL formulas, also with shadowing.  The capture-avoidance argument over the threading of
   `used_names` for name-sensitive interpretations and formulas without shadowing is
   C09_unique_name_sensitive_partial below (proof extension). *)
Theorem C09_unique_partial : forall A E (O : ops A) (S : sem A E),
  atoms_sound O S -> name_insensitive O S ->
  forall fuel (f : formula A) used g u, Unique O fuel f used = Some (g, u) ->
  forall e, ev S e g = ev S e f.
Proof. exact unique_sound_partial. Qed.
Print Assumptions C09_unique_partial.

Example C09_unique_partial_nonvacuous :
  atoms_sound cops_t tsem /\ name_insensitive cops_t tsem /\
  exists g u, Unique cops_t 20 (FAnd [FForall v_x (InVar v_start) None x_is_a;
                                      FForall v_x (InVar v_start) None x_is_a]) [] = Some (g, u) /\
              g <> FAnd [FForall v_x (InVar v_start) None x_is_a; FForall v_x (InVar v_start) None x_is_a].
Proof. exact unique_partial_nonvacuous. Qed.
Print Assumptions C09_unique_partial_nonvacuous.

Theorem C09_subst_partial : forall A E (O : ops A) (S : sem A E),
  atoms_sound O S -> name_insensitive O S ->
  forall rho, type_preserving rho -> forall (f : formula A) e, ev S e (Subst O rho f) = ev S e f.
Proof. exact subst_sound. Qed.
Print Assumptions C09_subst_partial.

(* refutation of the full statement: `forall x in start: forall x in x: x == "a"` - the inner
   quantifier's in-variable is renamed together with its binder (-> `forall x_0 in x_0`), which
   changes the verdict under a sound name-sensitive interpretation *)
Theorem C09_unique_shadow_refuted : atoms_sound cops csem /\
  exists (f g : cform) u e, Unique cops 20 f [] = Some (g, u) /\ ev csem e g <> ev csem e f.
Proof. exact unique_shadow_refuted. Qed.
Print Assumptions C09_unique_shadow_refuted.

(* non-vacuity of the premise `atoms_sound`: a concrete, name-sensitive interpretation of the
   concrete atoms used by the correspondence check *)
Example C09_atoms_sound_nonvacuous : atoms_sound cops csem.
Proof. exact atoms_sound_csem. Qed.
Print Assumptions C09_atoms_sound_nonvacuous.

(* ================= proof extension: capture avoidance for name-sensitive interpretations ======== *)
(* Reading guide.  `N : nsem A D` is an interpretation whose states are assignments var -> D keyed
   by the FULL variable (kind, name, type): atoms are denoted under the assignment, predicate
   formulas see the values of their arguments, a tree quantifier binds value tuples positionally to
   its own variables `q_bound v m` (lexical scoping), the tuples depend on the value of the
   in-variable, the type of v and the kinds/types of the match-expression elements.
   `sem_of N` is the corresponding `sem`, so `ev (sem_of N)` is the same specification `ev` as above.
   `atoms_rename O N afv` are the premises about the abstract atoms: `afv a` = free variables of the
   z3 formula (coincidence), z3 substitution = composition of the assignment with the renaming, free
   variables are mapped along the renaming, true/false have none. *)

(* (2) the index search of fresh_vars always ends on a name that is not in used_names ... *)
Theorem C09_fresh_name_free : forall p used,
  mem_str (idx_name p (first_free (S (length used)) p used 0%N)) used = false.
Proof. exact first_free_fresh. Qed.
Print Assumptions C09_fresh_name_free.

(* ... and fresh_vars returns a renaming of exactly the given variables whose images are kept or are
   plain BoundVariables of the same type, carry pairwise different names, none of them in
   used_names; the caller's set afterwards is used_names plus exactly these names *)
Theorem C09_fresh_vars_fresh : forall orig used rho u, fresh_vars orig used = (rho, u) ->
  map fst rho = orig /\
  u = rev (img_names rho) ++ used /\
  Forall pair_ok rho /\
  NoDup (img_names rho) /\
  (forall n, In n (img_names rho) -> ~ In n used).
Proof. exact fresh_vars_spec. Qed.
Print Assumptions C09_fresh_vars_fresh.

(* (1) substitution lemma: a renaming that keeps kinds and types, leaves the bound variables of f
   alone and maps no other variable onto one of them (capture freedom) acts on the verdict as
   composition of the assignment: substitute_variables is sound for NAME-SENSITIVE interpretations *)
Theorem C09_subst_capture_free : forall A D (O : ops A) (N : nsem A D) (afv : A -> list var),
  atoms_sound O (sem_of N) -> atoms_rename O N afv ->
  forall rho, kt_preserving (lookup rho) ->
  forall f : formula A,
  (forall w, In w (bvars A f) -> lookup rho w = w) ->
  (forall z, In (lookup rho z) (bvars A f) -> lookup rho z = z) ->
  forall e e', (forall x, In x (fv afv f) -> e' x = e (lookup rho x)) ->
  ev (sem_of N) e (Subst O rho f) = ev (sem_of N) e' f.
Proof. exact subst_ev. Qed.
Print Assumptions C09_subst_capture_free.

Example C09_subst_capture_free_nonvacuous :
  let rho := [(v_x, v_z)] in let f : cform := FForall v_y (InVar v_x) None (y_is v_y 97) in
  kt_preserving (lookup rho) /\
  (forall w, In w (bvars catom f) -> lookup rho w = w) /\
  (forall z, In (lookup rho z) (bvars catom f) -> lookup rho z = z) /\
  Subst cops_t rho f <> f.
Proof. exact subst_ev_nonvacuous. Qed.
Print Assumptions C09_subst_capture_free_nonvacuous.

(* (3) FULL STATEMENT (false inside K_shadow, see C09_unique_shadow_refuted):
     ensure_unique_bound_variables(f, used_names) has the verdict of f in every state.
   PARTIAL with guard = exactly the recorded class: for every formula WITHOUT shadowing
   (`K_shadow bound f = false`: no quantifier of f binds a name of `bound` or re-binds a name bound
   by an enclosing quantifier), whose free plain bound variables have their names in `bound`
   (`scoped`), `bound` being part of used_names, and whose quantifiers bind BoundVariables.
   For closed formulas take bound = used = [] (the call of parse_isla / ISLaSolver). *)
Theorem C09_unique_name_sensitive_partial :
  forall A D (O : ops A) (N : nsem A D) (afv : A -> list var),
  atoms_sound O (sem_of N) -> atoms_rename O N afv ->
  forall fuel (f : formula A) used g u, Unique O fuel f used = Some (g, u) ->
  forall bound, K_shadow bound f = false -> scoped afv bound f -> binders_bound f -> incl bound used ->
  forall e, ev (sem_of N) e g = ev (sem_of N) e f.
Proof. exact rename_sound. Qed.
Print Assumptions C09_unique_name_sensitive_partial.

(* non-vacuity: a concrete name-sensitive interpretation satisfies both premises, and
   (forall x in start: (forall y in x: y="a") and (forall y in x: y="b")) and forall y_0 in start: y_0="c"
   satisfies the hypotheses with bound = used = [] and IS changed by the renaming *)
Example C09_unique_name_sensitive_nonvacuous :
  atoms_sound cops_t (sem_of cnsem) /\ atoms_rename cops_t cnsem cafv /\
  K_shadow [] w_sibling = false /\ scoped cafv [] w_sibling /\ binders_bound w_sibling /\
  exists g u, Unique cops_t 40 w_sibling [] = Some (g, u) /\ g <> w_sibling.
Proof. exact rename_sound_nonvacuous. Qed.
Print Assumptions C09_unique_name_sensitive_nonvacuous.

(* ---- uniqueness of the bound names of the result ---- *)
(* What the code guarantees (on EVERY input without numeric quantifiers, shadowing or not): in the
   result no quantifier binds a name of used_names, and no quantifier re-binds a name bound by an
   enclosing quantifier - bound names are unique along every nesting chain (quantifier spine). *)
Theorem C09_unique_spine : forall A (O : ops A) fuel (f : formula A) used g u,
  Unique O fuel f used = Some (g, u) ->
  no_int_quant f = true -> binders_bound f -> K_shadow used g = false.
Proof. exact unique_spine. Qed.
Print Assumptions C09_unique_spine.

Example C09_unique_spine_nonvacuous :
  no_int_quant w_shadow = true /\ binders_bound w_shadow /\ K_shadow [] w_shadow = true /\
  exists g u, Unique cops 20 w_shadow [] = Some (g, u) /\ K_shadow [] g = false.
Proof. exact unique_spine_nonvacuous. Qed.
Print Assumptions C09_unique_spine_nonvacuous.

(* FULL STATEMENT (false): all quantifiers of the result bind pairwise different names
   (`bound_unique g = true`).  Refutation, on input without shadowing:
   (forall x in start: (forall y in x: A) and (forall y in x: B)) and forall y_0 in start: C
   -> the second y becomes y_0 inside the first conjunct, but that choice is not propagated to
   the caller's used_names, so the sibling `forall y_0` keeps its name: y_0 is bound twice.
   Reproduced on ensure_unique_bound_variables of /repo (design_notes/C09.md). *)
Theorem C09_unique_siblings_refuted : exists (f g : cform) u,
  K_shadow [] f = false /\ no_int_quant f = true /\
  Unique cops_t 40 f [] = Some (g, u) /\ bound_unique g = false.
Proof. exact unique_siblings_refuted. Qed.
Print Assumptions C09_unique_siblings_refuted.

(* ================= proof extension 2: totality, uniqueness levels, normal-form shapes ============ *)

(* ---- (1) totality of the fuelled model functions ---- *)
(* `ufuel f`: atoms 1, negation/quantifier 1 + body, n-ary connective max(1, n-1) + sum of the
   arguments (an n-ary connective is re-assembled as n-1 binary ones by substitute_variables).
   ensure_unique_bound_variables returns for every fuel >= ufuel f, whatever used_names is. *)
Theorem C09_unique_total : forall A (O : ops A) fuel (f : formula A) used,
  ufuel f <= fuel -> exists g u, Unique O fuel f used = Some (g, u).
Proof. exact unique_total. Qed.
Print Assumptions C09_unique_total.

Theorem C09_unique_total_fsize : forall A (O : ops A) fuel (f : formula A) used,
  2 * fsize f <= fuel -> exists g u, Unique O fuel f used = Some (g, u).
Proof. exact unique_total_fsize. Qed.
Print Assumptions C09_unique_total_fsize.

(* the entry point evaluated by the correspondence check (fuel 4 * fsize f + 8, used_names = {}) *)
Theorem C09_unique_total_harness : forall f : cform, exists g, c_unique f = Some g.
Proof. exact c_unique_total. Qed.
Print Assumptions C09_unique_total_harness.

(* the result does not depend on the fuel once it is returned *)
Theorem C09_unique_fuel_independent : forall A (O : ops A) k k' (f : formula A) used r,
  k <= k' -> Unique O k f used = Some r -> Unique O k' f used = Some r.
Proof. exact unique_fuel_mono. Qed.
Print Assumptions C09_unique_fuel_independent.

(* `while proposal_idx in used_names: idx += 1`: for every fuel > |used_names| the model returns the
   least index whose name is free, i.e. the fuel `S (length used)` of fresh_vars is not a restriction
   (fresh_vars itself is structurally recursive) *)
Theorem C09_first_free_least : forall p used fuel, S (length used) <= fuel ->
  let r := first_free fuel p used 0%N in
  mem_str (idx_name p r) used = false /\
  (forall j, (j < r)%N -> mem_str (idx_name p j) used = true) /\
  r = first_free (S (length used)) p used 0%N.
Proof. exact first_free_least. Qed.
Print Assumptions C09_first_free_least.

(* ---- (2) what uniqueness one / two applications guarantee ---- *)
(* `tops g`: names bound by the outermost quantifiers of g; `level_unique g`: these are pairwise
   different, and so are the outermost names of every quantifier body, recursively.
   ONE application, every input without numeric quantifiers (shadowing or not), any used_names:
   spine uniqueness, level uniqueness, outermost names not in used_names and recorded in the
   caller's set, which only grows.  Two quantifiers of the result can therefore share a name only
   across different branches with at least one of them nested deeper than the branching level. *)
Theorem C09_unique_once : forall A (O : ops A) fuel (f : formula A) used g u,
  Unique O fuel f used = Some (g, u) -> no_int_quant f = true -> binders_bound f ->
  K_shadow used g = false /\ level_unique g = true /\
  (forall n, In n (tops g) -> ~ In n used /\ In n u) /\ incl used u.
Proof. exact unique_once. Qed.
Print Assumptions C09_unique_once.

Example C09_unique_once_nonvacuous :
  no_int_quant w_twice = true /\ binders_bound w_twice /\
  exists g u, Unique cops_t 40 w_twice [] = Some (g, u) /\ g <> w_twice /\ level_unique g = true.
Proof. exact unique_once_nonvacuous. Qed.
Print Assumptions C09_unique_once_nonvacuous.

(* TWO applications (parse_isla: exitStart applies the function twice, each time with an empty
   used_names): the result of the first is an admissible input of the second, so the guarantee of
   one application holds again ... *)
Theorem C09_unique_twice_levels : forall A (O : ops A) k1 k2 (f : formula A) used1 used2 g1 u1 g2 u2,
  Unique O k1 f used1 = Some (g1, u1) -> Unique O k2 g1 used2 = Some (g2, u2) ->
  no_int_quant f = true -> binders_bound f ->
  K_shadow used2 g2 = false /\ level_unique g2 = true.
Proof. exact unique_twice_levels. Qed.
Print Assumptions C09_unique_twice_levels.

(* ... and nothing more.  FULL STATEMENT (false): after two applications all quantifiers bind
   pairwise different names, for formulas without shadowing.  Refutation:
   ((forall x in start: ((forall y in x: A) and (forall y in x: B))) and
    (forall w in start: forall y_0 in w: C)) and (forall y_1 in start: D)
   1st: x y y_0 | w y_0 | y_1,  2nd: x y y_0 | w y_1 | y_1.  parse_isla on this text returns the
   binders x, y, y_0, w, y_1, y_1 (design_notes/C09.md). *)
Theorem C09_unique_twice_refuted : exists (f g1 g2 : cform) u1 u2,
  K_shadow [] f = false /\ no_int_quant f = true /\ binders_bound f /\
  Unique cops_t 40 f [] = Some (g1, u1) /\ Unique cops_t 40 g1 [] = Some (g2, u2) /\
  bound_unique g2 = false /\
  map vname (bvars catom g2) = map vname [v_x; v_y; v_y0; v_w; v_y1; v_y1].
Proof. exact unique_twice_refuted. Qed.
Print Assumptions C09_unique_twice_refuted.

(* ---- (3) normal forms: idempotence and shape ---- *)
(* convert_to_nnf is idempotent (exact AST equality).  Premise about z3 (`push_stable`):
   z3_push_in_negations(a, False) = a for every a that is itself a result of
   z3_push_in_negations, and for true / false. *)
Theorem C09_nnf_idempotent : forall A (O : ops A), push_stable O ->
  forall (f : formula A) neg, Nnf O (Nnf O f neg) false = Nnf O f neg.
Proof. exact nnf_idempotent. Qed.
Print Assumptions C09_nnf_idempotent.

Example C09_nnf_idempotent_nonvacuous : push_stable cops.
Proof. exact push_stable_cops. Qed.
Print Assumptions C09_nnf_idempotent_nonvacuous.

(* outside quantifier bodies every NegatedFormula of the output sits on a predicate atom ... *)
Theorem C09_nnf_shape_top : forall A (O : ops A) (f : formula A) neg,
  is_nnf false (Nnf O f neg) = true.
Proof. exact nnf_shape_top. Qed.
Print Assumptions C09_nnf_shape_top.

(* ... and everywhere, if the quantifier bodies convert_to_nnf does not traverse are in nnf already *)
Theorem C09_nnf_shape_deep : forall A (O : ops A) (f : formula A) neg,
  bodies_nnf neg f = true -> is_nnf true (Nnf O f neg) = true.
Proof. exact nnf_shape_deep. Qed.
Print Assumptions C09_nnf_shape_deep.

Example C09_nnf_shape_deep_nonvacuous :
  bodies_nnf false (FAnd [FNot (FForall v_x (InVar v_start) None (FNot (FAnd [p_s; p_t])));
                          FExists v_x (InVar v_start) None (FOr [FNot p_s; p_t])] : cform) = true.
Proof. exact nnf_shape_deep_nonvacuous. Qed.
Print Assumptions C09_nnf_shape_deep_nonvacuous.

(* FULL STATEMENT (false): the output of convert_to_dnf is a disjunction of clauses
   (`is_dnf g`: no disjunct of split_disjunction(g) contains a disjunction below conjunctions), and
   hence establish_invariant returns clauses only.
   Refutation: f = ((s or t) and not s) and r (structural predicate atoms; what `&` builds for the
   text `(s or t) and not s and r`): the inner conjunction converts to the single disjunct
   `t and not s` (s and not s simplifies to false), so every argument of the outer conjunction has one
   disjunct and convert_to_dnf returns f itself, which contains `s or t`.  Reproduced on /repo. *)
Theorem C09_dnf_shape_refuted : exists f : cform,
  arity_ok catom f = true /\ K_dnf_not_nnf f = false /\ Nnf cops f false = f /\
  Dnf cops true f = Ok f /\ Dnf cops false f = Ok f /\ is_dnf f = false /\
  Invariant cops f = Ok [f] /\ K_dnf_shortcut cops f = true.
Proof. exact dnf_shape_refuted. Qed.
Print Assumptions C09_dnf_shape_refuted.

(* PARTIAL, guard = exactly the refuted class: `K_dnf_shortcut O f = false` - every conjunction
   convert_to_dnf visits outside quantifier bodies either consists of clauses or has an argument with
   more than one disjunct.  Then the output is in DNF, deep or not. *)
Theorem C09_dnf_shape_partial : forall A (O : ops A) (f : formula A) deep g,
  K_dnf_shortcut O f = false -> Dnf O deep f = Ok g -> is_dnf g = true.
Proof. exact dnf_shape_partial. Qed.
Print Assumptions C09_dnf_shape_partial.

Theorem C09_invariant_clauses_partial : forall A (O : ops A) (f : formula A) l,
  K_dnf_shortcut O (Nnf O f false) = false -> Invariant O f = Ok l -> forallb or_free l = true.
Proof. exact invariant_clauses_partial. Qed.
Print Assumptions C09_invariant_clauses_partial.

Example C09_dnf_shape_partial_nonvacuous :
  K_dnf_shortcut cops w_nary = false /\
  exists g, Dnf cops false w_nary = Ok g /\ g <> w_nary /\ is_dnf g = true.
Proof. exact dnf_shape_partial_nonvacuous. Qed.
Print Assumptions C09_dnf_shape_partial_nonvacuous.

(* the output of convert_to_dnf satisfies the precondition of convert_to_dnf again (no
   NegatedFormula on a connective at any visited position), on every input *)
Theorem C09_dnf_dsafe : forall A (O : ops A) (f : formula A) deep g,
  dsafe f = true -> Dnf O deep f = Ok g -> dsafe g = true.
Proof. exact dnf_dsafe. Qed.
Print Assumptions C09_dnf_dsafe.

(* clauses are fixed points of convert_to_dnf(., deep=False) *)
Theorem C09_dnf_clause_fixed : forall A (O : ops A) (f : formula A),
  dsafe f = true -> or_free f = true -> Dnf O false f = Ok f.
Proof. exact dnf_clause_fixed. Qed.
Print Assumptions C09_dnf_clause_fixed.

Example C09_dnf_clause_fixed_nonvacuous :
  let c : cform := FAnd [FAnd [p_s; FNot p_t]; FForall v_x (InVar v_start) None (FOr [p_s; p_t])] in
  dsafe c = true /\ or_free c = true /\ is_dnf c = true.
Proof. exact dnf_clause_fixed_nonvacuous. Qed.
Print Assumptions C09_dnf_clause_fixed_nonvacuous.

(* FULL STATEMENT (false): convert_to_dnf(convert_to_dnf(f)) = convert_to_dnf(f).  Refutation:
   (u or v) and (((s or t) and not s) and r): 2 disjuncts (each still containing `s or t`), converting
   again gives 4.  Reproduced on /repo from a parsed constraint. *)
Theorem C09_dnf_idempotent_refuted : exists f g h : cform,
  arity_ok catom f = true /\ Nnf cops f false = f /\
  Dnf cops false f = Ok g /\ Dnf cops false g = Ok h /\ c_seqb g h = false /\
  length (split_disj catom g) = 2 /\ length (split_disj catom h) = 4 /\ is_dnf g = false.
Proof. exact dnf_idempotent_refuted. Qed.
Print Assumptions C09_dnf_idempotent_refuted.
