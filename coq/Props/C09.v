(* C09 — Formula negation and normal-form rewrites preserve meaning.
   Only statements + `exact`; model: Logic/Rewrite.v, spec (`ev`, `atoms_sound`) and proofs:
   Logic/RewriteFacts.v.

   Reading guide.  `O : ops A` packages the abstract SMT-atom operations (z3 equality, true/false,
   is_true/is_false, z3_push_in_negations, z3 substitution); `S : sem A E` is an ARBITRARY
   interpretation (states E, denotation of atoms, of predicate formulas, finite quantifier
   domains); `ev S e f` is the truth value of f in state e.  `atoms_sound O S` is the only
   premise about the outside world.  Neg/And/Or/Nnf/Dnf/Invariant/Replace/Unique are the model
   functions of Formula.__neg__/__and__/__or__, convert_to_nnf, convert_to_dnf,
   ISLaSolver.establish_invariant, replace_formula, ensure_unique_bound_variables.
   The model mirrors /repo after the fix: commits 71bb9ab (convert_to_dnf iterates over whole
   product combinations; formerly ValueError on conjunctions with != 2 arguments).

   Status.  FULL: neg, and, or, eq, split_*, nnf (+shape), dnf (soundness, totality, raise
   characterisation), invariant_ok, replace.  Bound-variable renaming (proof extension, files
   Logic/FreshFacts.v and Logic/RewriteMore.v):
     * FULL for name-SENSITIVE interpretations (assignments keyed by the full variable
       kind/name/type, `sem_of N`) on every formula outside the recorded class K_shadow:
       C09_unique_name_sensitive_partial (guard = exactly K_shadow, refuted inside it by
       C09_unique_shadow_refuted), C09_subst_capture_free (substitution lemma),
       C09_fresh_name_free / C09_fresh_vars_fresh (the used_names threading yields fresh,
       pairwise different names);
     * for every name-INSENSITIVE interpretation on ALL formulas (incl. shadowing):
       C09_unique_partial, C09_subst_partial (unchanged);
     * uniqueness of the bound names of the result: C09_unique_spine (FULL for what the code
       guarantees: no quantifier of the result re-binds a name bound by an enclosing quantifier or
       contained in used_names - on every input, shadowing or not, without numeric quantifiers);
       global uniqueness across SIBLING quantifiers is false: C09_unique_siblings_refuted.
   STILL PARTIAL / OPEN: establish_invariant raises on API-built NegatedFormula(combinator)
   inside an un-negated quantifier body (C09_invariant_refuted_not_nnf; not reachable from
   parsed constraints); renaming inside K_shadow (refuted); totality of ensure_unique for the
   fuel used by the harness is not stated (theorems assume `= Some`). *)
From Coq Require Import List Bool NArith.
From ISLA Require Import Rewrite RewriteFacts FreshFacts RewriteMore.
Import ListNotations.

(* ---- negation inverts the verdict ---- *)
Theorem C09_neg : forall A E (O : ops A) (S : sem A E), atoms_sound O S ->
  forall (f : formula A) e, ev S e (Neg O f) = negb (ev S e f).
Proof. exact neg_sound. Qed.
Print Assumptions C09_neg.

(* ---- the simplifying combinators & and | ---- *)
Theorem C09_and : forall A E (O : ops A) (S : sem A E), atoms_sound O S ->
  forall (a b : formula A) e, ev S e (And O a b) = ev S e a && ev S e b.
Proof. exact and_sound. Qed.
Print Assumptions C09_and.

Theorem C09_or : forall A E (O : ops A) (S : sem A E), atoms_sound O S ->
  forall (a b : formula A) e, ev S e (Or O a b) = ev S e a || ev S e b.
Proof. exact or_sound. Qed.
Print Assumptions C09_or.

(* Python `f == g` (equality modulo re-nesting of n-ary connectives) implies equal verdicts;
   this is what makes the `self == other` shortcuts of & and | sound *)
Theorem C09_eq : forall A E (O : ops A) (S : sem A E), atoms_sound O S ->
  forall (f g : formula A), Feq O f g = true -> forall e, ev S e f = ev S e g.
Proof. exact feqb_sound. Qed.
Print Assumptions C09_eq.

Theorem C09_split_conjunction : forall A E (S : sem A E) (f : formula A) e, forallb (fun x => ev S e x) (split_conj A f) = ev S e f.
Proof. exact split_conj_sound. Qed.
Print Assumptions C09_split_conjunction.

Theorem C09_split_disjunction : forall A E (S : sem A E) (f : formula A) e, existsb (fun x => ev S e x) (split_disj A f) = ev S e f.
Proof. exact split_disj_sound. Qed.
Print Assumptions C09_split_disjunction.

(* ---- negation normal form: convert_to_nnf(f, negate) ---- *)
Theorem C09_nnf : forall A E (O : ops A) (S : sem A E), atoms_sound O S ->
  forall (f : formula A) neg e, ev S e (Nnf O f neg) = xorb neg (ev S e f).
Proof. exact nnf_sound. Qed.
Print Assumptions C09_nnf.

(* shape: the output satisfies the precondition of convert_to_dnf (no negation on a connective)
   everywhere EXCEPT inside the quantifier bodies nnf does not traverse (bodies of un-negated
   quantifiers) - those must be safe already (`bodies_safe`) *)
Theorem C09_nnf_shape : forall A (O : ops A) (f : formula A) neg,
  bodies_safe neg f = true -> dsafe (Nnf O f neg) = true.
Proof. exact nnf_dsafe. Qed.
Print Assumptions C09_nnf_shape.

(* ---- disjunctive normal form ---- *)
(* whenever convert_to_dnf returns, the verdict is unchanged (deep or not) *)
Theorem C09_dnf : forall A E (O : ops A) (S : sem A E), atoms_sound O S ->
  forall (f : formula A) deep g, Dnf O deep f = Ok g -> forall e, ev S e g = ev S e f.
Proof. exact dnf_sound. Qed.
Print Assumptions C09_dnf.

(* FULL STATEMENT (holds since /repo commit 71bb9ab; was refuted on the pinned snapshot by
   ConjunctiveFormula(a, b | c, d) -> ValueError): convert_to_dnf does not raise on any formula,
   of any arity, that is in negation normal form at the positions it visits *)
Theorem C09_dnf_total : forall A (O : ops A) deep (f : formula A),
  K_dnf_not_nnf f = false -> exists g, Dnf O deep f = Ok g.
Proof. exact dnf_total. Qed.
Print Assumptions C09_dnf_total.

(* corpus (non-vacuity of C09_dnf_total on the formerly refuted class): the old witnesses convert *)
Example C09_dnf_nary_corpus :
  arity_ok catom w_nary = true /\ K_dnf_not_nnf w_nary = false /\
  (exists g, Dnf cops true w_nary = Ok g /\ dsafe g = true) /\
  (exists g, Dnf cops false w_nary = Ok g) /\
  (exists l, Invariant cops w_inv_nary = Ok l /\ length l = 2).
Proof. exact dnf_nary_corpus. Qed.
Print Assumptions C09_dnf_nary_corpus.

(* the only exception convert_to_dnf can raise is the AssertionError of its documented
   precondition, and only on input that violates it *)
Theorem C09_dnf_raises : forall A (O : ops A) deep (f : formula A) e,
  Dnf O deep f = Raise e -> e = AssertErr /\ K_dnf_not_nnf f = true.
Proof. exact dnf_raises. Qed.
Print Assumptions C09_dnf_raises.

(* ---- the solver's use: establish_invariant = split_disjunction(dnf(nnf(f), deep=False)) ---- *)
(* it cannot raise when the quantifier bodies that nnf leaves untouched are safe ... *)
Theorem C09_invariant_ok : forall A (O : ops A) (f : formula A),
  bodies_safe false f = true -> exists l, Invariant O f = Ok l.
Proof. exact invariant_ok. Qed.
Print Assumptions C09_invariant_ok.

Example C09_invariant_ok_nonvacuous :
  bodies_safe false (FAnd [FNot (FForall v_x (InVar v_start) None w_nary); FOr [at_c; at_d]]) = true.
Proof. exact bodies_safe_example. Qed.
Print Assumptions C09_invariant_ok_nonvacuous.

(* ... in particular on every formula without tree quantifiers (any arity, any nesting, any negations) *)
Theorem C09_invariant_ok_quantifier_free : forall A (O : ops A) (f : formula A),
  no_tree_quant f = true -> exists l, Invariant O f = Ok l.
Proof. exact invariant_ok_no_tree_quant. Qed.
Print Assumptions C09_invariant_ok_quantifier_free.

(* FULL STATEMENT (false): establish_invariant never raises.  Refutation (open finding
   dnf-body-not-nnf): an untouched quantifier body NegatedFormula(a & b) -> AssertionError,
   because the recursive calls of convert_to_dnf use deep=True on conjuncts even when
   deep=False was asked, and convert_to_nnf does not traverse un-negated quantifier bodies.
   PARTIAL = C09_invariant_ok (guard bodies_safe). *)
Theorem C09_invariant_refuted_not_nnf : exists f : cform,
  arity_ok catom f = true /\ Invariant cops f = Raise AssertErr.
Proof. exact invariant_refuted_not_nnf. Qed.
Print Assumptions C09_invariant_refuted_not_nnf.

(* ---- replace_formula ---- *)
Theorem C09_replace : forall A E (O : ops A) (S : sem A E), atoms_sound O S ->
  forall (tr rw : formula A), (forall e, ev S e tr = ev S e rw) ->
  forall f e, ev S e (Replace O f tr rw) = ev S e f.
Proof. exact replace_sound. Qed.
Print Assumptions C09_replace.

(* ---- bound-variable renaming ---- *)
(* FULL STATEMENT (not proved, and false on shadowing input):
     forall fuel f used g u, Unique O fuel f used = Some (g, u) -> forall e, ev S e g = ev S e f
   for every interpretation S (in particular name-sensitive ones).
   PARTIAL: proved for every interpretation that looks at variables only through their types
   (`name_insensitive`): substitute_variables / ensure_unique_bound_variables do nothing but
   rename variables (type preserving) and re-assemble connectives with & and |; this holds for
   ALL formulas, also with shadowing.  The capture-avoidance argument over the threading of
   `used_names` for name-sensitive interpretations and formulas without shadowing is
   C09_unique_name_sensitive_partial below (proof extension). *)
Theorem C09_unique_partial : forall A E (O : ops A) (S : sem A E),
  atoms_sound O S -> name_insensitive O S ->
  forall fuel (f : formula A) used g u, Unique O fuel f used = Some (g, u) ->
  forall e, ev S e g = ev S e f.
Proof. exact unique_sound_partial. Qed.
Print Assumptions C09_unique_partial.

Example C09_unique_partial_nonvacuous :
  atoms_sound cops_t tsem /\ name_insensitive cops_t tsem /\
  exists g u, Unique cops_t 20 (FAnd [FForall v_x (InVar v_start) None x_is_a;
                                      FForall v_x (InVar v_start) None x_is_a]) [] = Some (g, u) /\
              g <> FAnd [FForall v_x (InVar v_start) None x_is_a; FForall v_x (InVar v_start) None x_is_a].
Proof. exact unique_partial_nonvacuous. Qed.
Print Assumptions C09_unique_partial_nonvacuous.

Theorem C09_subst_partial : forall A E (O : ops A) (S : sem A E),
  atoms_sound O S -> name_insensitive O S ->
  forall rho, type_preserving rho -> forall (f : formula A) e, ev S e (Subst O rho f) = ev S e f.
Proof. exact subst_sound. Qed.
Print Assumptions C09_subst_partial.

(* refutation of the full statement: `forall x in start: forall x in x: x == "a"` - the inner
   quantifier's in-variable is renamed together with its binder (-> `forall x_0 in x_0`), which
   changes the verdict under a sound name-sensitive interpretation *)
Theorem C09_unique_shadow_refuted : atoms_sound cops csem /\
  exists (f g : cform) u e, Unique cops 20 f [] = Some (g, u) /\ ev csem e g <> ev csem e f.
Proof. exact unique_shadow_refuted. Qed.
Print Assumptions C09_unique_shadow_refuted.

(* non-vacuity of the premise `atoms_sound`: a concrete, name-sensitive interpretation of the
   concrete atoms used by the correspondence check *)
Example C09_atoms_sound_nonvacuous : atoms_sound cops csem.
Proof. exact atoms_sound_csem. Qed.
Print Assumptions C09_atoms_sound_nonvacuous.

(* ================= proof extension: capture avoidance for name-sensitive interpretations ======== *)
(* Reading guide.  `N : nsem A D` is an interpretation whose states are assignments var -> D keyed
   by the FULL variable (kind, name, type): atoms are denoted under the assignment, predicate
   formulas see the values of their arguments, a tree quantifier binds value tuples positionally to
   its own variables `q_bound v m` (lexical scoping), the tuples depend on the value of the
   in-variable, the type of v and the kinds/types of the match-expression elements.
   `sem_of N` is the corresponding `sem`, so `ev (sem_of N)` is the same specification `ev` as above.
   `atoms_rename O N afv` are the premises about the abstract atoms: `afv a` = free variables of the
   z3 formula (coincidence), z3 substitution = composition of the assignment with the renaming, free
   variables are mapped along the renaming, true/false have none. *)

(* (2) the index search of fresh_vars always ends on a name that is not in used_names ... *)
Theorem C09_fresh_name_free : forall p used,
  mem_str (idx_name p (first_free (S (length used)) p used 0%N)) used = false.
Proof. exact first_free_fresh. Qed.
Print Assumptions C09_fresh_name_free.

(* ... and fresh_vars returns a renaming of exactly the given variables whose images are kept or are
   plain BoundVariables of the same type, carry pairwise different names, none of them in
   used_names; the caller's set afterwards is used_names plus exactly these names *)
Theorem C09_fresh_vars_fresh : forall orig used rho u, fresh_vars orig used = (rho, u) ->
  map fst rho = orig /\
  u = rev (img_names rho) ++ used /\
  Forall pair_ok rho /\
  NoDup (img_names rho) /\
  (forall n, In n (img_names rho) -> ~ In n used).
Proof. exact fresh_vars_spec. Qed.
Print Assumptions C09_fresh_vars_fresh.

(* (1) substitution lemma: a renaming that keeps kinds and types, leaves the bound variables of f
   alone and maps no other variable onto one of them (capture freedom) acts on the verdict as
   composition of the assignment: substitute_variables is sound for NAME-SENSITIVE interpretations *)
Theorem C09_subst_capture_free : forall A D (O : ops A) (N : nsem A D) (afv : A -> list var),
  atoms_sound O (sem_of N) -> atoms_rename O N afv ->
  forall rho, kt_preserving (lookup rho) ->
  forall f : formula A,
  (forall w, In w (bvars A f) -> lookup rho w = w) ->
  (forall z, In (lookup rho z) (bvars A f) -> lookup rho z = z) ->
  forall e e', (forall x, In x (fv afv f) -> e' x = e (lookup rho x)) ->
  ev (sem_of N) e (Subst O rho f) = ev (sem_of N) e' f.
Proof. exact subst_ev. Qed.
Print Assumptions C09_subst_capture_free.

Example C09_subst_capture_free_nonvacuous :
  let rho := [(v_x, v_z)] in let f : cform := FForall v_y (InVar v_x) None (y_is v_y 97) in
  kt_preserving (lookup rho) /\
  (forall w, In w (bvars catom f) -> lookup rho w = w) /\
  (forall z, In (lookup rho z) (bvars catom f) -> lookup rho z = z) /\
  Subst cops_t rho f <> f.
Proof. exact subst_ev_nonvacuous. Qed.
Print Assumptions C09_subst_capture_free_nonvacuous.

(* (3) FULL STATEMENT (false inside K_shadow, see C09_unique_shadow_refuted):
     ensure_unique_bound_variables(f, used_names) has the verdict of f in every state.
   PARTIAL with guard = exactly the recorded class: for every formula WITHOUT shadowing
   (`K_shadow bound f = false`: no quantifier of f binds a name of `bound` or re-binds a name bound
   by an enclosing quantifier), whose free plain bound variables have their names in `bound`
   (`scoped`), `bound` being part of used_names, and whose quantifiers bind BoundVariables.
   For closed formulas take bound = used = [] (the call of parse_isla / ISLaSolver). *)
Theorem C09_unique_name_sensitive_partial :
  forall A D (O : ops A) (N : nsem A D) (afv : A -> list var),
  atoms_sound O (sem_of N) -> atoms_rename O N afv ->
  forall fuel (f : formula A) used g u, Unique O fuel f used = Some (g, u) ->
  forall bound, K_shadow bound f = false -> scoped afv bound f -> binders_bound f -> incl bound used ->
  forall e, ev (sem_of N) e g = ev (sem_of N) e f.
Proof. exact rename_sound. Qed.
Print Assumptions C09_unique_name_sensitive_partial.

(* non-vacuity: a concrete name-sensitive interpretation satisfies both premises, and
   (forall x in start: (forall y in x: y="a") and (forall y in x: y="b")) and forall y_0 in start: y_0="c"
   satisfies the hypotheses with bound = used = [] and IS changed by the renaming *)
Example C09_unique_name_sensitive_nonvacuous :
  atoms_sound cops_t (sem_of cnsem) /\ atoms_rename cops_t cnsem cafv /\
  K_shadow [] w_sibling = false /\ scoped cafv [] w_sibling /\ binders_bound w_sibling /\
  exists g u, Unique cops_t 40 w_sibling [] = Some (g, u) /\ g <> w_sibling.
Proof. exact rename_sound_nonvacuous. Qed.
Print Assumptions C09_unique_name_sensitive_nonvacuous.

(* ---- uniqueness of the bound names of the result ---- *)
(* What the code guarantees (on EVERY input without numeric quantifiers, shadowing or not): in the
   result no quantifier binds a name of used_names, and no quantifier re-binds a name bound by an
   enclosing quantifier - bound names are unique along every nesting chain (quantifier spine). *)
Theorem C09_unique_spine : forall A (O : ops A) fuel (f : formula A) used g u,
  Unique O fuel f used = Some (g, u) ->
  no_int_quant f = true -> binders_bound f -> K_shadow used g = false.
Proof. exact unique_spine. Qed.
Print Assumptions C09_unique_spine.

Example C09_unique_spine_nonvacuous :
  no_int_quant w_shadow = true /\ binders_bound w_shadow /\ K_shadow [] w_shadow = true /\
  exists g u, Unique cops 20 w_shadow [] = Some (g, u) /\ K_shadow [] g = false.
Proof. exact unique_spine_nonvacuous. Qed.
Print Assumptions C09_unique_spine_nonvacuous.

(* FULL STATEMENT (false): all quantifiers of the result bind pairwise different names
   (`bound_unique g = true`).  Refutation, on input without shadowing:
   (forall x in start: (forall y in x: A) and (forall y in x: B)) and forall y_0 in start: C
   -> the second y becomes y_0 inside the first conjunct, but that choice is not propagated to
   the caller's used_names, so the sibling `forall y_0` keeps its name: y_0 is bound twice.
   Reproduced on ensure_unique_bound_variables of /repo (design_notes/C09.md). *)
Theorem C09_unique_siblings_refuted : exists (f g : cform) u,
  K_shadow [] f = false /\ no_int_quant f = true /\
  Unique cops_t 40 f [] = Some (g, u) /\ bound_unique g = false.
Proof. exact unique_siblings_refuted. Qed.
Print Assumptions C09_unique_siblings_refuted.
