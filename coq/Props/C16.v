(* C16 — Derivation-tree operations keep paths, strings, openness and identity consistent.
   Only statements + `exact`; proofs in Tree/TreeOpsFacts.v, Tree/CacheFacts.v, Tree/TrieFacts.v and
   (proof extensions) Tree/TrieMore.v, Tree/TreeOpsMore.v, Tree/CacheMore.v, Tree/PrefixMore.v,
   Tree/PrefixReach.v, Tree/PrefixCompletion.v, Tree/SubstMore.v.
   Models: Tree/TreeOps.v (structure), Tree/Cache.v (is_open cache protocol, histories),
   Tree/Trie.v (key codec, datrie, SubtreesTrie).

   STATUS.  FULL: to_string / str, openness, is_open cache (cache_inv for ALL histories, including
   expand_one_step: C16_cache_inv), paths, is_valid_path, find_node, replace_path, structural hash,
   structurally_equal (= equality after erasing ids, C16_structurally_equal),
   key codec, trie contents, next_path (least later path; follows paths(); iteration enumerates
   paths(); skip_children), leaves / open_leaves, filter(enforce_unique), is_prefix (path-wise
   declarative spec PrefixOf AND its reachability reading: PrefixOf t u <-> u results from t by a
   finite sequence of open-leaf replacements, ids ignored: C16_prefix_iff_expansions), the
   completion notions of the fuzzer (C12) and of the evaluator imply is_prefix = True
   (C16_completion_is_prefix, C16_compl_is_prefix, C16_fuzz_output_is_prefix),
   is_potential_prefix (never out of fuel, = PotPrefix), new_ids (same structure, ids consecutive in
   post-order, hence unique: C16_new_ids).
   PARTIAL (guard K_chain = false): substitute = the SIMULTANEOUS substitution subst_sim under unique
   ids (C16_substitute_partial; never raises).  The unguarded statement is REFUTED
   (C16_substitute_refuted: a replacement whose root id is another key of the map is replaced
   again - the result depends on the dict order; reproduced on the real code).
   PARTIAL (guard K_wide t = false, the open finding: a node with more than 28 children): every
   trie VIEW statement - keys / items / values of the root view AND of every sub-view
   (C16_trie_view_partial, C16_sub_items, C16_sub_values, C16_sub_keys), trie()[p].  The unguarded
   statements are REFUTED (C16_trie_view_refuted, C16_trie_getitem_refuted).
   C16_cache_inv_partial is kept (it is implied by C16_cache_inv). *)
From ISLA Require Import Tree PathFacts TreeFacts TreeOps TreeOpsFacts Cache CacheFacts Trie TrieFacts.
From ISLA Require Import TrieMore TreeOpsMore CacheMore PrefixMore PrefixReach.
From ISLA Require Import Grammar Fuzz FuzzFacts Eval3Facts PrefixCompletion SubstMore.
From Coq Require Import Sorted.

(* ---- strings ---- *)
Theorem C16_to_string_yield : forall t, shape_ok t = true -> to_string true t = Some (yield t).
Proof. exact to_string_yield. Qed.
Print Assumptions C16_to_string_yield.

Theorem C16_to_string_terminals : forall t, shape_ok t = true -> to_string false t = Some (term_string t).
Proof. exact to_string_terminals. Qed.
Print Assumptions C16_to_string_terminals.

Example C16_shape_nonvacuous : shape_ok deep_tree = true /\ to_string false deep_tree = Some [120; 121; 122]%N.
Proof. split; reflexivity. Qed.
Print Assumptions C16_shape_nonvacuous.

(* ---- openness ---- *)
Theorem C16_open_iff_leaf : forall t,
  is_openT t = true <-> exists p s, subtree t p = Some s /\ opn s = true.
Proof. exact open_iff_leaf. Qed.
Print Assumptions C16_open_iff_leaf.

(* the lazily cached answer of is_open() equals the fresh recomputation whenever the slots are correct *)
Theorem C16_is_open_cached : forall t, Inv t ->
  match cc t with Some b => Some b | None => compute_is_open t end = Some (is_openT (erase t)).
Proof. exact is_open_cached_correct. Qed.
Print Assumptions C16_is_open_cached.

(* FULL STATEMENT cache_inv: for ALL histories over {constructor, is_open, replace_path (retain_id on/off),
   substitute, new_ids, expand_one_step, get_subtree-alias}, every cached flag of every tree, when present,
   equals the recomputed value.  PROVED for histories without expand_one_step (guard no_expand); the
   expand_one_step case composes mk / c_descend / c_replace (all covered by mk_Inv, c_descend_Inv,
   c_replace_Inv) and is missing only the bookkeeping through itertools.product. *)
Theorem C16_cache_inv_partial : forall ops st st',
  forallb no_expand ops = true -> StInv st -> run_ops st ops = Some st' ->
  forall t, In t (regs st') -> CacheOK t.
Proof. exact cache_inv_partial. Qed.
Print Assumptions C16_cache_inv_partial.

Example C16_cache_inv_nonvacuous :
  StInv init_state /\ forallb no_expand ex_history = true /\
  exists st, run_ops init_state ex_history = Some st /\ length (regs st) = 5.
Proof. split; [exact init_StInv | exact ex_history_runs]. Qed.
Print Assumptions C16_cache_inv_nonvacuous.

(* cache_inv at FULL strength (proof extension, Tree/CacheMore.v): ALL histories, expand_one_step
   included.  expand_one_step builds its children with the constructor, takes itertools.product of
   the alternatives and replaces leaf after leaf with replace_path - every tree involved satisfies
   the invariant. *)
Theorem C16_cache_inv : forall ops st st',
  StInv st -> run_ops st ops = Some st' -> forall t, In t (regs st') -> CacheOK t.
Proof. exact cache_inv. Qed.
Print Assumptions C16_cache_inv.

(* spelled out from the empty register file: every slot of every node of every tree *)
Theorem C16_cache_inv_init : forall ops st', run_ops init_state ops = Some st' ->
  forall t, In t (regs st') -> forall n, In n (cnodes t) -> forall b, cc n = Some b -> b = is_openT (erase n).
Proof. exact cache_inv_init. Qed.
Print Assumptions C16_cache_inv_init.

(* every is_open() answer given after any history is the recomputed value *)
Theorem C16_is_open_answer : forall ops st k b st1 t,
  run_ops init_state ops = Some st -> nth_error (regs st) k = Some t ->
  st_is_open st k = Some (Ok b, st1) -> b = is_openT (erase t).
Proof. exact is_open_answer_any_history. Qed.
Print Assumptions C16_is_open_answer.

Example C16_cache_inv_expand_nonvacuous :
  forallb no_expand ex_history_expand = false /\
  exists st, run_ops init_state ex_history_expand = Some st /\ length (regs st) = 10.
Proof. exact ex_history_expand_runs. Qed.
Print Assumptions C16_cache_inv_expand_nonvacuous.

(* one replace_path step keeps all slots correct (the three-way case of the code) *)
Theorem C16_replace_keeps_caches : forall p t r o t',
  Inv t -> Inv r -> c_replace t p r o = Ok t' -> Inv t'.
Proof. exact c_replace_Inv. Qed.
Print Assumptions C16_replace_keeps_caches.

(* ---- paths ---- *)
Theorem C16_paths_subtree : forall t l, shape_ok t = true -> paths t = Some l ->
  (forall p s, In (p, s) l <-> subtree t p = Some s)
  /\ StronglySorted pre_lt (map fst l) /\ NoDup (map fst l).
Proof. exact paths_subtree. Qed.
Print Assumptions C16_paths_subtree.

Theorem C16_paths_total : forall t, shape_ok t = true -> paths t = Some (nodes t).
Proof. exact paths_nodes. Qed.
Print Assumptions C16_paths_total.

Theorem C16_is_valid_path : forall t, shape_ok t = true -> forall p, is_valid_path t p = true <-> valid t p.
Proof. exact is_valid_path_spec. Qed.
Print Assumptions C16_is_valid_path.

Theorem C16_find_node_path : forall t i p, uniq_ids t ->
  (find_node t i = Some p <-> exists s, subtree t p = Some s /\ tid s = i).
Proof. exact find_node_path. Qed.
Print Assumptions C16_find_node_path.

Example C16_uniq_nonvacuous : uniq_ids deep_tree /\ find_node deep_tree 4 = Some [0; 1].
Proof.
  split; [|reflexivity]. unfold uniq_ids. vm_compute.
  repeat (constructor; [simpl; intuition discriminate|]). constructor.
Qed.
Print Assumptions C16_uniq_nonvacuous.

(* ---- next_path (proof extension, Tree/TreeOpsMore.v) ---- *)
(* order-theoretic spec: on a path of the tree next_path never raises; it returns the LEAST path of
   the tree that comes after p in pre-order (skip_children: after p and not below p), and None
   exactly when there is none.  [after false] = pre_lt, [after true] = doc_lt. *)
Theorem C16_next_path_least : forall t p skip, shape_ok t = true -> valid t p ->
  (exists q, next_path t p skip = Ok (Some q) /\ valid t q /\ after skip p q
             /\ forall r, valid t r -> after skip p r -> pre_le q r)
  \/ (next_path t p skip = Ok None /\ forall r, valid t r -> ~ after skip p r).
Proof. exact next_path_least. Qed.
Print Assumptions C16_next_path_least.

(* against paths(): next_path(p) is the element that follows p (None after the last one, where the
   assertion of the code holds); with skip_children the first later path that is not below p *)
Theorem C16_next_path_follows : forall t, shape_ok t = true -> forall l1 l2 p,
  positions t = l1 ++ p :: l2 -> next_path t p false = Ok (hd_error l2).
Proof. exact next_path_follows. Qed.
Print Assumptions C16_next_path_follows.

Theorem C16_next_path_skip_follows : forall t, shape_ok t = true -> forall l1 l2 p,
  positions t = l1 ++ p :: l2 ->
  next_path t p true = Ok (hd_error (filter (fun r => negb (prefixb p r)) l2)).
Proof. exact next_path_skip_follows. Qed.
Print Assumptions C16_next_path_skip_follows.

(* "Repeated calls result in an iterator over the paths in the tree": iterating from () yields
   exactly positions t (= the paths of paths(), C16_paths_total) in order, then None *)
Theorem C16_next_path_enumerates : forall t, shape_ok t = true -> walk (size t) t [] = Some (positions t).
Proof. exact next_path_enumerates. Qed.
Print Assumptions C16_next_path_enumerates.

Example C16_next_path_nonvacuous :
  shape_ok (Node [60; 97; 62]%N 1 false
                 [Node [60; 98; 62]%N 2 false [Node [120]%N 3 false []]; Node [122]%N 6 true []]) = true
  /\ walk 4 (Node [60; 97; 62]%N 1 false
                  [Node [60; 98; 62]%N 2 false [Node [120]%N 3 false []]; Node [122]%N 6 true []]) []
     = Some [[]; [0]; [0; 0]; [1]].
Proof. exact next_path_nonvacuous. Qed.
Print Assumptions C16_next_path_nonvacuous.

(* ---- leaves / open_leaves ---- *)
Theorem C16_leaves : forall t,
  (forall p s, In (p, s) (leaves t) <-> subtree t p = Some s /\ no_children s = true)
  /\ StronglySorted pre_lt (map fst (leaves t)).
Proof. exact leaves_full. Qed.
Print Assumptions C16_leaves.

Theorem C16_open_leaves : forall t,
  (forall p s, In (p, s) (open_leaves t) <-> subtree t p = Some s /\ opn s = true)
  /\ StronglySorted pre_lt (map fst (open_leaves t))
  /\ (forall pt, In pt (open_leaves t) -> In pt (leaves t))
  /\ (is_openT t = true <-> open_leaves t <> []).
Proof. exact open_leaves_full. Qed.
Print Assumptions C16_open_leaves.

Theorem C16_filter : forall f unique t,
  match py_filter f unique t with
  | Ok r => (forall p s, In (p, s) r <-> subtree t p = Some s /\ f s = true)
            /\ StronglySorted pre_lt (map fst r) /\ (unique = true -> length r <= 1)
  | Raise e => e = RuntimeErr /\ unique = true
               /\ 1 < length (filter (fun pt => f (snd pt)) (nodes t))
  end.
Proof. exact py_filter_spec. Qed.
Print Assumptions C16_filter.

(* ---- is_prefix / is_potential_prefix (proof extension, Tree/PrefixMore.v; ids ignored) ----
   PrefixOf t u: every node of t is a node of u with the same label; a node of t that is not an open
   leaf is not open in u and has the same number of children there (u = t with open leaves expanded).
   PotPrefix t u: on every COMMON path the labels agree and two nodes that both have children have
   the same number of them. *)
Theorem C16_is_prefix : forall t, shape_ok t = true -> forall u, is_prefix_t t u = true <-> PrefixOf t u.
Proof. exact is_prefix_spec. Qed.
Print Assumptions C16_is_prefix.

Theorem C16_expand_leaf_is_prefix : forall p t leaf r t', shape_ok t = true ->
  subtree t p = Some leaf -> opn leaf = true -> lbl r = lbl leaf ->
  replace_path t p r = Ok t' -> PrefixOf t t'.
Proof. exact expand_leaf_PrefixOf. Qed.
Print Assumptions C16_expand_leaf_is_prefix.

Theorem C16_prefix_preorder : (forall t, PrefixOf t t) /\ (forall t u v, PrefixOf t u -> PrefixOf u v -> PrefixOf t v).
Proof. exact (conj PrefixOf_refl PrefixOf_trans). Qed.
Print Assumptions C16_prefix_preorder.

Theorem C16_is_potential_prefix : forall t u, shape_ok t = true -> shape_ok u = true ->
  exists v, is_potential_prefix t u = Some v /\ (v = true <-> PotPrefix t u).
Proof. exact is_potential_prefix_spec. Qed.
Print Assumptions C16_is_potential_prefix.

Theorem C16_prefix_is_potential : forall t u, PrefixOf t u -> PotPrefix t u.
Proof. exact PrefixOf_PotPrefix. Qed.
Print Assumptions C16_prefix_is_potential.

Example C16_prefix_nonvacuous :
  let t := Node [60;97;62]%N 1 false [Node [60;98;62]%N 2 true []; Node [120]%N 3 false []] in
  let u := Node [60;97;62]%N 7 false [Node [60;98;62]%N 8 false [Node [121]%N 9 false []]; Node [120]%N 5 false []] in
  shape_ok t = true /\ shape_ok u = true /\ is_prefix_t t u = true /\ is_prefix_t u t = false
  /\ is_potential_prefix t u = Some true /\ is_potential_prefix u t = Some true.
Proof. exact prefix_nonvacuous. Qed.
Print Assumptions C16_prefix_nonvacuous.

(* ---- reachability reading of is_prefix (proof extension 2, Tree/PrefixReach.v) ----
   same_struct t u  := strip_ids t = strip_ids u            (equal after erasing all ids)
   leaf_step t t'   := exists p leaf r, subtree t p = Some leaf /\ opn leaf = true /\ lbl r = lbl leaf
                       /\ shape_ok r = true /\ replace_path t p r = Ok t'
                       (ONE replace_path at the path of an open leaf, by a tree with the same label)
   leaf_steps       := reflexive-transitive closure of leaf_step
   expansions t u   := exists u', leaf_steps t u' /\ same_struct u' u     (ids ignored)
   shape_ok = the representation invariant of encoded Python trees (children is None => no kids). *)
Theorem C16_prefix_iff_expansions : forall t u, shape_ok t = true -> shape_ok u = true ->
  (PrefixOf t u <-> expansions t u).
Proof. exact prefix_iff_expansions. Qed.
Print Assumptions C16_prefix_iff_expansions.

(* the verdict of the code itself *)
Theorem C16_is_prefix_iff_expansions : forall t u, shape_ok t = true -> shape_ok u = true ->
  (is_prefix_t t u = true <-> expansions t u).
Proof. exact is_prefix_iff_expansions. Qed.
Print Assumptions C16_is_prefix_iff_expansions.

(* soundness needs nothing about u: whatever is reached is a well-shaped extension *)
Theorem C16_expansions_sound : forall t u, shape_ok t = true -> expansions t u ->
  shape_ok u = true /\ PrefixOf t u.
Proof. exact expansions_PrefixOf. Qed.
Print Assumptions C16_expansions_sound.

(* "ids ignored" is what the code's own structurally_equal decides *)
Theorem C16_structurally_equal : forall t, shape_ok t = true -> forall u, shape_ok u = true ->
  (structurally_equal t u = true <-> same_struct t u).
Proof. exact structurally_equal_spec. Qed.
Print Assumptions C16_structurally_equal.

Example C16_expansions_nonvacuous :
  let t := Node [60;97;62]%N 1 false [Node [60;98;62]%N 2 true []; Node [60;99;62]%N 3 true []] in
  let u := Node [60;97;62]%N 7 false [Node [60;98;62]%N 8 false [Node [121]%N 9 false []];
                                      Node [60;99;62]%N 5 false []] in
  shape_ok t = true /\ shape_ok u = true /\ expansions t u /\ ~ expansions u t.
Proof. exact expansions_nonvacuous. Qed.
Print Assumptions C16_expansions_nonvacuous.

(* ---- the completion notions of the other developments (Tree/PrefixCompletion.v) ----
   FuzzFacts.completion (C12, specification of the fuzzer output) and Eval3Facts.compl (evaluator,
   same node identities) are extensions in the sense of is_prefix; no hypothesis on the grammar or on
   t is needed (a completion relates well-shaped trees by construction). *)
Theorem C16_completion_is_prefix : forall g t t', completion g t t' ->
  is_prefix_t t t' = true /\ PrefixOf t t' /\ expansions t t'.
Proof. exact completion_is_prefix. Qed.
Print Assumptions C16_completion_is_prefix.

Theorem C16_compl_is_prefix : forall g t t', compl g t t' ->
  is_prefix_t t t' = true /\ PrefixOf t t' /\ expansions t t'.
Proof. exact compl_is_prefix. Qed.
Print Assumptions C16_compl_is_prefix.

(* with C12's expand_valid: every output of the abstract fuzzer run extends its input *)
Theorem C16_fuzz_output_is_prefix : forall g t t', uses_defined g -> wf_tree g t -> expand_star g t t' ->
  is_prefix_t t t' = true.
Proof. exact fuzz_output_is_prefix. Qed.
Print Assumptions C16_fuzz_output_is_prefix.

Example C16_completion_nonvacuous :
  completion ex_g ex_t ex_out /\ is_prefix_t ex_t ex_out = true
  /\ compl SR_g SR_t SR_t' /\ is_prefix_t SR_t SR_t' = true.
Proof. exact completion_is_prefix_nonvacuous. Qed.
Print Assumptions C16_completion_nonvacuous.

(* ---- substitute (proof extension 2, Tree/SubstMore.v) ----
   Code: assert has_unique_ids; id_subst_map = {key.id: repl} for the keys that pass the nesting filter
   (keep: EVERY replacement of the map has the key's id at its root or does not contain it); then
   sequentially `for id in id_subst_map: if (p := result.find_node(id)) is not None: replace_path`.
   Spec: subst_sim m t - walking down from the root, the first node whose id is a key of m is replaced
   by the mapped tree, every other node keeps label / id / openness / arity (path-wise reading:
   C16_subst_sim_pathwise).
   FULL STATEMENT: forall pairs t o, uniq_ids (erase t) -> shape_ok (erase t) = true ->
     (forall kr, In kr pairs -> shape_ok (erase (snd kr)) = true) ->
     exists t' o', subst_loop (id_subst_map pairs) t o = Ok (t', o')
                   /\ erase t' = subst_sim (erase_map (id_subst_map pairs)) (erase t).
   REFUTED on the faithful model (and on the code) when a replacement's root id is ANOTHER key of the
   map (class K_chain): the loop finds the freshly inserted replacement and replaces it again.
   PROVED under the guard K_chain (id_subst_map pairs) = false. *)
Theorem C16_substitute_partial : forall pairs t o,
  uniq_ids (erase t) -> shape_ok (erase t) = true ->
  (forall kr, In kr pairs -> shape_ok (erase (snd kr)) = true) ->
  K_chain (id_subst_map pairs) = false ->
  exists t' o', subst_loop (id_subst_map pairs) t o = Ok (t', o')
                /\ erase t' = subst_sim (erase_map (id_subst_map pairs)) (erase t).
Proof. exact substitute_spec. Qed.
Print Assumptions C16_substitute_partial.

Theorem C16_substitute_refuted :
  uniq_ids chain_t /\ has_unique_ids (fst (construct chain_t 40)) = true
  /\ K_chain (id_subst_map chain_pairs) = true
  /\ exists t' o', subst_loop (id_subst_map chain_pairs) (fst (construct chain_t 40)) 50 = Ok (t', o')
       /\ erase t' = Node [60;115;62]%N 1 false [chain_rb; chain_b]
       /\ subst_sim (erase_map (id_subst_map chain_pairs)) chain_t = Node [60;115;62]%N 1 false [chain_ra; chain_rb]
       /\ erase t' <> subst_sim (erase_map (id_subst_map chain_pairs)) chain_t.
Proof. exact substitute_chain_refuted. Qed.
Print Assumptions C16_substitute_refuted.

(* what the dict comprehension keeps: distinct keys; every entry comes from a pair of the argument
   whose key id passes the nesting filter *)
Theorem C16_id_subst_map : forall pairs,
  NoDup (map fst (id_subst_map pairs)) /\
  forall i r, In (i, r) (id_subst_map pairs) ->
    keep pairs i = true /\ exists key, In (key, r) pairs /\ ci key = i.
Proof. exact id_subst_map_ok. Qed.
Print Assumptions C16_id_subst_map.

(* path-wise reading of the spec function *)
Theorem C16_subst_sim_pathwise : forall m p t s, subtree t p = Some s -> unmapped_above m t p ->
  match lookup (tid s) m with
  | Some r => subtree (subst_sim m t) p = Some r
  | None => exists s', subtree (subst_sim m t) p = Some s' /\ lbl s' = lbl s /\ tid s' = tid s
                       /\ opn s' = opn s /\ length (kids s') = length (kids s)
  end.
Proof. exact subst_sim_pathwise. Qed.
Print Assumptions C16_subst_sim_pathwise.

(* the loop on plain trees, general form: distinct keys, each key at most once in t, no replacement
   contains another key *)
Theorem C16_seq_subst : forall m t,
  NoDup (map fst m) ->
  (forall j, In j (map fst m) -> once j t) ->
  (forall i r, In (i, r) m -> shape_ok r = true /\ forall j, In j (map fst m) -> j <> i -> absent j r) ->
  shape_ok t = true ->
  seq_subst m t = Ok (subst_sim m t).
Proof. exact seq_subst_spec. Qed.
Print Assumptions C16_seq_subst.

Example C16_substitute_nonvacuous :
  uniq_ids chain_t /\ shape_ok chain_t = true /\ K_chain (id_subst_map ok_pairs) = false
  /\ length (id_subst_map ok_pairs) = 2
  /\ subst_sim (erase_map (id_subst_map ok_pairs)) chain_t
     = Node [60;115;62]%N 1 false [Node [60;97;62]%N 7 false [Node [120]%N 10 false []]; chain_rb].
Proof. exact substitute_nonvacuous. Qed.
Print Assumptions C16_substitute_nonvacuous.

(* ---- new_ids (Tree/SubstMore.v): same tree up to ids (also by the code's own structurally_equal);
   new ids = nid, nid+1, ... in post-order, hence pairwise different; next free id = nid + size ---- *)
Theorem C16_new_ids : forall t nid o, shape_ok (erase t) = true ->
  let t' := fst (c_new_ids t nid o) in
  structurally_equal (erase t) (erase t') = true
  /\ same_struct (erase t) (erase t')
  /\ post_ids (erase t') = nseq nid (size (erase t))
  /\ uniq_ids (erase t')
  /\ fst (snd (c_new_ids t nid o)) = (nid + N.of_nat (size (erase t)))%N.
Proof. exact new_ids_structure. Qed.
Print Assumptions C16_new_ids.

Example C16_new_ids_nonvacuous :
  let t := fst (construct chain_t 40) in
  shape_ok (erase t) = true
  /\ erase (fst (c_new_ids t 100 50)) =
     Node [60;115;62]%N 102 false [Node [60;97;62]%N 100 true []; Node [60;98;62]%N 101 true []].
Proof. exact new_ids_nonvacuous. Qed.
Print Assumptions C16_new_ids_nonvacuous.

(* ---- replace_path ---- *)
Theorem C16_replace_frame : forall p t r t', replace_path t p r = Ok t' ->
  subtree t' p = Some r
  /\ (forall q, ~ prefix p q -> ~ prefix q p -> subtree t' q = subtree t q)
  /\ (forall q, sprefix q p -> exists s s', subtree t q = Some s /\ subtree t' q = Some s'
                                           /\ lbl s' = lbl s /\ tid s' = tid s
                                           /\ length (kids s') = length (kids s)).
Proof. exact replace_frame. Qed.
Print Assumptions C16_replace_frame.

Theorem C16_replace_total : forall p t r, shape_ok t = true -> valid t p ->
  exists t', replace_path t p r = Ok t'.
Proof. exact replace_path_total. Qed.
Print Assumptions C16_replace_total.

Example C16_replace_nonvacuous :
  exists t', replace_path deep_tree [0; 1] (Node [119]%N 9 false []) = Ok t' /\ valid deep_tree [0; 1].
Proof. eexists. split; [reflexivity | discriminate]. Qed.
Print Assumptions C16_replace_nonvacuous.

(* the cached replace_path computes the structural one *)
Theorem C16_replace_erase : forall p t r o,
  match c_replace t p r o with
  | Ok t' => replace_path (erase t) p (erase r) = Ok (erase t')
  | Raise e => replace_path (erase t) p (erase r) = Raise e
  end.
Proof. exact c_replace_erase. Qed.
Print Assumptions C16_replace_erase.

(* ---- identity: structural hash (Python's hash on str / tuple abstract: any functions) ---- *)
Theorem C16_shash_congr : forall (H : Type) (hash_str : str -> H) (hash_tup : str -> list H -> H) t u,
  structurally_equal t u = true -> shash H hash_str hash_tup t = shash H hash_str hash_tup u.
Proof. exact shash_congr. Qed.
Print Assumptions C16_shash_congr.

Example C16_shash_nonvacuous :
  structurally_equal deep_tree deep_tree = true.
Proof. exact (structurally_equal_refl deep_tree). Qed.
Print Assumptions C16_shash_nonvacuous.

(* ---- trie ---- *)
Theorem C16_key_roundtrip : forall p, trie_key_to_path (path_to_trie_key p) = Ok p.
Proof. exact key_roundtrip. Qed.
Print Assumptions C16_key_roundtrip.

(* a path is storable in the datrie exactly when all its child indices are below 28 *)
Theorem C16_key_storable : forall p, alphabet_ok (path_to_trie_key p) = forallb (fun i => i <? 28) p.
Proof. exact alphabet_ok_key. Qed.
Print Assumptions C16_key_storable.

(* what tree.trie() stores, for EVERY tree: exactly the storable (path, subtree) pairs, document order *)
Theorem C16_trie_contents : forall t, st_trie (trie_of t) = map entry (filter storable (nodes t)).
Proof. exact trie_contents. Qed.
Print Assumptions C16_trie_contents.

(* FULL STATEMENT trie_view: forall t q s, shape_ok t -> subtree t q = Some s ->
     st_items fixed (get_subtrie (trie_of t) q) = Ok (map (fun pt => (fst pt, pt)) (nodes s))
   and st_keys (trie_of t) = map fst (nodes t).
   REFUTED on the faithful model for trees with a node of more than 28 children (class K_wide).
   PROVED under the guard K_wide t = false, both halves: C16_trie_view_partial (below, proof
   extension Tree/TrieMore.v: prefix filtering of [nodes t] = [nodes s] with relative paths
   (below_nodes), lookup by the injective key); root view also as C16_trie_keys_partial,
   C16_root_items, C16_root_values. *)
Theorem C16_trie_keys_partial : forall t, K_wide t = false -> st_keys (trie_of t) = map fst (nodes t).
Proof. exact trie_keys_partial. Qed.
Print Assumptions C16_trie_keys_partial.

Example C16_trie_keys_nonvacuous :
  K_wide deep_tree = false /\ K_wide (wide_tree 28) = false /\ K_wide (wide_tree 29) = true.
Proof. exact trie_keys_nonvacuous. Qed.
Print Assumptions C16_trie_keys_nonvacuous.

Theorem C16_trie_view_refuted :
  exists t, max_degree t = 29 /\ st_keys (trie_of t) <> map fst (nodes t).
Proof. exact trie_view_refuted. Qed.
Print Assumptions C16_trie_view_refuted.

Theorem C16_trie_getitem_refuted :
  exists t p s, subtree t p = Some s /\ st_getitem (trie_of t) p = Raise KeyErr.
Proof. exact trie_getitem_refuted. Qed.
Print Assumptions C16_trie_getitem_refuted.

(* trie_view under the guard, exactly the full statement above (no shape_ok needed) *)
Theorem C16_trie_view_partial : forall t, K_wide t = false ->
  (forall q s, subtree t q = Some s ->
     st_items true (get_subtrie (trie_of t) q) = Ok (map (fun pt => (fst pt, pt)) (nodes s)))
  /\ st_keys (trie_of t) = map fst (nodes t).
Proof. exact trie_view_partial. Qed.
Print Assumptions C16_trie_view_partial.

(* every sub-view, every path q (sub_nodes t q = nodes of subtree t q, or [] when q is not a path of
   t), both variants of the value-path slice: items / values / keys carry paths RELATIVE to q, in
   pre-order - this is the quantifier domain the evaluator iterates over *)
Theorem C16_sub_items : forall fixed t q, K_wide t = false ->
  st_items fixed (get_subtrie (trie_of t) q) = Ok (map (fun pt => (fst pt, pt)) (sub_nodes t q)).
Proof. exact sub_items. Qed.
Print Assumptions C16_sub_items.

Theorem C16_sub_values : forall fixed t q, K_wide t = false ->
  st_values fixed (get_subtrie (trie_of t) q) = Ok (sub_nodes t q).
Proof. exact sub_values. Qed.
Print Assumptions C16_sub_values.

Theorem C16_sub_keys : forall t q, K_wide t = false ->
  st_keys (get_subtrie (trie_of t) q) = map fst (sub_nodes t q).
Proof. exact sub_keys. Qed.
Print Assumptions C16_sub_keys.

(* the list fact behind it, for EVERY tree: the nodes below q, made relative, are the nodes of the subtree *)
Theorem C16_below_nodes : forall q t,
  below q (nodes t) = match subtree t q with Some s => nodes s | None => [] end.
Proof. exact below_nodes. Qed.
Print Assumptions C16_below_nodes.

(* trie()[p] under the guard (unguarded: C16_trie_getitem_refuted) *)
Theorem C16_trie_getitem_partial : forall t p, K_wide t = false ->
  st_getitem (trie_of t) p = match subtree t p with Some s => Ok (p, s) | None => Raise KeyErr end.
Proof. exact trie_getitem_view. Qed.
Print Assumptions C16_trie_getitem_partial.

Example C16_sub_view_nonvacuous :
  K_wide deep_tree = false /\ exists s, subtree deep_tree [0] = Some s /\ length (nodes s) = 4.
Proof. exact sub_items_nonvacuous. Qed.
Print Assumptions C16_sub_view_nonvacuous.

(* root view of the current code (repaired by /repo commit 0065353, model variant fixed = true):
   items() / values() of tree.trie() list every node with its FULL path (guard: no node with more than
   28 children, class K_wide) *)
Theorem C16_root_items : forall t, K_wide t = false ->
  st_items true (trie_of t) = Ok (map (fun pt => (fst pt, pt)) (nodes t)).
Proof. exact root_items_repaired. Qed.
Print Assumptions C16_root_items.

Theorem C16_root_values : forall t, K_wide t = false -> st_values true (trie_of t) = Ok (nodes t).
Proof. exact root_values_repaired. Qed.
Print Assumptions C16_root_values.

(* HISTORY of the fixed defect trie-root-items (class K_rootitems): the code BEFORE the fix
   (model variant fixed = false) cut root-view value paths to their last index.  Not a statement about
   the current code; the witness is replayed on the implementation as a corpus case that must pass. *)
Theorem C16_root_items_defect_history :
  exists t, max_degree t <= 28 /\
            st_items false (trie_of t) <> Ok (map (fun pt => (fst pt, pt)) (nodes t)).
Proof. exact root_items_defect_history. Qed.
Print Assumptions C16_root_items_defect_history.

Example C16_trie_view_witness :
  st_items true (trie_of deep_tree) = Ok (map (fun pt => (fst pt, pt)) (nodes deep_tree)).
Proof. exact root_items_fixed_witness. Qed.
Print Assumptions C16_trie_view_witness.
