(* C19 — The isla command line honours its exit-code and output contract.
   Only statements + `exact`; proofs are in Solver/CliFacts.v.  Model: Solver/Cli.v
   (`run O fx a`: outcome of one invocation `a`, the library behind the CLI given as `O`,
   `fx` = which of the two proposed repairs of get_input_string are present; `pinned` = none). *)
From ISLA Require Import Cli CliFacts.

(* ---- classification of FILES by suffix (ensure_*_present, get_input_string) ---- *)
Theorem C19_ends_with : forall s suf, ends_with s suf = true <-> exists pre, s = pre ++ suf.
Proof. exact ends_with_spec. Qed.
Print Assumptions C19_ends_with.

Theorem C19_file_classes_partition : forall n,
  (is_grammar_name n = true /\ is_constraint_name n = false /\ is_input_name n = false) \/
  (is_grammar_name n = false /\ is_constraint_name n = true /\ is_input_name n = false) \/
  (is_grammar_name n = false /\ is_constraint_name n = false /\ is_input_name n = true).
Proof. exact file_classes_partition. Qed.
Print Assumptions C19_file_classes_partition.

(* ---- check exits 0 exactly when the input is in the grammar and satisfies all constraints ----
   `accepted`: the common front part succeeds with grammar g, the input has a tree t (a JSON tree valid
   for g, or the text parses), and EVERY constraint given by -c or by an .isla file parses and holds for t.
   Premises: ISLaSolver.check answers True exactly for Sat (C03), Sat of true() and of `&` (conjunction). *)
Theorem C19_check_exit0 :
  forall (G F T : Type) (O : oracles G F T) (fx : fixes) (Sat : gram G -> F -> T -> Prop),
  (forall g f t, check_api O g f t = ChkTrue <-> Sat g f t) ->
  (forall g t, Sat g (ftrue O) t) ->
  (forall g f1 f2 t, Sat g (fand O f1 f2) t <-> Sat g f1 t /\ Sat g f2 t) ->
  forall a, a_cmd a = Check -> (o_exit (run O fx a) = Exit 0 <-> accepted G F T O fx Sat a).
Proof. exact check_exit0. Qed.
Print Assumptions C19_check_exit0.

(* ... and exits 1 with exactly one verdict line otherwise (files in order, evaluator decides) *)
Theorem C19_check_exit1 :
  forall (G F T : Type) (O : oracles G F T) (fx : fixes) (Sat : gram G -> F -> T -> Prop),
  (forall g f t, check_api O g f t = ChkTrue <-> Sat g f t) ->
  (forall g t, Sat g (ftrue O) t) ->
  (forall g f1 f2 t, Sat g (fand O f1 f2) t <-> Sat g f1 t /\ Sat g f2 t) ->
  forall a d g f r, a_cmd a = Check ->
    front O a = Cont (d, g, f) -> get_input O fx a d g f = Cont r ->
    (forall t, r = InTree t -> check_api O g f t = ChkTrue \/ check_api O g f t = ChkFalse) ->
    ~ accepted G F T O fx Sat a ->
    run O fx a = Outcome (Exit 1) [match r with InFail => MsgNoParse | InTree _ => MsgNotSat end] SeNone.
Proof. exact check_exit1. Qed.
Print Assumptions C19_check_exit1.

Example C19_check_nonvacuous :
  (forall g f t, check_api O0 g f t = ChkTrue <-> Sat0 g f t) /\
  (forall g t, Sat0 g (ftrue O0) t) /\
  (forall g f1 f2 t, Sat0 g (fand O0 f1 f2) t <-> Sat0 g f1 t /\ Sat0 g f2 t).
Proof. exact toy_laws. Qed.
Print Assumptions C19_check_nonvacuous.

Example C19_check_example :
  run O0 pinned (mk Check [f_g; f_c; f_in [97; 10]%N]) = Outcome (Exit 0) [MsgSat] SeNone /\
  run O0 pinned (mk Check [f_g; f_c; f_cf; f_in [97; 10]%N]) = Outcome (Exit 1) [MsgNotSat] SeNone /\
  run O0 pinned (mk Check [f_g; f_c; f_in [98; 10]%N]) = Outcome (Exit 1) [MsgNoParse] SeNone.
Proof. exact check_accepts_example. Qed.
Print Assumptions C19_check_example.

(* ---- malformed grammar / constraint: exit code 65 and a message, for all five commands ---- *)
Theorem C19_malformed_grammar_65 :
  forall (G F T : Type) (O : oracles G F T) (fx : fixes) a,
  preconditions a -> malformed_grammar G F T O a -> run O fx a = format_error.
Proof. exact malformed_grammar_65. Qed.
Print Assumptions C19_malformed_grammar_65.

Example C19_malformed_grammar_nonvacuous :
  preconditions (mk Check [File [103; 46; 98; 110; 102]%N (Text []); f_c; f_in [97; 10]%N]) /\
  malformed_grammar _ _ _ O0 (mk Check [File [103; 46; 98; 110; 102]%N (Text []); f_c; f_in [97; 10]%N]).
Proof. exact preconditions_example. Qed.
Print Assumptions C19_malformed_grammar_nonvacuous.

Theorem C19_malformed_constraint_65 :
  forall (G F T : Type) (O : oracles G F T) a d g,
  parse_constraint O a d g = Stop format_error <->
  exists c, In c (constraint_sources a d) /\ isla O g c = None.
Proof. exact malformed_constraint_65. Qed.
Print Assumptions C19_malformed_constraint_65.

Theorem C19_malformed_constraint_run_65 :
  forall (G F T : Type) (O : oracles G F T) (fx : fixes) a g c,
  preconditions a -> grammar_present a (dict_of a) = true ->
  parse_grammar O a (dict_of a) = Cont g -> read_predicates O (dict_of a) = Cont tt ->
  In c (constraint_sources a (dict_of a)) -> isla O g c = None ->
  run O fx a = format_error.
Proof. exact malformed_constraint_run_65. Qed.
Print Assumptions C19_malformed_constraint_run_65.

(* ---- missing grammar / constraint / input / file: exit code 2 ---- *)
Theorem C19_unopenable_file_2 :
  forall (G F T : Type) (O : oracles G F T) (fx : fixes) a f,
  In f (a_files a) -> fstate f = Unopenable -> run O fx a = usage_error.
Proof. exact unopenable_file_2. Qed.
Print Assumptions C19_unopenable_file_2.

Theorem C19_missing_grammar_2 :
  forall (G F T : Type) (O : oracles G F T) (fx : fixes) a,
  readable a -> truthy (a_grammar a) = None ->
  (forall n c, In (n, c) (dict_of a) -> is_grammar_name n = false) ->
  run O fx a = usage_error.
Proof. exact missing_grammar_2. Qed.
Print Assumptions C19_missing_grammar_2.

Theorem C19_missing_constraint_2 :
  forall (G F T : Type) (O : oracles G F T) (fx : fixes) a,
  readable a -> grammar_present a (dict_of a) = true -> a_cmd a <> Solve ->
  a_constraints a = [] -> (forall n c, In (n, c) (dict_of a) -> is_constraint_name n = false) ->
  run O fx a = usage_error.
Proof. exact missing_constraint_2. Qed.
Print Assumptions C19_missing_constraint_2.

Theorem C19_missing_input_2 :
  forall (G F T : Type) (O : oracles G F T) (fx : fixes) a d g f,
  a_cmd a <> Solve -> front O a = Cont (d, g, f) ->
  truthy (a_input a) = None -> length (names_with is_input_name d) <> 1 ->
  run O fx a = usage_error.
Proof. exact missing_input_2. Qed.
Print Assumptions C19_missing_input_2.

(* ---- no uncaught traceback ----
   FULL STATEMENT (false on the pinned tree, and false even with both repairs):
       forall O fx a e, o_exit (run O fx a) <> Traceback e.
   Refuted by an EMPTY input file, by an input that is JSON but not a tree, by an evaluator
   that answers "unknown".  Further recorded classes (model + correspondence, no separate theorem):
   K_undecodable, K_pyext_raises, K_api_raises, K_solver_init, K_outfile (Solver/Cli.v). *)
Theorem C19_no_traceback_refuted_empty :
  exists a, run O0 pinned a = traceback IndexErr /\ K_empty_input pinned a = true /\
            run O0 repaired a = Outcome (Exit 1) [MsgNoParse] SeNone.
Proof. exact no_traceback_refuted_empty. Qed.
Print Assumptions C19_no_traceback_refuted_empty.

Theorem C19_no_traceback_refuted_json :
  exists a, run O0 pinned a = traceback TypeErr /\ K_json_nontree _ _ _ O0 pinned a = true /\
            run O0 repaired a = Outcome (Exit 1) [MsgNoParse] SeNone.
Proof. exact no_traceback_refuted_json. Qed.
Print Assumptions C19_no_traceback_refuted_json.

Theorem C19_no_traceback_refuted_unknown :
  exists (O : oracles unit bool str) a,
    run O repaired a = traceback OtherErr /\ K_check_raises _ _ _ O repaired a = true.
Proof. exact no_traceback_refuted_unknown. Qed.
Print Assumptions C19_no_traceback_refuted_unknown.

(* what holds — check: files in order, an input text, JSON stage harmless (or repaired), evaluator
   decides  =>  exit 0 or 1, one verdict line, empty stderr.
   MISSING for the full statement: the guard of the whole pipeline as one boolean (`tb_guard` in Cli.v is
   defined and used by the correspondence check, the theorem `tb_guard a = true -> no traceback` for all
   five commands is stated here but not proved). *)
Theorem C19_check_no_traceback_partial :
  forall (G F T : Type) (O : oracles G F T) (fx : fixes) a d g f s,
  a_cmd a = Check -> front O a = Cont (d, g, f) -> input_text fx a d = Cont s ->
  (fx_json fx = true \/ forall e, json_in O g s <> JRaise e) ->
  (forall t, check_api O g f t = ChkTrue \/ check_api O g f t = ChkFalse) ->
  exists code msg, run O fx a = Outcome (Exit code) [msg] SeNone /\ (code = 0%Z \/ code = 1%Z).
Proof. exact check_no_traceback_partial. Qed.
Print Assumptions C19_check_no_traceback_partial.

(* solve: once the solver object exists, no exception of solve() escapes the loop *)
Theorem C19_solve_no_traceback_partial :
  forall (G F T : Type) (O : oracles G F T) (fx : fixes) a d g f,
  a_cmd a = Solve -> front O a = Cont (d, g, f) -> solver_init O g f = None ->
  forall e, o_exit (run O fx a) <> Traceback e.
Proof. exact solve_no_traceback_partial. Qed.
Print Assumptions C19_solve_no_traceback_partial.

(* a stage that ends the process never does so with exit code 0 *)
Theorem C19_front_never_exits_0 :
  forall (G F T : Type) (O : oracles G F T) a o, front O a = Stop o -> o_exit o <> Exit 0.
Proof. intros G F T O a o H. exact (stop_ok_not_0 o (front_stop_ok G F T O a o H)). Qed.
Print Assumptions C19_front_never_exits_0.

(* ---- solve prints exactly trees returned by the solver, in order ----
   (first half of "every input printed by solve is accepted by check"; the composition
      solve_then_check : In (Line l) (o_stdout (run O fx a)) -> l <> [] -> l not JSON ->
                         constraint present -> H_solve_sound (C01+C10) ->
                         run O fx (check_of a l) = Outcome (Exit 0) [MsgSat] SeNone
    is stated in design_notes/C19.md and checked on the implementation by the harness, NOT proved here:
    the lemma that `front` gives the same (d, g, f) for the check invocation is open.) *)
Theorem C19_solve_prints_solver_trees :
  forall (G F T : Type) (O : oracles G F T) a evs i acc,
  a_outdir a = DirNone ->
  exists ts, o_stdout (solve_loop O a evs i acc) = acc ++ map (fun t => Line (render O a t)) ts /\
             forall t, In t ts -> In (SolTree t) evs.
Proof. exact solve_loop_lines. Qed.
Print Assumptions C19_solve_prints_solver_trees.
