(* C19 — The isla command line honours its exit-code and output contract.
   Only statements + `exact`; proofs are in Solver/CliFacts.v and (proof extension) Solver/CliMore.v,
   Solver/CliCompose.v, Solver/CliGuard.v.  Model: Solver/Cli.v
   (`run O fx a`: outcome of one invocation `a`, the library behind the CLI given as `O`,
   `fx` = which of the two proposed repairs of get_input_string are present; `pinned` = none).

   STATUS
   full   : file classification; check exits 0 iff accepted / exits 1 otherwise; malformed grammar or
            constraint -> 65; missing file/grammar/constraint/input -> 2; front never exits 0;
            front depends only on -g, -c and the .bnf/.py/.isla FILES (C19_front_depends_only_on_spec);
            parse_then_check (C19_parse_then_check) and solve_then_check (C19_solve_then_check) under the
            explicit library hypotheses (evaluator = Sat, solver soundness, parser completeness on printed
            trees, JSON round trip);
            no traceback outside the recorded classes for ALL FIVE commands (C19_no_traceback_partial:
            tb_guard = true -> no uncaught exception), every class inhabited (C19_guard_classes_inhabited
            + the three _refuted witnesses).
   refuted: the unguarded `no traceback` statement (three witnesses); solve_then_check without the side
            condition "printed word is not read as JSON" on the tree without the get_input_string repair
            (C19_solve_then_check_refuted_json) and, with the repair, when the printed word is itself the
            JSON encoding of a derivation tree (C19_solve_then_check_refuted_jsontree); without a constraint check exits 2
            (C19_solve_without_constraint_check_2).
   partial: `no traceback` holds only under tb_guard (the eight K_ classes are recorded findings, two of them
            repaired by the `fixes` flags); solve_then_check needs a constraint source and, for plain output,
            that the printed word is not itself accepted as a JSON derivation tree. *)
From ISLA Require Import Cli CliFacts CliMore CliCompose CliGuard.

(* ---- classification of FILES by suffix (ensure_*_present, get_input_string) ---- *)
Theorem C19_ends_with : forall s suf, ends_with s suf = true <-> exists pre, s = pre ++ suf.
Proof. exact ends_with_spec. Qed.
Print Assumptions C19_ends_with.

Theorem C19_file_classes_partition : forall n,
  (is_grammar_name n = true /\ is_constraint_name n = false /\ is_input_name n = false) \/
  (is_grammar_name n = false /\ is_constraint_name n = true /\ is_input_name n = false) \/
  (is_grammar_name n = false /\ is_constraint_name n = false /\ is_input_name n = true).
Proof. exact file_classes_partition. Qed.
Print Assumptions C19_file_classes_partition.

(* ---- check exits 0 exactly when the input is in the grammar and satisfies all constraints ----
   `accepted`: the common front part succeeds with grammar g, the input has a tree t (a JSON tree valid
   for g, or the text parses), and EVERY constraint given by -c or by an .isla file parses and holds for t.
   Premises: ISLaSolver.check answers True exactly for Sat (C03), Sat of true() and of `&` (conjunction). *)
Theorem C19_check_exit0 :
  forall (G F T : Type) (O : oracles G F T) (fx : fixes) (Sat : gram G -> F -> T -> Prop),
  (forall g f t, check_api O g f t = ChkTrue <-> Sat g f t) ->
  (forall g t, Sat g (ftrue O) t) ->
  (forall g f1 f2 t, Sat g (fand O f1 f2) t <-> Sat g f1 t /\ Sat g f2 t) ->
  forall a, a_cmd a = Check -> (o_exit (run O fx a) = Exit 0 <-> accepted G F T O fx Sat a).
Proof. exact check_exit0. Qed.
Print Assumptions C19_check_exit0.

(* ... and exits 1 with exactly one verdict line otherwise (files in order, evaluator decides) *)
Theorem C19_check_exit1 :
  forall (G F T : Type) (O : oracles G F T) (fx : fixes) (Sat : gram G -> F -> T -> Prop),
  (forall g f t, check_api O g f t = ChkTrue <-> Sat g f t) ->
  (forall g t, Sat g (ftrue O) t) ->
  (forall g f1 f2 t, Sat g (fand O f1 f2) t <-> Sat g f1 t /\ Sat g f2 t) ->
  forall a d g f r, a_cmd a = Check ->
    front O a = Cont (d, g, f) -> get_input O fx a d g f = Cont r ->
    (forall t, r = InTree t -> check_api O g f t = ChkTrue \/ check_api O g f t = ChkFalse) ->
    ~ accepted G F T O fx Sat a ->
    run O fx a = Outcome (Exit 1) [match r with InFail => MsgNoParse | InTree _ => MsgNotSat end] SeNone.
Proof. exact check_exit1. Qed.
Print Assumptions C19_check_exit1.

Example C19_check_nonvacuous :
  (forall g f t, check_api O0 g f t = ChkTrue <-> Sat0 g f t) /\
  (forall g t, Sat0 g (ftrue O0) t) /\
  (forall g f1 f2 t, Sat0 g (fand O0 f1 f2) t <-> Sat0 g f1 t /\ Sat0 g f2 t).
Proof. exact toy_laws. Qed.
Print Assumptions C19_check_nonvacuous.

Example C19_check_example :
  run O0 pinned (mk Check [f_g; f_c; f_in [97; 10]%N]) = Outcome (Exit 0) [MsgSat] SeNone /\
  run O0 pinned (mk Check [f_g; f_c; f_cf; f_in [97; 10]%N]) = Outcome (Exit 1) [MsgNotSat] SeNone /\
  run O0 pinned (mk Check [f_g; f_c; f_in [98; 10]%N]) = Outcome (Exit 1) [MsgNoParse] SeNone.
Proof. exact check_accepts_example. Qed.
Print Assumptions C19_check_example.

(* ---- malformed grammar / constraint: exit code 65 and a message, for all five commands ---- *)
Theorem C19_malformed_grammar_65 :
  forall (G F T : Type) (O : oracles G F T) (fx : fixes) a,
  preconditions a -> malformed_grammar G F T O a -> run O fx a = format_error.
Proof. exact malformed_grammar_65. Qed.
Print Assumptions C19_malformed_grammar_65.

Example C19_malformed_grammar_nonvacuous :
  preconditions (mk Check [File [103; 46; 98; 110; 102]%N (Text []); f_c; f_in [97; 10]%N]) /\
  malformed_grammar _ _ _ O0 (mk Check [File [103; 46; 98; 110; 102]%N (Text []); f_c; f_in [97; 10]%N]).
Proof. exact preconditions_example. Qed.
Print Assumptions C19_malformed_grammar_nonvacuous.

Theorem C19_malformed_constraint_65 :
  forall (G F T : Type) (O : oracles G F T) a d g,
  parse_constraint O a d g = Stop format_error <->
  exists c, In c (constraint_sources a d) /\ isla O g c = None.
Proof. exact malformed_constraint_65. Qed.
Print Assumptions C19_malformed_constraint_65.

Theorem C19_malformed_constraint_run_65 :
  forall (G F T : Type) (O : oracles G F T) (fx : fixes) a g c,
  preconditions a -> grammar_present a (dict_of a) = true ->
  parse_grammar O a (dict_of a) = Cont g -> read_predicates O (dict_of a) = Cont tt ->
  In c (constraint_sources a (dict_of a)) -> isla O g c = None ->
  run O fx a = format_error.
Proof. exact malformed_constraint_run_65. Qed.
Print Assumptions C19_malformed_constraint_run_65.

(* ---- missing grammar / constraint / input / file: exit code 2 ---- *)
Theorem C19_unopenable_file_2 :
  forall (G F T : Type) (O : oracles G F T) (fx : fixes) a f,
  In f (a_files a) -> fstate f = Unopenable -> run O fx a = usage_error.
Proof. exact unopenable_file_2. Qed.
Print Assumptions C19_unopenable_file_2.

Theorem C19_missing_grammar_2 :
  forall (G F T : Type) (O : oracles G F T) (fx : fixes) a,
  readable a -> truthy (a_grammar a) = None ->
  (forall n c, In (n, c) (dict_of a) -> is_grammar_name n = false) ->
  run O fx a = usage_error.
Proof. exact missing_grammar_2. Qed.
Print Assumptions C19_missing_grammar_2.

Theorem C19_missing_constraint_2 :
  forall (G F T : Type) (O : oracles G F T) (fx : fixes) a,
  readable a -> grammar_present a (dict_of a) = true -> a_cmd a <> Solve ->
  a_constraints a = [] -> (forall n c, In (n, c) (dict_of a) -> is_constraint_name n = false) ->
  run O fx a = usage_error.
Proof. exact missing_constraint_2. Qed.
Print Assumptions C19_missing_constraint_2.

Theorem C19_missing_input_2 :
  forall (G F T : Type) (O : oracles G F T) (fx : fixes) a d g f,
  a_cmd a <> Solve -> front O a = Cont (d, g, f) ->
  truthy (a_input a) = None -> length (names_with is_input_name d) <> 1 ->
  run O fx a = usage_error.
Proof. exact missing_input_2. Qed.
Print Assumptions C19_missing_input_2.

(* ---- no uncaught traceback ----
   FULL STATEMENT (false on the pinned tree, and false even with both repairs):
       forall O fx a e, o_exit (run O fx a) <> Traceback e.
   Refuted by an EMPTY input file, by an input that is JSON but not a tree, by an evaluator
   that answers "unknown".  Further recorded classes (model + correspondence, no separate theorem):
   K_undecodable, K_pyext_raises, K_api_raises, K_solver_init, K_outfile (Solver/Cli.v). *)
Theorem C19_no_traceback_refuted_empty :
  exists a, run O0 pinned a = traceback IndexErr /\ K_empty_input pinned a = true /\
            run O0 repaired a = Outcome (Exit 1) [MsgNoParse] SeNone.
Proof. exact no_traceback_refuted_empty. Qed.
Print Assumptions C19_no_traceback_refuted_empty.

Theorem C19_no_traceback_refuted_json :
  exists a, run O0 pinned a = traceback TypeErr /\ K_json_nontree _ _ _ O0 pinned a = true /\
            run O0 repaired a = Outcome (Exit 1) [MsgNoParse] SeNone.
Proof. exact no_traceback_refuted_json. Qed.
Print Assumptions C19_no_traceback_refuted_json.

Theorem C19_no_traceback_refuted_unknown :
  exists (O : oracles unit bool str) a,
    run O repaired a = traceback OtherErr /\ K_check_raises _ _ _ O repaired a = true.
Proof. exact no_traceback_refuted_unknown. Qed.
Print Assumptions C19_no_traceback_refuted_unknown.

(* what holds — check: files in order, an input text, JSON stage harmless (or repaired), evaluator
   decides  =>  exit 0 or 1, one verdict line, empty stderr.
   The guard of the whole pipeline as one boolean (`tb_guard` in Cli.v, also used by the correspondence
   check) and the all-commands theorem are below: C19_no_traceback_partial. *)
Theorem C19_check_no_traceback_partial :
  forall (G F T : Type) (O : oracles G F T) (fx : fixes) a d g f s,
  a_cmd a = Check -> front O a = Cont (d, g, f) -> input_text fx a d = Cont s ->
  (fx_json fx = true \/ forall e, json_in O g s <> JRaise e) ->
  (forall t, check_api O g f t = ChkTrue \/ check_api O g f t = ChkFalse) ->
  exists code msg, run O fx a = Outcome (Exit code) [msg] SeNone /\ (code = 0%Z \/ code = 1%Z).
Proof. exact check_no_traceback_partial. Qed.
Print Assumptions C19_check_no_traceback_partial.

(* solve: once the solver object exists, no exception of solve() escapes the loop *)
Theorem C19_solve_no_traceback_partial :
  forall (G F T : Type) (O : oracles G F T) (fx : fixes) a d g f,
  a_cmd a = Solve -> front O a = Cont (d, g, f) -> solver_init O g f = None ->
  forall e, o_exit (run O fx a) <> Traceback e.
Proof. exact solve_no_traceback_partial. Qed.
Print Assumptions C19_solve_no_traceback_partial.

(* a stage that ends the process never does so with exit code 0 *)
Theorem C19_front_never_exits_0 :
  forall (G F T : Type) (O : oracles G F T) a o, front O a = Stop o -> o_exit o <> Exit 0.
Proof. intros G F T O a o H. exact (stop_ok_not_0 o (front_stop_ok G F T O a o H)). Qed.
Print Assumptions C19_front_never_exits_0.

(* ---- solve prints exactly trees returned by the solver, in order ----
   (first half of "every input printed by solve is accepted by check"; the composition is
    C19_solve_then_check below) *)
Theorem C19_solve_prints_solver_trees :
  forall (G F T : Type) (O : oracles G F T) a evs i acc,
  a_outdir a = DirNone ->
  exists ts, o_stdout (solve_loop O a evs i acc) = acc ++ map (fun t => Line (render O a t)) ts /\
             forall t, In t ts -> In (SolTree t) evs.
Proof. exact solve_loop_lines. Qed.
Print Assumptions C19_solve_prints_solver_trees.

(* ================================================================== *)
(* Proof extension                                                      *)
(* ================================================================== *)

(* ---- front depends only on the grammar/constraint sources ----
   same_spec a a': same -g, same -c list, same .bnf/.py/.isla FILES in the same order (input files, command,
   -i, -n, -o ... may differ).  cmd_checks: the two command-specific usage checks (constraint required
   unless solve; solve -d must be a directory). *)
Theorem C19_front_depends_only_on_spec :
  forall (G F T : Type) (O : oracles G F T) a a' d g f,
  same_spec a a' -> readable a' -> cmd_checks a' (dict_of a') = false ->
  front O a = Cont (d, g, f) ->
  front O a' = Cont (dict_of a', g, f) /\ spec_dict (dict_of a') = spec_dict d.
Proof. exact front_depends_only_on_spec. Qed.
Print Assumptions C19_front_depends_only_on_spec.

(* the derived invocation `isla check [-g ..] [-c ..]... <spec FILES of a> <n>` where file n holds `l` + newline:
   same grammar, same constraint, and the input text read is exactly l (this was the open lemma) *)
Theorem C19_check_of_front :
  forall (G F T : Type) (O : oracles G F T) (fx : fixes) a n l d g f,
  front O a = Cont (d, g, f) -> constraint_present a d = true -> is_input_name n = true ->
  front O (check_of a n l) = Cont (dict_of (check_of a n l), g, f) /\
  input_text fx (check_of a n l) (dict_of (check_of a n l)) = Cont l.
Proof. exact check_of_front. Qed.
Print Assumptions C19_check_of_front.

(* ---- parse_then_check: the JSON tree emitted by `isla parse` is accepted by `isla check` ----
   Library hypotheses: evaluator answers True iff Sat (C03); Sat does not distinguish a tree from the same
   tree read back (Eqv, e.g. equality up to node ids); JSON round trip for trees of the grammar (C17 +
   tree_is_valid); what get_input_string returns is a tree of the grammar (assertion / parser soundness C10).
   Determinism of the parser/evaluator is built into the model: the oracles are functions. *)
Theorem C19_parse_then_check :
  forall (G F T : Type) (O : oracles G F T) (fx : fixes)
         (InLang : gram G -> T -> Prop) (Sat : gram G -> F -> T -> Prop) (Eqv : gram G -> T -> T -> Prop),
  (forall g f t, check_api O g f t = ChkTrue <-> Sat g f t) ->
  (forall g f t t', Eqv g t t' -> Sat g f t -> Sat g f t') ->
  (forall g p t, InLang g t -> exists t', json_in O g (to_json O p t) = JTree t' /\ Eqv g t t') ->
  (forall g s t, json_in O g s = JTree t -> InLang g t) ->
  (forall g f s t, parse_api O g f s = Some t -> InLang g t) ->
  forall a n l,
    a_cmd a = Parse -> In (Line l) (o_stdout (run O fx a)) -> is_input_name n = true ->
    run O fx (check_of a n l) = Outcome (Exit 0) [MsgSat] SeNone.
Proof. exact parse_then_check. Qed.
Print Assumptions C19_parse_then_check.

(* ---- solve_then_check: every input printed by `isla solve` makes `isla check` exit 0 ----
   Additional library hypotheses: solver soundness (every tree returned by solve() is a tree of the grammar
   and satisfies the constraint: C01/C02); parsing the printed tree gives the same tree again (C10).
   Side conditions (both necessary, see the two theorems after this one): a constraint source exists;
   for plain output the printed word is not itself read as JSON (`plain_text`: json stage answers "not JSON",
   or - with the repair of get_input_string - "JSON but not a tree").  With -T the JSON round trip is used. *)
Theorem C19_solve_then_check :
  forall (G F T : Type) (O : oracles G F T) (fx : fixes)
         (InLang : gram G -> T -> Prop) (Sat : gram G -> F -> T -> Prop) (Eqv : gram G -> T -> T -> Prop),
  (forall g f t, check_api O g f t = ChkTrue <-> Sat g f t) ->
  (forall g f t t', Eqv g t t' -> Sat g f t -> Sat g f t') ->
  (forall g p t, InLang g t -> exists t', json_in O g (to_json O p t) = JTree t' /\ Eqv g t t') ->
  (forall g f t, In (SolTree t) (solve_api O g f) -> InLang g t /\ Sat g f t) ->
  (forall g f t, InLang g t -> exists t', parse_api O g f (to_str O t) = Some t' /\ Eqv g t t') ->
  forall a n l,
    a_cmd a = Solve -> In (Line l) (o_stdout (run O fx a)) ->
    constraint_present a (dict_of a) = true -> is_input_name n = true ->
    (a_tree a = false -> forall d g f, front O a = Cont (d, g, f) -> plain_text G F T O fx g l) ->
    run O fx (check_of a n l) = Outcome (Exit 0) [MsgSat] SeNone.
Proof. exact solve_then_check. Qed.
Print Assumptions C19_solve_then_check.

(* without a constraint source solve runs, the derived check invocation ends with exit 2 *)
Theorem C19_solve_without_constraint_check_2 :
  forall (G F T : Type) (O : oracles G F T) (fx : fixes) a n l d g f,
  front O a = Cont (d, g, f) -> constraint_present a d = false -> is_input_name n = true ->
  run O fx (check_of a n l) = usage_error.
Proof. exact solve_without_constraint_check_2. Qed.
Print Assumptions C19_solve_without_constraint_check_2.

(* FULL STATEMENT without `plain_text` is false on the tree without the get_input_string repair: the toy
   library O1 satisfies every hypothesis (next Example), solve prints `1`, check crashes on it (K_json_nontree) *)
Theorem C19_solve_then_check_refuted_json :
  In (Line w_1) (o_stdout (run O1 pinned solve2)) /\
  run O1 pinned (check_of solve2 in_name w_1) = traceback TypeErr /\
  K_json_nontree _ _ _ O1 pinned (check_of solve2 in_name w_1) = true.
Proof. exact solve_then_check_refuted_json. Qed.
Print Assumptions C19_solve_then_check_refuted_json.

(* ... and even WITH the repair the residual side condition is necessary: all library hypotheses hold for the
   toy library O2, solve prints the word "[" which is at the same time the JSON encoding of another tree;
   check reads that tree and exits 1.  Reproduced on /repo (design_notes/C19.md, Proof extension). *)
Theorem C19_solve_then_check_refuted_jsontree :
  ((forall g f t, check_api O2 g f t = ChkTrue <-> Sat2 g f t) /\
   (forall g f t t', Eqv1 g t t' -> Sat2 g f t -> Sat2 g f t') /\
   (forall g p t, InLang2 g t -> exists t', json_in O2 g (to_json O2 p t) = JTree t' /\ Eqv1 g t t') /\
   (forall g f t, In (SolTree t) (solve_api O2 g f) -> InLang2 g t /\ Sat2 g f t) /\
   (forall g f t, InLang2 g t -> exists t', parse_api O2 g f (to_str O2 t) = Some t' /\ Eqv1 g t t')) /\
  o_stdout (run O2 repaired (mk Solve [f_g; f_c])) = [Line w_br] /\
  run O2 repaired (check_of (mk Solve [f_g; f_c]) in_name w_br) = Outcome (Exit 1) [MsgNotSat] SeNone.
Proof. exact solve_then_check_refuted_jsontree. Qed.
Print Assumptions C19_solve_then_check_refuted_jsontree.

Example C19_compose_nonvacuous :
  (forall g f t, check_api O1 g f t = ChkTrue <-> Sat0 g f t) /\
  (forall g f t t', Eqv1 g t t' -> Sat0 g f t -> Sat0 g f t') /\
  (forall g p t, InLang1 g t -> exists t', json_in O1 g (to_json O1 p t) = JTree t' /\ Eqv1 g t t') /\
  (forall g s t, json_in O1 g s = JTree t -> InLang1 g t) /\
  (forall g f s t, parse_api O1 g f s = Some t -> InLang1 g t) /\
  (forall g f t, In (SolTree t) (solve_api O1 g f) -> InLang1 g t /\ Sat0 g f t) /\
  (forall g f t, InLang1 g t -> exists t', parse_api O1 g f (to_str O1 t) = Some t' /\ Eqv1 g t t').
Proof. exact toy_compose_laws. Qed.
Print Assumptions C19_compose_nonvacuous.

Example C19_compose_example :
  o_stdout (run O1 repaired solve2) = [Line w_a; Line w_1] /\
  run O1 repaired (check_of solve2 in_name w_a) = Outcome (Exit 0) [MsgSat] SeNone /\
  run O1 repaired (check_of solve2 in_name w_1) = Outcome (Exit 0) [MsgSat] SeNone /\
  o_stdout (run O1 repaired solve2T) = [Line (123%N :: w_a); Line (123%N :: w_1)] /\
  run O1 repaired (check_of solve2T in_name (123%N :: w_a)) = Outcome (Exit 0) [MsgSat] SeNone /\
  run O1 repaired parse1 = Outcome (Exit 0) [Line (123%N :: w_a)] SeNone /\
  run O1 repaired (check_of parse1 in_name (123%N :: w_a)) = Outcome (Exit 0) [MsgSat] SeNone /\
  is_input_name in_name = true /\ constraint_present solve2 (dict_of solve2) = true.
Proof. exact compose_example. Qed.
Print Assumptions C19_compose_example.

(* ---- no uncaught traceback outside the recorded classes, ALL FIVE commands ----
   tb_guard O fx a = none of K_undecodable K_pyext_raises K_empty_input K_json_nontree K_check_raises
   K_api_raises K_solver_init K_outfile applies (Solver/Cli.v).  For every library O, every command line a. *)
Theorem C19_no_traceback_partial :
  forall (G F T : Type) (O : oracles G F T) (fx : fixes) a,
  tb_guard G F T O fx a = true -> forall e, o_exit (run O fx a) <> Traceback e.
Proof. exact tb_guard_no_traceback. Qed.
Print Assumptions C19_no_traceback_partial.

(* the form used by the correspondence check: every traceback of the model has a class number <> 0 *)
Theorem C19_traceback_has_class :
  forall (G F T : Type) (O : oracles G F T) (fx : fixes) a e,
  o_exit (run O fx a) = Traceback e -> kclass G F T O fx a <> 0.
Proof. exact traceback_has_class. Qed.
Print Assumptions C19_traceback_has_class.

Example C19_tb_guard_nonvacuous :
  tb_guard _ _ _ O0 pinned (mk Solve [f_g; f_c]) = true /\
  tb_guard _ _ _ O0 pinned (mk Check [f_g; f_c; f_in [97; 10]%N]) = true /\
  tb_guard _ _ _ O0 pinned (mk Parse [f_g; f_c; f_in [97; 10]%N]) = true /\
  tb_guard _ _ _ O0 pinned (mk Repair [f_g; f_c; f_in [97; 10]%N]) = true /\
  tb_guard _ _ _ O0 pinned (mk Mutate [f_g; f_c; f_in [97; 10]%N]) = true /\
  run O0 pinned (mk Parse [f_g; f_c; f_in [97; 10]%N]) = Outcome (Exit 0) [Line [97]%N] SeNone /\
  run O0 pinned (mk Repair [f_g; f_c; f_in [97; 10]%N]) = Outcome (Exit 0) [Line [97]%N] SeNone /\
  run O0 pinned (mk Mutate [f_g; f_c; f_in [98; 10]%N]) = Outcome (Exit 1) [] SeNoParse.
Proof. exact tb_guard_nonvacuous. Qed.
Print Assumptions C19_tb_guard_nonvacuous.

(* no conjunct of the guard can be dropped: the five classes without a `_refuted` theorem above are
   inhabited by tracebacks of the model too (undecodable file; -g plus raising .py file; repair/mutate
   raising; solver construction raising; -o not writable) *)
Theorem C19_guard_classes_inhabited :
  (let a := mk Check [f_g; f_c; File [105; 110]%N Undecodable] in
   run O0 repaired a = traceback OtherErr /\ K_undecodable a = true) /\
  (let O := Ovar (fun _ => PyExn ValueErr) None RepFail (Raise ValueErr) in
   let a := Args Check (Some [120]%N) [] None [f_py; f_c; in_a] 1%Z false false WvOk DirNone OutNone in
   run O repaired a = traceback ValueErr /\ K_pyext_raises _ _ _ O a = true) /\
  (let O := Ovar (pyext O0) None (RepExn ValueErr) (Raise TypeErr) in
   run O repaired (mk Repair [f_g; f_c; in_a]) = traceback ValueErr /\
   K_api_raises _ _ _ O repaired (mk Repair [f_g; f_c; in_a]) = true /\
   run O repaired (mk Mutate [f_g; f_c; in_a]) = traceback TypeErr /\
   K_api_raises _ _ _ O repaired (mk Mutate [f_g; f_c; in_a]) = true) /\
  (let O := Ovar (pyext O0) (Some AssertErr) RepFail (Raise ValueErr) in
   run O repaired (mk Solve [f_g; f_c]) = traceback AssertErr /\
   K_solver_init _ _ _ O (mk Solve [f_g; f_c]) = true) /\
  (let a := Args Parse None [] None [f_g; f_c; in_a] 1%Z false false WvOk DirNone OutBad in
   run O0 repaired a = traceback OtherErr /\ K_outfile a = true).
Proof. exact guard_classes_inhabited. Qed.
Print Assumptions C19_guard_classes_inhabited.
