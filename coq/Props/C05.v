(* C05 — Ground SMT-LIB atoms are judged exactly as Z3 judges them.
   Only statements + `exact`; proofs are in Smt/RegexFacts.v and Smt/PyFastFacts.v.
   Spec model: Smt/SmtSem.v (SMT-LIB semantics, validated against the real Z3 by the check).
   Code model: Smt/PyFast.v + Smt/PyRe.v (isla/z3_helpers.py as written).  Classes: Smt/SmtClasses.v.

   FULL STATEMENT (false for the pinned code, see the _refuted theorems):
     forall e b, smt_denote e = Some b -> is_valid false z3 e = Val (of_bool b)
   and  forall e, smt_denote e = None (value not fixed) -> is_valid false z3 e = Val FF   (never raises).
   PROVED (_partial): the statement under the guard agree_class e = true, which excludes exactly the
   classes K_noimpl K_comp K_lit_enc K_mod_neg K_zero_div K_at_range K_substr_neg K_to_code_len
   K_to_int_signed K_loop_shape K_range_shape K_newline_subject K_tore_backslash (each refuted below by a
   minimal witness) and X_to_int_nonnum (excluded by the property itself).
   NOT PROVED (stated in design_notes/C05.md): the same for PyFast.evaluate_atom (translation/closure
   phases of evaluate_smt_formula) and the fx = true variant with a sound Z3 fall-back; both are tied by the
   correspondence only. *)
From ISLA Require Import Str Outcome Regex RegexFacts SmtAst SmtSem PyRe PyFast SmtClasses PyFastFacts.

(* the regex matcher used by the spec model decides the declarative language semantics *)
Theorem C05_regex_matcher : forall s r, rmatch r s = true <-> lang r s.
Proof. exact rmatch_spec. Qed.
Print Assumptions C05_regex_matcher.

Theorem C05_fast_agrees_partial : forall (fx : bool) (z3_valid : expr -> tv) e b,
  agree_class e = true -> smt_denote e = Some b -> is_valid fx z3_valid e = Val (of_bool b).
Proof. exact fast_agrees. Qed.
Print Assumptions C05_fast_agrees_partial.

Example C05_fast_agrees_nonvacuous : agree_class w_ok = true /\ smt_denote w_ok = Some true.
Proof. exact fast_agrees_nonvacuous. Qed.
Print Assumptions C05_fast_agrees_nonvacuous.

Example C05_fast_agrees_nonvacuous2 : agree_class w_ok2 = true /\ smt_denote w_ok2 = Some true.
Proof. exact fast_agrees_nonvacuous2. Qed.
Print Assumptions C05_fast_agrees_nonvacuous2.

(* every intermediate value (ints, strings, regex languages on newline-free strings) is right, too *)
Theorem C05_fast_value_agrees_partial : forall (fx : bool) e v,
  agree_class e = true -> denote e = Some v -> exists p, py_eval fx e = Val p /\ vrel v p.
Proof. exact fast_value_agrees. Qed.
Print Assumptions C05_fast_value_agrees_partial.

(* one refutation per divergence class: first_class w = K /\ the pinned code's verdict differs / raises *)
Theorem C05_K_noimpl_refuted : diverges K_noimpl w_noimpl.
Proof. exact K_noimpl_refuted. Qed.
Print Assumptions C05_K_noimpl_refuted.
Theorem C05_K_comp_refuted : diverges K_comp w_comp.
Proof. exact K_comp_refuted. Qed.
Print Assumptions C05_K_comp_refuted.
Theorem C05_K_lit_enc_refuted : diverges K_lit_enc w_lit_enc.
Proof. exact K_lit_enc_refuted. Qed.
Print Assumptions C05_K_lit_enc_refuted.
Theorem C05_K_mod_neg_refuted : diverges K_mod_neg w_mod_neg.
Proof. exact K_mod_neg_refuted. Qed.
Print Assumptions C05_K_mod_neg_refuted.
Theorem C05_K_zero_div_refuted :
  first_class w_zero = K_zero_div /\ smt_denote w_zero = None /\
  is_valid false (fun _ => UU) w_zero = Exn ZeroDivErr.
Proof. exact K_zero_div_refuted. Qed.
Print Assumptions C05_K_zero_div_refuted.
Theorem C05_K_at_range_refuted : diverges K_at_range w_at_range.
Proof. exact K_at_range_refuted. Qed.
Print Assumptions C05_K_at_range_refuted.
Theorem C05_K_substr_neg_refuted : diverges K_substr_neg w_substr_neg.
Proof. exact K_substr_neg_refuted. Qed.
Print Assumptions C05_K_substr_neg_refuted.
Theorem C05_K_to_code_len_refuted : diverges K_to_code_len w_to_code.
Proof. exact K_to_code_len_refuted. Qed.
Print Assumptions C05_K_to_code_len_refuted.
Theorem C05_K_to_int_signed_refuted : diverges K_to_int_signed w_to_int.
Proof. exact K_to_int_signed_refuted. Qed.
Print Assumptions C05_K_to_int_signed_refuted.
Theorem C05_K_loop_shape_refuted : diverges K_loop_shape w_loop.
Proof. exact K_loop_shape_refuted. Qed.
Print Assumptions C05_K_loop_shape_refuted.
Theorem C05_K_range_shape_refuted : diverges K_range_shape w_range.
Proof. exact K_range_shape_refuted. Qed.
Print Assumptions C05_K_range_shape_refuted.
Theorem C05_K_newline_anchor_refuted : diverges K_newline_subject w_newline.
Proof. exact K_newline_subject_refuted. Qed.
Print Assumptions C05_K_newline_anchor_refuted.
Theorem C05_K_newline_all_refuted : diverges K_newline_subject w_allnl.
Proof. exact K_newline_all_refuted. Qed.
Print Assumptions C05_K_newline_all_refuted.
Theorem C05_K_tore_backslash_refuted : diverges K_tore_backslash w_tore.
Proof. exact K_tore_backslash_refuted. Qed.
Print Assumptions C05_K_tore_backslash_refuted.
