(* C05 — Ground SMT-LIB atoms are judged exactly as Z3 judges them.
   Only statements + `exact`; proofs are in Smt/RegexFacts.v, Smt/PyFastFacts.v and Smt/PyFastMore.v.
   Spec model: Smt/SmtSem.v (SMT-LIB semantics, validated against the real Z3 by the check).
   Code model: Smt/PyFast.v + Smt/PyRe.v (isla/z3_helpers.py as written), Smt/PyClosure.v (explicit
   translation/closure phases of evaluate_smt_formula).  Classes: Smt/SmtClasses.v, PyClosure.agree_class_fx.

   FULL STATEMENT (false for the pinned code, see the _refuted theorems):
     forall e b, smt_denote e = Some b -> is_valid false z3 e = Val (of_bool b)
   and  forall e, smt_denote e = None (value not fixed) -> is_valid false z3 e = Val FF   (never raises).
   PROVED (_partial): the statement under the guard agree_class e = true, which excludes exactly the
   classes K_noimpl K_comp K_lit_enc K_mod_neg K_zero_div K_at_range K_substr_neg K_to_code_len
   K_to_int_signed K_loop_shape K_range_shape K_newline_subject K_tore_backslash (each refuted below by a
   minimal witness) and X_to_int_nonnum (excluded by the property itself),
     - for is_valid                                   (C05_fast_agrees_partial, any fx, any fall-back),
     - for evaluate_atom = evaluate_smt_formula        (C05_evaluate_atom_agrees_partial, any fx, any fall-back),
     - for the explicit two-phase model evaluate_clo on an atom with FREE variables + instantiation
       (C05_evaluate_clo_agrees_partial), which is proved equal to evaluate_atom of the substituted atom
       (C05_translate_commutes, C05_closure_value_commutes: FULL, all atoms, all outcomes incl. exceptions).
   PROVED for the REPAIRED fall-through (fx = true, /repo beffd72) under the premise z3_sound z3 (the
   fall-back oracle answers by the standard; = the real Z3, validated per run): the guard widens to
   agree_class_fx (first class met in evaluation order is none or K_noimpl):
     - C05_fast_agrees_fx_partial (is_valid), C05_evaluate_atom_agrees_fx_partial (evaluate; guard on
       ground e = the atom the fall-back judges; C05_evaluate_fx_ground_guard_needed shows why).
   STILL PARTIAL: the other 12 classes stay excluded (they are genuine divergences); atoms in which a wrong
   intermediate value is computed BEFORE a missing fast path is met are excluded by the guard although
   Z3 would still be asked; smt_denote e = None (division by zero) is not covered (K_zero_div refuted). *)
From ISLA Require Import Str Outcome Regex RegexFacts SmtAst SmtSem PyRe PyFast SmtClasses PyFastFacts PyClosure PyFastMore.

(* the regex matcher used by the spec model decides the declarative language semantics *)
Theorem C05_regex_matcher : forall s r, rmatch r s = true <-> lang r s.
Proof. exact rmatch_spec. Qed.
Print Assumptions C05_regex_matcher.

Theorem C05_fast_agrees_partial : forall (fx : bool) (z3_valid : expr -> tv) e b,
  agree_class e = true -> smt_denote e = Some b -> is_valid fx z3_valid e = Val (of_bool b).
Proof. exact fast_agrees. Qed.
Print Assumptions C05_fast_agrees_partial.

Example C05_fast_agrees_nonvacuous : agree_class w_ok = true /\ smt_denote w_ok = Some true.
Proof. exact fast_agrees_nonvacuous. Qed.
Print Assumptions C05_fast_agrees_nonvacuous.

Example C05_fast_agrees_nonvacuous2 : agree_class w_ok2 = true /\ smt_denote w_ok2 = Some true.
Proof. exact fast_agrees_nonvacuous2. Qed.
Print Assumptions C05_fast_agrees_nonvacuous2.

(* every intermediate value (ints, strings, regex languages on newline-free strings) is right, too *)
Theorem C05_fast_value_agrees_partial : forall (fx : bool) e v,
  agree_class e = true -> denote e = Some v -> exists p, py_eval fx e = Val p /\ vrel v p.
Proof. exact fast_value_agrees. Qed.
Print Assumptions C05_fast_value_agrees_partial.

(* one refutation per divergence class: first_class w = K /\ the pinned code's verdict differs / raises *)
Theorem C05_K_noimpl_refuted : diverges K_noimpl w_noimpl.
Proof. exact K_noimpl_refuted. Qed.
Print Assumptions C05_K_noimpl_refuted.
Theorem C05_K_comp_refuted : diverges K_comp w_comp.
Proof. exact K_comp_refuted. Qed.
Print Assumptions C05_K_comp_refuted.
Theorem C05_K_lit_enc_refuted : diverges K_lit_enc w_lit_enc.
Proof. exact K_lit_enc_refuted. Qed.
Print Assumptions C05_K_lit_enc_refuted.
Theorem C05_K_mod_neg_refuted : diverges K_mod_neg w_mod_neg.
Proof. exact K_mod_neg_refuted. Qed.
Print Assumptions C05_K_mod_neg_refuted.
Theorem C05_K_zero_div_refuted :
  first_class w_zero = K_zero_div /\ smt_denote w_zero = None /\
  is_valid false (fun _ => UU) w_zero = Exn ZeroDivErr.
Proof. exact K_zero_div_refuted. Qed.
Print Assumptions C05_K_zero_div_refuted.
Theorem C05_K_at_range_refuted : diverges K_at_range w_at_range.
Proof. exact K_at_range_refuted. Qed.
Print Assumptions C05_K_at_range_refuted.
Theorem C05_K_substr_neg_refuted : diverges K_substr_neg w_substr_neg.
Proof. exact K_substr_neg_refuted. Qed.
Print Assumptions C05_K_substr_neg_refuted.
Theorem C05_K_to_code_len_refuted : diverges K_to_code_len w_to_code.
Proof. exact K_to_code_len_refuted. Qed.
Print Assumptions C05_K_to_code_len_refuted.
Theorem C05_K_to_int_signed_refuted : diverges K_to_int_signed w_to_int.
Proof. exact K_to_int_signed_refuted. Qed.
Print Assumptions C05_K_to_int_signed_refuted.
Theorem C05_K_loop_shape_refuted : diverges K_loop_shape w_loop.
Proof. exact K_loop_shape_refuted. Qed.
Print Assumptions C05_K_loop_shape_refuted.
Theorem C05_K_range_shape_refuted : diverges K_range_shape w_range.
Proof. exact K_range_shape_refuted. Qed.
Print Assumptions C05_K_range_shape_refuted.
Theorem C05_K_newline_anchor_refuted : diverges K_newline_subject w_newline.
Proof. exact K_newline_subject_refuted. Qed.
Print Assumptions C05_K_newline_anchor_refuted.
Theorem C05_K_newline_all_refuted : diverges K_newline_subject w_allnl.
Proof. exact K_newline_all_refuted. Qed.
Print Assumptions C05_K_newline_all_refuted.
Theorem C05_K_tore_backslash_refuted : diverges K_tore_backslash w_tore.
Proof. exact K_tore_backslash_refuted. Qed.
Print Assumptions C05_K_tore_backslash_refuted.

(* ---------- proof extension: evaluate(), closure model, repaired fall-through ---------- *)

(* evaluate_smt_formula (translation phase, closure phase, DomainError -> false) on the agreeing class *)
Theorem C05_evaluate_atom_agrees_partial : forall (fx : bool) (z3_valid : expr -> tv) e b,
  agree_class e = true -> smt_denote e = Some b -> evaluate_atom fx z3_valid e = Val (of_bool b).
Proof. exact evaluate_atom_agrees. Qed.
Print Assumptions C05_evaluate_atom_agrees_partial.

(* FULL: translating the atom with free variables into a closure and applying it to the instantiation
   = evaluating the instantiated atom; every outcome (value, exception, Failure -> fall-back) *)
Theorem C05_translate_commutes : forall (fx : bool) (z3_valid : expr -> tv) e inst,
  evaluate_clo fx z3_valid e inst = evaluate_atom fx z3_valid (subst inst e).
Proof. exact translate_commutes. Qed.
Print Assumptions C05_translate_commutes.

Theorem C05_closure_value_commutes : forall (fx : bool) e inst t,
  translate fx e = Val t -> run t inst = py_eval fx (subst inst e).
Proof. exact closure_value_commutes. Qed.
Print Assumptions C05_closure_value_commutes.

Theorem C05_evaluate_clo_agrees_partial : forall (fx : bool) (z3_valid : expr -> tv) e inst b,
  agree_class (subst inst e) = true -> smt_denote (subst inst e) = Some b ->
  evaluate_clo fx z3_valid e inst = Val (of_bool b).
Proof. exact evaluate_clo_agrees. Qed.
Print Assumptions C05_evaluate_clo_agrees_partial.

Example C05_evaluate_clo_nonvacuous :
  agree_class (subst inst_42 w_open) = true /\ smt_denote (subst inst_42 w_open) = Some true /\
  has_var w_open = true.
Proof. exact evaluate_clo_nonvacuous. Qed.
Print Assumptions C05_evaluate_clo_nonvacuous.

(* repaired not_implemented_failure (fx = true): operators without fast path go to Z3.
   z3_sound is an explicit premise: the fall-back returns the SMT-LIB verdict. *)
Theorem C05_fast_agrees_fx_partial : forall (z3_valid : expr -> tv) e b,
  z3_sound z3_valid -> agree_class_fx e = true -> smt_denote e = Some b ->
  is_valid true z3_valid e = Val (of_bool b).
Proof. exact fast_agrees_fx. Qed.
Print Assumptions C05_fast_agrees_fx_partial.

Theorem C05_evaluate_atom_agrees_fx_partial : forall (z3_valid : expr -> tv) e b,
  z3_sound z3_valid -> agree_class_fx (ground e) = true -> smt_denote e = Some b ->
  evaluate_atom true z3_valid e = Val (of_bool b).
Proof. exact evaluate_atom_agrees_fx. Qed.
Print Assumptions C05_evaluate_atom_agrees_fx_partial.

Theorem C05_evaluate_clo_agrees_fx_partial : forall (z3_valid : expr -> tv) e inst b,
  z3_sound z3_valid -> agree_class_fx (ground (subst inst e)) = true ->
  smt_denote (subst inst e) = Some b -> evaluate_clo true z3_valid e inst = Val (of_bool b).
Proof. exact evaluate_clo_agrees_fx. Qed.
Print Assumptions C05_evaluate_clo_agrees_fx_partial.

(* non-vacuity: an atom of class K_noimpl (outside agree_class) satisfies the fx guard; a sound oracle exists *)
Example C05_fast_agrees_fx_nonvacuous :
  agree_class_fx (ground w_fx) = true /\ agree_class (ground w_fx) = false /\ smt_denote w_fx = Some true.
Proof. exact fast_agrees_fx_nonvacuous. Qed.
Print Assumptions C05_fast_agrees_fx_nonvacuous.
Example C05_z3_sound_nonvacuous : z3_sound z3_std.
Proof. exact z3_sound_nonvacuous. Qed.
Print Assumptions C05_z3_sound_nonvacuous.

(* the class of the substituted atom is the class of the atom or K_lit_enc ... *)
Theorem C05_first_class_ground : forall e,
  first_class (ground e) = first_class e \/ first_class (ground e) = K_lit_enc.
Proof. exact first_class_ground. Qed.
Print Assumptions C05_first_class_ground.
(* ... and the second case matters: with x := U+20AC the atom is in the fx class, its substituted form is
   not, and evaluate() raises TypeError from the fall-back whatever Z3 answers (reproduced on /repo) *)
Theorem C05_evaluate_fx_ground_guard_needed :
  agree_class_fx w_fx_lit = true /\ first_class (ground w_fx_lit) = K_lit_enc /\
  smt_denote w_fx_lit = Some true /\
  forall z3_valid, evaluate_atom true z3_valid w_fx_lit = Exn TypeErr.
Proof. exact evaluate_fx_ground_guard_needed. Qed.
Print Assumptions C05_evaluate_fx_ground_guard_needed.
