(* C13 — Tree insertion yields valid trees keeping all original nodes and the new tree.
   Only statements + `exact`; proofs are in Grammar/InsertFacts.v.  Model: Grammar/Insert.v
   (insert_tree and all its helpers of isla/existential_helpers.py; the grammar graph's answers
   are parameters `chain` / `pb`, fresh ids are 0).

   FULL STATEMENT (false for the faithful model, see C13_context_refuted):
     forall g chain pb maxn m ins host rs t,
       closed_g g -> chain_ok chain -> pb_ok pb -> wf_tree g host -> wf_tree g ins ->
       insert_tree g chain pb maxn m ins host = Ok rs /\ (In t rs -> inserted g host ins t)
   i.e. for every method mask no assertion fires and every result satisfies `inserted`.

   What is proved for ALL inputs:
     - C13_insertedb_spec      the acceptance procedure used by the check decides the spec
     - C13_direct_ok           every direct embedding satisfies `inserted`
     - C13_insert_tree_direct  the same for insert_tree with methods = DIRECT_EMBEDDING (_partial of
                               the full statement: guard = mask is exactly DIRECT; results only,
                               not assertion-freedom of the loop)
     - C13_path_to_tree_ok     trees built from a nonterminal chain are valid, rooted in the first
                               symbol, with the open leaf of the last symbol at depth |chain|-1
     - C13_open_terminal_rejected  a tree with an open node labelled by a terminal is never accepted
     - C13_connect_ok          one connection step of connect_trees: no assertion fires, result
                               valid, same root label, contains the added tree
   Refuted: with CONTEXT_ADDITION in the mask (class K_ctx) results lose the inserted tree.
   Not closed (stated, unproved; covered by the correspondence only): assertion-freedom and
   `inserted` for SELF_EMBEDDING (insert_trees with two trees and higher-up insertion points). *)
From ISLA Require Import Grammar Insert InsertFacts.
From Coq Require Import List.
Import ListNotations.

Theorem C13_insertedb_spec : forall g host ins r,
  insertedb g host ins r = true <->
  (wf_tree g r /\ lbl r = lbl host /\
   (forall p n, subtree host p = Some n ->
      exists q m, subtree r q = Some m /\ tid m = tid n /\ lbl m = lbl n) /\
   exists p, subtree r p = Some ins).
Proof. exact insertedb_spec. Qed.
Print Assumptions C13_insertedb_spec.

Theorem C13_direct_ok : forall g chain maxn ins host rs t,
  closed_g g -> chain_ok chain -> wf_tree g host -> wf_tree g ins ->
  direct_embeddings g chain maxn ins host = Ok rs -> In t rs ->
  inserted g host ins t.
Proof. exact direct_ok. Qed.
Print Assumptions C13_direct_ok.

Theorem C13_insert_tree_direct_partial : forall g chain pb maxn ins host rs t,
  closed_g g -> chain_ok chain -> wf_tree g host -> wf_tree g ins ->
  insert_tree g chain pb maxn DIRECT ins host = Ok rs -> In t rs ->
  inserted g host ins t.
Proof. exact insert_tree_direct_ok. Qed.
Print Assumptions C13_insert_tree_direct_partial.

(* non-vacuity of the three theorems above: a concrete grammar, graph tables read off the real
   GrammarGraph, an open host and an open inserted tree satisfy every hypothesis ... *)
Example C13_hypotheses_satisfiable :
  closed_g ex_g /\ chain_ok ex_chain /\ wf_tree ex_g ex_host /\ wf_tree ex_g ex_ins.
Proof. exact ex_hyps. Qed.
Print Assumptions C13_hypotheses_satisfiable.

(* ... and insertion produces a strictly bigger tree for them *)
Example C13_direct_nonvacuous :
  exists rs t, insert_tree ex_g ex_chain ex_pb 50 DIRECT ex_ins ex_host = Ok rs /\ In t rs /\
               size t > size ex_host.
Proof. exact direct_nonvacuous. Qed.
Print Assumptions C13_direct_nonvacuous.

Theorem C13_path_to_tree_ok : forall g ch ts t,
  closed_g g -> all_nt ch -> path_to_tree g ch = Ok ts -> In t ts ->
  exists A rest, ch = A :: rest /\ rest <> [] /\
    wf_tree g t /\ lbl t = A /\
    exists p, length p = length rest /\ subtree t p = Some (Node (last rest A) 0 true []).
Proof. exact path_to_tree_ok. Qed.
Print Assumptions C13_path_to_tree_ok.

Example C13_path_to_tree_nonvacuous :
  exists ts t, path_to_tree ex_g [s1; s2; s4; s1] = Ok ts /\ In t ts /\ all_nt [s1; s2; s4; s1].
Proof. exact path_to_tree_nonvacuous. Qed.
Print Assumptions C13_path_to_tree_nonvacuous.

Theorem C13_connect_ok : forall g add parent ip ct lp orig,
  wf_tree g parent -> wf_tree g add -> wf_tree g ct ->
  subtree parent ip = Some orig -> is_nt (lbl orig) = true -> lbl ct = lbl orig ->
  lp <> [] -> subtree ct lp = Some (Node (lbl add) 0 true []) -> is_nt (lbl add) = true ->
  exists new, connect_one g add parent ip ct lp = Ok new /\
    wf_tree g new /\ lbl new = lbl parent /\ subtree new (ip ++ lp) = Some add.
Proof. exact connect_one_ok. Qed.
Print Assumptions C13_connect_ok.

(* class of the open finding: CONTEXT_ADDITION in the mask.  The model, run on the witness,
   returns a tree that keeps all host nodes and the root of ins but not ins. *)
Theorem C13_context_refuted :
  exists rs t, K_ctx CONTEXT = true /\
    insert_tree ex_g ex_chain ex_pb 50 CONTEXT ex_ins ex_host = Ok rs /\ In t rs /\
    ~ inserted ex_g ex_host ex_ins t /\ inserted_lossyb ex_g ex_host ex_ins t = true.
Proof. exact context_refuted. Qed.
Print Assumptions C13_context_refuted.

(* self embedding on the same input: the model's results are all accepted (a test, not a theorem
   for all inputs: the general statement for SELF_EMBEDDING is not proved) *)
Example C13_self_example :
  exists rs, insert_tree ex_g ex_chain ex_pb 50 SELF ex_ins ex_host = Ok rs /\ rs <> [] /\
             forallb (insertedb ex_g ex_host ex_ins) rs = true.
Proof. exact self_example. Qed.
Print Assumptions C13_self_example.

(* An OPEN node labelled with a terminal (e.g. "<hr />", "<a b>", "< >", "<", ">", "<a": they start
   with '<' / end with '>' but are not nonterminals) anywhere in a tree excludes it from `inserted`,
   and both executable checkers reject it. *)
Theorem C13_open_terminal_rejected : forall g host ins r p l i ks,
  is_nt l = false -> subtree r p = Some (Node l i true ks) ->
  ~ inserted g host ins r /\ insertedb g host ins r = false /\ wf_treeb g r = false.
Proof. exact open_terminal_rejected_all. Qed.
Print Assumptions C13_open_terminal_rejected.

Example C13_lookalike_terminals :
  forallb (fun s => negb (is_nt s))
    [[60;104;114;32;47;62]; [60;97;32;98;62]; [60;32;62]; [60]; [62]; [60;97]]%N = true
  /\ is_nt [60;97;62]%N = true.
Proof. exact lookalike_terminals. Qed.
Print Assumptions C13_lookalike_terminals.
