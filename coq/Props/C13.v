(* C13 — Tree insertion yields valid trees keeping all original nodes and the new tree.
   Only statements + `exact`; proofs are in Grammar/InsertFacts.v and (proof extension)
   Grammar/Insert{Direct,Track,Self,Ctx,SelfAssert,Total}More.v.  Model: Grammar/Insert.v
   (insert_tree and all its helpers of isla/existential_helpers.py; the grammar graph's answers
   are parameters `chain` / `pb`, fresh ids are 0).

   FULL STATEMENT (false for the faithful model, see C13_context_refuted):
     forall g chain pb maxn m ins host,
       closed_g g -> chain_ok chain -> chain_start chain -> chain_conn g chain -> pb_ok pb ->
       wf_tree g host -> wf_tree g ins -> uniq_ids host ins ->
       exists rs, insert_tree g chain pb maxn m ins host = Ok rs /\ forall t, In t rs -> inserted g host ins t
   i.e. for every method mask no assertion fires, no other exception escapes and every result
   satisfies `inserted`.  PROVED for every mask without CONTEXT_ADDITION (C13_insert_tree_full_noctx);
   with CONTEXT_ADDITION proved with `inserted_lossy` in place of `inserted` (C13_insert_tree_full_lossy).

   What is proved for ALL inputs (all grammars, oracles, trees; no size bounds):
     - C13_insertedb_spec / C13_inserted_lossyb_spec
                               the acceptance procedures used by the check decide the specs
     - C13_direct_ok           every direct embedding satisfies `inserted`
     - C13_insert_tree_direct_no_assert   FULL for methods = DIRECT_EMBEDDING, assertion part: the
                               outcome of insert_tree is a list or IndexError (disconnected oracle
                               chain), never an AssertionError (oracle: chain_ok + chain_start;
                               C13_chain_start_needed shows chain_start cannot be dropped)
     - C13_insert_tree_direct_total       FULL for methods = DIRECT_EMBEDDING: with a connected chain
                               oracle (chain_conn) the call returns a list and every element is `inserted`
     - C13_self_embedding_ok   every tree of compute_self_embeddings that passes add_to_result's
                               find_node filter satisfies `inserted` (ids of host/ins unique, not fresh)
     - C13_insert_tree_partial the full statement's result part under the guard K_ctx m = false
                               (every mask without CONTEXT_ADDITION: 1, 2, 3): every result is `inserted`
     - C13_context_additions_lossy / C13_insert_tree_lossy_ok
                               for EVERY mask every result satisfies `inserted_lossy` (valid tree, same
                               root label, all host nodes kept with id and label, ROOT of ins kept)
                               (oracle: + pb_start)
     - C13_path_to_tree_ok     trees built from a nonterminal chain are valid, rooted in the first
                               symbol, with the open leaf of the last symbol at depth |chain|-1
     - C13_open_terminal_rejected  a tree with an open node labelled by a terminal is never accepted
     - C13_connect_ok          one connection step of connect_trees: no assertion fires, result
                               valid, same root label, contains the added tree
   Refuted: with CONTEXT_ADDITION in the mask (class K_ctx) results lose the inserted tree
   (C13_context_refuted).  The open finding is now characterised exactly: results are always
   `inserted_lossy`; they are `inserted` whenever K_ctx m = false; the witness is `inserted_lossy`
   and not `inserted` (C13_ctx_lossy_nonvacuous).
     - C13_insert_tree_noctx_no_assert / C13_insert_tree_self_no_assert
                               for every mask WITHOUT CONTEXT_ADDITION no assertion (insert_tree,
                               compute_direct_embeddings, compute_self_embeddings, insert_trees, connect_trees,
                               path_to_tree, add_to_result) can fire: the outcome is never AssertionError
                               (oracle: chain_ok, chain_start, pb_ok; unique ids not needed)
   Third pass (Grammar/InsertTotalMore.v) — the two remaining gaps are closed:
     - C13_insert_tree_no_assert   for EVERY mask (also with CONTEXT_ADDITION) no assertion of insert_tree,
                               compute_direct_embeddings, compute_self_embeddings, compute_context_additions,
                               insert_trees, connect_trees, path_to_tree, add_to_result can fire
     - C13_insert_tree_outcomes    for EVERY mask the outcome is a list, or (only when DIRECT_EMBEDDING is in the mask)
                               the IndexError of wrap_in_tree_starting_in for a chain oracle naming unconnected
                               symbols; no IndexError of get_subtree/replace_path on partial results, no
                               StopIteration of `next(...)` in insert_trees
     - C13_insert_tree_total       with chain_conn (needed only if DIRECT_EMBEDDING is in the mask;
                               C13_chain_conn_needed) the call returns a list, for EVERY mask
     - C13_insert_tree_full_noctx  the FULL STATEMENT under the guard K_ctx m = false: the call returns a list and
                               every element is `inserted`
     - C13_insert_tree_full_lossy  every mask: the call returns a list and every element is `inserted_lossy`
     - C13_insert_trees_all_present  n-item generalisation of the two-item lemma: every tree handed to insert_trees
                               that has a possible insertion point is a subtree of EVERY returned tree
     - C13_insert_tree_total_tbl   the same totality from the executable premise check `oracle_okb` that the
                               harness evaluates on the real GrammarGraph tables of each grammar
   Nothing of the full statement is left unproved except what is FALSE (K_ctx, recorded finding): with
   CONTEXT_ADDITION the results are `inserted_lossy`, not `inserted`.  Premises that remain (all evaluated by the
   check on the real graph tables / generated inputs): closed_g, chain_ok, chain_start, chain_conn, pb_ok,
   wf_tree host / ins, uniq_ids. *)
From ISLA Require Import Grammar Insert InsertFacts InsertDirectMore InsertTrackMore InsertSelfMore InsertCtxMore InsertSelfAssertMore InsertTotalMore.
From Coq Require Import List.
Import ListNotations.

Theorem C13_insertedb_spec : forall g host ins r,
  insertedb g host ins r = true <->
  (wf_tree g r /\ lbl r = lbl host /\
   (forall p n, subtree host p = Some n ->
      exists q m, subtree r q = Some m /\ tid m = tid n /\ lbl m = lbl n) /\
   exists p, subtree r p = Some ins).
Proof. exact insertedb_spec. Qed.
Print Assumptions C13_insertedb_spec.

Theorem C13_direct_ok : forall g chain maxn ins host rs t,
  closed_g g -> chain_ok chain -> wf_tree g host -> wf_tree g ins ->
  direct_embeddings g chain maxn ins host = Ok rs -> In t rs ->
  inserted g host ins t.
Proof. exact direct_ok. Qed.
Print Assumptions C13_direct_ok.

Theorem C13_insert_tree_direct_partial : forall g chain pb maxn ins host rs t,
  closed_g g -> chain_ok chain -> wf_tree g host -> wf_tree g ins ->
  insert_tree g chain pb maxn DIRECT ins host = Ok rs -> In t rs ->
  inserted g host ins t.
Proof. exact insert_tree_direct_ok. Qed.
Print Assumptions C13_insert_tree_direct_partial.

(* non-vacuity of the three theorems above: a concrete grammar, graph tables read off the real
   GrammarGraph, an open host and an open inserted tree satisfy every hypothesis ... *)
Example C13_hypotheses_satisfiable :
  closed_g ex_g /\ chain_ok ex_chain /\ wf_tree ex_g ex_host /\ wf_tree ex_g ex_ins.
Proof. exact ex_hyps. Qed.
Print Assumptions C13_hypotheses_satisfiable.

(* ... and insertion produces a strictly bigger tree for them *)
Example C13_direct_nonvacuous :
  exists rs t, insert_tree ex_g ex_chain ex_pb 50 DIRECT ex_ins ex_host = Ok rs /\ In t rs /\
               size t > size ex_host.
Proof. exact direct_nonvacuous. Qed.
Print Assumptions C13_direct_nonvacuous.

Theorem C13_path_to_tree_ok : forall g ch ts t,
  closed_g g -> all_nt ch -> path_to_tree g ch = Ok ts -> In t ts ->
  exists A rest, ch = A :: rest /\ rest <> [] /\
    wf_tree g t /\ lbl t = A /\
    exists p, length p = length rest /\ subtree t p = Some (Node (last rest A) 0 true []).
Proof. exact path_to_tree_ok. Qed.
Print Assumptions C13_path_to_tree_ok.

Example C13_path_to_tree_nonvacuous :
  exists ts t, path_to_tree ex_g [s1; s2; s4; s1] = Ok ts /\ In t ts /\ all_nt [s1; s2; s4; s1].
Proof. exact path_to_tree_nonvacuous. Qed.
Print Assumptions C13_path_to_tree_nonvacuous.

Theorem C13_connect_ok : forall g add parent ip ct lp orig,
  wf_tree g parent -> wf_tree g add -> wf_tree g ct ->
  subtree parent ip = Some orig -> is_nt (lbl orig) = true -> lbl ct = lbl orig ->
  lp <> [] -> subtree ct lp = Some (Node (lbl add) 0 true []) -> is_nt (lbl add) = true ->
  exists new, connect_one g add parent ip ct lp = Ok new /\
    wf_tree g new /\ lbl new = lbl parent /\ subtree new (ip ++ lp) = Some add.
Proof. exact connect_one_ok. Qed.
Print Assumptions C13_connect_ok.

(* class of the open finding: CONTEXT_ADDITION in the mask.  The model, run on the witness,
   returns a tree that keeps all host nodes and the root of ins but not ins. *)
Theorem C13_context_refuted :
  exists rs t, K_ctx CONTEXT = true /\
    insert_tree ex_g ex_chain ex_pb 50 CONTEXT ex_ins ex_host = Ok rs /\ In t rs /\
    ~ inserted ex_g ex_host ex_ins t /\ inserted_lossyb ex_g ex_host ex_ins t = true.
Proof. exact context_refuted. Qed.
Print Assumptions C13_context_refuted.

(* self embedding on the same input: the model's results are all accepted (a test, not a theorem
   for all inputs: the general statement for SELF_EMBEDDING is not proved) *)
Example C13_self_example :
  exists rs, insert_tree ex_g ex_chain ex_pb 50 SELF ex_ins ex_host = Ok rs /\ rs <> [] /\
             forallb (insertedb ex_g ex_host ex_ins) rs = true.
Proof. exact self_example. Qed.
Print Assumptions C13_self_example.

(* An OPEN node labelled with a terminal (e.g. "<hr />", "<a b>", "< >", "<", ">", "<a": they start
   with '<' / end with '>' but are not nonterminals) anywhere in a tree excludes it from `inserted`,
   and both executable checkers reject it. *)
Theorem C13_open_terminal_rejected : forall g host ins r p l i ks,
  is_nt l = false -> subtree r p = Some (Node l i true ks) ->
  ~ inserted g host ins r /\ insertedb g host ins r = false /\ wf_treeb g r = false.
Proof. exact open_terminal_rejected_all. Qed.
Print Assumptions C13_open_terminal_rejected.

Example C13_lookalike_terminals :
  forallb (fun s => negb (is_nt s))
    [[60;104;114;32;47;62]; [60;97;32;98;62]; [60;32;62]; [60]; [62]; [60;97]]%N = true
  /\ is_nt [60;97;62]%N = true.
Proof. exact lookalike_terminals. Qed.
Print Assumptions C13_lookalike_terminals.

(* ================= proof extension ================= *)

(* --- (3) methods = DIRECT_EMBEDDING: no assertion of insert_tree / compute_direct_embeddings /
   add_to_result can fire.  chain_start: a chain for (A, B) starts with A. *)
Theorem C13_insert_tree_direct_no_assert : forall g chain pb maxn ins host,
  closed_g g -> chain_ok chain ->
  (forall A B ch, chain A B = Some ch -> exists rest, ch = A :: rest) ->
  wf_tree g host -> wf_tree g ins ->
  (exists rs, insert_tree g chain pb maxn DIRECT ins host = Ok rs) \/
  insert_tree g chain pb maxn DIRECT ins host = Raise IndexErr.
Proof. exact insert_tree_direct_no_assert. Qed.
Print Assumptions C13_insert_tree_direct_no_assert.

(* chain_conn: consecutive chain symbols X, Y have an alternative of X containing Y.  Then the
   full statement holds for methods = DIRECT_EMBEDDING. *)
Theorem C13_insert_tree_direct_total : forall g chain pb maxn ins host,
  closed_g g -> chain_ok chain -> chain_start chain -> chain_conn g chain ->
  wf_tree g host -> wf_tree g ins ->
  exists rs, insert_tree g chain pb maxn DIRECT ins host = Ok rs /\
             forall t, In t rs -> inserted g host ins t.
Proof. exact insert_tree_direct_total. Qed.
Print Assumptions C13_insert_tree_direct_total.

Example C13_direct_hyps_satisfiable : chain_start ex_chain /\ chain_conn ex_g ex_chain.
Proof. exact ex_direct_hyps. Qed.
Print Assumptions C13_direct_hyps_satisfiable.

(* chain_start is necessary: an oracle satisfying chain_ok only makes the first assertion of
   compute_direct_embeddings fire *)
Example C13_chain_start_needed :
  insert_tree ex_g (fun _ _ => Some [s1; s1]) ex_pb 50 DIRECT (Node s1 5 true []) (Node s0 2 true [])
  = Raise AssertErr.
Proof. exact chain_start_needed. Qed.
Print Assumptions C13_chain_start_needed.

(* --- (1) self embedding.  uniq_ids host ins: the ids of host and ins are pairwise different and
   none is 0 (the model's fresh id).  `contains t ins` is add_to_result's filter find_node(ins.id). *)
Theorem C13_uniq_ids_def : forall host ins,
  uniq_ids host ins <-> (NoDup (ids host ++ ids ins) /\ ~ In 0%N (ids host ++ ids ins)).
Proof. exact (fun host ins => iff_refl _). Qed.
Print Assumptions C13_uniq_ids_def.

Theorem C13_self_embedding_ok : forall g pb reach maxn cp ins host r t,
  wf_tree g ins -> uniq_ids host ins ->
  self_embeddings g pb reach maxn cp ins host = Ok r -> In t r ->
  contains t ins = true ->
  inserted g host ins t.
Proof. exact self_embeddings_ok. Qed.
Print Assumptions C13_self_embedding_ok.

(* the full statement's result part, guarded by the class of the open finding *)
Theorem C13_insert_tree_partial : forall g chain pb maxn m ins host rs t,
  closed_g g -> chain_ok chain -> wf_tree g host -> wf_tree g ins -> uniq_ids host ins ->
  K_ctx m = false ->
  insert_tree g chain pb maxn m ins host = Ok rs -> In t rs ->
  inserted g host ins t.
Proof. exact insert_tree_noctx_ok. Qed.
Print Assumptions C13_insert_tree_partial.

Example C13_uniq_ids_satisfiable : uniq_ids ex_host ex_ins.
Proof. exact ex_uniq. Qed.
Print Assumptions C13_uniq_ids_satisfiable.

Example C13_noctx_nonvacuous :
  K_ctx 3 = false /\
  exists rs, insert_tree ex_g ex_chain ex_pb 50 3 ex_ins ex_host = Ok rs /\ 2 <= length rs.
Proof. exact noctx_nonvacuous. Qed.
Print Assumptions C13_noctx_nonvacuous.

(* --- (2) context addition: lossy, but exactly that *)
Theorem C13_inserted_lossyb_spec : forall g host ins r,
  inserted_lossyb g host ins r = true <->
  (wf_tree g r /\ lbl r = lbl host /\
   (forall p n, subtree host p = Some n ->
      exists q m, subtree r q = Some m /\ tid m = tid n /\ lbl m = lbl n) /\
   exists q m, subtree r q = Some m /\ tid m = tid ins /\ lbl m = lbl ins).
Proof. exact inserted_lossyb_spec. Qed.
Print Assumptions C13_inserted_lossyb_spec.

(* pb_start: every chain of paths_between(A, B) starts with A.  `wf_tree g t` and `contains t ins`
   are what add_to_result asserts / filters. *)
Theorem C13_context_additions_lossy : forall g pb reach maxn cp ins host r t,
  (forall A B ch, In ch (pb A B) -> exists rest, ch = A :: rest) ->
  wf_tree g host -> wf_tree g ins -> uniq_ids host ins ->
  context_additions g pb reach maxn cp ins host = Ok r -> In t r ->
  wf_tree g t -> contains t ins = true ->
  inserted_lossy g host ins t.
Proof. exact context_additions_lossy. Qed.
Print Assumptions C13_context_additions_lossy.

Theorem C13_insert_tree_lossy_ok : forall g chain pb maxn m ins host rs t,
  closed_g g -> chain_ok chain -> pb_start pb ->
  wf_tree g host -> wf_tree g ins -> uniq_ids host ins ->
  insert_tree g chain pb maxn m ins host = Ok rs -> In t rs ->
  inserted_lossy g host ins t.
Proof. exact insert_tree_lossy_ok. Qed.
Print Assumptions C13_insert_tree_lossy_ok.

Example C13_pb_start_satisfiable : pb_start ex_pb.
Proof. exact ex_pb_start. Qed.
Print Assumptions C13_pb_start_satisfiable.

(* the recorded witness lies exactly between the two specifications *)
Example C13_ctx_lossy_nonvacuous :
  exists rs t, insert_tree ex_g ex_chain ex_pb 50 CONTEXT ex_ins ex_host = Ok rs /\ In t rs /\
    inserted_lossy ex_g ex_host ex_ins t /\ ~ inserted ex_g ex_host ex_ins t.
Proof. exact ctx_lossy_nonvacuous. Qed.
Print Assumptions C13_ctx_lossy_nonvacuous.

(* --- assertion-freedom beyond DIRECT_EMBEDDING.  pb_ok: every chain of paths_between(A, B) starts
   with A, ends with B, has >= 2 symbols, all nonterminals. *)
Theorem C13_pb_ok_def : forall pb,
  pb_ok pb <-> (forall A B ch, In ch (pb A B) ->
                  exists rest, ch = A :: rest /\ rest <> [] /\ all_nt ch /\ last rest A = B).
Proof. exact (fun pb => iff_refl _). Qed.
Print Assumptions C13_pb_ok_def.

Theorem C13_insert_tree_self_no_assert : forall g chain pb maxn ins host,
  closed_g g -> pb_ok pb -> wf_tree g host -> wf_tree g ins ->
  insert_tree g chain pb maxn SELF ins host <> Raise AssertErr.
Proof. exact insert_tree_self_no_assert. Qed.
Print Assumptions C13_insert_tree_self_no_assert.

Theorem C13_insert_tree_noctx_no_assert : forall g chain pb maxn m ins host,
  closed_g g -> chain_ok chain -> chain_start chain -> pb_ok pb ->
  wf_tree g host -> wf_tree g ins -> K_ctx m = false ->
  insert_tree g chain pb maxn m ins host <> Raise AssertErr.
Proof. exact insert_tree_noctx_no_assert. Qed.
Print Assumptions C13_insert_tree_noctx_no_assert.

Example C13_pb_ok_satisfiable : pb_ok ex_pb.
Proof. exact ex_pb_ok. Qed.
Print Assumptions C13_pb_ok_satisfiable.

(* ================= proof extension, third pass (Grammar/InsertTotalMore.v) ================= *)

(* --- (1) assertion-freedom for EVERY method mask, CONTEXT_ADDITION included *)
Theorem C13_insert_tree_no_assert : forall g chain pb maxn m ins host,
  closed_g g -> chain_ok chain -> chain_start chain -> pb_ok pb ->
  wf_tree g host -> wf_tree g ins ->
  insert_tree g chain pb maxn m ins host <> Raise AssertErr.
Proof. exact insert_tree_no_assert. Qed.
Print Assumptions C13_insert_tree_no_assert.

(* --- (2) no other exception either.  Without chain_conn the only possible exception is the
   IndexError of wrap_in_tree_starting_in (`[...][0]`), and only if DIRECT_EMBEDDING is in the mask:
   get_subtree(insertion_path) on partial results of insert_trees cannot fail and `next(...)` never
   raises StopIteration. *)
Theorem C13_insert_tree_outcomes : forall g chain pb maxn m ins host,
  closed_g g -> chain_ok chain -> chain_start chain -> pb_ok pb ->
  wf_tree g host -> wf_tree g ins ->
  (exists rs, insert_tree g chain pb maxn m ins host = Ok rs) \/
  (has_method m DIRECT = true /\ insert_tree g chain pb maxn m ins host = Raise IndexErr).
Proof. exact insert_tree_outcomes. Qed.
Print Assumptions C13_insert_tree_outcomes.

Theorem C13_insert_tree_total : forall g chain pb maxn m ins host,
  closed_g g -> chain_ok chain -> chain_start chain ->
  (has_method m DIRECT = true -> chain_conn g chain) -> pb_ok pb ->
  wf_tree g host -> wf_tree g ins ->
  exists rs, insert_tree g chain pb maxn m ins host = Ok rs.
Proof. exact insert_tree_total. Qed.
Print Assumptions C13_insert_tree_total.

(* chain_conn is necessary for masks with DIRECT_EMBEDDING: an oracle satisfying chain_ok and
   chain_start that names two unconnected symbols (model-level witness; the real GrammarGraph
   satisfies chain_conn, see the oracle check of the harness) *)
Example C13_chain_conn_needed :
  chain_ok jump_chain /\ chain_start jump_chain /\
  insert_tree ex_g jump_chain ex_pb 50 DIRECT (Node s8 5 true []) (Node s0 2 true []) = Raise IndexErr.
Proof. exact chain_conn_needed. Qed.
Print Assumptions C13_chain_conn_needed.

(* the FULL STATEMENT of the header, guarded by the class of the open finding *)
Theorem C13_insert_tree_full_noctx : forall g chain pb maxn m ins host,
  closed_g g -> chain_ok chain -> chain_start chain ->
  (has_method m DIRECT = true -> chain_conn g chain) -> pb_ok pb ->
  wf_tree g host -> wf_tree g ins -> uniq_ids host ins -> K_ctx m = false ->
  exists rs, insert_tree g chain pb maxn m ins host = Ok rs /\
             forall t, In t rs -> inserted g host ins t.
Proof. exact insert_tree_full_noctx. Qed.
Print Assumptions C13_insert_tree_full_noctx.

(* every mask: total, and every result keeps all host nodes and the root of ins *)
Theorem C13_insert_tree_full_lossy : forall g chain pb maxn m ins host,
  closed_g g -> chain_ok chain -> chain_start chain ->
  (has_method m DIRECT = true -> chain_conn g chain) -> pb_ok pb ->
  wf_tree g host -> wf_tree g ins -> uniq_ids host ins ->
  exists rs, insert_tree g chain pb maxn m ins host = Ok rs /\
             forall t, In t rs -> inserted_lossy g host ins t.
Proof. exact insert_tree_full_lossy. Qed.
Print Assumptions C13_insert_tree_full_lossy.

Example C13_total_hyps_satisfiable :
  closed_g ex_g /\ chain_ok ex_chain /\ chain_start ex_chain /\ chain_conn ex_g ex_chain /\
  pb_ok ex_pb /\ wf_tree ex_g ex_host /\ wf_tree ex_g ex_ins /\ uniq_ids ex_host ex_ins.
Proof. exact total_hyps_satisfiable. Qed.
Print Assumptions C13_total_hyps_satisfiable.

Example C13_total_nonvacuous :
  exists rs, insert_tree ex_g ex_chain ex_pb 50 7 ex_ins ex_host = Ok rs /\ 3 <= length rs.
Proof. exact total_nonvacuous. Qed.
Print Assumptions C13_total_nonvacuous.

(* --- the n-item generalisation of the two-item lemma: insert_trees "really inserts" every tree
   that has a possible insertion point (simple_root: the root is a nonterminal or childless —
   true of every valid derivation tree) *)
Theorem C13_insert_trees_all_present : forall g pb reach maxn ts into rs it t,
  Forall (fun x => is_nt (lbl x) = true \/ kids x = []) ts ->
  insert_trees g pb reach maxn ts into = Ok rs -> In it rs ->
  In t ts -> pips reach into t <> [] ->
  exists x, subtree it x = Some t.
Proof. exact insert_trees_all_present. Qed.
Print Assumptions C13_insert_trees_all_present.

(* --- totality from the executable premise check evaluated by the harness on the real graph tables *)
Theorem C13_oracle_okb_def : forall g ct pt,
  oracle_okb g ct pt =
  (closed_gb g && chain_tblb ct && chain_start_tblb ct && forallb (fun e => linkedb g (snd e)) ct
   && pb_ok_tblb pt)%bool.
Proof. exact (fun g ct pt => eq_refl). Qed.
Print Assumptions C13_oracle_okb_def.

Theorem C13_insert_tree_total_tbl : forall g ct pt maxn m ins host,
  oracle_okb g ct pt = true -> wf_treeb g host = true -> wf_treeb g ins = true ->
  exists rs, insert_tree g (chain_of_tbl ct) (lookup2 pt []) maxn m ins host = Ok rs.
Proof. exact insert_tree_total_tbl. Qed.
Print Assumptions C13_insert_tree_total_tbl.

Example C13_oracle_okb_ex : oracle_okb ex_g ex_chain_tbl ex_pb_tbl = true.
Proof. exact oracle_okb_ex. Qed.
Print Assumptions C13_oracle_okb_ex.
