(* C10 — The parser accepts exactly the grammar's language and returns faithful trees.
   Only statements + `exact`; proofs are in Grammar/EarleyFacts.v, EarleyPrune.v, EarleyTop.v,
   EarleyTrees.v and (proof extension: completeness) EarleyComplete.v, EarleyForest.v, EarleyFuel.v,
   EarleyWrap.v.  Model: Grammar/Earley.v (isla/parser.py EarleyParser + Parser.parse_on +
   prune_tree/coalesce; solver.py ISLaSolver.parse).

   fxA / fxB select the pinned (false) or repaired (true) form of chart_parse's seeding and of
   parse()'s choice of the accepting state (proposed_fixes/C10-multistart.diff, C10-recstart.diff).
   With fxA = fxB = true the guards K_multistart / K_recstart disappear from every statement.

   FULL STATEMENT OF THE PROPERTY (for the record):
     forall g start w,  grammar g canonical, without cyclic unit/nullable derivations:
       (exists ts, ts <> [] /\ parse g start w = Ok ts)  <->  L g start w
       /\ (parse g start w = Raise SyntaxErr <-> ~ L g start w)
       /\ forall t in parse g start w: wf_tree g t /\ closed t /\ lbl t = start /\ yield t = w.
   PROVED IN FULL (for every canonical grammar, cyclic or not, every string, every fuel):
     * line 3 (C10_parse_sound; no forest hypothesis any more, no restriction on the constructor's
       start symbol other than that it is a key of g) and the "only if" half of line 1
       (C10_accept_sound, C10_parse_sound);
     * line 2: C10_reject_sound (SyntaxErr -> non-member: chart COMPLETENESS, pinned and repaired
       form alike, no guard), and with the explicit fuel bound `fuel_bound` (C10_chart_enough_fuel)
       the equivalence C10_syntaxerr_iff and the decision statement C10_accepts_iff;
     * forest_totalb is a theorem (C10_forest_total).
   Pinned code: the soundness statements carry the two guards that its recorded defects require
   (C10_*_refuted); the completeness statements need no guard.
   PROOF EXTENSION 2 (EarleyAcyclic.v, EarleyAcyclicSpec.v, EarleyCompleteMore.v, EarleyHarnessFuel.v):
     * line 1 is now proved in full for the grammars the property quantifies over:
       C10_parse_complete (a member gets a NON-EMPTY list of trees; the tree enumeration `trees`
       terminates within the SAME fuel bound `fuel_bound` as the chart), C10_parse_iff (line 1 as an
       equivalence), C10_parse_total (all three lines in one statement: with fuel >= fuel_bound the
       only outcomes are "member and >= 1 tree, all valid and spelling w" and "non-member and
       SyntaxError").  Side condition: the boolean `acyclicb (cgram g cstart)`, which is EQUIVALENT
       (C10_acyclicb_spec) to the declarative "no cyclic unit/nullable derivation A =>+ A" of the
       property's quantifier.  The condition is necessary FOR THE MODEL
       (C10_parse_complete_unguarded_refuted): the model enumerates the whole forest before it
       answers, Python's generator is lazy; such grammars are outside the property.
     * the hypothesis `defined g cstart = true` is REMOVED from the completeness theorems
       (C10_reject_sound, C10_accepts_complete, C10_accepts_iff, C10_syntaxerr_iff,
       C10_parse_complete): chart completeness is proved for derivations of the sub-grammar without
       the "<>" rule.  It remains in the SOUNDNESS statements about trees (C10_parse_sound,
       C10_forest_total and hence C10_parse_iff / C10_parse_total).
     * C10_harness_fuel_ok: the fuel formula of harness/c10.py (`fuel_for`, before its cap) is
       >= fuel_bound for every grammar and every input not longer than the longest of the grammar,
       so the fuel theorems apply to every EarleyParser.parse / parse_on case of the run;
       C10_harness_fuel_solver_ok: the same for the specialised grammar of the ISLaSolver.parse
       cases (EarleySolverFuel.v).
   STILL PARTIAL: nothing of the three lines for acyclic grammars.  Outside the guard
   (infinitely ambiguous grammars) C10_parse_member_outcomes_partial remains the strongest statement
   about members: non-empty list of trees or the model's out-of-fuel outcome. *)
From ISLA Require Import Grammar GrammarFacts Earley EarleyFacts EarleyPrune EarleyTop EarleyTrees
  EarleyComplete EarleyForest EarleyFuel EarleyWrap EarleyCompleteMore EarleyAcyclic EarleyAcyclicSpec
  EarleyHarnessFuel EarleySolverFuel.

(* (1) chart invariant: every item (A -> alpha . beta, origin s) of column j of the finished chart
   satisfies: A -> alpha beta is a rule, alpha =>* w[s..j) *)
Theorem C10_item_sound : forall g cstart fxA fuel start w chart,
  good_grammar g -> NoDup (map fst g) -> defined g WRAP = false -> defined g start = true ->
  (fxA = true \/ K_multistart g start = false) ->
  chart_of fxA fuel (cgram g cstart) start w = Ok chart ->
  length chart = S (length w) /\
  forall j col it, nth_error chart j = Some col -> In it col ->
    iorg it <= j /\ In (iexpr it) (alts (cgram g cstart) (iname it)) /\
    derives (cgram g cstart) (firstn (idot it) (iexpr it)) (sub w (iorg it) j).
Proof. exact item_sound. Qed.
Print Assumptions C10_item_sound.

(* derivations of the parser's single-character grammar are derivations of g *)
Theorem C10_transfer : forall g cstart A u,
  good_grammar g -> defined g WRAP = false -> defined g A = true ->
  derives (cgram g cstart) [A] u -> L g A u.
Proof. intros g cstart A u Hg Hw. exact (transfer_L g cstart Hg Hw A u). Qed.
Print Assumptions C10_transfer.

(* (2a) the recogniser accepts only members of the language *)
Theorem C10_accept_sound : forall g cstart fxA fxB fuel start w,
  good_grammar g -> NoDup (map fst g) -> defined g WRAP = false -> defined g start = true ->
  (fxA = true \/ K_multistart g start = false) ->
  (fxB = true \/ K_recstart g cstart start = false) ->
  earley_accepts fxA fxB fuel g cstart start w = Ok true -> L g start w.
Proof. intros g cstart fxA fxB fuel start w Hg Hnd Hw. exact (accept_sound g cstart Hg Hnd Hw fxA fxB fuel start w). Qed.
Print Assumptions C10_accept_sound.

(* (2b) [superseded by C10_parse_sound below, kept for reference] every returned tree is a valid,
   closed derivation tree of g, rooted in the requested
   nonterminal, spelling exactly the input (and the input is in the language).
   PARTIAL: under forest_totalb (every finished item of the chart has a parse path; evaluated in Coq
   on every chart of the correspondence run) and for parsers built without the "<>" rule. *)
Theorem C10_parse_sound_partial : forall fxA fxB fuel g cstart start w k ts t,
  good_grammar g -> NoDup (map fst g) -> defined g WRAP = false -> defined g start = true ->
  K_multistart g cstart = false ->
  (fxA = true \/ K_multistart g start = false) ->
  (fxB = true \/ K_recstart g cstart start = false) ->
  (forall chart, chart_of fxA fuel (cgram g cstart) start w = Ok chart ->
                 forest_totalb (cgram g cstart) w chart = true) ->
  earley_parse fxA fxB fuel g cstart start w k = Ok ts -> In t ts ->
  wf_tree g t /\ is_openT t = false /\ lbl t = start /\ yield t = w /\ L g start w.
Proof. exact parse_sound. Qed.
Print Assumptions C10_parse_sound_partial.

(* (2b') the same WITHOUT the forest hypothesis and WITHOUT the restriction on the constructor's
   start symbol (the rule "<>" ::= cstart may be present): FULL *)
Theorem C10_parse_sound : forall fxA fxB fuel g cstart start w k ts t,
  good_grammar g -> NoDup (map fst g) -> defined g WRAP = false ->
  defined g start = true -> defined g cstart = true ->
  (fxA = true \/ K_multistart g start = false) ->
  (fxB = true \/ K_recstart g cstart start = false) ->
  earley_parse fxA fxB fuel g cstart start w k = Ok ts -> In t ts ->
  wf_tree g t /\ is_openT t = false /\ lbl t = start /\ yield t = w /\ L g start w.
Proof. exact parse_sound_full. Qed.
Print Assumptions C10_parse_sound.

(* every finished item of a delivered chart has a parse path: the former hypothesis is a theorem *)
Theorem C10_forest_total : forall g cstart fxA fuel start w chart,
  good_grammar g -> NoDup (map fst g) -> defined g WRAP = false -> defined g start = true ->
  defined g cstart = true -> (fxA = true \/ K_multistart g start = false) ->
  chart_of fxA fuel (cgram g cstart) start w = Ok chart ->
  forest_totalb (cgram g cstart) w chart = true.
Proof. exact forest_total_holds. Qed.
Print Assumptions C10_forest_total.

(* ---- COMPLETENESS of the chart ---- *)

(* nullable() contains every symbol that derives the empty string (converse of C10_nullable_sound) *)
Theorem C10_nullable_complete : forall cg A, derives cg [A] [] -> mem A (nullable cg) = true.
Proof. exact nullable_complete. Qed.
Print Assumptions C10_nullable_complete.

(* (3a) reject_sound: SyntaxError is answered only for non-members.  FULL: every canonical grammar
   (cyclic / ambiguous or not), both forms of both defect spots, every fuel (an out-of-fuel run
   answers OtherErr, not SyntaxErr) *)
Theorem C10_reject_sound : forall g cstart fxA fxB fuel start w k,
  good_grammar g -> defined g start = true ->
  earley_parse fxA fxB fuel g cstart start w k = Raise SyntaxErr -> ~ L g start w.
Proof. exact reject_sound_nocs. Qed.
Print Assumptions C10_reject_sound.

(* (3b) the recogniser never answers `false` for a member *)
Theorem C10_accepts_complete : forall g cstart fxA fxB fuel start w b,
  good_grammar g -> defined g WRAP = false -> defined g start = true ->
  L g start w -> earley_accepts fxA fxB fuel g cstart start w = Ok b -> b = true.
Proof. exact accepts_complete_nocs. Qed.
Print Assumptions C10_accepts_complete.

(* (3c) fill_enough_fuel: above the computable bound
   fuel_bound cg n = (sum over the rules A -> e of cg of |e|+1) * (n+1) + 1
   the chart construction never runs out of fuel *)
Theorem C10_chart_enough_fuel : forall g cstart fxA fuel start w,
  good_grammar g -> defined g WRAP = false -> defined g start = true ->
  (fxA = true \/ K_multistart g start = false) ->
  fuel_bound (cgram g cstart) (length w) <= fuel ->
  exists chart, chart_of fxA fuel (cgram g cstart) start w = Ok chart.
Proof. exact chart_enough_fuel. Qed.
Print Assumptions C10_chart_enough_fuel.

(* (3d) the recogniser decides membership *)
Theorem C10_accepts_iff : forall g cstart fxA fxB fuel start w,
  good_grammar g -> NoDup (map fst g) -> defined g WRAP = false ->
  defined g start = true ->
  (fxA = true \/ K_multistart g start = false) ->
  (fxB = true \/ K_recstart g cstart start = false) ->
  fuel_bound (cgram g cstart) (length w) <= fuel ->
  exists b, earley_accepts fxA fxB fuel g cstart start w = Ok b /\ (b = true <-> L g start w).
Proof. exact accepts_iff_nocs. Qed.
Print Assumptions C10_accepts_iff.

(* (3e) line 2 of the property *)
Theorem C10_syntaxerr_iff : forall g cstart fxA fxB fuel start w k,
  good_grammar g -> NoDup (map fst g) -> defined g WRAP = false ->
  defined g start = true ->
  (fxA = true \/ K_multistart g start = false) ->
  (fxB = true \/ K_recstart g cstart start = false) ->
  fuel_bound (cgram g cstart) (length w) <= fuel ->
  (earley_parse fxA fxB fuel g cstart start w k = Raise SyntaxErr <-> ~ L g start w).
Proof. exact syntaxerr_iff_nocs. Qed.
Print Assumptions C10_syntaxerr_iff.

(* (3f) "if" half of line 1 for ARBITRARY (also infinitely ambiguous) grammars.  PARTIAL: a member
   gets a non-empty list of trees OR the out-of-fuel outcome of the tree enumeration.  For grammars
   without cyclic unit/nullable derivations it is superseded by C10_parse_complete below. *)
Theorem C10_parse_member_outcomes_partial : forall g cstart fxA fxB fuel start w k,
  good_grammar g -> defined g WRAP = false ->
  defined g start = true -> defined g cstart = true ->
  (fxA = true \/ K_multistart g start = false) ->
  fuel_bound (cgram g cstart) (length w) <= fuel -> 0 < k ->
  L g start w ->
  (exists ts, ts <> [] /\ earley_parse fxA fxB fuel g cstart start w k = Ok ts) \/
  earley_parse fxA fxB fuel g cstart start w k = Raise OutOfFuel.
Proof. exact parse_member_outcomes. Qed.
Print Assumptions C10_parse_member_outcomes_partial.

(* ---- TERMINATION of the tree enumeration; line 1 of the property ---- *)

(* the guard: acyclicb is exactly "no cyclic unit/nullable derivation A =>+ A" (ustep: A -> a x c is
   a rule and every symbol of a and c derives the empty string) *)
Theorem C10_acyclicb_spec : forall g cstart,
  good_grammar g -> NoDup (map fst g) -> defined g WRAP = false ->
  (acyclicb (cgram g cstart) = true <-> acyclic (cgram g cstart)).
Proof. exact acyclicb_cgram_spec. Qed.
Print Assumptions C10_acyclicb_spec.

(* (4a) with the fuel of the chart the enumeration of the forest below the accepting item answers
   (needs fuel (|w|+1) * #rules <= fuel_bound) *)
Theorem C10_trees_enough_fuel : forall g cstart fxA fxB fuel start w chart st,
  good_grammar g -> NoDup (map fst g) -> defined g WRAP = false -> defined g start = true ->
  (fxA = true \/ K_multistart g start = false) ->
  acyclicb (cgram g cstart) = true ->
  fuel_bound (cgram g cstart) (length w) <= fuel ->
  chart_of fxA fuel (cgram g cstart) start w = Ok chart ->
  find (accepting fxB start) (last chart []) = Some st ->
  exists ts, ts <> [] /\ trees fuel (cgram g cstart) chart w st (length w) = Some ts.
Proof. exact trees_enough_fuel. Qed.
Print Assumptions C10_trees_enough_fuel.

(* (4b) parse_complete, the "if" half of line 1: FULL for grammars without cyclic unit/nullable
   derivations; pinned and repaired form of the accepting-state choice alike (no K_recstart guard),
   no assumption on the constructor's start symbol *)
Theorem C10_parse_complete : forall g cstart fxA fxB fuel start w k,
  good_grammar g -> NoDup (map fst g) -> defined g WRAP = false ->
  defined g start = true ->
  (fxA = true \/ K_multistart g start = false) ->
  acyclicb (cgram g cstart) = true ->
  fuel_bound (cgram g cstart) (length w) <= fuel -> 0 < k ->
  L g start w ->
  exists ts, ts <> [] /\ earley_parse fxA fxB fuel g cstart start w k = Ok ts.
Proof. exact parse_complete. Qed.
Print Assumptions C10_parse_complete.

(* (4c) line 1 of the property *)
Theorem C10_parse_iff : forall g cstart fxA fxB fuel start w k,
  good_grammar g -> NoDup (map fst g) -> defined g WRAP = false ->
  defined g start = true -> defined g cstart = true ->
  (fxA = true \/ K_multistart g start = false) ->
  (fxB = true \/ K_recstart g cstart start = false) ->
  acyclicb (cgram g cstart) = true ->
  fuel_bound (cgram g cstart) (length w) <= fuel -> 0 < k ->
  ((exists ts, ts <> [] /\ earley_parse fxA fxB fuel g cstart start w k = Ok ts) <-> L g start w).
Proof. exact parse_iff. Qed.
Print Assumptions C10_parse_iff.

(* (4d) the whole property in one statement: with enough fuel parse has exactly two outcomes *)
Theorem C10_parse_total : forall g cstart fxA fxB fuel start w k,
  good_grammar g -> NoDup (map fst g) -> defined g WRAP = false ->
  defined g start = true -> defined g cstart = true ->
  (fxA = true \/ K_multistart g start = false) ->
  (fxB = true \/ K_recstart g cstart start = false) ->
  acyclicb (cgram g cstart) = true ->
  fuel_bound (cgram g cstart) (length w) <= fuel -> 0 < k ->
  (L g start w /\ exists t ts, earley_parse fxA fxB fuel g cstart start w k = Ok (t :: ts) /\
     forall t', In t' (t :: ts) ->
       wf_tree g t' /\ is_openT t' = false /\ lbl t' = start /\ yield t' = w) \/
  (~ L g start w /\ earley_parse fxA fxB fuel g cstart start w k = Raise SyntaxErr).
Proof. exact parse_total. Qed.
Print Assumptions C10_parse_total.

(* (4e) the fuel that harness/c10.py passes (fuel_for, before the cap) is above the bound of the
   theorems: hsum = sum over the alternatives a of the canonical grammar of |a| + 1 + sum |tokens|,
   harness_fuel g n = (hsum g + 4) * (n + 2) + 20, n = longest input of the grammar *)
Theorem C10_harness_fuel_ok : forall g cstart m n,
  m <= n -> fuel_bound (cgram g cstart) m <= harness_fuel g n.
Proof. exact harness_fuel_ok. Qed.
Print Assumptions C10_harness_fuel_ok.

Theorem C10_harness_fuel_capped_ok : forall g cstart m n cap,
  m <= n -> harness_fuel g n <= cap ->
  fuel_bound (cgram g cstart) m <= Nat.min cap (harness_fuel g n).
Proof. exact harness_fuel_capped_ok. Qed.
Print Assumptions C10_harness_fuel_capped_ok.

(* (4f) the same for the grammar that ISLaSolver.parse(inp, nt) hands to the parser (the model's
   `specialise g nt`: <start> ::= nt overrides the rule of <start>, unreachable rules deleted);
   the harness computes its fuel from the ORIGINAL grammar g *)
Theorem C10_harness_fuel_solver_ok : forall g nt m n,
  is_nt nt = true -> defined g nt = true -> m <= n ->
  fuel_bound (cgram (specialise g nt) START) m <= harness_fuel g n.
Proof. exact harness_fuel_solver_ok. Qed.
Print Assumptions C10_harness_fuel_solver_ok.

(* the boolean class of canonical grammars gives the Prop-level hypotheses *)
Theorem C10_canonical_form : forall g, canonical_form g = true -> good_grammar g /\ defined g WRAP = false.
Proof. exact canonical_form_good. Qed.
Print Assumptions C10_canonical_form.

(* prune_tree/coalesce: re-joining single characters reconstructs a valid tree with the same string *)
Theorem C10_prune_ok : forall g t, good_grammar g -> ctree g t -> defined g (lbl t) = true ->
  wf_tree g (prune g t) /\ is_openT (prune g t) = false /\ lbl (prune g t) = lbl t /\ yield (prune g t) = yield t.
Proof. exact prune_ok. Qed.
Print Assumptions C10_prune_ok.

(* nullable() only contains symbols that derive the empty string *)
Theorem C10_nullable_sound : forall cg, (forall A, defined cg A = true -> is_nt A = true) ->
  NoDup (map fst cg) -> forall A, mem A (nullable cg) = true -> derives cg [A] [].
Proof. exact nullable_sound. Qed.
Print Assumptions C10_nullable_sound.

(* independent membership oracle used by the correspondence run *)
Theorem C10_Lb_sound : forall fuel g A w, Lb fuel g A w = true -> L g A w.
Proof. exact Lb_sound. Qed.
Print Assumptions C10_Lb_sound.

Theorem C10_Lb_complete : forall g A w, L g A w -> exists fuel, forall f, fuel <= f -> Lb f g A w = true.
Proof. exact Lb_complete. Qed.
Print Assumptions C10_Lb_complete.

(* ---- the pinned code violates the full statement: witnesses ---- *)

(* K_multistart: neither a tree nor SyntaxError, although "a" is in the language *)
Theorem C10_multistart_refuted :
  K_multistart G_multi START = true /\ canonical_form G_multi = true /\
  earley_parse false false 100 G_multi START START [97]%N 8 = Raise TypeErr /\
  L G_multi START [97]%N /\
  exists t, earley_parse true false 100 G_multi START START [97]%N 8 = Ok [t].
Proof. exact multistart_refuted. Qed.
Print Assumptions C10_multistart_refuted.

(* K_recstart: input "xy" is accepted and the returned tree spells "y" *)
Theorem C10_recstart_refuted :
  K_recstart G_rec START START = true /\ K_multistart G_rec START = false /\ canonical_form G_rec = true /\
  (exists t, earley_parse false false 100 G_rec START START [120;121]%N 8 = Ok [t]
             /\ yield t = [121]%N /\ yield t <> [120;121]%N) /\
  earley_parse false true 100 G_rec START START [120;121]%N 8 = Raise SyntaxErr.
Proof. exact recstart_refuted. Qed.
Print Assumptions C10_recstart_refuted.

(* ---- non-vacuity of the hypotheses of the theorems above ---- *)
Example C10_hypotheses_satisfiable :
  canonical_form G_ex = true /\ NoDup (map fst G_ex) /\ defined G_ex START = true /\
  K_multistart G_ex START = false /\ K_recstart G_ex START START = false /\
  (forall chart, chart_of false 100 (cgram G_ex START) START [97;98;97;98]%N = Ok chart ->
                 forest_totalb (cgram G_ex START) [97;98;97;98]%N chart = true) /\
  earley_accepts false false 100 G_ex START START [97;98;97;98]%N = Ok true /\
  exists t, earley_parse false false 100 G_ex START START [97;98;97;98]%N 8 = Ok [t]
            /\ wf_treeb G_ex t = true /\ yield t = [97;98;97;98]%N.
Proof. exact hypotheses_satisfiable. Qed.
Print Assumptions C10_hypotheses_satisfiable.

(* non-vacuity of the hypotheses of the completeness theorems: a member parsed, a non-member
   answered SyntaxError, fuel above the bound; and a parser whose start symbol has two
   alternatives ("<>" rule present, repaired form) *)
Example C10_complete_hypotheses_satisfiable :
  canonical_form G_ex = true /\ NoDup (map fst G_ex) /\ defined G_ex START = true /\
  K_multistart G_ex START = false /\ K_recstart G_ex START START = false /\
  fuel_bound (cgram G_ex START) 4 <= 100 /\
  L G_ex START [97;98;97;98]%N /\
  (exists t, earley_parse false false 100 G_ex START START [97;98;97;98]%N 8 = Ok [t]) /\
  earley_parse false false 100 G_ex START START [97;98;97]%N 8 = Raise SyntaxErr /\
  earley_accepts false false 100 G_ex START START [97;98;97]%N = Ok false /\
  canonical_form G_multi = true /\ K_multistart G_multi START = true /\
  fuel_bound (cgram G_multi START) 1 <= 100 /\
  (exists t, earley_parse true true 100 G_multi START START [97]%N 8 = Ok [t] /\ wf_treeb G_multi t = true) /\
  earley_parse true true 100 G_multi START START [99]%N 8 = Raise SyntaxErr.
Proof. exact complete_hypotheses_satisfiable. Qed.
Print Assumptions C10_complete_hypotheses_satisfiable.

(* non-vacuity of the hypotheses of C10_parse_complete / C10_parse_iff / C10_parse_total with the
   harness' fuel: ambiguous grammar <e> ::= <e>+<e> | a, both trees of a+a+a delivered, a+ rejected *)
Example C10_parse_complete_hypotheses_satisfiable :
  canonical_form G_amb = true /\ NoDup (map fst G_amb) /\ defined G_amb START = true /\
  K_multistart G_amb START = false /\ K_recstart G_amb START START = false /\
  acyclicb (cgram G_amb START) = true /\
  fuel_bound (cgram G_amb START) 5 <= harness_fuel G_amb 5 /\
  L G_amb START [97;43;97;43;97]%N /\
  (exists t1 t2, earley_parse false false (harness_fuel G_amb 5) G_amb START START [97;43;97;43;97]%N 8 = Ok [t1; t2]
                 /\ wf_treeb G_amb t1 = true /\ wf_treeb G_amb t2 = true) /\
  earley_parse false false (harness_fuel G_amb 5) G_amb START START [97;43]%N 8 = Raise SyntaxErr /\
  canonical_form G_ex = true /\ acyclicb (cgram G_ex START) = true /\
  canonical_form G_multi = true /\ acyclicb (cgram G_multi START) = true.
Proof. exact parse_complete_hypotheses_satisfiable. Qed.
Print Assumptions C10_parse_complete_hypotheses_satisfiable.

(* the guard acyclicb cannot be dropped FOR THE MODEL: <a> ::= <b> | "a", <b> ::= <a><b> | "" has
   <a> =>+ <a>; "a" is a member, accepted by the recogniser, and the (non-lazy) tree enumeration
   of the model answers out-of-fuel where Python's lazy generator yields a first tree *)
Example C10_parse_complete_unguarded_refuted :
  canonical_form G_cyc = true /\ NoDup (map fst G_cyc) /\ K_multistart G_cyc START = false /\
  acyclicb (cgram G_cyc START) = false /\
  L G_cyc START [97]%N /\ fuel_bound (cgram G_cyc START) 1 <= 200 /\
  earley_accepts true true 200 G_cyc START START [97]%N = Ok true /\
  earley_parse true true 200 G_cyc START START [97]%N 1 = Raise OutOfFuel.
Proof. exact parse_complete_unguarded_refuted. Qed.
Print Assumptions C10_parse_complete_unguarded_refuted.
