(* C10 — The parser accepts exactly the grammar's language and returns faithful trees.
   Only statements + `exact`; proofs are in Grammar/EarleyFacts.v, EarleyPrune.v, EarleyTop.v,
   EarleyTrees.v.  Model: Grammar/Earley.v (isla/parser.py EarleyParser + Parser.parse_on +
   prune_tree/coalesce; solver.py ISLaSolver.parse).

   fxA / fxB select the pinned (false) or repaired (true) form of chart_parse's seeding and of
   parse()'s choice of the accepting state (proposed_fixes/C10-multistart.diff, C10-recstart.diff).
   With fxA = fxB = true the guards K_multistart / K_recstart disappear from every statement.

   FULL STATEMENT OF THE PROPERTY (for the record):
     forall g start w,  grammar g canonical, without cyclic unit/nullable derivations:
       (exists ts, ts <> [] /\ parse g start w = Ok ts)  <->  L g start w
       /\ (parse g start w = Raise SyntaxErr <-> ~ L g start w)
       /\ forall t in parse g start w: wf_tree g t /\ closed t /\ lbl t = start /\ yield t = w.
   Proved below: the "only if" half of the first line and the whole third line (soundness:
   C10_item_sound, C10_accept_sound, C10_parse_sound_partial), for the pinned code under the two
   guards that its recorded defects require (C10_*_refuted).  NOT proved: completeness of the
   chart (reject_sound: `Raise SyntaxErr -> ~ L g start w`, and that every finished item has a
   parse path = hypothesis forest_totalb of C10_parse_sound_partial).  Those two claims are tied
   to the code only by the correspondence run (all strings up to the length bound, membership
   decided by an independent recogniser and by the proved-sound oracle Lb; forest_totalb is
   evaluated in Coq on every chart of the run). *)
From ISLA Require Import Grammar GrammarFacts Earley EarleyFacts EarleyPrune EarleyTop EarleyTrees.

(* (1) chart invariant: every item (A -> alpha . beta, origin s) of column j of the finished chart
   satisfies: A -> alpha beta is a rule, alpha =>* w[s..j) *)
Theorem C10_item_sound : forall g cstart fxA fuel start w chart,
  good_grammar g -> NoDup (map fst g) -> defined g WRAP = false -> defined g start = true ->
  (fxA = true \/ K_multistart g start = false) ->
  chart_of fxA fuel (cgram g cstart) start w = Ok chart ->
  length chart = S (length w) /\
  forall j col it, nth_error chart j = Some col -> In it col ->
    iorg it <= j /\ In (iexpr it) (alts (cgram g cstart) (iname it)) /\
    derives (cgram g cstart) (firstn (idot it) (iexpr it)) (sub w (iorg it) j).
Proof. exact item_sound. Qed.
Print Assumptions C10_item_sound.

(* derivations of the parser's single-character grammar are derivations of g *)
Theorem C10_transfer : forall g cstart A u,
  good_grammar g -> defined g WRAP = false -> defined g A = true ->
  derives (cgram g cstart) [A] u -> L g A u.
Proof. intros g cstart A u Hg Hw. exact (transfer_L g cstart Hg Hw A u). Qed.
Print Assumptions C10_transfer.

(* (2a) the recogniser accepts only members of the language *)
Theorem C10_accept_sound : forall g cstart fxA fxB fuel start w,
  good_grammar g -> NoDup (map fst g) -> defined g WRAP = false -> defined g start = true ->
  (fxA = true \/ K_multistart g start = false) ->
  (fxB = true \/ K_recstart g cstart start = false) ->
  earley_accepts fxA fxB fuel g cstart start w = Ok true -> L g start w.
Proof. intros g cstart fxA fxB fuel start w Hg Hnd Hw. exact (accept_sound g cstart Hg Hnd Hw fxA fxB fuel start w). Qed.
Print Assumptions C10_accept_sound.

(* (2b) every returned tree is a valid, closed derivation tree of g, rooted in the requested
   nonterminal, spelling exactly the input (and the input is in the language).
   PARTIAL: under forest_totalb (every finished item of the chart has a parse path; evaluated in Coq
   on every chart of the correspondence run) and for parsers built without the "<>" rule. *)
Theorem C10_parse_sound_partial : forall fxA fxB fuel g cstart start w k ts t,
  good_grammar g -> NoDup (map fst g) -> defined g WRAP = false -> defined g start = true ->
  K_multistart g cstart = false ->
  (fxA = true \/ K_multistart g start = false) ->
  (fxB = true \/ K_recstart g cstart start = false) ->
  (forall chart, chart_of fxA fuel (cgram g cstart) start w = Ok chart ->
                 forest_totalb (cgram g cstart) w chart = true) ->
  earley_parse fxA fxB fuel g cstart start w k = Ok ts -> In t ts ->
  wf_tree g t /\ is_openT t = false /\ lbl t = start /\ yield t = w /\ L g start w.
Proof. exact parse_sound. Qed.
Print Assumptions C10_parse_sound_partial.

(* the boolean class of canonical grammars gives the Prop-level hypotheses *)
Theorem C10_canonical_form : forall g, canonical_form g = true -> good_grammar g /\ defined g WRAP = false.
Proof. exact canonical_form_good. Qed.
Print Assumptions C10_canonical_form.

(* prune_tree/coalesce: re-joining single characters reconstructs a valid tree with the same string *)
Theorem C10_prune_ok : forall g t, good_grammar g -> ctree g t -> defined g (lbl t) = true ->
  wf_tree g (prune g t) /\ is_openT (prune g t) = false /\ lbl (prune g t) = lbl t /\ yield (prune g t) = yield t.
Proof. exact prune_ok. Qed.
Print Assumptions C10_prune_ok.

(* nullable() only contains symbols that derive the empty string *)
Theorem C10_nullable_sound : forall cg, (forall A, defined cg A = true -> is_nt A = true) ->
  NoDup (map fst cg) -> forall A, mem A (nullable cg) = true -> derives cg [A] [].
Proof. exact nullable_sound. Qed.
Print Assumptions C10_nullable_sound.

(* independent membership oracle used by the correspondence run *)
Theorem C10_Lb_sound : forall fuel g A w, Lb fuel g A w = true -> L g A w.
Proof. exact Lb_sound. Qed.
Print Assumptions C10_Lb_sound.

Theorem C10_Lb_complete : forall g A w, L g A w -> exists fuel, forall f, fuel <= f -> Lb f g A w = true.
Proof. exact Lb_complete. Qed.
Print Assumptions C10_Lb_complete.

(* ---- the pinned code violates the full statement: witnesses ---- *)

(* K_multistart: neither a tree nor SyntaxError, although "a" is in the language *)
Theorem C10_multistart_refuted :
  K_multistart G_multi START = true /\ canonical_form G_multi = true /\
  earley_parse false false 100 G_multi START START [97]%N 8 = Raise TypeErr /\
  L G_multi START [97]%N /\
  exists t, earley_parse true false 100 G_multi START START [97]%N 8 = Ok [t].
Proof. exact multistart_refuted. Qed.
Print Assumptions C10_multistart_refuted.

(* K_recstart: input "xy" is accepted and the returned tree spells "y" *)
Theorem C10_recstart_refuted :
  K_recstart G_rec START START = true /\ K_multistart G_rec START = false /\ canonical_form G_rec = true /\
  (exists t, earley_parse false false 100 G_rec START START [120;121]%N 8 = Ok [t]
             /\ yield t = [121]%N /\ yield t <> [120;121]%N) /\
  earley_parse false true 100 G_rec START START [120;121]%N 8 = Raise SyntaxErr.
Proof. exact recstart_refuted. Qed.
Print Assumptions C10_recstart_refuted.

(* ---- non-vacuity of the hypotheses of the theorems above ---- *)
Example C10_hypotheses_satisfiable :
  canonical_form G_ex = true /\ NoDup (map fst G_ex) /\ defined G_ex START = true /\
  K_multistart G_ex START = false /\ K_recstart G_ex START START = false /\
  (forall chart, chart_of false 100 (cgram G_ex START) START [97;98;97;98]%N = Ok chart ->
                 forest_totalb (cgram G_ex START) [97;98;97;98]%N chart = true) /\
  earley_accepts false false 100 G_ex START START [97;98;97;98]%N = Ok true /\
  exists t, earley_parse false false 100 G_ex START START [97;98;97;98]%N 8 = Ok [t]
            /\ wf_treeb G_ex t = true /\ yield t = [97;98;97;98]%N.
Proof. exact hypotheses_satisfiable. Qed.
Print Assumptions C10_hypotheses_satisfiable.
