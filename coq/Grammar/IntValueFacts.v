(* C14 proof extension 3 — SPEC + PROOFS for Grammar/IntValue.v (extract_model_value_int_var).
   Composition with C10 (Earley model, through the specialised grammar: EarleySpecialise.v and the
   mk_parse theorems of Logic/SemPredsCompose.v) and with the numeral printer (SemPredsFacts.v). *)
From ISLA Require Import SemPreds SemPredsFacts SemPredsParser SemPredsCompose.
From ISLA Require Import Grammar GrammarFacts Earley EarleyFacts EarleyPrune EarleyTop EarleyTrees
  EarleyComplete EarleyForest EarleyFuel EarleyWrap EarleySpecialise EarleyHarnessFuel EarleySolverFuel.
From ISLA Require Import IntValue.
From Coq Require Import Lia ZArith List Bool.
Import ListNotations.

(* ------------------------------------------------------------------------------------ *)
(* 1. numerals: intval reads back what str() / the candidate builder print               *)
(* ------------------------------------------------------------------------------------ *)

(* declarative format `[+-]? 0* digits`: the strings the code is prepared to try for z *)
Definition supported (z : Z) (w : str) : Prop := exists plus k, w = cand z plus k.

Lemma is_dig_digit c : SemPredsFacts.is_digit 10 c -> is_dig c = true.
Proof. unfold SemPredsFacts.is_digit, is_dig. intros [H1 H2]. apply andb_true_intro. split; [apply N.leb_le | apply N.leb_le]; lia. Qed.

Lemma forallb_zeros k : forallb is_dig (zeros k) = true.
Proof. induction k as [|k IH]; [reflexivity|]. simpl. exact IH. Qed.

Lemma fold_zeros (k : nat) (s : str) :
  fold_left (fun a c => a * 10 + (c - 48))%N (zeros k ++ s) 0%N = fold_left (fun a c => a * 10 + (c - 48))%N s 0%N.
Proof. induction k as [|k IH]; [reflexivity|]. simpl. exact IH. Qed.

Lemma dec_digits n : forallb is_dig (SemPreds.dec_of_N n) = true /\ SemPreds.dec_of_N n <> [] /\
  fold_left (fun a c => a * 10 + (c - 48))%N (SemPreds.dec_of_N n) 0%N = n.
Proof.
  destruct (SemPredsFacts.numeral_digits 10 _ _ (SemPredsFacts.dec_of_N_numeral n)) as (HF & Hne & Hv).
  split; [|split; [exact Hne | exact Hv]].
  apply forallb_forall. intros c Hc. apply is_dig_digit. rewrite Forall_forall in HF. apply HF, Hc.
Qed.

Lemma digs_val_padded k n : digs_val (zeros k ++ SemPreds.dec_of_N n) = Some n.
Proof.
  destruct (dec_digits n) as (HF & Hne & Hv). unfold digs_val.
  destruct (zeros k ++ SemPreds.dec_of_N n) eqn:E.
  - apply app_eq_nil in E. destruct E as [_ E]. contradiction.
  - rewrite <- E. rewrite forallb_app, forallb_zeros, HF. cbn [andb]. rewrite fold_zeros, Hv. reflexivity.
Qed.

Lemma padded_head k n c r : zeros k ++ SemPreds.dec_of_N n = c :: r -> is_dig c = true.
Proof.
  intro E. assert (H : forallb is_dig (zeros k ++ SemPreds.dec_of_N n) = true).
  { rewrite forallb_app, forallb_zeros. destruct (dec_digits n) as (HF & _). rewrite HF. reflexivity. }
  rewrite E in H. cbn [forallb] in H. apply andb_prop in H. exact (proj1 H).
Qed.

Lemma intval_unsigned s : (forall c r, s = c :: r -> is_dig c = true) -> s <> [] ->
  intval s = option_map Z.of_N (digs_val s).
Proof.
  intros H Hne. destruct s as [|c r]; [contradiction Hne; reflexivity|].
  specialize (H c r eq_refl). unfold is_dig in H. apply andb_prop in H. destruct H as [H1 H2].
  apply N.leb_le in H1. apply N.leb_le in H2. unfold intval.
  destruct (N.eqb_spec c 43) as [E|_]; [lia|]. destruct (N.eqb_spec c 45) as [E|_]; [lia|]. reflexivity.
Qed.

(* every candidate string denotes z *)
Theorem intval_cand z plus k : intval (cand z plus k) = Some z.
Proof.
  unfold cand. destruct (Z.ltb_spec z 0) as [Hneg|Hpos].
  - cbn [app]. unfold intval. change (45 =? 43)%N with false. change (45 =? 45)%N with true. cbv iota.
    rewrite digs_val_padded. cbn [option_map]. f_equal. rewrite N2Z.inj_abs_N. lia.
  - destruct plus.
    + cbn [app]. unfold intval. change (43 =? 43)%N with true. cbv iota.
      rewrite digs_val_padded. cbn [option_map]. f_equal. rewrite N2Z.inj_abs_N. lia.
    + cbn [app]. rewrite intval_unsigned.
      * rewrite digs_val_padded. cbn [option_map]. f_equal. rewrite N2Z.inj_abs_N. lia.
      * intros c r E. exact (padded_head k _ c r E).
      * intro E. apply app_eq_nil in E. destruct E as [_ E]. destruct (dec_digits (Z.abs_N z)) as (_ & Hne & _). contradiction.
Qed.

Lemma py_str_cand z : py_str_Z z = cand z false 0.
Proof. unfold py_str_Z, cand. destruct (z <? 0)%Z; reflexivity. Qed.

Theorem intval_py_str z : intval (py_str_Z z) = Some z.
Proof. rewrite py_str_cand. apply intval_cand. Qed.

Lemma supported_py_str z : supported z (py_str_Z z).
Proof. exists false, 0. apply py_str_cand. Qed.

Theorem supported_intval z w : supported z w -> intval w = Some z.
Proof. intros (p & k & E). subst w. apply intval_cand. Qed.

(* ------------------------------------------------------------------------------------ *)
(* 2. ISLaSolver.parse(inp, nt) for nt <> "<start>"  =  mk_parse up to the empty-list exception *)
(* ------------------------------------------------------------------------------------ *)
Lemma solver_parse_mk fxA fxB fuel g nt w : nt <> START ->
  solver_parse fxA fxB fuel g nt w =
  match SemPredsParser.mk_parse fxA fxB fuel g nt w with
  | Raise IndexErr =>
      match earley_parse fxA fxB fuel (SemPredsParser.mk_grammar g nt) START START w 1 with
      | Ok [] => Raise StopIter | _ => Raise IndexErr end
  | r => r
  end.
Proof.
  intro Hne. unfold solver_parse, SemPredsParser.mk_parse, specialise, SemPredsParser.mk_grammar.
  apply str_eqb_neq in Hne. rewrite Hne.
  destruct (earley_parse fxA fxB fuel (delete_unreachable (set_key g START [[nt]])) START START w 1) as [[|t ts]|e].
  - reflexivity.
  - destruct (kids t) as [|k ks]; reflexivity.
  - destruct e; reflexivity.
Qed.

Lemma solver_parse_ok_mk fxA fxB fuel g nt w t : nt <> START ->
  solver_parse fxA fxB fuel g nt w = Ok t -> SemPredsParser.mk_parse fxA fxB fuel g nt w = Ok t.
Proof.
  intros Hne. rewrite (solver_parse_mk fxA fxB fuel g nt w Hne).
  destruct (SemPredsParser.mk_parse fxA fxB fuel g nt w) as [r|e]; [trivial|].
  destruct e; try discriminate.
  destruct (earley_parse fxA fxB fuel (SemPredsParser.mk_grammar g nt) START START w 1) as [[|? ?]|?]; discriminate.
Qed.

Lemma solver_parse_exn_mk fxA fxB fuel g nt w e : nt <> START -> e <> IndexErr -> e <> StopIter ->
  (solver_parse fxA fxB fuel g nt w = Raise e <-> SemPredsParser.mk_parse fxA fxB fuel g nt w = Raise e).
Proof.
  intros Hne H1 H2. rewrite (solver_parse_mk fxA fxB fuel g nt w Hne).
  destruct (SemPredsParser.mk_parse fxA fxB fuel g nt w) as [r|e0]; [tauto|].
  destruct e0; try tauto.
  destruct (earley_parse fxA fxB fuel (SemPredsParser.mk_grammar g nt) START START w 1) as [[|? ?]|?];
    split; intro H; inversion H; congruence.
Qed.

(* ------------------------------------------------------------------------------------ *)
(* 3. extract_model_value_int_var                                                        *)
(* ------------------------------------------------------------------------------------ *)
Section IntValueSound.
  Variable g : grammar.
  Variables fxA fxB : bool.
  Variable fuelf : str -> nat.
  Variable oracle : int_oracle.
  Variable nt : str.
  Hypothesis Hcanon : canonical_form g = true.
  Hypothesis Hnd : NoDup (map fst g).
  Hypothesis Ho : occurs_rhs g START = false.
  Hypothesis Hnt : defined g nt = true.
  Hypothesis Hne : nt <> START.

  Lemma sp_sound w t : solver_parse fxA fxB (fuelf w) g nt w = Ok t ->
    wf_tree g t /\ lbl t = nt /\ is_openT t = false /\ yield t = w /\ L g nt w.
  Proof.
    intro H. apply (solver_parse_ok_mk _ _ _ _ _ _ _ Hne) in H.
    exact (SemPredsCompose.mk_parse_sound g fxA fxB (fuelf w) nt Hcanon Hnd Ho Hnt Hne w t H).
  Qed.

  Lemma sp_reject w : solver_parse fxA fxB (fuelf w) g nt w = Raise SyntaxErr -> ~ L g nt w.
  Proof.
    intro H. apply (solver_parse_exn_mk _ _ _ _ _ _ SyntaxErr Hne) in H; try discriminate.
    exact (SemPredsCompose.mk_parse_reject g fxA fxB (fuelf w) nt Hcanon Hnd Ho Hnt Hne w H).
  Qed.

  (* the string that was parsed when a tree is returned *)
  Lemma int_value_ok_inv z t : int_value fxA fxB fuelf g oracle nt z = Ok t ->
    exists w, supported z w /\ solver_parse fxA fxB (fuelf w) g nt w = Ok t.
  Proof.
    unfold int_value. destruct (solver_parse fxA fxB (fuelf (py_str_Z z)) g nt (py_str_Z z)) as [r|e] eqn:E1.
    - intro H. inversion H; subst r. exists (py_str_Z z). split; [apply supported_py_str | exact E1].
    - destruct e; try discriminate.
      destruct (oracle nt z) as [[p k]|]; [|discriminate].
      intro H. exists (cand z p k). split; [exists p, k; reflexivity | exact H].
  Qed.

  (* int_value_sound: for every oracle (whatever Z3 answers), every fuel function *)
  Theorem int_value_sound z t : int_value fxA fxB fuelf g oracle nt z = Ok t ->
    wf_tree g t /\ closedb t = true /\ lbl t = nt /\ intval (yield t) = Some z /\
    supported z (yield t) /\ L g nt (yield t).
  Proof.
    intro H. destruct (int_value_ok_inv z t H) as (w & Hs & Hp).
    destruct (sp_sound w t Hp) as (Hwf & Hl & Hc & Hy & HL).
    split; [exact Hwf|]. split; [unfold closedb; rewrite Hc; reflexivity|]. split; [exact Hl|].
    rewrite Hy. split; [apply supported_intval; exact Hs|]. split; [exact Hs | exact HL].
  Qed.

  (* RuntimeError is raised exactly when str(z) is rejected and the Z3 query is not sat *)
  Theorem int_value_runtime_inv z : int_value fxA fxB fuelf g oracle nt z = Raise RuntimeErr ->
    (solver_parse fxA fxB (fuelf (py_str_Z z)) g nt (py_str_Z z) = Raise SyntaxErr /\ oracle nt z = None /\
     ~ L g nt (py_str_Z z))
    \/ (exists w, supported z w /\ solver_parse fxA fxB (fuelf w) g nt w = Raise RuntimeErr).
  Proof.
    unfold int_value. destruct (solver_parse fxA fxB (fuelf (py_str_Z z)) g nt (py_str_Z z)) as [r|e] eqn:E1; [discriminate|].
    destruct e; try discriminate.
    - intros _. right. exists (py_str_Z z). split; [apply supported_py_str | exact E1].
    - destruct (oracle nt z) as [[p k]|] eqn:Eo.
      + intro H. right. exists (cand z p k). split; [exists p, k; reflexivity | exact H].
      + intros _. left. split; [reflexivity|]. split; [reflexivity|]. apply sp_reject. exact E1.
  Qed.

  (* ---- with enough fuel for the charts (e.g. the harness' fuel): outcome classification ---- *)
  Hypothesis Hfuel : forall w, fuel_bound (cgram (SemPredsParser.mk_grammar g nt) START) (length w) <= fuelf w.

  Lemma sp_outcomes w :
    (exists t, solver_parse fxA fxB (fuelf w) g nt w = Ok t /\ L g nt w)
    \/ (solver_parse fxA fxB (fuelf w) g nt w = Raise SyntaxErr /\ ~ L g nt w)
    \/ (solver_parse fxA fxB (fuelf w) g nt w = Raise OutOfFuel /\ L g nt w).
  Proof.
    destruct (SemPredsCompose.mk_parse_outcomes g fxA fxB (fuelf w) nt Hcanon Hnd Ho Hnt Hne w (Hfuel w))
      as [(r & E & _ & _ & _ & _ & HL)|[(E & HL)|(E & HL)]].
    - left. exists r. split; [|exact HL]. rewrite (solver_parse_mk _ _ _ _ _ _ Hne), E. reflexivity.
    - right. left. split; [|exact HL]. apply (solver_parse_exn_mk _ _ _ _ _ _ SyntaxErr Hne); try discriminate. exact E.
    - right. right. split; [|exact HL]. apply (solver_parse_exn_mk _ _ _ _ _ _ OutOfFuel Hne); try discriminate. exact E.
  Qed.

  Theorem int_value_runtime_iff z : int_value fxA fxB fuelf g oracle nt z = Raise RuntimeErr <->
    (~ L g nt (py_str_Z z) /\ oracle nt z = None).
  Proof.
    split.
    - intro H. destruct (int_value_runtime_inv z H) as [(_ & Hn & HL)|(w & _ & E)]; [split; assumption|].
      destruct (sp_outcomes w) as [(t & E' & _)|[(E' & _)|(E' & _)]]; rewrite E' in E; discriminate.
    - intros [HL Hn]. unfold int_value.
      destruct (sp_outcomes (py_str_Z z)) as [(t & _ & HL')|[(E' & _)|(_ & HL')]]; try contradiction.
      rewrite E', Hn. reflexivity.
  Qed.

  (* all outcomes *)
  Theorem int_value_outcomes z :
    (exists t, int_value fxA fxB fuelf g oracle nt z = Ok t)
    \/ (int_value fxA fxB fuelf g oracle nt z = Raise RuntimeErr /\ ~ L g nt (py_str_Z z) /\ oracle nt z = None)
    \/ (int_value fxA fxB fuelf g oracle nt z = Raise SyntaxErr /\ ~ L g nt (py_str_Z z) /\
        exists p k, oracle nt z = Some (p, k) /\ ~ L g nt (cand z p k))
    \/ (int_value fxA fxB fuelf g oracle nt z = Raise OutOfFuel /\ exists w, supported z w /\ L g nt w).
  Proof.
    unfold int_value.
    destruct (sp_outcomes (py_str_Z z)) as [(t & E & _)|[(E & HL)|(E & HL)]]; rewrite E.
    - left. exists t. reflexivity.
    - destruct (oracle nt z) as [[p k]|] eqn:Eo.
      + destruct (sp_outcomes (cand z p k)) as [(t & E2 & _)|[(E2 & HL2)|(E2 & HL2)]]; rewrite E2.
        * left. exists t. reflexivity.
        * right. right. left. split; [reflexivity|]. split; [exact HL|]. exists p, k. split; [reflexivity | exact HL2].
        * right. right. right. split; [reflexivity|]. exists (cand z p k). split; [exists p, k; reflexivity | exact HL2].
      + right. left. split; [reflexivity|]. split; [exact HL | reflexivity].
    - right. right. right. split; [reflexivity|]. exists (py_str_Z z). split; [apply supported_py_str | exact HL].
  Qed.

  (* ---- premises about the Z3 query ---- *)
  (* soundness of the query: the regular expression under-approximates the language
     (extract_regular_expression: "L(regex) subseteq L(grammar)") and Z3's model satisfies the query *)
  Definition oracle_sound : Prop := forall z p k, oracle nt z = Some (p, k) -> L g nt (cand z p k).
  (* completeness of the query: not-sat only if no string of the supported format is in the language
     (the regular expression is exact on the supported format and Z3 does not give up) *)
  Definition oracle_complete : Prop := forall z, oracle nt z = None -> forall w, supported z w -> ~ L g nt w.

  Theorem int_value_no_syntaxerr z : oracle_sound -> int_value fxA fxB fuelf g oracle nt z <> Raise SyntaxErr.
  Proof.
    intros Hs H. destruct (int_value_outcomes z) as [(t & E)|[(E & _)|[(_ & _ & p & k & Eo & HL)|(E & _)]]];
      try (rewrite E in H; discriminate).
    apply HL. apply Hs. exact Eo.
  Qed.

  Theorem int_value_runtime_complete z : oracle_complete ->
    int_value fxA fxB fuelf g oracle nt z = Raise RuntimeErr -> forall w, supported z w -> ~ L g nt w.
  Proof. intros Hc H. apply int_value_runtime_iff in H. destruct H as [_ Hn]. exact (Hc z Hn). Qed.

  (* a tree is returned iff some string of the supported format is in the language — up to the
     out-of-fuel outcome of the tree enumeration (the open part of C10) *)
  Theorem int_value_ok_iff_partial z : oracle_sound -> oracle_complete ->
    int_value fxA fxB fuelf g oracle nt z <> Raise OutOfFuel ->
    ((exists t, int_value fxA fxB fuelf g oracle nt z = Ok t) <-> exists w, supported z w /\ L g nt w).
  Proof.
    intros Hs Hc Hno. split.
    - intros (t & E). destruct (int_value_sound z t E) as (_ & _ & _ & _ & Hsup & HL). exists (yield t). split; assumption.
    - intros (w & Hsup & HL).
      destruct (int_value_outcomes z) as [Hok|[(E & _ & Hn)|[(E & _)|(E & _)]]].
      + exact Hok.
      + exfalso. exact (Hc z Hn w Hsup HL).
      + exfalso. exact (int_value_no_syntaxerr z Hs E).
      + contradiction.
  Qed.
End IntValueSound.

(* ---- instance: the fuel the check uses (computed from the original grammar) is enough ---- *)
Lemma hfuel_ok g nt : canonical_form g = true -> defined g nt = true -> nt <> START ->
  forall w, fuel_bound (cgram (SemPredsParser.mk_grammar g nt) START) (length w) <= hfuel g w.
Proof.
  intros Hc Hd Hne w. unfold hfuel.
  assert (Hnt : is_nt nt = true) by (apply (proj1 (proj1 (canonical_form_good g Hc))); exact Hd).
  pose proof (harness_fuel_solver_ok g nt (length w) (length w) Hnt Hd (le_n _)) as H.
  unfold specialise in H. apply str_eqb_neq in Hne. rewrite Hne in H. exact H.
Qed.

(* boolean guard = the hypotheses of the theorems, evaluated by the check on every case *)
Fixpoint nodupb (l : list str) : bool :=
  match l with [] => true | x :: r => negb (mem x r) && nodupb r end.
Lemma nodupb_spec l : nodupb l = true -> NoDup l.
Proof.
  induction l as [|x r IH]; intro H; [constructor|]. cbn [nodupb] in H. apply andb_prop in H. destruct H as [H1 H2].
  constructor; [|apply IH; exact H2]. intro Hin. apply mem_In in Hin. rewrite Hin in H1. discriminate.
Qed.
Definition int_guard (g : grammar) (nt : str) : bool :=
  canonical_form g && nodupb (map fst g) && negb (occurs_rhs g START) && defined g nt && negb (str_eqb nt START).

Lemma int_guard_spec g nt : int_guard g nt = true ->
  canonical_form g = true /\ NoDup (map fst g) /\ occurs_rhs g START = false /\ defined g nt = true /\ nt <> START.
Proof.
  unfold int_guard. rewrite !andb_true_iff, !negb_true_iff. intros ((((H1 & H2) & H3) & H4) & H5).
  repeat split; try assumption; [apply nodupb_spec; exact H2 | apply str_eqb_neq; exact H5].
Qed.

Section HarnessFuel.
  Variable g : grammar.
  Variables fxA fxB : bool.
  Variable oracle : int_oracle.
  Variable nt : str.
  Hypothesis Hg : int_guard g nt = true.
  Let Hc := proj1 (int_guard_spec g nt Hg).
  Let Hnd := proj1 (proj2 (int_guard_spec g nt Hg)).
  Let Ho := proj1 (proj2 (proj2 (int_guard_spec g nt Hg))).
  Let Hd := proj1 (proj2 (proj2 (proj2 (int_guard_spec g nt Hg)))).
  Let Hne := proj2 (proj2 (proj2 (proj2 (int_guard_spec g nt Hg)))).

  Theorem int_value_sound_g fuelf z t : int_value fxA fxB fuelf g oracle nt z = Ok t ->
    wf_tree g t /\ closedb t = true /\ lbl t = nt /\ intval (yield t) = Some z /\
    supported z (yield t) /\ L g nt (yield t).
  Proof. exact (int_value_sound g fxA fxB fuelf oracle nt Hc Hnd Ho Hd Hne z t). Qed.

  Theorem int_value_runtime_iff_hf z : int_value fxA fxB (hfuel g) g oracle nt z = Raise RuntimeErr <->
    (~ L g nt (py_str_Z z) /\ oracle nt z = None).
  Proof. exact (int_value_runtime_iff g fxA fxB (hfuel g) oracle nt Hc Hnd Ho Hd Hne (hfuel_ok g nt Hc Hd Hne) z). Qed.

  Theorem int_value_outcomes_hf z :
    (exists t, int_value fxA fxB (hfuel g) g oracle nt z = Ok t)
    \/ (int_value fxA fxB (hfuel g) g oracle nt z = Raise RuntimeErr /\ ~ L g nt (py_str_Z z) /\ oracle nt z = None)
    \/ (int_value fxA fxB (hfuel g) g oracle nt z = Raise SyntaxErr /\ ~ L g nt (py_str_Z z) /\
        exists p k, oracle nt z = Some (p, k) /\ ~ L g nt (cand z p k))
    \/ (int_value fxA fxB (hfuel g) g oracle nt z = Raise OutOfFuel /\ exists w, supported z w /\ L g nt w).
  Proof. exact (int_value_outcomes g fxA fxB (hfuel g) oracle nt Hc Hnd Ho Hd Hne (hfuel_ok g nt Hc Hd Hne) z). Qed.

  Theorem int_value_ok_iff_partial_hf z : oracle_sound g oracle nt -> oracle_complete g oracle nt ->
    int_value fxA fxB (hfuel g) g oracle nt z <> Raise OutOfFuel ->
    ((exists t, int_value fxA fxB (hfuel g) g oracle nt z = Ok t) <-> exists w, supported z w /\ L g nt w).
  Proof. exact (int_value_ok_iff_partial g fxA fxB (hfuel g) oracle nt Hc Hnd Ho Hd Hne (hfuel_ok g nt Hc Hd Hne) z). Qed.
End HarnessFuel.

(* the acceptance test of the check decides the property *)
Theorem meets_int_spec g nt z t : meets_int g nt z t = true <->
  wf_tree g t /\ closedb t = true /\ lbl t = nt /\ intval (yield t) = Some z.
Proof.
  unfold meets_int. rewrite !andb_true_iff, wf_treeb_spec, str_eqb_eq.
  assert (E : optZ_eqb (intval (yield t)) (Some z) = true <-> intval (yield t) = Some z).
  { destruct (intval (yield t)) as [v|]; cbn [optZ_eqb].
    - rewrite Z.eqb_eq. split; [intro; subst; reflexivity | intro H; inversion H; reflexivity].
    - split; discriminate. }
  rewrite E. tauto.
Qed.

(* ---- non-vacuity: <int> ::= <sign> "00" <lead> <digits>, as in the docstring of
   extract_model_value; <num> ::= <digit> | <digit><num> ---- *)
Definition s_ (l : list N) : str := l.
Definition iv_int := s_ [60;105;110;116;62]%N.          (* <int> *)
Definition iv_sign := s_ [60;115;105;103;110;62]%N.     (* <sign> *)
Definition iv_lead := s_ [60;108;101;97;100;62]%N.      (* <lead> *)
Definition iv_digit := s_ [60;100;105;103;105;116;62]%N. (* <digit> *)
Definition iv_digits := s_ [60;100;105;103;105;116;115;62]%N. (* <digits> *)
Definition iv_g : grammar :=
  [ (START, [[iv_int]]);
    (iv_int, [[iv_sign; s_ [48;48]%N; iv_lead; iv_digits]]);
    (iv_sign, [[s_ [45]%N]; [s_ [43]%N]]);
    (iv_digits, [[]; [iv_digit; iv_digits]]);
    (iv_digit, map (fun c => [s_ [c]]) [48;49;50;51;52;53;54;55;56;57]%N);
    (iv_lead, map (fun c => [s_ [c]]) [49;50;51;52;53;54;55;56;57]%N) ].
Definition iv_oracle : int_oracle := fun _ z => if (z =? 0)%Z then None else Some (true, 2).

Example int_value_ex :
  int_guard iv_g iv_int = true /\
  (exists t, int_value true true (hfuel iv_g) iv_g iv_oracle iv_int 5 = Ok t /\ yield t = [43;48;48;53]%N) /\
  (exists t, int_value true true (hfuel iv_g) iv_g iv_oracle iv_int (-12) = Ok t /\ yield t = [45;48;48;49;50]%N) /\
  int_value true true (hfuel iv_g) iv_g iv_oracle iv_int 0 = Raise RuntimeErr /\
  int_value true true (hfuel iv_g) iv_g (fun _ _ => Some (false, 1)) iv_int 5 = Raise SyntaxErr.
Proof.
  split; [vm_compute; reflexivity|].
  split; [eexists; split; vm_compute; reflexivity|].
  split; [eexists; split; vm_compute; reflexivity|].
  split; vm_compute; reflexivity.
Qed.

(* ---- the premise oracle_complete is a real restriction: <z> ::= "0" <z> "0" | "1" (not regular).
   On /repo the Z3 query for z = 100 is "not sat" (the regular expression handed to Z3 is a bounded
   unwinding of the grammar), i.e. the observed oracle answers None, and RuntimeError is raised —
   although "00100" has the supported format, denotes 100 and IS in the language. ---- *)
Definition zz_nt := s_ [60;122;62]%N.   (* <z> *)
Definition zz_g : grammar :=
  [ (START, [[zz_nt]]); (zz_nt, [[s_ [48]%N; zz_nt; s_ [48]%N]; [s_ [49]%N]]) ].

Example int_value_runtime_not_complete :
  int_guard zz_g zz_nt = true /\
  int_value true true (hfuel zz_g) zz_g (fun _ _ => None) zz_nt 100 = Raise RuntimeErr /\
  supported 100 [48;48;49;48;48]%N /\ L zz_g zz_nt [48;48;49;48;48]%N /\
  ~ oracle_complete zz_g (fun _ _ => None) zz_nt /\
  (exists t, int_value true true (hfuel zz_g) zz_g (fun _ _ => Some (false, 2)) zz_nt 100 = Ok t).
Proof.
  assert (Hg : int_guard zz_g zz_nt = true) by (vm_compute; reflexivity).
  assert (Hs : supported 100 [48;48;49;48;48]%N) by (exists false, 2; vm_compute; reflexivity).
  assert (Hok : exists t, int_value true true (hfuel zz_g) zz_g (fun _ _ => Some (false, 2)) zz_nt 100 = Ok t)
    by (eexists; vm_compute; reflexivity).
  assert (HL : L zz_g zz_nt [48;48;49;48;48]%N).
  { destruct Hok as (t & E).
    destruct (int_value_sound_g zz_g true true (fun _ _ => Some (false, 2)) zz_nt Hg (hfuel zz_g) 100 t E)
      as (_ & _ & _ & _ & _ & HL).
    assert (Ey : yield t = [48;48;49;48;48]%N).
    { revert E. vm_compute. intro E. inversion E. reflexivity. }
    rewrite Ey in HL. exact HL. }
  split; [exact Hg|]. split; [vm_compute; reflexivity|]. split; [exact Hs|]. split; [exact HL|].
  split; [|exact Hok].
  intro Hc. exact (Hc 100%Z eq_refl _ Hs HL).
Qed.
