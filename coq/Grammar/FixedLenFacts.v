(* C14 — specification and proofs for Grammar/FixedLen.v.

   Specification vocabulary (independent of the algorithm):
     wf_tree g t, closedb, yield, lbl          (Grammar.v / Tree.v)
     open_at t p A     : the node at path p is an open leaf labelled A
     wfo g t           : t is a derivation tree of g whose open leaves are nonterminals
                         (wf_tree minus "open leaves are defined": the DFS only finds out that a
                          nonterminal is undefined when it tries to expand it)
     clen NU t         : length of the terminal leaves of t + number of open leaves not in NU
     Inv g NU A0 fr    : the stack-frame invariant of create_fixed_length_tree *)
From ISLA Require Import Grammar GrammarFacts TreeFacts FixedLen.
From Coq Require Import Lia Arith ZArith Permutation.

(* ------------------------------------------------------------------ *)
(* generic list facts                                                  *)
(* ------------------------------------------------------------------ *)
Lemma nth_error_split_fs {A} (l : list A) i x :
  nth_error l i = Some x -> l = firstn i l ++ x :: skipn (S i) l.
Proof.
  revert i; induction l as [|a l IH]; intros [|i] H; simpl in *; try discriminate.
  - inversion H; reflexivity.
  - f_equal. apply IH. assumption.
Qed.

Lemma nth_error_upd_same {A} (l : list A) i x y :
  nth_error l i = Some x -> nth_error (firstn i l ++ y :: skipn (S i) l) i = Some y.
Proof.
  revert i; induction l as [|a l IH]; intros [|i] H; simpl in *; try discriminate.
  - reflexivity.
  - apply IH. assumption.
Qed.

Lemma nth_error_upd_other {A} (l : list A) i j x y :
  nth_error l i = Some x -> j <> i ->
  nth_error (firstn i l ++ y :: skipn (S i) l) j = nth_error l j.
Proof.
  revert i j; induction l as [|a l IH]; intros [|i] [|j] H Hne; simpl in *;
    try discriminate; try reflexivity; try congruence.
  apply IH; [assumption | congruence].
Qed.

Lemma list_sum_app l1 l2 : list_sum (l1 ++ l2) = list_sum l1 + list_sum l2.
Proof. induction l1 as [|a l1 IH]; simpl; lia. Qed.

Lemma In_enumerate {A} (l : list A) a i x :
  In (i, x) (combine (seq a (length l)) l) -> nth_error l (i - a) = Some x /\ a <= i.
Proof.
  revert a; induction l as [|y l IH]; intros a H; simpl in H; [contradiction|].
  destruct H as [H|H].
  - inversion H; subst. rewrite Nat.sub_diag. simpl. auto.
  - apply IH in H as [H1 H2]. split; [|lia].
    replace (i - a) with (S (i - S a)) by lia. simpl. assumption.
Qed.

(* ------------------------------------------------------------------ *)
(* specification side                                                  *)
(* ------------------------------------------------------------------ *)
Definition open_at (t : tree) (p : path) (A : str) : Prop :=
  exists i, subtree t p = Some (Node A i true []).

Inductive wfo (g : grammar) : tree -> Prop :=
| wfo_open : forall A i, is_nt A = true -> wfo g (Node A i true [])
| wfo_term : forall w i, is_nt w = false -> wfo g (Node w i false [])
| wfo_eps : forall A i, is_nt A = true -> In [] (alts g A) -> wfo g (Node A i false [])
| wfo_inner : forall A i ks, is_nt A = true -> ks <> [] -> In (map lbl ks) (alts g A) ->
    Forall (wfo g) ks -> wfo g (Node A i false ks).

Fixpoint clen (NU : list str) (t : tree) : nat :=
  match t with
  | Node l _ o ks =>
      match ks with
      | [] => if o then nn NU l else if is_nt l then 0 else length l
      | _ => list_sum (map (clen NU) ks)
      end
  end.

Definition Inv (g : grammar) (NU : list str) (A0 : str) (fr : frame) : Prop :=
  let '(t, cl, ls) := fr in
  wfo g t /\ lbl t = A0 /\ NoDup (map fst ls) /\
  (forall p A, In (p, A) ls -> open_at t p A) /\
  (forall p s, subtree t p = Some s -> opn s = true -> In (p, lbl s) ls) /\
  cl = clen NU t.

(* ------------------------------------------------------------------ *)
(* wfo facts                                                           *)
(* ------------------------------------------------------------------ *)
Lemma wfo_kid g l i o ks c : wfo g (Node l i o ks) -> In c ks -> wfo g c.
Proof.
  intros H Hin. inversion H as [A j HA | w j Hw | A j HA He | A j ks' HA Hne Hal Hall]; subst;
    try contradiction.
  rewrite Forall_forall in Hall. auto.
Qed.

Lemma wfo_open_nokids g l i ks : wfo g (Node l i true ks) -> ks = [] /\ is_nt l = true.
Proof. intro H. inversion H; subst. auto. Qed.

Lemma wfo_subtree g t p s : wfo g t -> subtree t p = Some s -> wfo g s.
Proof.
  revert t; induction p as [|k p IH]; intros t Hw H; simpl in H.
  - inversion H; subst; assumption.
  - destruct t as [l i o ks]. simpl in H.
    destruct (nth_error ks k) as [c|] eqn:Ek; [|discriminate].
    eapply IH; [|eassumption]. eapply wfo_kid; [eassumption|]. eapply nth_error_In; eauto.
Qed.

Lemma no_open_closed t :
  (forall p s, subtree t p = Some s -> opn s = false) -> is_openT t = false.
Proof.
  induction t as [l i o ks IH] using tree_ind'. intro H. simpl.
  assert (Ho : o = false) by (apply (H [] (Node l i o ks)); reflexivity). subst o. simpl.
  apply not_true_is_false. intro E. apply existsb_exists in E as (c & Hin & Hc).
  rewrite Forall_forall in IH. rewrite IH in Hc; [discriminate|assumption|].
  intros p s Hs. destruct (In_nth_error _ _ Hin) as [k Hk].
  apply (H (k :: p)). simpl. rewrite Hk. assumption.
Qed.

Lemma closed_kids l i o ks c : is_openT (Node l i o ks) = false -> In c ks -> is_openT c = false.
Proof.
  simpl. intros H Hin. apply orb_false_iff in H as [_ H].
  apply not_true_is_false. intro E.
  assert (existsb is_openT ks = true) by (apply existsb_exists; eauto). congruence.
Qed.

Lemma wfo_closed_wf g t : wfo g t -> is_openT t = false -> wf_tree g t.
Proof.
  induction t as [l i o ks IH] using tree_ind'. intros Hw Hc.
  inversion Hw as [A j HA | w j Hw' | A j HA He | A j ks' HA Hne Hal Hall]; subst.
  - simpl in Hc. discriminate.
  - apply wf_term; assumption.
  - apply wf_eps_parser; assumption.
  - apply wf_inner; try assumption.
    rewrite Forall_forall in *. intros c Hin. apply IH; auto.
    eapply closed_kids; eauto.
Qed.

Lemma length_flat_map_yield ks :
  length (flat_map yield ks) = list_sum (map (fun k => length (yield k)) ks).
Proof. induction ks as [|k ks IH]; simpl; [reflexivity|]. rewrite app_length, IH. reflexivity. Qed.

Lemma clen_closed NU t : is_openT t = false -> clen NU t = length (yield t).
Proof.
  induction t as [l i o ks IH] using tree_ind'. intro Hc.
  assert (Ho : o = false) by (simpl in Hc; apply orb_false_iff in Hc; tauto). subst o.
  destruct ks as [|k ks'].
  - simpl. destruct (is_nt l); reflexivity.
  - remember (k :: ks') as ks eqn:Eks.
    assert (E1 : clen NU (Node l i false ks) = list_sum (map (clen NU) ks)) by (subst ks; reflexivity).
    assert (E2 : yield (Node l i false ks) = flat_map yield ks) by (subst ks; reflexivity).
    rewrite E1, E2, length_flat_map_yield. f_equal.
    apply map_ext_in. intros c Hin. rewrite Forall_forall in IH. apply IH; [assumption|].
    eapply closed_kids; eauto.
Qed.

(* ------------------------------------------------------------------ *)
(* replace_path at an open leaf                                        *)
(* ------------------------------------------------------------------ *)
Lemma clen_node NU l i ks : ks <> [] -> clen NU (Node l i false ks) = list_sum (map (clen NU) ks).
Proof. destruct ks; [congruence | reflexivity]. Qed.

Lemma replace_leaf g NU : forall p t A r,
  wfo g t -> open_at t p A -> wfo g r -> lbl r = A ->
  exists t', replace_path t p r = Ok t' /\
    wfo g t' /\ lbl t' = lbl t /\
    clen NU t' + nn NU A = clen NU t + clen NU r /\
    (forall q, subtree t' (p ++ q) = subtree r q) /\
    (forall q s, subtree t q = Some s -> opn s = true -> q <> p -> subtree t' q = Some s) /\
    (forall q s, subtree t' q = Some s -> opn s = true ->
        (exists q', q = p ++ q' /\ subtree r q' = Some s) \/ (q <> p /\ subtree t q = Some s)).
Proof.
  induction p as [|k p IH]; intros t A r Hw [i0 Hop] Hr Hl.
  - simpl in Hop. inversion Hop; subst t. exists r. simpl.
    split; [reflexivity|]. split; [assumption|]. split; [assumption|].
    split; [lia|]. split; [reflexivity|]. split.
    + intros q s Hs Ho Hq. destruct q as [|j q]; [congruence|]. simpl in Hs.
      destruct j; discriminate.
    + intros q s Hs Ho. left. exists q. auto.
  - destruct t as [l i o ks]. simpl in Hop.
    destruct (nth_error ks k) as [c|] eqn:Ek; [|discriminate].
    assert (Hin : In c ks) by (eapply nth_error_In; eauto).
    destruct o.
    { apply wfo_open_nokids in Hw as [-> _]. destruct k; discriminate. }
    assert (Hwc : wfo g c) by (eapply wfo_kid; eauto).
    destruct (IH c A r Hwc (ex_intro _ i0 Hop) Hr Hl)
      as (c' & Erep & Hwc' & Hlc & Hlen & Hsub & Hold & Hnew).
    set (ks' := firstn k ks ++ c' :: skipn (S k) ks).
    assert (Erp : replace_path (Node l i false ks) (k :: p) r = Ok (Node l i false ks'))
      by (simpl; rewrite Ek, Erep; reflexivity).
    exists (Node l i false ks').
    split; [exact Erp|].
    assert (Hks : ks = firstn k ks ++ c :: skipn (S k) ks) by (apply nth_error_split_fs; assumption).
    assert (Hne' : ks' <> []) by (unfold ks'; destruct (firstn k ks); discriminate).
    assert (Hne : ks <> []) by (intro E; rewrite E in Hin; contradiction).
    split.
    { inversion Hw as [A1 j HA | w j Hw' | A1 j HA He | A1 j ks1 HA Hne1 Hal Hall]; subst;
        try contradiction.
      apply wfo_inner; try assumption.
      - unfold ks'. rewrite map_app. simpl. rewrite Hlc.
        rewrite Hks in Hal. rewrite map_app in Hal. simpl in Hal. assumption.
      - unfold ks'. rewrite Hks in Hall. apply Forall_app in Hall as [H1 H2].
        apply Forall_app. split; [assumption|]. inversion H2; subst. constructor; assumption. }
    split; [reflexivity|]. split.
    { rewrite !clen_node by assumption. unfold ks'.
      assert (E : list_sum (map (clen NU) ks) =
                  list_sum (map (clen NU) (firstn k ks)) +
                  (clen NU c + list_sum (map (clen NU) (skipn (S k) ks)))).
      { rewrite Hks at 1. rewrite map_app, list_sum_app. reflexivity. }
      rewrite E, map_app, list_sum_app. simpl. lia. }
    split.
    { intro q. simpl. unfold ks'. rewrite (nth_error_upd_same _ _ _ _ Ek). apply Hsub. }
    split.
    { intros q s Hs Ho Hq. destruct q as [|j q].
      - simpl in Hs. inversion Hs; subst s. simpl in Ho. discriminate.
      - simpl in Hs. simpl. destruct (Nat.eq_dec j k) as [->|Hjk].
        + unfold ks'. rewrite (nth_error_upd_same _ _ _ _ Ek). rewrite Ek in Hs.
          apply Hold; [assumption|assumption|congruence].
        + unfold ks'. rewrite (nth_error_upd_other _ _ _ _ _ Ek Hjk). assumption. }
    { intros q s Hs Ho. destruct q as [|j q].
      - simpl in Hs. inversion Hs; subst s. simpl in Ho. discriminate.
      - simpl in Hs. destruct (Nat.eq_dec j k) as [->|Hjk].
        + unfold ks' in Hs. rewrite (nth_error_upd_same _ _ _ _ Ek) in Hs.
          destruct (Hnew q s Hs Ho) as [(q' & -> & Hq')|[Hq1 Hq2]].
          * left. exists q'. auto.
          * right. split; [congruence|]. simpl. rewrite Ek. assumption.
        + unfold ks' in Hs. rewrite (nth_error_upd_other _ _ _ _ _ Ek Hjk) in Hs.
          right. split; [congruence|]. simpl. assumption. }
Qed.

(* ------------------------------------------------------------------ *)
(* the expansions that are pushed are alternatives of the grammar      *)
(* ------------------------------------------------------------------ *)
Lemma insert_by_In a l x : In x (insert_by a l) <-> x = a \/ In x l.
Proof.
  induction l as [|b l IH]; simpl.
  - split; [intros [H|[]]; auto | intros [H|[]]; auto].
  - destruct (count_nt a <=? count_nt b); simpl.
    + split; [intros [H|H]; auto | intros [H|H]; auto].
    + rewrite IH. split; [intros [H|[H|H]]; auto | intros [H|[H|H]]; auto].
Qed.

Lemma sort_exps_In l x : In x (sort_exps l) <-> In x l.
Proof.
  unfold sort_exps. induction l as [|a l IH]; simpl; [tauto|].
  rewrite insert_by_In, IH. split; [intros [H|H]; auto | intros [H|H]; auto].
Qed.

Lemma choose_In o term ch o' : choose o term = (ch, o') -> forall e, In e ch -> In e term.
Proof.
  unfold choose. destruct term as [|d term']; [intros H e He; inversion H; subst; contradiction|].
  remember (d :: term') as term eqn:Et.
  assert (Hlen : length term <> 0) by (subst term; discriminate).
  assert (Hd : In d term) by (subst term; left; reflexivity).
  clear Et. destruct o as [|i o1]; intros H e He.
  - injection H as <- <-. destruct He as [<-|[]]. assumption.
  - injection H as <- <-. destruct He as [<-|[]]. apply nth_In. apply Nat.mod_upper_bound. assumption.
Qed.

Lemma pushed_in_alts g A o ch o' e :
  choose o (term_exps g A) = (ch, o') -> In e (sort_exps (nonterm_exps g A ++ ch)) -> In e (alts g A).
Proof.
  intros Hc He. apply (proj1 (sort_exps_In _ _)) in He. apply in_app_or in He as [He|He].
  - unfold nonterm_exps in He. apply filter_In in He. tauto.
  - eapply choose_In in He; [|eassumption]. unfold term_exps in He. apply filter_In in He. tauto.
Qed.

(* ------------------------------------------------------------------ *)
(* the subtree that replaces a leaf                                    *)
(* ------------------------------------------------------------------ *)
Lemma mk_child_nt x : is_nt x = true -> mk_child x = Node x 0%N true [].
Proof. unfold mk_child. intros ->. reflexivity. Qed.

Lemma wfo_mk_child g x : wfo g (mk_child x).
Proof. unfold mk_child. destruct (is_nt x) eqn:E; constructor; assumption. Qed.

Lemma lbl_mk_children e : map lbl (map mk_child e) = e.
Proof. induction e as [|x e IH]; simpl; [reflexivity|]. f_equal. assumption. Qed.

Lemma wfo_expansion g A e :
  is_nt A = true -> In e (alts g A) -> wfo g (Node A 0%N false (map mk_child e)).
Proof.
  intros HA He. destruct e as [|x e'].
  - apply wfo_eps; assumption.
  - apply wfo_inner; try assumption.
    + discriminate.
    + rewrite lbl_mk_children. assumption.
    + apply Forall_forall. intros c Hc. apply in_map_iff in Hc as (y & <- & _). apply wfo_mk_child.
Qed.

Lemma clen_mk_child NU x : clen NU (mk_child x) = child_len NU x.
Proof. unfold mk_child, child_len, nn. simpl. destruct (is_nt x); reflexivity. Qed.

Lemma clen_expansion NU A e :
  is_nt A = true -> clen NU (Node A 0%N false (map mk_child e)) = list_sum (map (child_len NU) e).
Proof.
  intro HA. destruct e as [|x e'].
  - simpl. rewrite HA. reflexivity.
  - rewrite clen_node by discriminate. rewrite map_map. f_equal. apply map_ext. apply clen_mk_child.
Qed.

Lemma open_in_expansion A e q s :
  subtree (Node A 0%N false (map mk_child e)) q = Some s -> opn s = true ->
  exists j x, q = [j] /\ nth_error e j = Some x /\ is_nt x = true /\ s = mk_child x.
Proof.
  intros Hs Ho. destruct q as [|j q].
  - simpl in Hs. inversion Hs; subst. discriminate.
  - simpl in Hs. destruct (nth_error (map mk_child e) j) as [c|] eqn:Ej; [|discriminate].
    rewrite nth_error_map in Ej. destruct (nth_error e j) as [x|] eqn:Ex; [|discriminate].
    simpl in Ej. inversion Ej; subst c. destruct q as [|j' q].
    + simpl in Hs. inversion Hs; subst s. exists j, x. unfold mk_child in Ho. simpl in Ho. auto.
    + simpl in Hs. destruct j'; discriminate.
Qed.

Lemma new_leaves_In p j0 e q x :
  In (q, x) (new_leaves p j0 e) <->
  exists j, q = p ++ [j0 + j] /\ nth_error e j = Some x /\ is_nt x = true.
Proof.
  revert j0; induction e as [|y e IH]; intro j0; simpl.
  - split; [contradiction|]. intros (j & _ & H & _). destruct j; discriminate.
  - rewrite in_app_iff, IH. split.
    + intros [H|(j & Hq & Hj & Hx)].
      * destruct (is_nt y) eqn:Ey; [|contradiction]. destruct H as [H|[]]. inversion H; subst.
        exists 0. rewrite Nat.add_0_r. auto.
      * exists (S j). rewrite <- plus_n_Sm. auto.
    + intros (j & Hq & Hj & Hx). destruct j as [|j].
      * simpl in Hj. inversion Hj; subst y. rewrite Hx. left. left. rewrite Nat.add_0_r in Hq.
        subst. reflexivity.
      * right. exists j. rewrite <- plus_n_Sm in Hq. auto.
Qed.

Lemma new_leaves_NoDup p j0 e : NoDup (map fst (new_leaves p j0 e)).
Proof.
  revert j0; induction e as [|y e IH]; intro j0; simpl; [constructor|].
  rewrite map_app. destruct (is_nt y); simpl; [|apply IH].
  constructor; [|apply IH].
  intro H. apply in_map_iff in H as ([q x] & Hq & Hin). simpl in Hq. subst q.
  apply new_leaves_In in Hin as (j & Hq & _). apply app_inv_head in Hq. inversion Hq. lia.
Qed.

(* ------------------------------------------------------------------ *)
(* NoDup of a list with a segment replaced                             *)
(* ------------------------------------------------------------------ *)
Lemma NoDup_app_intro {A} (a b : list A) :
  NoDup a -> NoDup b -> (forall x, In x a -> ~ In x b) -> NoDup (a ++ b).
Proof.
  induction a as [|x a IH]; intros Ha Hb Hd; simpl; [assumption|].
  inversion Ha as [|x' a' Hx Ha']; subst. constructor.
  - rewrite in_app_iff. intros [H|H]; [contradiction|]. apply (Hd x); [left; reflexivity|assumption].
  - apply IH; try assumption. intros y Hy. apply Hd. right. assumption.
Qed.

Lemma NoDup_replace_mid {A} (m1 m2 mn : list A) (x : A) :
  NoDup (m1 ++ x :: m2) -> NoDup mn -> (forall y, In y mn -> ~ In y (m1 ++ m2)) ->
  NoDup (m1 ++ mn ++ m2).
Proof.
  intros H Hn Hd. apply NoDup_remove_1 in H.
  apply (Permutation_NoDup (l := mn ++ m1 ++ m2)).
  - apply Permutation_app_swap_app.
  - apply NoDup_app_intro; assumption.
Qed.

(* ------------------------------------------------------------------ *)
(* Inv is preserved by every push                                      *)
(* ------------------------------------------------------------------ *)
Lemma push_frame_inv g NU A0 t cl ls idx p A e fr' :
  Inv g NU A0 (t, cl, ls) -> nth_error ls idx = Some (p, A) -> In e (alts g A) ->
  push_frame NU (t, cl, ls) idx p A e = Ok fr' -> Inv g NU A0 fr'.
Proof.
  intros (Hw & Hl & Hnd & H2 & H3 & Hcl) Hidx He Hpush.
  assert (Hop : open_at t p A) by (apply H2; eapply nth_error_In; eauto).
  assert (HA : is_nt A = true).
  { destruct Hop as [i Hi]. apply (wfo_subtree g _ _ _ Hw) in Hi. apply wfo_open_nokids in Hi. tauto. }
  set (r := Node A 0%N false (map mk_child e)) in *.
  assert (Hr : wfo g r) by (apply wfo_expansion; assumption).
  destruct (replace_leaf g NU p t A r Hw Hop Hr eq_refl)
    as (t' & Erep & Hw' & Hl' & Hlen & Hsub & Hold & Hnew).
  unfold push_frame in Hpush. fold r in Hpush. rewrite Erep in Hpush. simpl in Hpush.
  inversion Hpush; subst fr'; clear Hpush.
  pose proof (nth_error_split_fs _ _ _ Hidx) as Hls.
  set (l1 := firstn idx ls) in *. set (l2 := skipn (S idx) ls) in *.
  assert (Hndm : NoDup (map fst l1 ++ p :: map fst l2)).
  { rewrite Hls in Hnd. rewrite map_app in Hnd. simpl in Hnd. assumption. }
  assert (Hpnot : ~ In p (map fst l1 ++ map fst l2)) by (apply NoDup_remove_2 in Hndm; assumption).
  assert (Hother : forall q B, In (q, B) (l1 ++ l2) -> q <> p /\ In (q, B) ls).
  { intros q B Hin. split.
    - intro E. subst q. apply Hpnot. rewrite <- map_app. apply in_map_iff. exists (p, B). auto.
    - rewrite Hls. apply in_app_or in Hin as [H|H]; apply in_or_app; [left|right; right]; assumption. }
  assert (Hleaf : forall j, subtree t (p ++ [j]) = None).
  { intro j. rewrite subtree_app. destruct Hop as [i ->]. simpl. destruct j; reflexivity. }
  unfold Inv. split; [assumption|]. split; [congruence|]. split.
  { rewrite !map_app. apply NoDup_replace_mid with (x := p); try assumption.
    - apply new_leaves_NoDup.
    - intros q Hq Hq'. apply in_map_iff in Hq as ([q0 x] & Eq & Hin). simpl in Eq. subst q0.
      apply new_leaves_In in Hin as (j & -> & _ & _). simpl in Hq'.
      rewrite <- map_app in Hq'. apply in_map_iff in Hq' as ([q1 B] & Eq & Hin). simpl in Eq. subst q1.
      apply Hother in Hin as [_ Hin]. apply H2 in Hin as [i Hi]. rewrite Hleaf in Hi. discriminate. }
  split.
  { intros q B Hin. apply in_app_or in Hin as [Hin|Hin]; [|apply in_app_or in Hin as [Hin|Hin]].
    - destruct (Hother q B) as [Hq Hin']; [apply in_or_app; auto|].
      destruct (H2 _ _ Hin') as [i Hi]. exists i. apply Hold; [assumption|reflexivity|assumption].
    - apply new_leaves_In in Hin as (j & -> & Hj & Hx). simpl. exists 0%N. rewrite Hsub.
      unfold r. simpl. rewrite nth_error_map, Hj. simpl. rewrite mk_child_nt by assumption. reflexivity.
    - destruct (Hother q B) as [Hq Hin']; [apply in_or_app; auto|].
      destruct (H2 _ _ Hin') as [i Hi]. exists i. apply Hold; [assumption|reflexivity|assumption]. }
  split.
  { intros q s Hs Ho. destruct (Hnew q s Hs Ho) as [(q' & -> & Hq')|[Hq Hq']].
    - destruct (open_in_expansion _ _ _ _ Hq' Ho) as (j & x & -> & Hj & Hx & ->).
      apply in_or_app. right. apply in_or_app. left.
      apply new_leaves_In. exists j. simpl. unfold mk_child. simpl. auto.
    - pose proof (H3 q s Hq' Ho) as Hin. rewrite Hls in Hin.
      apply in_app_or in Hin as [Hin|[Hin|Hin]].
      + apply in_or_app. left. assumption.
      + inversion Hin. congruence.
      + apply in_or_app. right. apply in_or_app. right. assumption. }
  { unfold r in Hlen. rewrite clen_expansion in Hlen by assumption. lia. }
Qed.

Lemma map_res_out {A B} (f : A -> res B) l ys :
  map_res f l = Ok ys -> forall y, In y ys -> exists x, In x l /\ f x = Ok y.
Proof.
  revert ys; induction l as [|x l IH]; intros ys H y Hy; simpl in H.
  - inversion H; subst. contradiction.
  - destruct (f x) as [b|e0] eqn:Ef; simpl in H; [|discriminate].
    destruct (map_res f l) as [bs|e0] eqn:El; simpl in H; [|discriminate].
    inversion H; subst. destruct Hy as [<-|Hy].
    + exists x. split; [left; reflexivity|assumption].
    + destruct (IH bs eq_refl y Hy) as (x' & Hx' & Hf). exists x'. split; [right|]; assumption.
Qed.

Lemma expand_leaf_inv g NU A0 t cl ls idx leaf o fs o' :
  Inv g NU A0 (t, cl, ls) -> nth_error ls idx = Some leaf ->
  expand_leaf g NU (t, cl, ls) idx leaf o = Ok (fs, o') -> Forall (Inv g NU A0) fs.
Proof.
  intros HI Hidx H. destruct leaf as [p A]. unfold expand_leaf in H.
  destruct (negb (defined g A)); [discriminate|].
  destruct (choose o (term_exps g A)) as [ch o1] eqn:Ech.
  destruct (map_res (push_frame NU (t, cl, ls) idx p A) (sort_exps (nonterm_exps g A ++ ch)))
    as [fs0|e0] eqn:Em; simpl in H; [|discriminate].
  inversion H; subst. apply Forall_forall. intros fr Hfr.
  destruct (map_res_out _ _ _ Em fr Hfr) as (e & He & Hpush).
  eapply push_frame_inv; try eassumption. eapply pushed_in_alts; eassumption.
Qed.

Lemma expand_desc_inv g NU A0 t cl ls : forall ils o acc fs o',
  Inv g NU A0 (t, cl, ls) ->
  (forall idx leaf, In (idx, leaf) ils -> nth_error ls idx = Some leaf) ->
  Forall (Inv g NU A0) acc ->
  expand_desc g NU (t, cl, ls) ils o acc = Ok (fs, o') -> Forall (Inv g NU A0) fs.
Proof.
  induction ils as [|[idx leaf] ils IH]; intros o acc fs o' HI Hall Hacc H; simpl in H.
  - inversion H; subst. assumption.
  - destruct (expand_leaf g NU (t, cl, ls) idx leaf o) as [[fs1 o1]|e0] eqn:El; simpl in H; [|discriminate].
    eapply IH; [assumption| |idtac|eassumption].
    + intros i l Hin. apply Hall. right. assumption.
    + apply Forall_app. split; [|assumption].
      eapply expand_leaf_inv; [eassumption| |eassumption]. apply Hall. left. reflexivity.
Qed.

Lemma expand_frame_inv g NU A0 fr o fs o' :
  Inv g NU A0 fr -> expand_frame g NU fr o = Ok (fs, o') -> Forall (Inv g NU A0) fs.
Proof.
  destruct fr as [[t cl] ls]. intros HI H. unfold expand_frame in H. simpl in H.
  eapply expand_desc_inv; [eassumption| |constructor|eassumption].
  intros idx leaf Hin. apply in_rev in Hin. unfold enumerate in Hin.
  apply In_enumerate in Hin as [Hn _]. rewrite Nat.sub_0_r in Hn. assumption.
Qed.

(* ------------------------------------------------------------------ *)
(* the loop                                                            *)
(* ------------------------------------------------------------------ *)
Definition meets (g : grammar) (A : str) (n : nat) (t : tree) : Prop :=
  wf_tree g t /\ closedb t = true /\ lbl t = A /\ length (yield t) = n.

Lemma inv_done g NU A0 t cl : Inv g NU A0 (t, cl, []) -> meets g A0 cl t.
Proof.
  intros (Hw & Hl & _ & _ & H3 & Hcl).
  assert (Hc : is_openT t = false).
  { apply no_open_closed. intros p s Hs. destruct (opn s) eqn:Eo; [|reflexivity].
    exfalso. apply (H3 p s Hs Eo). }
  split; [apply wfo_closed_wf; assumption|]. split; [unfold closedb; rewrite Hc; reflexivity|].
  split; [assumption|]. rewrite Hcl. symmetry. apply clen_closed. assumption.
Qed.

Lemma cflt_loop_sound g NU A0 n : forall fuel stack o t,
  Forall (Inv g NU A0) stack -> cflt_loop fuel g NU n stack o = Found t -> meets g A0 n t.
Proof.
  induction fuel as [|f IH]; intros stack o t Hst H; simpl in H; [discriminate|].
  destruct stack as [|[[t0 cl] ls] st]; [discriminate|].
  inversion Hst as [|fr0 st0 Hfr Hst']; subst.
  destruct ls as [|leaf ls'].
  - destruct (cl =? n) eqn:En.
    + inversion H; subst. apply Nat.eqb_eq in En. subst n. eapply inv_done. eassumption.
    + eapply IH; eassumption.
  - destruct (n <? cl).
    + eapply IH; eassumption.
    + destruct (expand_frame g NU (t0, cl, leaf :: ls') o) as [[fs o1]|e0] eqn:Ee; [|discriminate].
      eapply IH; [|eassumption]. apply Forall_app. split; [|assumption].
      eapply expand_frame_inv; eassumption.
Qed.

Lemma inv_init g NU A : is_nt A = true -> Inv g NU A (Node A 0%N true [], nn NU A, [([], A)]).
Proof.
  intro HA. unfold Inv. split; [constructor; assumption|]. split; [reflexivity|]. split.
  - simpl. constructor; [intros []|constructor].
  - split; [|split].
    + intros p B [H|[]]. inversion H; subst. exists 0%N. reflexivity.
    + intros p s Hs Ho. destruct p as [|j p]; simpl in Hs.
      * inversion Hs; subst. left. reflexivity.
      * destruct j; discriminate.
    + reflexivity.
Qed.

(* MAIN THEOREM: for all grammars, all sets NU used as "nullable", all nonterminals, all target
   lengths, all oracle streams and all amounts of fuel *)
Theorem cflt_with_sound g NU A n fuel o t :
  is_nt A = true -> cflt_with fuel g NU A n o = Found t -> meets g A n t.
Proof.
  intros HA H. unfold cflt_with in H. eapply cflt_loop_sound; [|eassumption].
  constructor; [apply inv_init; assumption|constructor].
Qed.

Theorem cflt_sound g A n fuel o t :
  is_nt A = true -> cflt fuel g A n o = Found t ->
  wf_tree g t /\ closedb t = true /\ lbl t = A /\ length (yield t) = n.
Proof. intros HA H. apply (cflt_with_sound g (nullables g) A n fuel o t HA H). Qed.

(* the result is a word of the language of A of length exactly n *)
Corollary cflt_language g A n fuel o t :
  is_nt A = true -> cflt fuel g A n o = Found t -> L g A (yield t) /\ length (yield t) = n.
Proof.
  intros HA H. destruct (cflt_sound _ _ _ _ _ _ HA H) as (Hw & Hc & Hl & Hn).
  split; [|assumption]. rewrite <- Hl. apply wf_closed_yield; [assumption|].
  unfold closedb in Hc. destruct (is_openT t); [discriminate|reflexivity].
Qed.

(* non-vacuity: a concrete grammar  <a> ::= <b><a> | ""   <b> ::= "x" | "yy"  *)
Definition ex_A : str := [60;97;62]%N.
Definition ex_B : str := [60;98;62]%N.
Definition ex_g : grammar :=
  [(ex_A, [[ex_B; ex_A]; []]); (ex_B, [[[120]%N]; [[121;121]%N]])].

Example cflt_ex : is_nt ex_A = true /\
  exists t, cflt 200 ex_g ex_A 3 [1; 0; 1; 1; 0] = Found t /\ yield t = [121;121;120]%N.
Proof. split; [reflexivity|]. eexists. split; vm_compute; reflexivity. Qed.

(* the search does discard and backtrack: with every choice "yy" no string of length 3 exists *)
Example cflt_ex_none : cflt 200 ex_g ex_A 3 (repeat 1 200) = NotFound.
Proof. vm_compute. reflexivity. Qed.

(* ================================================================== *)
(* count                                                               *)
(* ================================================================== *)

(* declarative: number of positions of c labelled needle *)
Definition occurrences (needle : str) (c : tree) : nat :=
  length (filter (fun pt => str_eqb (lbl (snd pt)) needle) (nodes c)).

Lemma filter_map_snd {A B} (f : B -> bool) (h : A -> A) (prj : A -> B) (l : list A) :
  (forall x, prj (h x) = prj x) ->
  length (filter (fun x => f (prj x)) (map h l)) = length (filter (fun x => f (prj x)) l).
Proof.
  intro Hh. induction l as [|x l IH]; simpl; [reflexivity|].
  rewrite Hh. destruct (f (prj x)); simpl; rewrite IH; reflexivity.
Qed.

Lemma filter_concat_len {A} (f : A -> bool) (ls : list (list A)) :
  length (filter f (concat ls)) = list_sum (map (fun l => length (filter f l)) ls).
Proof.
  induction ls as [|l ls IH]; simpl; [reflexivity|].
  rewrite filter_app, app_length, IH. reflexivity.
Qed.

Lemma count_nodes_spec needle t : count_nodes needle t = occurrences needle t.
Proof.
  unfold occurrences. induction t as [l i o ks IH] using tree_ind'.
  rewrite nodes_unfold.
  assert (E : list_sum (map (count_nodes needle) ks) =
              length (filter (fun pt : path * tree => str_eqb (lbl (snd pt)) needle)
                (concat (mapi_from (fun i c => map (fun pt => (i :: fst pt, snd pt)) c) 0
                                   (map nodes ks))))).
  { rewrite filter_concat_len. generalize 0 as j.
    induction ks as [|k ks IHks]; intro j; simpl; [reflexivity|].
    inversion IH as [|k' ks' Hk Hks]; subst.
    rewrite (IHks Hks (S j)). f_equal. rewrite Hk.
    symmetry. apply (filter_map_snd (fun s => str_eqb (lbl s) needle)
                       (fun pt => (j :: fst pt, snd pt)) snd). reflexivity. }
  change (count_nodes needle (Node l i o ks))
    with ((if str_eqb l needle then 1 else 0) + list_sum (map (count_nodes needle) ks)).
  rewrite E. cbn [filter snd lbl]. destruct (str_eqb l needle); reflexivity.
Qed.

Lemma open_labels_spec t l :
  In l (open_labels t) <-> exists p s, subtree t p = Some s /\ opn s = true /\ lbl s = l.
Proof.
  induction t as [l0 i o ks IH] using tree_ind'. simpl. rewrite in_app_iff, in_flat_map. split.
  - intros [H|(c & Hin & Hc)].
    + destruct o; [|contradiction]. destruct H as [<-|[]]. exists [], (Node l0 i true ks). auto.
    + rewrite Forall_forall in IH. apply (IH c Hin) in Hc as (p & s & Hs & Ho & Hl).
      destruct (In_nth_error _ _ Hin) as [k Hk]. exists (k :: p), s. simpl. rewrite Hk. auto.
  - intros (p & s & Hs & Ho & Hl). destruct p as [|k p]; simpl in Hs.
    + inversion Hs; subst s. simpl in Ho. subst o. left. left. assumption.
    + destruct (nth_error ks k) as [c|] eqn:Ek; [|discriminate]. right. exists c.
      assert (Hin : In c ks) by (eapply nth_error_In; eauto). split; [assumption|].
      rewrite Forall_forall in IH. apply (IH c Hin). exists p, s. auto.
Qed.

(* the property of a binding {in_tree: c} returned by count: exactly `tgt` needle nodes and no
   open leaf from which the needle is still reachable *)
Definition count_target_met (reach : str -> str -> bool) (needle : str) (tgt : nat) (c : tree) : Prop :=
  occurrences needle c = tgt /\
  forall p s, subtree c p = Some s -> opn s = true -> reach (lbl s) needle = false.

Theorem meets_count_spec reach needle tgt c :
  meets_count reach needle tgt c = true <-> count_target_met reach needle tgt c.
Proof.
  unfold meets_count, count_target_met, more_possible.
  rewrite andb_true_iff, Nat.eqb_eq, negb_true_iff, count_nodes_spec. split.
  - intros [H1 H2]. split; [assumption|]. intros p s Hs Ho.
    destruct (reach (lbl s) needle) eqn:E; [|reflexivity].
    assert (existsb (fun l => reach l needle) (open_labels c) = true); [|congruence].
    apply existsb_exists. exists (lbl s). split; [|assumption].
    apply open_labels_spec. exists p, s. auto.
  - intros [H1 H2]. split; [assumption|]. apply not_true_is_false. intro E.
    apply existsb_exists in E as (l & Hl & Hr). apply open_labels_spec in Hl as (p & s & Hs & Ho & <-).
    rewrite (H2 p s Hs Ho) in Hr. discriminate.
Qed.

(* decision skeleton of count(): definite verdicts are right *)
Theorem count_decide_true reach needle t tgt :
  count_decide reach needle t tgt = CTrue ->
  exists k, tgt = Z.of_nat k /\ count_target_met reach needle k t.
Proof.
  unfold count_decide. intro H.
  destruct ((tgt <? 0)%Z || (tgt <? Z.of_nat (count_nodes needle t))%Z); [discriminate|].
  destruct (negb (more_possible reach needle t)) eqn:Em.
  - destruct (Z.of_nat (count_nodes needle t) =? tgt)%Z eqn:Eq; [|discriminate].
    apply Z.eqb_eq in Eq. exists (count_nodes needle t). split; [auto|].
    apply meets_count_spec. unfold meets_count. rewrite Nat.eqb_refl, Em. reflexivity.
  - destruct (Z.of_nat (count_nodes needle t) =? tgt)%Z; discriminate.
Qed.

Theorem count_decide_false reach needle t tgt :
  count_decide reach needle t tgt = CFalse ->
  (tgt < 0)%Z \/ (tgt < Z.of_nat (occurrences needle t))%Z \/
  (more_possible reach needle t = false /\ Z.of_nat (occurrences needle t) <> tgt).
Proof.
  unfold count_decide. rewrite <- count_nodes_spec. intro H.
  destruct (tgt <? 0)%Z eqn:E1; [left; apply Z.ltb_lt; assumption|].
  destruct (tgt <? Z.of_nat (count_nodes needle t))%Z eqn:E2; [right; left; apply Z.ltb_lt; assumption|].
  simpl in H. destruct (more_possible reach needle t); simpl in H.
  - destruct (Z.of_nat (count_nodes needle t) =? tgt)%Z; discriminate.
  - destruct (Z.of_nat (count_nodes needle t) =? tgt)%Z eqn:Eq; [discriminate|].
    right. right. split; [reflexivity|]. apply Z.eqb_neq. assumption.
Qed.

Theorem count_var_bind reach needle t k :
  count_var reach needle t = CBind k -> count_target_met reach needle k t.
Proof.
  unfold count_var. destruct (more_possible reach needle t) eqn:Em; [discriminate|].
  intro H. inversion H; subst. apply meets_count_spec. unfold meets_count.
  rewrite Nat.eqb_refl, Em. reflexivity.
Qed.

Definition ex_t : tree :=
  Node ex_A 0%N false [Node ex_B 1%N false [Node [120]%N 2%N false []]; Node ex_A 3%N false []].
Example count_decide_ex :
  count_decide (fun _ _ => false) ex_A ex_t 2%Z = CTrue /\
  count_var (fun _ _ => false) ex_B ex_t = CBind 1 /\
  count_decide (fun _ _ => false) ex_A ex_t 3%Z = CFalse.
Proof. vm_compute. auto. Qed.
