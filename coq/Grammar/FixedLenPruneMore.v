(* C14 — proof extension (2) and (4): pruning of create_fixed_length_tree and (non-)termination.

   (2) curr_len is a LOWER BOUND on the string length of every completion of the frame's tree, so a
       frame that is popped without being expanded or returned has no completion of length n.
       Needs: compute_nullable_nonterminals is COMPLETE (every nonterminal that derives the empty
       string is in the set) — true when no alternative contains the empty string "" as a symbol
       (guard K_empty_terminal; refuted otherwise, see prune_refuted).
   (4) the search does not terminate in general, even when every nonterminal has a terminal
       expansion: cflt_diverges. *)
From ISLA Require Import Grammar GrammarFacts TreeFacts FixedLen FixedLenFacts.
From Coq Require Import Lia Arith.

(* ------------------------------------------------------------------ *)
(* small facts                                                         *)
(* ------------------------------------------------------------------ *)
Lemma mem_In s l : mem s l = true <-> In s l.
Proof.
  unfold mem. rewrite existsb_exists. split.
  - intros (x & Hx & E). apply str_eqb_eq in E. subst. assumption.
  - intro H. exists s. split; [assumption|apply str_eqb_refl].
Qed.

Lemma mem_app x a b : mem x (a ++ b) = mem x a || mem x b.
Proof. unfold mem. apply existsb_app. Qed.

Lemma alts_keys g A al : In al (alts g A) -> In A (keys g).
Proof.
  induction g as [|[B al0] g IH]; simpl; [contradiction|].
  destruct (str_eqb A B) eqn:E.
  - intros _. left. apply str_eqb_eq in E. auto.
  - intro H. right. apply IH. assumption.
Qed.

Lemma alts_In_g g A al : In al (alts g A) -> exists r, In r g /\ In al (snd r).
Proof.
  induction g as [|[B al0] g IH]; simpl; [contradiction|].
  destruct (str_eqb A B).
  - intro H. exists (B, al0). auto.
  - intro H. destruct (IH H) as (r & Hr & Ha). exists r. auto.
Qed.

Lemma filter_len_le {A} (f f' : A -> bool) l :
  (forall x, f' x = true -> f x = true) -> length (filter f' l) <= length (filter f l).
Proof.
  intro H. induction l as [|a l IH]; simpl; [lia|].
  destruct (f' a) eqn:E'.
  - rewrite (H a E'). simpl. lia.
  - destruct (f a); simpl; lia.
Qed.

Lemma filter_len_lt {A} (f f' : A -> bool) l x :
  (forall x, f' x = true -> f x = true) -> In x l -> f x = true -> f' x = false ->
  length (filter f' l) < length (filter f l).
Proof.
  intros H Hin Hf Hf'. induction l as [|a l IH]; simpl; [contradiction|].
  destruct Hin as [->|Hin].
  - rewrite Hf, Hf'. simpl. pose proof (filter_len_le f f' l H). lia.
  - specialize (IH Hin). destruct (f' a) eqn:E'.
    + rewrite (H a E'). simpl. lia.
    + destruct (f a); simpl; lia.
Qed.

Lemma filter_len_all {A} (f : A -> bool) l : length (filter f l) <= length l.
Proof. induction l as [|a l IH]; simpl; [lia|]. destruct (f a); simpl; lia. Qed.

(* ------------------------------------------------------------------ *)
(* compute_nullable_nonterminals reaches a fixpoint within |g| rounds  *)
(* ------------------------------------------------------------------ *)
Definition unk (g : grammar) (cur : list str) : list str :=
  filter (fun k => negb (mem k cur)) (keys g).
Definition fresh (g : grammar) (cur : list str) : list str :=
  filter (fun k => negb (mem k cur) && null_ok g cur k) (keys g).

Definition closedN (g : grammar) (cur : list str) : Prop :=
  forall k, In k (keys g) -> null_ok g cur k = true -> mem k cur = true.

Lemma null_step_fresh g cur : null_step g cur = cur ++ fresh g cur.
Proof. reflexivity. Qed.

Lemma fresh_nil_closed g cur : fresh g cur = [] -> closedN g cur.
Proof.
  intros E k Hk Hok. destruct (mem k cur) eqn:Em; [reflexivity|].
  assert (Hin : In k (fresh g cur)).
  { unfold fresh. apply filter_In. split; [assumption|]. rewrite Em, Hok. reflexivity. }
  rewrite E in Hin. contradiction.
Qed.

Lemma iter_fix g cur : fresh g cur = [] -> forall n, iter n (null_step g) cur = cur.
Proof.
  intros E n. induction n as [|n IH]; simpl; [reflexivity|].
  rewrite null_step_fresh, E, app_nil_r. assumption.
Qed.

Lemma fresh_cons_lt g cur k rest :
  fresh g cur = k :: rest -> length (unk g (null_step g cur)) < length (unk g cur).
Proof.
  intro E. assert (Hin : In k (fresh g cur)) by (rewrite E; left; reflexivity).
  unfold fresh in Hin. apply filter_In in Hin as [Hk Hc]. apply andb_true_iff in Hc as [Hm _].
  unfold unk. apply filter_len_lt with (x := k); try assumption.
  - intros x Hx. apply negb_true_iff in Hx. apply negb_true_iff.
    rewrite null_step_fresh, mem_app in Hx. apply orb_false_iff in Hx. tauto.
  - apply negb_false_iff. rewrite null_step_fresh, mem_app, E. apply orb_true_iff. right.
    apply mem_In. left. reflexivity.
Qed.

Lemma iter_closed g : forall n cur, length (unk g cur) <= n -> closedN g (iter n (null_step g) cur).
Proof.
  induction n as [|n IH]; intros cur Hn.
  - simpl. intros k Hk _. destruct (mem k cur) eqn:Em; [reflexivity|].
    assert (Hin : In k (unk g cur)) by (unfold unk; apply filter_In; rewrite Em; auto).
    destruct (unk g cur); [contradiction|simpl in Hn; lia].
  - destruct (fresh g cur) as [|k rest] eqn:E.
    + rewrite (iter_fix g cur E). apply fresh_nil_closed. assumption.
    + simpl. apply IH. pose proof (fresh_cons_lt g cur k rest E). lia.
Qed.

Lemma iter_mono g x : forall n cur, mem x cur = true -> mem x (iter n (null_step g) cur) = true.
Proof.
  induction n as [|n IH]; intros cur H; simpl; [assumption|].
  apply IH. rewrite null_step_fresh, mem_app, H. reflexivity.
Qed.

Lemma nullables_closed g : closedN g (nullables g).
Proof.
  unfold nullables. apply iter_closed. unfold unk.
  etransitivity; [apply filter_len_all|]. unfold keys. rewrite map_length. lia.
Qed.

Lemma nullables_init g x : mem x (null_init g) = true -> mem x (nullables g) = true.
Proof. apply iter_mono. Qed.

(* ------------------------------------------------------------------ *)
(* completeness of the nullable set                                    *)
(* ------------------------------------------------------------------ *)
(* some alternative of the grammar contains the empty string "" as a symbol
   (never produced by helpers.canonical, which maps "" to the empty alternative []) *)
Definition K_empty_terminal (g : grammar) : bool :=
  existsb (fun r => existsb (fun a => existsb is_nil a) (snd r)) g.

Lemma no_empty_symbol g A al x :
  K_empty_terminal g = false -> In al (alts g A) -> In x al -> x <> [].
Proof.
  intros HK Hal Hx E. subst x. destruct (alts_In_g g A al Hal) as (r & Hr & Ha).
  assert (K_empty_terminal g = true); [|congruence].
  unfold K_empty_terminal. apply existsb_exists. exists r. split; [assumption|].
  apply existsb_exists. exists al. split; [assumption|].
  apply existsb_exists. exists []. auto.
Qed.

(* NU contains every nonterminal that is the root of a closed derivation tree with empty string *)
Definition NU_complete (g : grammar) (NU : list str) : Prop :=
  forall t, wf_tree g t -> is_openT t = false -> is_nt (lbl t) = true -> yield t = [] ->
            mem (lbl t) NU = true.

Lemma flat_map_nil {A B} (f : A -> list B) l : flat_map f l = [] -> forall x, In x l -> f x = [].
Proof.
  induction l as [|a l IH]; simpl; intros H x Hx; [contradiction|].
  apply app_eq_nil in H as [H1 H2]. destruct Hx as [<-|Hx]; auto.
Qed.

Lemma eps_in_init g A : In [] (alts g A) -> mem A (null_init g) = true.
Proof.
  intro H. apply mem_In. unfold null_init. apply filter_In. split.
  - eapply alts_keys. eassumption.
  - apply existsb_exists. exists []. auto.
Qed.

Theorem nullables_complete g : K_empty_terminal g = false -> NU_complete g (nullables g).
Proof.
  intros HK t. induction t as [l i o ks IH] using tree_ind'. intros Hw Hc Hnt Hy. simpl in Hnt.
  inversion Hw as [A j HA Hd | w j Hw' | A j ks' HA Hne Hal Hall | A j HA He | A j j' HA He]; subst.
  - simpl in Hc. discriminate.
  - simpl in Hnt. congruence.
  - simpl. apply nullables_closed.
    + eapply alts_keys. eassumption.
    + unfold null_ok. apply existsb_exists. exists (map lbl ks). split; [assumption|].
      apply forallb_forall. intros e He. apply in_map_iff in He as (c & <- & Hcin).
      assert (Hyc : yield c = []).
      { destruct ks as [|k0 ks0]; [congruence|]. apply (flat_map_nil yield (k0 :: ks0) Hy c Hcin). }
      assert (Hwc : wf_tree g c) by (rewrite Forall_forall in Hall; auto).
      assert (Hcc : is_openT c = false) by (eapply closed_kids; eassumption).
      destruct (is_nt (lbl c)) eqn:Ec.
      * rewrite Forall_forall in IH. apply IH; assumption.
      * exfalso.
        assert (Hlc : lbl c = []).
        { inversion Hwc as [A1 j1 HA1 Hd1 | w j1 Hw1 | A1 j1 ks1 HA1 Hne1 Hal1 Hall1
                            | A1 j1 HA1 He1 | A1 j1 j2 HA1 He1]; subst; simpl in Ec; try congruence.
          simpl in Hyc. rewrite Hw1 in Hyc. assumption. }
        eapply (no_empty_symbol g l (map lbl ks) (lbl c)); try eassumption.
        apply in_map. assumption.
  - simpl. apply nullables_init. apply eps_in_init. assumption.
  - simpl. apply nullables_init. apply eps_in_init. assumption.
Qed.

(* ------------------------------------------------------------------ *)
(* completions of an open derivation tree                              *)
(* ------------------------------------------------------------------ *)
(* t' is obtained from t by replacing every open leaf by a closed derivation tree with the same
   root label (node ids are irrelevant) *)
Inductive completes (g : grammar) : tree -> tree -> Prop :=
| cp_open : forall A i t', wf_tree g t' -> is_openT t' = false -> lbl t' = A ->
    completes g (Node A i true []) t'
| cp_node : forall l i i' ks ks', Forall2 (completes g) ks ks' ->
    completes g (Node l i false ks) (Node l i' false ks').

Lemma completes_lbl g t t' : completes g t t' -> lbl t' = lbl t.
Proof. intro H. inversion H; subst; simpl; auto. Qed.

Lemma list_sum_le {A B} (R : A -> B -> Prop) (f : A -> nat) (f' : B -> nat) ks ks' :
  Forall2 R ks ks' -> (forall k k', In k ks -> R k k' -> f k <= f' k') ->
  list_sum (map f ks) <= list_sum (map f' ks').
Proof.
  intro H. induction H as [|k k' ks ks' Hk Hrest IH]; intro Hle; simpl; [lia|].
  pose proof (Hle k k' (or_introl eq_refl) Hk).
  assert (list_sum (map f ks) <= list_sum (map f' ks')); [|lia].
  apply IH. intros c c' Hc. apply Hle. right. assumption.
Qed.

Lemma yield_leaf l i : yield (Node l i false []) = if is_nt l then [] else l.
Proof. reflexivity. Qed.

Lemma yield_node l i o k ks : yield (Node l i o (k :: ks)) = flat_map yield (k :: ks).
Proof. reflexivity. Qed.

(* the lower bound *)
Theorem clen_lower_bound g NU : NU_complete g NU ->
  forall t t', wfo g t -> completes g t t' -> clen NU t <= length (yield t').
Proof.
  intros HNU t. induction t as [l i o ks IH] using tree_ind'. intros t' Hw Hc.
  inversion Hc as [A j t1 Hw1 Hc1 Hl1 | l1 j j' ks1 ks' Hall]; subst.
  - simpl. unfold nn. destruct (mem (lbl t') NU) eqn:Em; [lia|].
    apply wfo_open_nokids in Hw as [_ Hnt].
    destruct (yield t') as [|c w] eqn:Ey; [|simpl; lia].
    rewrite (HNU t' Hw1 Hc1 Hnt Ey) in Em. discriminate.
  - destruct ks as [|k ks0].
    + inversion Hall; subst. rewrite yield_leaf. simpl. destruct (is_nt l); simpl; lia.
    + inversion Hall as [|k0 k' ks2 ks0' Hk Hrest]; subst.
      rewrite clen_node by discriminate. rewrite yield_node, length_flat_map_yield.
      apply (list_sum_le (completes g)); [assumption|].
      intros c c' Hcin Hcc. rewrite Forall_forall in IH. apply IH; [assumption| |assumption].
      eapply wfo_kid; eassumption.
Qed.

Lemma flat_map_ext_F2 {A B C} (R : A -> B -> Prop) (f : A -> list C) (f' : B -> list C) ks ks' :
  Forall2 R ks ks' -> (forall k k', In k ks -> R k k' -> f' k' = f k) ->
  flat_map f' ks' = flat_map f ks.
Proof.
  intro H. induction H as [|k k' ks ks' Hk Hrest IH]; intro He; simpl; [reflexivity|].
  rewrite (He k k' (or_introl eq_refl) Hk). f_equal.
  apply IH. intros c c' Hc. apply He. right. assumption.
Qed.

(* a closed tree is its own only completion (up to ids) *)
Lemma completes_closed_yield g : forall t t', is_openT t = false -> completes g t t' -> yield t' = yield t.
Proof.
  intro t. induction t as [l i o ks IH] using tree_ind'. intros t' Hcl Hc.
  inversion Hc as [A j t1 Hw1 Hc1 Hl1 | l1 j j' ks1 ks' Hall]; subst.
  - simpl in Hcl. discriminate.
  - destruct ks as [|k ks0].
    + inversion Hall; subst. reflexivity.
    + inversion Hall as [|k0 k' ks2 ks0' Hk Hrest]; subst. rewrite !yield_node.
      apply (flat_map_ext_F2 (completes g)); [assumption|].
      intros c c' Hcin Hcc. rewrite Forall_forall in IH. apply IH; [assumption| |assumption].
      eapply closed_kids; eassumption.
Qed.

(* completions are closed derivation trees (the relation is the intended one) *)
Lemma F2_forall {A B} (R : A -> B -> Prop) (P : B -> Prop) ks ks' :
  Forall2 R ks ks' -> (forall k k', In k ks -> R k k' -> P k') -> Forall P ks'.
Proof.
  intro H. induction H as [|k k' ks ks' Hk Hrest IH]; intro Hp; constructor.
  - apply (Hp k k'); [left; reflexivity|assumption].
  - apply IH. intros c c' Hc. apply Hp. right. assumption.
Qed.

Lemma F2_map_eq {A B C} (R : A -> B -> Prop) (f : A -> C) (f' : B -> C) ks ks' :
  Forall2 R ks ks' -> (forall k k', R k k' -> f' k' = f k) -> map f' ks' = map f ks.
Proof.
  intros H He. induction H as [|k k' ks ks' Hk Hrest IH]; simpl; [reflexivity|].
  rewrite (He k k' Hk), IH. reflexivity.
Qed.

Lemma completes_wf g : forall t t', wfo g t -> completes g t t' ->
  wf_tree g t' /\ is_openT t' = false.
Proof.
  intro t. induction t as [l i o ks IH] using tree_ind'. intros t' Hw Hc.
  inversion Hc as [A j t1 Hw1 Hc1 Hl1 | l1 j j' ks1 ks' Hall]; subst; [auto|].
  assert (Hk1 : Forall (fun c' => wf_tree g c' /\ is_openT c' = false) ks').
  { apply (F2_forall (completes g) _ ks ks' Hall). intros c c' Hcin Hcc.
    rewrite Forall_forall in IH. apply (IH c Hcin); [|assumption]. eapply wfo_kid; eassumption. }
  assert (Hk2 : map lbl ks' = map lbl ks).
  { apply (F2_map_eq (completes g) lbl lbl ks ks' Hall). apply completes_lbl. }
  split.
  - inversion Hw as [A j0 HA | w j0 Hw' | A j0 HA He | A j0 ks1 HA Hne Hal Hall1]; subst.
    + inversion Hall; subst. apply wf_term. assumption.
    + inversion Hall; subst. apply wf_eps_parser; assumption.
    + apply wf_inner; try assumption.
      * intro E. subst ks'. inversion Hall; subst. congruence.
      * rewrite Hk2. assumption.
      * eapply Forall_impl; [|exact Hk1]. intros c [H _]. exact H.
  - simpl. apply not_true_is_false. intro E. apply existsb_exists in E as (c & Hcin & Hco).
    rewrite Forall_forall in Hk1. destruct (Hk1 c Hcin) as [_ H]. congruence.
Qed.

(* ------------------------------------------------------------------ *)
(* (2) discarded frames have no completion of the target length        *)
(* ------------------------------------------------------------------ *)
(* the frame on top of the stack is popped without being returned or expanded *)
Definition discards (n : nat) (fr : frame) : bool :=
  let '(t, cl, ls) := fr in
  match ls with [] => negb (cl =? n) | _ :: _ => n <? cl end.

Lemma cflt_loop_discards f g NU n fr st o :
  discards n fr = true -> cflt_loop (S f) g NU n (fr :: st) o = cflt_loop f g NU n st o.
Proof.
  destruct fr as [[t cl] ls]. simpl. destruct ls as [|x ls].
  - intro H. apply negb_true_iff in H. rewrite H. reflexivity.
  - intro H. rewrite H. reflexivity.
Qed.

Lemma cflt_loop_keeps f g NU n t cl ls st o :
  discards n (t, cl, ls) = false ->
  cflt_loop (S f) g NU n ((t, cl, ls) :: st) o =
  match ls with
  | [] => Found t
  | _ :: _ => match expand_frame g NU (t, cl, ls) o with
              | Raise e => Err e
              | Ok (fs, o') => cflt_loop f g NU n (fs ++ st) o'
              end
  end.
Proof.
  simpl. destruct ls as [|x ls].
  - intro H. apply negb_false_iff in H. rewrite H. reflexivity.
  - intro H. rewrite H. reflexivity.
Qed.

Theorem prune_sound_with g NU A0 n t cl ls :
  NU_complete g NU -> Inv g NU A0 (t, cl, ls) -> discards n (t, cl, ls) = true ->
  forall t', completes g t t' -> length (yield t') <> n.
Proof.
  intros HNU HI Hd t' Hc. destruct ls as [|x ls]; simpl in Hd.
  - apply negb_true_iff in Hd. apply Nat.eqb_neq in Hd.
    destruct (inv_done _ _ _ _ _ HI) as (_ & Hcl & _ & Hlen).
    assert (Hclosed : is_openT t = false)
      by (unfold closedb in Hcl; destruct (is_openT t); [discriminate|reflexivity]).
    rewrite (completes_closed_yield g t t' Hclosed Hc). lia.
  - apply Nat.ltb_lt in Hd. destruct HI as (Hw & _ & _ & _ & _ & Hcl).
    pose proof (clen_lower_bound g NU HNU t t' Hw Hc). lia.
Qed.

(* cflt_prune_sound *)
Theorem prune_sound g A0 n t cl ls :
  K_empty_terminal g = false ->
  Inv g (nullables g) A0 (t, cl, ls) -> discards n (t, cl, ls) = true ->
  forall t', completes g t t' -> length (yield t') <> n.
Proof. intro HK. apply prune_sound_with. apply nullables_complete. assumption. Qed.

(* special case, the initial frame: if the start symbol is pruned at once there is no derivation
   tree of that length at all *)
Corollary prune_initial_sound g A n fuel o :
  K_empty_terminal g = false -> is_nt A = true -> n < nn (nullables g) A ->
  cflt (S (S fuel)) g A n o = NotFound /\
  forall t', wf_tree g t' -> closedb t' = true -> lbl t' = A -> length (yield t') <> n.
Proof.
  intros HK HA Hn. split.
  - unfold cflt, cflt_with. rewrite cflt_loop_discards.
    + reflexivity.
    + simpl. apply Nat.ltb_lt. assumption.
  - intros t' Hw Hc Hl.
    apply (prune_sound g A n (Node A 0%N true []) (nn (nullables g) A) [([], A)] HK).
    + apply inv_init. assumption.
    + simpl. apply Nat.ltb_lt. assumption.
    + apply cp_open; try assumption. unfold closedb in Hc.
      destruct (is_openT t'); [discriminate|reflexivity].
Qed.

(* the guard is needed: with the symbol "" in an alternative the nullable set misses <a>, the
   start frame is pruned, and yet <a>("") is a closed derivation tree of length 0 *)
Definition pr_g : grammar := [(ex_A, [[ [] ]])].
Definition pr_t : tree := Node ex_A 0%N false [Node [] 0%N false []].

Example prune_refuted :
  K_empty_terminal pr_g = true /\
  Inv pr_g (nullables pr_g) ex_A (Node ex_A 0%N true [], 1, [([], ex_A)]) /\
  discards 0 (Node ex_A 0%N true [], 1, [([], ex_A)]) = true /\
  completes pr_g (Node ex_A 0%N true []) pr_t /\ length (yield pr_t) = 0 /\
  (forall fuel o, cflt (S (S fuel)) pr_g ex_A 0 o = NotFound) /\
  meets_length pr_g ex_A 0 pr_t = true.
Proof.
  split; [reflexivity|]. split; [apply (inv_init pr_g (nullables pr_g) ex_A); reflexivity|].
  split; [reflexivity|]. split.
  - apply cp_open; [|reflexivity|reflexivity]. apply wf_treeb_spec. reflexivity.
  - split; [reflexivity|]. split; [intros fuel o; reflexivity|reflexivity].
Qed.

(* non-vacuity of prune_sound: a frame of the running example that is discarded *)
Example prune_nonvacuous :
  K_empty_terminal ex_g = false /\ nullables ex_g = [ex_A] /\
  let fr := (Node ex_A 0%N false [Node ex_B 0%N true []; Node ex_A 0%N true []], 1,
             [([0], ex_B); ([1], ex_A)]) in
  Inv ex_g (nullables ex_g) ex_A fr /\ discards 0 fr = true.
Proof.
  split; [reflexivity|]. split; [reflexivity|]. cbv zeta. split; [|reflexivity].
  assert (H0 : Inv ex_g (nullables ex_g) ex_A (Node ex_A 0%N true [], nn (nullables ex_g) ex_A, [([], ex_A)]))
    by (apply inv_init; reflexivity).
  eapply (push_frame_inv ex_g (nullables ex_g) ex_A _ _ _ 0 [] ex_A [ex_B; ex_A]); [exact H0| | |].
  - reflexivity.
  - left. reflexivity.
  - reflexivity.
Qed.

(* ------------------------------------------------------------------ *)
(* (4) the search diverges although every nonterminal has a terminal   *)
(*     expansion:  <a> ::= <a> | "x",  target length 2                 *)
(* ------------------------------------------------------------------ *)
Definition dv_X : str := [120]%N.
Definition dv_g : grammar := [(ex_A, [[ex_A]; [dv_X]])].

Lemma dv_choose o : exists o', choose o [[dv_X]] = ([[dv_X]], o').
Proof.
  unfold choose. destruct o as [|i o']; [eexists; reflexivity|].
  change (length [[dv_X]]) with 1. rewrite Nat.mod_1_r. eexists. reflexivity.
Qed.

Lemma dv_step t p o :
  Inv dv_g [] ex_A (t, 1, [(p, ex_A)]) ->
  exists t1 t2 o',
    expand_frame dv_g [] (t, 1, [(p, ex_A)]) o = Ok ([(t1, 1, []); (t2, 1, [(p ++ [0], ex_A)])], o') /\
    Inv dv_g [] ex_A (t2, 1, [(p ++ [0], ex_A)]).
Proof.
  intro HI. pose proof HI as (Hw & _ & _ & H2 & _ & _).
  assert (Hop : open_at t p ex_A) by (apply H2; left; reflexivity).
  destruct (replace_leaf dv_g [] p t ex_A (Node ex_A 0%N false (map mk_child [dv_X])) Hw Hop)
    as (t1 & E1 & _); [apply wfo_expansion; [reflexivity|right; left; reflexivity]|reflexivity|].
  destruct (replace_leaf dv_g [] p t ex_A (Node ex_A 0%N false (map mk_child [ex_A])) Hw Hop)
    as (t2 & E2 & _); [apply wfo_expansion; [reflexivity|left; reflexivity]|reflexivity|].
  destruct (dv_choose o) as [o' Ho'].
  assert (P1 : push_frame [] (t, 1, [(p, ex_A)]) 0 p ex_A [dv_X] = Ok (t1, 1, []))
    by (unfold push_frame; rewrite E1; reflexivity).
  assert (P2 : push_frame [] (t, 1, [(p, ex_A)]) 0 p ex_A [ex_A] = Ok (t2, 1, [(p ++ [0], ex_A)]))
    by (unfold push_frame; rewrite E2; reflexivity).
  exists t1, t2, o'. split.
  - unfold expand_frame. cbn [snd rev enumerate length seq combine app expand_desc].
    unfold expand_leaf. change (negb (defined dv_g ex_A)) with false. cbv iota.
    change (term_exps dv_g ex_A) with [[dv_X]]. rewrite Ho'.
    change (sort_exps (nonterm_exps dv_g ex_A ++ [[dv_X]])) with [[dv_X]; [ex_A]].
    cbn [map_res]. rewrite P1, P2. reflexivity.
  - eapply (push_frame_inv dv_g [] ex_A t 1 [(p, ex_A)] 0 p ex_A [ex_A]); [exact HI|reflexivity| |exact P2].
    left. reflexivity.
Qed.

Lemma dv_loop : forall fuel t p o,
  Inv dv_g [] ex_A (t, 1, [(p, ex_A)]) ->
  cflt_loop fuel dv_g [] 2 [(t, 1, [(p, ex_A)])] o = OutOfFuel.
Proof.
  induction fuel as [fuel IH] using lt_wf_ind. intros t p o HI.
  destruct fuel as [|f]; [reflexivity|].
  destruct (dv_step t p o HI) as (t1 & t2 & o' & Ee & HI2).
  cbn [cflt_loop]. change (2 <? 1) with false. cbv iota. rewrite Ee.
  destruct f as [|f']; [reflexivity|].
  cbn [app cflt_loop]. change (1 =? 2) with false. cbv iota.
  apply IH; [lia|assumption].
Qed.

(* for every amount of fuel and every stream of random choices the model runs out of fuel: the
   Python loop does not terminate on this input *)
Theorem cflt_diverges : forall fuel o, cflt fuel dv_g ex_A 2 o = OutOfFuel.
Proof.
  intros fuel o. unfold cflt, cflt_with. change (nullables dv_g) with (@nil str).
  change (nn [] ex_A) with 1. apply dv_loop. apply (inv_init dv_g [] ex_A). reflexivity.
Qed.

(* ... although every nonterminal of dv_g has a terminal expansion and the language of <a> is {"x"}:
   no tree of length 2 exists, and the answer NotFound is never given *)
Example dv_has_terminal_expansion : term_exps dv_g ex_A = [[dv_X]].
Proof. reflexivity. Qed.
