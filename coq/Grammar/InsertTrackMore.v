(* C13 — proof extension, shared infrastructure for (1) self embedding and (2) context addition:
     * replace_at away from the replaced position,
     * `nodesin S t`: every node (id, label) of t satisfies S; preserved by every tree-building
       step of insert_trees (nodes created by the code carry the model's fresh id 0),
     * inversion lemmas for the monadic list combinators and for connect_trees / insert_item /
       insert_items / insert_trees,
     * characterisation of find_higher_up_insertion_points: every returned point is a proper
       prefix of the insertion path and all nodes from it down to the insertion path have at
       most one child. *)
From ISLA Require Import Grammar GrammarFacts PathFacts TreeFacts Insert InsertFacts InsertDirectMore.
From Coq Require Import List NArith Bool Arith Lia.
Import ListNotations.

(* ---------- prefix helpers ---------- *)
Lemma prefix_dec p q : {prefix p q} + {~ prefix p q}.
Proof.
  destruct (prefixb p q) eqn:E; [left; apply prefixb_spec; assumption|].
  right. intro H. apply prefixb_spec in H. congruence.
Qed.

Lemma prefix_app p r : prefix p (p ++ r).
Proof. exists r. reflexivity. Qed.

Lemma not_prefix_cons_neq i j (p q : path) : i <> j -> ~ prefix (i :: p) (j :: q).
Proof. intros Hne H. apply prefix_cons_inv in H as [E _]. contradiction. Qed.

(* ---------- replace_at away from the replaced position ---------- *)
Lemma replace_at_disjoint p : forall t r t' q,
  replace_at t p r = Some t' -> ~ prefix p q -> ~ prefix q p -> subtree t' q = subtree t q.
Proof.
  induction p as [|i p IH]; intros t r t' q H Hn1 Hn2.
  - exfalso. apply Hn1. apply prefix_nil.
  - simpl in H. destruct (nth_error (kids t) i) as [c|] eqn:Hc; [|discriminate].
    destruct (replace_at c p r) as [c'|] eqn:Hr; [|discriminate]. inversion H; subst; clear H.
    destruct q as [|j q]; [exfalso; apply Hn2; apply prefix_nil|]. simpl.
    destruct (Nat.eq_dec i j) as [->|Hne].
    + rewrite (nth_error_set_nth_eq _ _ _ _ Hc), Hc. eapply IH; [eassumption| |].
      * intro Hp. apply Hn1. apply prefix_cons. assumption.
      * intro Hp. apply Hn2. apply prefix_cons. assumption.
    + rewrite (nth_error_set_nth_neq _ _ _ _ Hne). reflexivity.
Qed.

(* a node of t that is not at or below p is still there, with the same id and label *)
Lemma replace_at_keeps_outside p : forall t r t' q n,
  replace_at t p r = Some t' -> ~ prefix p q -> subtree t q = Some n ->
  exists m, subtree t' q = Some m /\ tid m = tid n /\ lbl m = lbl n.
Proof.
  induction p as [|i p IH]; intros t r t' q n H Hn Hq.
  - exfalso. apply Hn. apply prefix_nil.
  - simpl in H. destruct (nth_error (kids t) i) as [c|] eqn:Hc; [|discriminate].
    destruct (replace_at c p r) as [c'|] eqn:Hr; [|discriminate]. inversion H; subst; clear H.
    destruct q as [|j q]; simpl in *.
    + inversion Hq; subst. eexists. split; [reflexivity|]. auto.
    + destruct (Nat.eq_dec i j) as [->|Hne].
      * rewrite (nth_error_set_nth_eq _ _ _ _ Hc). rewrite Hc in Hq.
        eapply IH; [eassumption| |eassumption]. intro Hp. apply Hn. apply prefix_cons. assumption.
      * rewrite (nth_error_set_nth_neq _ _ _ _ Hne). exists n. auto.
Qed.

(* conversely, a node of the new tree that is not at or below p stems from t *)
Lemma replace_at_outside_inv p : forall t r t' q m,
  replace_at t p r = Some t' -> ~ prefix p q -> subtree t' q = Some m ->
  exists n, subtree t q = Some n /\ tid n = tid m /\ lbl n = lbl m.
Proof.
  induction p as [|i p IH]; intros t r t' q m H Hn Hq.
  - exfalso. apply Hn. apply prefix_nil.
  - simpl in H. destruct (nth_error (kids t) i) as [c|] eqn:Hc; [|discriminate].
    destruct (replace_at c p r) as [c'|] eqn:Hr; [|discriminate]. inversion H; subst; clear H.
    destruct q as [|j q]; simpl in *.
    + inversion Hq; subst. exists t. auto.
    + destruct (Nat.eq_dec i j) as [->|Hne].
      * rewrite (nth_error_set_nth_eq _ _ _ _ Hc) in Hq. rewrite Hc.
        eapply IH; [eassumption| |eassumption]. intro Hp. apply Hn. apply prefix_cons. assumption.
      * rewrite (nth_error_set_nth_neq _ _ _ _ Hne) in Hq. exists m. auto.
Qed.

Lemma replace_at_below p t r t' q :
  replace_at t p r = Some t' -> subtree t' (p ++ q) = subtree r q.
Proof. intro H. rewrite subtree_app, (replace_at_subtree p t r t' H). reflexivity. Qed.

Lemma replace_at_valid p : forall t r t', replace_at t p r = Some t' -> exists old, subtree t p = Some old.
Proof.
  induction p as [|i p IH]; intros t r t' H; simpl in *; [eauto|].
  destruct (nth_error (kids t) i) as [c|]; [|discriminate].
  destruct (replace_at c p r) as [c'|] eqn:Hr; [|discriminate]. eapply IH; eassumption.
Qed.

Lemma replace_path_ok t p r x : replace_path t p r = Ok x -> replace_at t p r = Some x.
Proof. unfold replace_path. destruct (replace_at t p r); intro H; inversion H; reflexivity. Qed.

(* ---------- nodesin ---------- *)
Definition nodesin (S : N -> str -> Prop) (t : tree) : Prop :=
  forall p n, subtree t p = Some n -> S (tid n) (lbl n).

Lemma nodesin_node S l i o ks : nodesin S (Node l i o ks) <-> S i l /\ Forall (nodesin S) ks.
Proof.
  split.
  - intro H. split; [apply (H [] _ eq_refl)|]. apply Forall_forall. intros k Hk p n Hp.
    apply In_nth_error in Hk as (j & Hj). apply (H (j :: p)). simpl. rewrite Hj. assumption.
  - intros [H0 Hks] [|j p] n Hp; simpl in Hp.
    + inversion Hp; subst. assumption.
    + destruct (nth_error ks j) as [c|] eqn:Hc; [|discriminate].
      rewrite Forall_forall in Hks. apply (Hks c (nth_error_In _ _ Hc) p n Hp).
Qed.

Lemma nodesin_subtree S t p s : nodesin S t -> subtree t p = Some s -> nodesin S s.
Proof. intros H Hs q n Hq. apply (H (p ++ q)). rewrite subtree_app, Hs. assumption. Qed.

Lemma nodesin_weaken (S S' : N -> str -> Prop) t :
  (forall i l, S i l -> S' i l) -> nodesin S t -> nodesin S' t.
Proof. intros H Ht p n Hp. apply H. eapply Ht; eassumption. Qed.

Lemma nodesin_replace S p t r t' :
  replace_at t p r = Some t' -> nodesin S t -> nodesin S r -> nodesin S t'.
Proof.
  intros H Ht Hr q m Hq. destruct (prefix_dec p q) as [[q' ->]|Hn].
  - rewrite (replace_at_below p t r t' q' H) in Hq. eapply Hr; eassumption.
  - destruct (replace_at_outside_inv p t r t' q m H Hn Hq) as (n & Hn' & <- & <-).
    eapply Ht; eassumption.
Qed.

Lemma nodesin_reroot (S : N -> str -> Prop) t i l :
  S i l -> nodesin S t -> nodesin S (Node l i (opn t) (kids t)).
Proof. destruct t as [l0 i0 o ks]. simpl. rewrite !nodesin_node. intros H [_ Hk]. auto. Qed.

Definition zero_ok (S : N -> str -> Prop) : Prop := forall l, S 0%N l.

Lemma nodesin_mlo S t : nodesin S t -> nodesin S (mlo t).
Proof.
  induction t as [l i o ks IH] using tree_ind'. intro H. simpl.
  destruct o; [assumption|]. destruct ks as [|k ks].
  - destruct (is_nt l); [|assumption]. apply nodesin_node in H as [H0 _]. apply nodesin_node. auto.
  - apply nodesin_node in H as [H0 Hk]. apply nodesin_node. split; [assumption|].
    rewrite Forall_forall in *. intros x Hx. apply in_map_iff in Hx as (y & <- & Hy). auto.
Qed.

Lemma nodesin_leaf0 S s o : zero_ok S -> nodesin S (Node s 0 o []).
Proof. intro Hz. apply nodesin_node. split; [apply Hz | constructor]. Qed.

Lemma nodesin_ptt_kids S (Hz : zero_ok S) a : forall i sub,
  nodesin S sub -> Forall (nodesin S) (ptt_kids a i sub).
Proof.
  induction a as [|s a IH]; intros i sub Hsub; simpl; [constructor|]. destruct i as [|i].
  - constructor; [assumption|]. apply Forall_forall. intros x Hx.
    apply in_map_iff in Hx as (s' & <- & _). apply nodesin_leaf0. assumption.
  - constructor; [apply nodesin_leaf0; assumption | apply IH; assumption].
Qed.

Lemma nodesin_ptt_raw S (Hz : zero_ok S) g : forall rest A t,
  In t (ptt_raw g A rest) -> nodesin S t.
Proof.
  induction rest as [|B rest IH]; intros A t Hin; simpl in Hin.
  - destruct Hin as [<-|[]]. apply nodesin_leaf0. assumption.
  - apply in_flat_map in Hin as (a & _ & Hin). apply in_flat_map in Hin as (i & _ & Hin).
    apply in_map_iff in Hin as (sub & <- & Hsub). apply nodesin_node. split; [apply Hz|].
    apply nodesin_ptt_kids; [assumption|]. eapply IH; eassumption.
Qed.

Lemma nodesin_path_to_tree S (Hz : zero_ok S) g ch cts ct :
  path_to_tree g ch = Ok cts -> In ct cts -> nodesin S ct.
Proof.
  destruct ch as [|A [|B rest]]; unfold path_to_tree; try discriminate. intros H Hin. inversion H; subst.
  apply in_map_iff in Hin as (t0 & <- & Hin). apply nodesin_mlo. apply (nodesin_ptt_raw S Hz g (B :: rest) A). exact Hin.
Qed.

(* root label of the trees of path_to_tree *)
Lemma lbl_ptt_raw g : forall rest A t, In t (ptt_raw g A rest) -> lbl t = A.
Proof.
  destruct rest as [|B rest]; intros A t Hin; simpl in Hin.
  - destruct Hin as [<-|[]]. reflexivity.
  - apply in_flat_map in Hin as (a & _ & Hin). apply in_flat_map in Hin as (i & _ & Hin).
    apply in_map_iff in Hin as (sub & <- & _). reflexivity.
Qed.

Lemma lbl_path_to_tree g ch cts ct :
  path_to_tree g ch = Ok cts -> In ct cts -> exists rest, ch = lbl ct :: rest.
Proof.
  destruct ch as [|A [|B rest]]; unfold path_to_tree; try discriminate. intros H Hin. inversion H; subst.
  apply in_map_iff in Hin as (t0 & <- & Hin). rewrite lbl_mlo, (lbl_ptt_raw g (B :: rest) A t0 Hin). eauto.
Qed.

(* ---------- ids ---------- *)
Definition ids (t : tree) : list N := map (fun pt => tid (snd pt)) (nodes t).

Lemma ids_spec t i : In i (ids t) <-> exists p n, subtree t p = Some n /\ tid n = i.
Proof.
  unfold ids. rewrite in_map_iff. split.
  - intros ([p n] & E & Hin). apply nodes_spec in Hin. exists p, n. auto.
  - intros (p & n & Hs & E). exists (p, n). split; [assumption | apply nodes_spec; assumption].
Qed.

Lemma has_id_ids t i : has_id t i = true <-> In i (ids t).
Proof. rewrite has_id_spec, ids_spec. reflexivity. Qed.

Lemma NoDup_map_inj {A B} (f : A -> B) l : NoDup (map f l) ->
  forall x y, In x l -> In y l -> f x = f y -> x = y.
Proof.
  induction l as [|a l IH]; intros Hnd x y Hx Hy E; [contradiction|].
  simpl in Hnd. inversion Hnd as [|? ? Hnotin Hnd']; subst.
  destruct Hx as [<-|Hx], Hy as [<-|Hy].
  - reflexivity.
  - exfalso. apply Hnotin. rewrite E. apply in_map. assumption.
  - exfalso. apply Hnotin. rewrite <- E. apply in_map. assumption.
  - apply IH; assumption.
Qed.

(* with unique ids, an id determines the node (position and subtree) *)
Lemma ids_unique t p q a b :
  NoDup (ids t) -> subtree t p = Some a -> subtree t q = Some b -> tid a = tid b -> p = q /\ a = b.
Proof.
  intros Hnd Ha Hb E. apply nodes_spec in Ha, Hb.
  pose proof (NoDup_map_inj _ _ Hnd (p, a) (q, b) Ha Hb E) as H. inversion H. auto.
Qed.

(* ---------- monadic list combinators ---------- *)
Lemma mapM_In {A B} (f : A -> res B) : forall l ys y,
  mapM f l = Ok ys -> In y ys -> exists x, In x l /\ f x = Ok y.
Proof.
  induction l as [|x l IH]; intros ys y H Hin; simpl in H.
  - inversion H; subst. contradiction.
  - apply bind_ok in H as (y0 & Hy0 & H). apply bind_ok in H as (ys0 & Hys0 & H).
    inversion H; subst. destruct Hin as [<-|Hin].
    + exists x. split; [left; reflexivity | assumption].
    + destruct (IH _ _ Hys0 Hin) as (x' & Hx' & Hf). exists x'. split; [right; assumption | assumption].
Qed.

Lemma concatM_In {A B} (f : A -> res (list B)) l ys y :
  concatM f l = Ok ys -> In y ys -> exists x zs, In x l /\ f x = Ok zs /\ In y zs.
Proof.
  unfold concatM. intros H Hin. apply bind_ok in H as (ls & Hls & H). inversion H; subst.
  apply in_concat in Hin as (zs & Hzs & Hy).
  destruct (mapM_In f l ls zs Hls Hzs) as (x & Hx & Hf). exists x, zs. auto.
Qed.

(* ---------- connect_trees ---------- *)
Lemma connect_one_inv g add parent ip ct lp new :
  connect_one g add parent ip ct lp = Ok new ->
  exists orig inst, subtree parent ip = Some orig /\
    replace_at (Node (lbl ct) (tid orig) (opn ct) (kids ct)) lp add = Some inst /\
    replace_at parent ip inst = Some new /\ wf_tree g new.
Proof.
  unfold connect_one. destruct (subtree parent ip) as [orig|]; [|discriminate]. intro H.
  apply bind_ok in H as (inst & Hi & H). apply bind_ok in H as (new' & Hn & H).
  apply bind_ok in H as (u & Ha & H). inversion H; subst.
  apply assert_ok in Ha. apply wf_treeb_spec in Ha.
  exists orig, inst. repeat split; auto using replace_path_ok.
Qed.

Lemma connect_trees_In g pb add parent ipts news new :
  connect_trees g pb add parent ipts = Ok news -> In new news ->
  exists ip n ch cts ct lp, In (ip, n) ipts /\ is_nt (lbl n) = true /\
    In ch (pb (lbl n) (lbl add)) /\ path_to_tree g ch = Ok cts /\ In ct cts /\
    In lp (open_leaves_lbl ct (lbl add)) /\ connect_one g add parent ip ct lp = Ok new.
Proof.
  unfold connect_trees. intros H Hin.
  destruct (concatM_In _ _ _ _ H Hin) as ([ip n] & zs & Hipt & Hf & Hz). simpl in Hf.
  destruct (is_nt (lbl n)) eqn:Hnt; [|inversion Hf; subst; contradiction].
  destruct (concatM_In _ _ _ _ Hf Hz) as (ch & zs2 & Hch & Hf2 & Hz2).
  apply bind_ok in Hf2 as (cts & Hcts & Hf2).
  destruct (concatM_In _ _ _ _ Hf2 Hz2) as (ct & zs3 & Hct & Hf3 & Hz3).
  destruct (mapM_In _ _ _ _ Hf3 Hz3) as (lp & Hlp & Hone).
  exists ip, n, ch, cts, ct, lp. repeat split; assumption.
Qed.

Lemma open_leaves_lbl_spec ct B lp :
  In lp (open_leaves_lbl ct B) -> exists n, subtree ct lp = Some n /\ opn n = true /\ lbl n = B.
Proof.
  unfold open_leaves_lbl. intro H. apply in_map_iff in H as ([p n] & <- & Hin).
  apply filter_In in Hin as [Hn Hf]. apply nodes_spec in Hn. apply andb_true_iff in Hf as [Ho Hl].
  simpl in *. apply str_eqb_eq in Hl. exists n. auto.
Qed.

(* ---------- proper prefixes ---------- *)
Lemma removelast_sprefix (p : path) : p <> [] -> sprefix (removelast p) p.
Proof.
  intro H. destruct (exists_last H) as (q & a & ->). rewrite removelast_last. exists a, []. reflexivity.
Qed.

Lemma sprefix_removelast (r p : path) : sprefix r p -> r = removelast p \/ sprefix r (removelast p).
Proof.
  intros (a & s & ->). destruct (@exists_last _ (a :: s) ltac:(discriminate)) as (s' & b & E).
  rewrite E, app_assoc, removelast_last. destruct s' as [|c s'].
  - left. rewrite app_nil_r. reflexivity.
  - right. exists c, s'. reflexivity.
Qed.

(* the list p[:-1], p[:-2], ..., (): if it splits as l1 ++ q :: l2 then every proper prefix of p
   that extends q is in l1 ++ [q] *)
Lemma pp_cons fuel (p : path) : p <> [] ->
  proper_prefixes (S fuel) p = removelast p :: proper_prefixes fuel (removelast p).
Proof. destruct p; [contradiction | reflexivity]. Qed.

Lemma prefix_antisym (p q : path) : prefix p q -> prefix q p -> p = q.
Proof.
  intros (u & Hu) (v & Hv). rewrite Hu, <- app_assoc in Hv.
  rewrite <- (app_nil_r p) in Hv at 1. apply app_inv_head in Hv.
  symmetry in Hv. apply app_eq_nil in Hv as [-> _]. rewrite app_nil_r in Hu. congruence.
Qed.

Lemma proper_prefixes_split : forall fuel (p : path) l1 q l2,
  proper_prefixes fuel p = l1 ++ q :: l2 ->
  sprefix q p /\ forall r, prefix q r -> sprefix r p -> In r (l1 ++ [q]).
Proof.
  induction fuel as [|f IH]; intros p l1 q l2 H.
  - simpl in H. destruct l1; discriminate.
  - destruct p as [|a p']; [simpl in H; destruct l1; discriminate|].
    assert (Hne : a :: p' <> []) by discriminate.
    rewrite (pp_cons f _ Hne) in H. remember (a :: p') as p eqn:Ep. clear Ep a p'.
    pose proof (removelast_sprefix p Hne) as Hrl.
    destruct l1 as [|x l1]; simpl in H; inversion H as [[E1 E2]]; subst.
    + split; [assumption|]. intros r Hqr Hrp. left.
      apply sprefix_removelast in Hrp as [->|Hrp]; [reflexivity|].
      apply prefix_antisym; [assumption | apply sprefix_prefix; assumption].
    + destruct (IH _ _ _ _ E2) as [Hq Hall]. split.
      * apply sprefix_iff. apply sprefix_iff in Hq as [Hq1 Hq2]. apply sprefix_iff in Hrl as [Hr1 Hr2].
        split; [eapply prefix_trans; eassumption|]. intros ->.
        apply Hq2. apply prefix_antisym; assumption.
      * intros r Hqr Hrp. apply sprefix_removelast in Hrp as [->|Hrp]; [left; reflexivity|].
        right. apply Hall; assumption.
Qed.

(* ---------- find_higher_up_insertion_points ---------- *)
Definition narrow (t : tree) (r : path) : Prop :=
  forall n, subtree t r = Some n -> length (kids n) <= 1.

Lemma hu_inner reach t s : forall l st e,
  In e (snd (fold_left (hu_node reach t s) l st)) ->
  In e (snd st) \/
  (exists l1 l2, l = l1 ++ fst e :: l2 /\ Forall (narrow t) (l1 ++ [fst e]) /\
                 subtree t (fst e) = Some (snd e)).
Proof.
  induction l as [|q l IH]; intros st e H; simpl in H; [left; assumption|].
  destruct (IH _ _ H) as [Hin|(l1 & l2 & -> & Hnar & Hsub)].
  - unfold hu_node in Hin. destruct (fst st) eqn:Hret; [left; assumption|].
    destruct (subtree t q) as [n|] eqn:Hq; [|left; assumption].
    destruct (Nat.ltb 1 (length (kids n))) eqn:Hlt; [left; assumption|].
    destruct (str_eqb (lbl n) (lbl s)); [left; assumption|].
    destruct (reach (lbl n) (lbl s)); [|left; assumption]. simpl in Hin.
    destruct (has_path (snd st) q); [left; assumption|].
    apply in_app_or in Hin as [Hin|[<-|[]]]; [left; assumption|]. right.
    exists [], l. simpl. repeat split; [|assumption]. constructor; [|constructor].
    intros n' Hn'. rewrite Hq in Hn'. inversion Hn'; subst. apply Nat.ltb_ge in Hlt. assumption.
  - (* added later: then the flag was still false after q, so q is narrow *)
    assert (Hq : narrow t q \/ In e (snd st)).
    { unfold hu_node in H. destruct (fst st) eqn:Hret.
      - right. clear - H Hret.
        assert (Hfix : forall l st, fst st = true -> fold_left (hu_node reach t s) l st = st).
        { induction l as [|x l IHl]; intros st0 H0; simpl; [reflexivity|].
          unfold hu_node at 2. rewrite H0. apply IHl. assumption. }
        rewrite Hfix in H by assumption. assumption.
      - destruct (subtree t q) as [n|] eqn:Eq.
        + destruct (Nat.ltb 1 (length (kids n))) eqn:Hlt.
          * right.
            assert (Hfix : forall l st, fst st = true -> fold_left (hu_node reach t s) l st = st).
            { induction l as [|x l IHl]; intros st0 H0; simpl; [reflexivity|].
              unfold hu_node at 2. rewrite H0. apply IHl. assumption. }
            rewrite Hfix in H by reflexivity. assumption.
          * left. intros n' Hn'. rewrite Eq in Hn'. inversion Hn'; subst.
            apply Nat.ltb_ge in Hlt. assumption.
        + left. intros n' Hn'. rewrite Eq in Hn'. discriminate. }
    destruct Hq as [Hq|Hin]; [|left; assumption]. right.
    exists (q :: l1), l2. simpl. repeat split; [|assumption]. constructor; assumption.
Qed.

Lemma higher_up_spec reach t ip spc q n :
  In (q, n) (higher_up reach t ip spc) ->
  subtree t q = Some n /\ sprefix q ip /\
  forall r, prefix q r -> sprefix r ip -> narrow t r.
Proof.
  unfold higher_up.
  assert (Hgen : forall spc st, In (q, n) (snd (fold_left (fun st s =>
            fold_left (hu_node reach t s) (proper_prefixes (length ip) ip) st) spc st)) ->
          In (q, n) (snd st) \/
          (subtree t q = Some n /\ sprefix q ip /\ forall r, prefix q r -> sprefix r ip -> narrow t r)).
  { induction spc0 as [|s spc0 IH]; intros st H; simpl in H; [left; assumption|].
    destruct (IH _ H) as [Hin|Hok]; [|right; assumption].
    destruct (hu_inner _ _ _ _ _ _ Hin) as [Hin'|(l1 & l2 & El & Hnar & Hsub)]; [left; assumption|].
    right. simpl in *. destruct (proper_prefixes_split _ _ _ _ _ El) as [Hq Hall].
    repeat split; try assumption. intros r Hqr Hrp. rewrite Forall_forall in Hnar.
    apply Hnar. apply Hall; assumption. }
  intro H. destruct (Hgen spc (false, []) H) as [[]|Hok]. assumption.
Qed.
