From ISLA Require Import Grammar GrammarFacts Earley.
From Coq Require Import Lia.

(* raw trees over the single-character-token grammar *)
Inductive ctree (g : grammar) : tree -> Prop :=
| ct_leaf : forall c, ctree g (leaf [c])
| ct_node : forall A al ks, defined g A = true -> In al (alts g A) -> map lbl ks = sct_alt g al ->
    Forall (ctree g) ks -> ctree g (Node A 0%N false ks).

(* Prop version of the grammar shape produced by `canonical` *)
Definition good_grammar (g : grammar) : Prop :=
  (forall A, defined g A = true -> is_nt A = true) /\
  (forall A al s, In al (alts g A) -> In s al -> s <> [] /\ is_nt s = defined g s) /\
  (forall A al, In al (alts g A) -> no_adjacent_terminals al = true).

(* ---------- small facts ---------- *)

Lemma is_nt_single c : is_nt [c] = false.
Proof. unfold is_nt, nt_body. apply andb_false_r. Qed.

Lemma undefined_single g c : good_grammar g -> defined g [c] = false.
Proof.
  intros (G1 & _ & _). destruct (defined g [c]) eqn:E; [|reflexivity].
  apply G1 in E. rewrite is_nt_single in E. discriminate.
Qed.

Lemma lbl_prune g t : lbl (prune g t) = lbl t.
Proof. destruct t as [l i o ks]. reflexivity. Qed.

Lemma prune_leaf g l : prune g (leaf l) = leaf l.
Proof. reflexivity. Qed.

Lemma yield_leaf_term tok : is_nt tok = false -> yield (leaf tok) = tok.
Proof. intro H. unfold leaf. cbn [yield]. rewrite H. reflexivity. Qed.

Lemma yield_chars cs : flat_map yield (map (fun c => leaf [c]) cs) = cs.
Proof.
  induction cs as [|c cs IH]; [reflexivity|].
  cbn [map flat_map]. rewrite (yield_leaf_term [c] (is_nt_single c)), IH. reflexivity.
Qed.

Lemma yield_node_cons l i o k ks : yield (Node l i o (k :: ks)) = flat_map yield (k :: ks).
Proof. reflexivity. Qed.

Lemma flush_ne last : last <> [] -> flush last = [leaf last].
Proof. destruct last as [|c r]; [intro H; contradiction|reflexivity]. Qed.

Lemma nat_cons x y a :
  no_adjacent_terminals (x :: y :: a) = (is_nt x || is_nt y) && no_adjacent_terminals (y :: a).
Proof. reflexivity. Qed.

Lemma sct_alt_cons g tok al : sct_alt g (tok :: al) = sct_tok g tok ++ sct_alt g al.
Proof. reflexivity. Qed.

Lemma map_app_inv {A B} (f : A -> B) l1 : forall l l2,
  map f l = l1 ++ l2 -> exists k1 k2, l = k1 ++ k2 /\ map f k1 = l1 /\ map f k2 = l2.
Proof.
  induction l1 as [|x l1 IH]; intros l l2 H.
  - exists [], l. auto.
  - destruct l as [|a l]; [discriminate|]. simpl in H. injection H as Hx Ht.
    destruct (IH l l2 Ht) as (k1 & k2 & E & E1 & E2).
    exists (a :: k1), k2. subst. auto.
Qed.

Lemma flat_map_yield_map (f : tree -> tree) ks :
  (forall k, In k ks -> yield (f k) = yield k) -> flat_map yield (map f ks) = flat_map yield ks.
Proof.
  induction ks as [|k ks IH]; intro H; [reflexivity|].
  cbn [map flat_map]. rewrite (H k (or_introl eq_refl)), IH; [reflexivity|].
  intros k' Hk'. apply H. right. exact Hk'.
Qed.

(* ---------- coalesce_from ---------- *)

Lemma coalesce_chars g cs : good_grammar g -> forall last ps,
  coalesce_from g last (map (fun c => leaf [c]) cs ++ ps) = coalesce_from g (last ++ cs) ps.
Proof.
  intro G. induction cs as [|c cs IH]; intros last ps.
  - simpl. rewrite app_nil_r. reflexivity.
  - cbn [map app coalesce_from].
    change (lbl (leaf [c])) with [c]. rewrite (undefined_single g c G).
    rewrite IH, <- app_assoc. reflexivity.
Qed.

Lemma coalesce_flush g last ps :
  match ps with [] => True | p :: _ => defined g (lbl p) = true end ->
  coalesce_from g last ps = flush last ++ coalesce_from g [] ps.
Proof.
  destruct ps as [|p ps]; intro H; cbn [coalesce_from].
  - simpl. rewrite app_nil_r. reflexivity.
  - rewrite H. reflexivity.
Qed.

Lemma coalesce_key g p ps :
  defined g (lbl p) = true -> coalesce_from g [] (p :: ps) = p :: coalesce_from g [] ps.
Proof. intro H. cbn [coalesce_from]. rewrite H. reflexivity. Qed.

Lemma leaves_of_lbl g : good_grammar g -> forall cs ps,
  map lbl ps = map single cs ->
  Forall (fun p => defined g (lbl p) = false -> p = leaf (lbl p)) ps ->
  ps = map (fun c => leaf [c]) cs.
Proof.
  intro G. induction cs as [|a cs IH]; intros [|p ps] H F; try discriminate; [reflexivity|].
  cbn [map] in H. injection H as Hp Hr.
  inversion F as [|p' ps' Fp Fr]; subst p' ps'.
  cbn [map]. f_equal.
  - rewrite Hp in Fp. exact (Fp (undefined_single g a G)).
  - apply IH; assumption.
Qed.

(* what the children of a pruned node look like *)
Definition out_ok (g : grammar) (ps : list tree) (k : tree) : Prop :=
  (In k ps /\ defined g (lbl k) = true) \/ (k = leaf (lbl k) /\ is_nt (lbl k) = false).

Lemma out_ok_mono g ps1 ps2 k : out_ok g ps2 k -> out_ok g (ps1 ++ ps2) k.
Proof.
  intros [[Hin D] | H]; [left | right; exact H].
  split; [apply in_or_app; right; exact Hin | exact D].
Qed.

Lemma coalesce_spec g : good_grammar g -> forall al ps,
  (forall s, In s al -> s <> [] /\ is_nt s = defined g s) ->
  no_adjacent_terminals al = true ->
  map lbl ps = sct_alt g al ->
  Forall (fun p => defined g (lbl p) = false -> p = leaf (lbl p)) ps ->
  map lbl (coalesce g ps) = al /\
  Forall (out_ok g ps) (coalesce g ps) /\
  flat_map yield (coalesce g ps) = flat_map yield ps.
Proof.
  intro G. unfold coalesce. induction al as [|tok al IH]; intros ps Htok Hadj Hlbl Hleaf.
  - destruct ps as [|p ps]; [|discriminate]. simpl. auto.
  - assert (Htok' : forall s, In s al -> s <> [] /\ is_nt s = defined g s).
    { intros s Hs. apply Htok. right. exact Hs. }
    assert (Hadj' : no_adjacent_terminals al = true).
    { destruct al as [|y al']; [reflexivity|]. rewrite nat_cons in Hadj.
      apply andb_true_iff in Hadj. apply Hadj. }
    destruct (Htok tok (or_introl eq_refl)) as [Hne Hnt].
    rewrite sct_alt_cons in Hlbl. unfold sct_tok in Hlbl.
    destruct (defined g tok) eqn:D.
    + (* key token: one child *)
      destruct ps as [|p ps]; [discriminate|].
      cbn [map app] in Hlbl. injection Hlbl as Hp Hrest.
      inversion Hleaf as [|p' ps' Hpl Hleaf']; subst p' ps'.
      assert (Dp : defined g (lbl p) = true) by (rewrite Hp; exact D).
      rewrite (coalesce_key g p ps Dp).
      destruct (IH ps Htok' Hadj' Hrest Hleaf') as (I1 & I2 & I3).
      split; [cbn [map]; rewrite Hp, I1; reflexivity|].
      split.
      * constructor.
        -- left. split; [left; reflexivity | exact Dp].
        -- eapply Forall_impl; [|exact I2]. intros k Hk.
           apply (out_ok_mono g [p] ps k Hk).
      * cbn [flat_map]. rewrite I3. reflexivity.
    + (* terminal token: one leaf per character *)
      apply map_app_inv in Hlbl as (ps1 & ps2 & Eps & Hl1 & Hl2). subst ps.
      apply Forall_app in Hleaf as [Hleaf1 Hleaf2].
      rewrite (leaves_of_lbl g G tok ps1 Hl1 Hleaf1).
      rewrite (coalesce_chars g tok G [] ps2). cbn [app].
      assert (Hhead : match ps2 with [] => True | p :: _ => defined g (lbl p) = true end).
      { destruct al as [|y al'].
        - destruct ps2 as [|p ps2]; [exact I | discriminate].
        - rewrite nat_cons in Hadj. apply andb_true_iff in Hadj as [Hor _].
          rewrite Hnt in Hor. cbn [orb] in Hor.
          destruct (Htok' y (or_introl eq_refl)) as [_ Hy]. rewrite Hor in Hy.
          rewrite sct_alt_cons in Hl2. unfold sct_tok in Hl2. rewrite <- Hy in Hl2.
          destruct ps2 as [|p ps2]; [discriminate|].
          cbn [map app] in Hl2. injection Hl2 as Hp _. rewrite Hp. symmetry. exact Hy. }
      rewrite (coalesce_flush g tok ps2 Hhead), (flush_ne tok Hne).
      destruct (IH ps2 Htok' Hadj' Hl2 Hleaf2) as (I1 & I2 & I3).
      cbn [app].
      split; [cbn [map]; rewrite I1; reflexivity|].
      split.
      * constructor.
        -- right. split; [reflexivity|]. change (lbl (leaf tok)) with tok. exact Hnt.
        -- eapply Forall_impl; [|exact I2]. intros k Hk. apply out_ok_mono. exact Hk.
      * cbn [flat_map]. rewrite flat_map_app, yield_chars, I3.
        rewrite (yield_leaf_term tok Hnt). reflexivity.
Qed.

(* ---------- inversion of ctree with explicit names ---------- *)

Lemma ctree_inv g l i o ks : ctree g (Node l i o ks) ->
  i = 0%N /\ o = false /\
  ((exists c, l = [c] /\ ks = []) \/
   (defined g l = true /\
    exists al, In al (alts g l) /\ map lbl ks = sct_alt g al /\ Forall (ctree g) ks)).
Proof.
  intro H. inversion H as [c Hc0 | A al ks' HA Hal Hlbl Hks].
  - split; [reflexivity|]. split; [reflexivity|]. left. exists c. split; reflexivity.
  - split; [reflexivity|]. split; [reflexivity|]. right. split; [assumption|].
    exists al. repeat split; assumption.
Qed.

(* ---------- the main induction ---------- *)

Lemma prune_ok_aux g : good_grammar g -> forall t, ctree g t ->
  yield (prune g t) = yield t /\ is_openT (prune g t) = false /\
  (defined g (lbl t) = true -> wf_tree g (prune g t)).
Proof.
  intros G t. induction t as [l i o ks IH] using tree_ind'. intro Hc.
  destruct (ctree_inv g l i o ks Hc) as (Ei & Eo & [(c & El & Ek) | (HA & al & Hal & Hlbl & Hks)]);
    subst i o.
  - subst l ks. split; [reflexivity|]. split; [reflexivity|].
    intro D. cbn [lbl] in D. rewrite (undefined_single g c G) in D. discriminate.
  - pose proof G as (G1 & G2 & G3).
    rewrite Forall_forall in IH, Hks.
    set (ps := map (prune g) ks).
    assert (Hps_lbl : map lbl ps = sct_alt g al).
    { unfold ps. rewrite map_map, <- Hlbl. apply map_ext. intro k. apply lbl_prune. }
    assert (Hps_leaf : Forall (fun p => defined g (lbl p) = false -> p = leaf (lbl p)) ps).
    { unfold ps. apply Forall_forall. intros p Hp.
      apply in_map_iff in Hp as (k & Ep & Hk). subst p.
      intro D. rewrite lbl_prune in D |- *.
      destruct k as [kl ki ko kks].
      destruct (ctree_inv g kl ki ko kks (Hks _ Hk))
        as (Eki & Eko & [(c & Ekl & Ekk) | (HkA & _)]); subst ki ko.
      - subst kl kks. reflexivity.
      - cbn [lbl] in D. rewrite HkA in D. discriminate. }
    destruct (coalesce_spec g G al ps (fun s Hs => G2 l al s Hal Hs) (G3 l al Hal) Hps_lbl Hps_leaf)
      as (S1 & S2 & S3).
    rewrite Forall_forall in S2.
    assert (Hkid : forall k, In k (coalesce g ps) -> wf_tree g k /\ is_openT k = false).
    { intros k Hk. destruct (S2 k Hk) as [[Hin D] | [E Hnt]].
      - unfold ps in Hin. apply in_map_iff in Hin as (k0 & Ek0 & Hk0). subst k.
        destruct (IH k0 Hk0 (Hks k0 Hk0)) as (_ & Hcl & Hwf).
        rewrite lbl_prune in D. split; [apply Hwf; exact D | exact Hcl].
      - rewrite E. split; [apply wf_term; exact Hnt | reflexivity]. }
    assert (Hyk : flat_map yield ps = flat_map yield ks).
    { unfold ps. apply flat_map_yield_map. intros k Hk. apply (IH k Hk (Hks k Hk)). }
    change (prune g (Node l 0%N false ks)) with (Node l 0%N false (coalesce g ps)).
    assert (Hnil : ks = [] -> coalesce g ps = []).
    { intro E. unfold ps. rewrite E. reflexivity. }
    remember (coalesce g ps) as out eqn:Eout.
    split; [|split].
    + destruct out as [|o1 out].
      * cbn [map] in S1. subst al. destruct ks as [|k ks]; [reflexivity | discriminate].
      * destruct ks as [|k ks]; [specialize (Hnil eq_refl); discriminate|].
        rewrite !yield_node_cons, S3, Hyk. reflexivity.
    + cbn [is_openT orb].
      destruct (existsb is_openT out) eqn:X; [|reflexivity].
      apply existsb_exists in X as (k & Hk & Ho).
      destruct (Hkid k Hk) as [_ Hcl]. congruence.
    + intros _. destruct out as [|o1 out].
      * cbn [map] in S1. subst al. apply wf_eps_parser; [apply G1; exact HA | exact Hal].
      * apply wf_inner; [apply G1; exact HA | discriminate | rewrite S1; exact Hal |].
        apply Forall_forall. intros k Hk. apply (Hkid k Hk).
Qed.

Theorem prune_ok : forall g t, good_grammar g -> ctree g t -> defined g (lbl t) = true ->
  wf_tree g (prune g t) /\ is_openT (prune g t) = false /\ lbl (prune g t) = lbl t /\ yield (prune g t) = yield t.
Proof.
  intros g t G Hc D. destruct (prune_ok_aux g G t Hc) as (Hy & Hcl & Hwf).
  split; [apply Hwf; exact D|]. split; [exact Hcl|]. split; [apply lbl_prune | exact Hy].
Qed.

Example prune_example :
  let g := [([60;115;62]%N, [[[97;98]%N; [60;115;62]%N]; []])] in   (* <s> ::= "ab"<s> | "" *)
  let raw := Node [60;115;62]%N 0%N false [leaf [97]%N; leaf [98]%N; Node [60;115;62]%N 0%N false []] in
  prune g raw = Node [60;115;62]%N 0%N false [leaf [97;98]%N; Node [60;115;62]%N 0%N false []].
Proof. reflexivity. Qed.
