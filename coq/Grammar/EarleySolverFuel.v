(* C10 proof extension 2 — the harness' fuel also dominates `fuel_bound` for the grammar that
   ISLaSolver.parse(inp, nt) hands to the parser (`specialise g nt`): the overriding rule
   <start> ::= nt costs 2 item shapes because nt is reachable, hence still defined. *)
From ISLA Require Import Grammar GrammarFacts Earley EarleyFacts EarleyTop EarleyComplete EarleyFuel EarleyHarnessFuel.
From Coq Require Import Lia PeanoNat List Bool.
Import ListNotations.

Lemma fold_left_keeps {A B} (step : A -> B -> A) (P : A -> Prop) :
  (forall acc y, P acc -> P (step acc y)) -> forall l acc, P acc -> P (fold_left step l acc).
Proof. intros H l. induction l as [|y l IH]; intros acc Hacc; simpl; [exact Hacc | apply IH, H, Hacc]. Qed.

Definition addnew (acc : list str) (B : str) : list str := if mem B acc then acc else acc ++ [B].

Lemma addnew_keeps x acc y : In x acc -> In x (addnew acc y).
Proof. unfold addnew. intro H. destruct (mem y acc); [exact H | apply in_or_app; left; exact H]. Qed.

Lemma reach_step_keeps g x seen : In x seen -> In x (reach_step g seen).
Proof.
  unfold reach_step. intro H.
  apply (fold_left_keeps _ (fun acc => In x acc)); [|exact H].
  intros acc A Hacc. apply (fold_left_keeps _ (fun acc => In x acc)); [|exact Hacc].
  intros acc' B Hacc'. apply (addnew_keeps x acc' B Hacc').
Qed.

Lemma iter_keeps {A} (f : A -> A) (P : A -> Prop) : (forall s, P s -> P (f s)) -> forall n s, P s -> P (iter n f s).
Proof. intros H n. induction n as [|n IH]; intros s Hs; simpl; [exact Hs | apply IH, H, Hs]. Qed.

Lemma reachable_override g nt : is_nt nt = true ->
  In nt (reachable (set_key g START [[nt]]) START).
Proof.
  intro Hnt. unfold reachable. set (g2 := set_key g START [[nt]]).
  change (iter (S (length g2)) (reach_step g2) [START]) with (iter (length g2) (reach_step g2) (reach_step g2 [START])).
  apply (iter_keeps _ (fun s => In nt s)); [intros s Hs; apply reach_step_keeps; exact Hs|].
  unfold reach_step. cbn [fold_left]. unfold g2. rewrite alts_set_key_same.
  unfold nts_of. cbn [concat app filter]. rewrite Hnt. cbn [fold_left].
  destruct (mem nt [START]) eqn:E.
  - apply mem_In in E. exact E.
  - apply in_or_app. right. left. reflexivity.
Qed.

Lemma defined_filter (P : str * list alt -> bool) g A :
  defined g A = true -> (forall r, In r g -> fst r = A -> P r = true) -> defined (filter P g) A = true.
Proof.
  unfold defined. intros H HP. apply existsb_exists in H as (r & Hr & E). apply existsb_exists.
  exists r. split; [|exact E]. apply filter_In. split; [exact Hr|]. apply HP; [exact Hr|].
  apply str_eqb_eq in E. symmetry. exact E.
Qed.

Definition csum (h : grammar) (rs : list (str * alt)) : nat :=
  fold_right (fun r acc => S (length (sct_alt h (snd r))) + acc) 0 rs.
Lemma csum_app h a b : csum h (a ++ b) = csum h a + csum h b.
Proof. induction a as [|r a IH]; simpl; [reflexivity|]. rewrite IH. lia. Qed.

Lemma csum_alts_le h A al : csum h (map (fun a => (A, a)) al) <= hsum_l (map (fun a => (A, a)) al).
Proof. induction al as [|a al IH]; simpl; [lia|]. pose proof (sct_alt_length h a). simpl in *. lia. Qed.

Lemma csum_rules_le h g : csum h (rules g) <= hsum_l (rules g).
Proof.
  unfold rules. induction g as [|[A al] g IH]; simpl; [lia|].
  rewrite csum_app, hsum_l_app. pose proof (csum_alts_le h A al). lia.
Qed.

Lemma csum_filter h (P : str * list alt -> bool) g : csum h (rules (filter P g)) <= csum h (rules g).
Proof.
  unfold rules. induction g as [|r g IH]; simpl; [lia|].
  destruct (P r); simpl; rewrite ?csum_app; lia.
Qed.

Lemma csum_set_key h g K nt : defined h nt = true ->
  csum h (rules (set_key g K [[nt]])) <= hsum_l (rules g) + 2.
Proof.
  intro Hd. assert (E : forall K', csum h (map (fun a => (K', a)) [[nt]]) = 2).
  { intro K'. unfold csum, sct_alt, sct_tok. simpl. rewrite Hd. reflexivity. }
  unfold rules. induction g as [|[B bl] g IH].
  - cbn [set_key flat_map fst snd]. rewrite csum_app, E. simpl. lia.
  - cbn [set_key]. destruct (str_eqb K B); cbn [flat_map fst snd]; rewrite csum_app, hsum_l_app.
    + rewrite E. pose proof (csum_rules_le h g) as H. unfold rules in H. lia.
    + pose proof (csum_alts_le h B bl). lia.
Qed.

Lemma shapes_sct_csum_gen h g :
  shapes_l (rules (map (fun r => (fst r, map (sct_alt h) (snd r))) g)) = csum h (rules g).
Proof.
  unfold rules. induction g as [|[A al] g IH]; simpl; [reflexivity|].
  rewrite shapes_l_app, csum_app, IH. f_equal.
  induction al as [|a al IHa]; simpl; [reflexivity|]. rewrite IHa. reflexivity.
Qed.

Theorem harness_fuel_solver_ok : forall g nt m n,
  is_nt nt = true -> defined g nt = true -> m <= n ->
  fuel_bound (cgram (specialise g nt) START) m <= harness_fuel g n.
Proof.
  intros g nt m n Hnt Hdef Hmn. unfold specialise.
  destruct (str_eqb nt START) eqn:Es; [apply harness_fuel_ok; exact Hmn|].
  set (g2 := set_key g START [[nt]]). set (g' := delete_unreachable g2).
  assert (Hd' : defined g' nt = true).
  { unfold g', delete_unreachable. apply defined_filter.
    - unfold g2. rewrite defined_set_key, Hdef. reflexivity.
    - intros r _ E. rewrite E. apply mem_In. apply reachable_override. exact Hnt. }
  assert (Hsh : item_shapes (cgram g' START) <= hsum g + 4).
  { unfold item_shapes. change (shapes_l (rules (cgram g' START)) <= hsum g + 4).
    assert (Hs : shapes_l (rules (sct g')) <= hsum g + 2).
    { unfold sct. rewrite shapes_sct_csum_gen. unfold g', delete_unreachable.
      etransitivity; [apply csum_filter|]. unfold g2, hsum. apply csum_set_key. exact Hd'. }
    unfold cgram. destruct (Nat.eqb (length (alts g' START)) 1); [lia|].
    pose proof (shapes_set_key (sct g') WRAP START). lia. }
  unfold fuel_bound, harness_fuel.
  assert (item_shapes (cgram g' START) * S m <= (hsum g + 4) * (n + 2)) by (apply Nat.mul_le_mono; lia).
  lia.
Qed.
