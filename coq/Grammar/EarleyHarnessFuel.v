(* C10 proof extension 2 — the fuel that harness/c10.py passes to the model (`fuel_for`) is at least
   `fuel_bound`, so C10_chart_enough_fuel / C10_parse_complete apply to every EarleyParser case of
   the correspondence run (unless the harness' cap 4500 cuts the value; the harness counts that). *)
From ISLA Require Import Grammar GrammarFacts Earley EarleyFacts EarleyTop EarleyFuel.
From Coq Require Import Lia PeanoNat List Bool.
Import ListNotations.

(* python: sum(len(a) + 1 + sum(len(s) for s in a) for alts in cg.values() for a in alts) *)
Definition alt_weight (a : alt) : nat := length a + 1 + fold_right (fun s acc => length s + acc) 0 a.
Definition hsum_l (rs : list (str * alt)) : nat := fold_right (fun r acc => alt_weight (snd r) + acc) 0 rs.
Definition hsum (g : grammar) : nat := hsum_l (rules g).
(* python fuel_for(cg, n) without the cap: items * (n + 2) + 20, items = hsum + 4 *)
Definition harness_fuel (g : grammar) (n : nat) : nat := (hsum g + 4) * (n + 2) + 20.

Definition shapes_l (rs : list (str * alt)) : nat := fold_right (fun r acc => S (length (snd r)) + acc) 0 rs.

Lemma shapes_l_app a b : shapes_l (a ++ b) = shapes_l a + shapes_l b.
Proof. induction a as [|r a IH]; simpl; [reflexivity|]. rewrite IH. lia. Qed.
Lemma hsum_l_app a b : hsum_l (a ++ b) = hsum_l a + hsum_l b.
Proof. induction a as [|r a IH]; simpl; [reflexivity|]. rewrite IH. lia. Qed.

Lemma sct_alt_length h a : S (length (sct_alt h a)) <= alt_weight a.
Proof.
  unfold alt_weight, sct_alt. induction a as [|tok a IH]; simpl; [lia|].
  rewrite app_length. unfold sct_tok at 1. destruct (defined h tok); simpl; [lia|].
  rewrite map_length. lia.
Qed.

Lemma shapes_sct_alts h A al :
  shapes_l (map (fun a => (A, a)) (map (sct_alt h) al)) <= hsum_l (map (fun a => (A, a)) al).
Proof.
  induction al as [|a al IH]; simpl; [lia|]. pose proof (sct_alt_length h a). simpl in *. lia.
Qed.

Lemma shapes_sct_gen h g :
  shapes_l (rules (map (fun r => (fst r, map (sct_alt h) (snd r))) g)) <= hsum_l (rules g).
Proof.
  unfold rules. induction g as [|[A al] g IH]; simpl; [lia|].
  rewrite shapes_l_app, hsum_l_app. pose proof (shapes_sct_alts h A al). lia.
Qed.

Lemma shapes_set_key g K c : shapes_l (rules (set_key g K [[c]])) <= shapes_l (rules g) + 2.
Proof.
  unfold rules. induction g as [|[B bl] g IH]; simpl; [lia|].
  destruct (str_eqb K B); simpl; rewrite !shapes_l_app; simpl; lia.
Qed.

Lemma item_shapes_cgram g cstart : item_shapes (cgram g cstart) <= hsum g + 2.
Proof.
  unfold item_shapes. change (shapes_l (rules (cgram g cstart)) <= hsum g + 2).
  unfold cgram, hsum. destruct (Nat.eqb (length (alts g cstart)) 1).
  - pose proof (shapes_sct_gen g g). unfold sct. lia.
  - pose proof (shapes_set_key (sct g) WRAP cstart). pose proof (shapes_sct_gen g g). unfold sct in *. lia.
Qed.

(* the harness computes FUEL once per grammar for the longest input n; every shorter input is covered *)
Theorem harness_fuel_ok : forall g cstart m n,
  m <= n -> fuel_bound (cgram g cstart) m <= harness_fuel g n.
Proof.
  intros g cstart m n Hmn. unfold fuel_bound, harness_fuel.
  pose proof (item_shapes_cgram g cstart) as H.
  assert (item_shapes (cgram g cstart) * S m <= (hsum g + 4) * (n + 2)).
  { apply Nat.mul_le_mono; lia. }
  lia.
Qed.

(* with the cap of the harness: min(cap, ...) still suffices whenever the cap does not cut *)
Corollary harness_fuel_capped_ok : forall g cstart m n cap,
  m <= n -> harness_fuel g n <= cap ->
  fuel_bound (cgram g cstart) m <= Nat.min cap (harness_fuel g n).
Proof.
  intros g cstart m n cap Hmn Hcap. rewrite Nat.min_r by exact Hcap. apply harness_fuel_ok. exact Hmn.
Qed.
