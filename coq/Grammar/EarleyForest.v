(* C10 — every finished item of the filled chart has a parse path (`forest_totalb`), i.e. the
   hypothesis of EarleyTrees.parse_sound is a theorem.  Route: a generic invariant principle for the
   chart construction (any family P closed under predict / scan / complete holds of every item),
   instantiated with  P j it := it is in column j of the FINAL chart and its recognised prefix has a
   path through the FINAL chart.  The nullable predict-advance needs the completeness theorem of
   EarleyComplete.v (a nullable symbol has a finished item in its own column). *)
From ISLA Require Import Grammar GrammarFacts Earley EarleyFacts EarleyPrune EarleyTop EarleyTrees EarleyComplete.
From Coq Require Import Lia PeanoNat.

(* ------------------------------------------------------------------ *)
(* generic invariant principle                                         *)
(* ------------------------------------------------------------------ *)
Section Invariant.
  Variable cg : grammar.
  Variable w : str.
  Variable eps : list str.
  Variable P : nat -> item -> Prop.
  Hypothesis Ppred : forall i st sym, P i st -> at_dot st = Some sym -> defined cg sym = true ->
    (forall a, In a (alts cg sym) -> P i (Item sym a 0 i)) /\ (mem sym eps = true -> P i (advance st)).
  Hypothesis Pscan : forall i st c, P i st -> at_dot st = Some [c] -> defined cg [c] = false ->
    nth_error w i = Some c -> P (S i) (advance st).
  Hypothesis Pcomp : forall i st p, P i st -> at_dot st = None -> P (iorg st) p ->
    wants (iname st) p = true -> P i (advance p).

  Lemma process_inv prev i nl st cur nxt cur' nxt' :
    (forall j col, nth_error prev j = Some col -> Forall (P j) col) -> length prev = i ->
    Forall (P i) cur -> Forall (P (S i)) nxt -> P i st ->
    (forall c, nl = Some c -> nth_error w i = Some c) ->
    process cg eps prev i nl st cur nxt = (cur', nxt') ->
    Forall (P i) cur' /\ Forall (P (S i)) nxt'.
  Proof.
    intros Hprev Hlen Hcur Hnxt Hst Hnl Hp. unfold process in Hp.
    destruct (at_dot st) as [sym|] eqn:Hdot.
    - destruct (defined cg sym) eqn:Hdef.
      + destruct (Ppred i st sym Hst Hdot Hdef) as [H1 H2].
        assert (Hc1 : Forall (P i) (add_all cur (map (fun a => Item sym a 0 i) (alts cg sym)))).
        { apply add_all_Forall; [assumption|]. apply Forall_forall. intros x Hx.
          apply in_map_iff in Hx as (a & <- & Ha). apply H1. exact Ha. }
        destruct (mem sym eps) eqn:Hm; inversion Hp; subst cur' nxt'; split; try assumption.
        apply add_Forall; [assumption | apply H2; reflexivity].
      + destruct nl as [c|]; [|inversion Hp; subst cur' nxt'; split; assumption].
        destruct (str_eqb sym [c]) eqn:E; inversion Hp; subst cur' nxt'; split; try assumption.
        apply str_eqb_eq in E. subst sym. apply add_Forall; [assumption|].
        apply (Pscan i st c Hst Hdot Hdef). apply Hnl. reflexivity.
    - inversion Hp; subst cur' nxt'; clear Hp. split; [|assumption].
      assert (Hsrc : Forall (P (iorg st)) (if Nat.eqb (iorg st) i then cur else nth (iorg st) prev [])).
      { destruct (Nat.eqb (iorg st) i) eqn:E.
        - apply Nat.eqb_eq in E. rewrite E. assumption.
        - destruct (nth_error prev (iorg st)) as [c0|] eqn:En.
          + rewrite (nth_error_nth _ _ _ En). apply (Hprev _ _ En).
          + apply nth_error_None in En. rewrite nth_overflow by exact En. constructor. }
      apply add_all_Forall; [assumption|].
      apply Forall_forall. intros x Hx. apply in_map_iff in Hx as (p & <- & Hp).
      apply filter_In in Hp as [Hp Hw]. rewrite Forall_forall in Hsrc.
      apply (Pcomp i st p Hst Hdot (Hsrc p Hp) Hw).
  Qed.

  Lemma fill_col_inv prev i nl : forall fuel k cur nxt cur' nxt',
    (forall j col, nth_error prev j = Some col -> Forall (P j) col) -> length prev = i ->
    Forall (P i) cur -> Forall (P (S i)) nxt ->
    (forall c, nl = Some c -> nth_error w i = Some c) ->
    fill_col fuel cg eps prev i nl k cur nxt = Some (cur', nxt') ->
    Forall (P i) cur' /\ Forall (P (S i)) nxt'.
  Proof.
    induction fuel as [|f IH]; intros k cur nxt cur' nxt' Hprev Hlen Hcur Hnxt Hnl H; simpl in H;
      [discriminate|].
    destruct (nth_error cur k) as [st|] eqn:Hk.
    - destruct (process cg eps prev i nl st cur nxt) as [c1 n1] eqn:Hp.
      assert (Hst : P i st).
      { rewrite Forall_forall in Hcur. apply Hcur. eapply nth_error_In; exact Hk. }
      destruct (process_inv prev i nl st cur nxt c1 n1 Hprev Hlen Hcur Hnxt Hst Hnl Hp) as [H1 H2].
      eapply IH; eauto.
    - inversion H; subst. split; assumption.
  Qed.

  Lemma prev_snoc_inv prev c :
    (forall j col, nth_error prev j = Some col -> Forall (P j) col) ->
    Forall (P (length prev)) c ->
    forall j col, nth_error (prev ++ [c]) j = Some col -> Forall (P j) col.
  Proof.
    intros Hprev Hc j col Hj. destruct (Nat.lt_ge_cases j (length prev)) as [Hlt|Hge].
    - rewrite nth_error_app1 in Hj by assumption. eapply Hprev; eassumption.
    - rewrite nth_error_app2 in Hj by assumption.
      destruct (j - length prev) as [|d] eqn:E; simpl in Hj.
      + inversion Hj; subst. replace j with (length prev) by lia. assumption.
      + destruct d; discriminate.
  Qed.

  Lemma fill_chart_inv fuel : forall rest prev i cur chart,
    (forall j col, nth_error prev j = Some col -> Forall (P j) col) -> length prev = i ->
    Forall (P i) cur -> skipn i w = rest ->
    fill_chart fuel cg eps prev i cur rest = Some chart ->
    forall j col, nth_error chart j = Some col -> Forall (P j) col.
  Proof.
    induction rest as [|c rest IH]; intros prev i cur chart Hprev Hlen Hcur Hsk H; simpl in H.
    - destruct (fill_col fuel cg eps prev i None 0 cur []) as [[c1 n1]|] eqn:Hf; [|discriminate].
      inversion H; subst chart; clear H.
      destruct (fill_col_inv prev i None fuel 0 cur [] c1 n1 Hprev Hlen Hcur (Forall_nil _)) as [H1 _];
        [intros c0 Hc0; discriminate | exact Hf |].
      apply prev_snoc_inv; [assumption | rewrite Hlen; assumption].
    - destruct (fill_col fuel cg eps prev i (Some c) 0 cur []) as [[c1 n1]|] eqn:Hf; [|discriminate].
      destruct (skipn_cons_nth w i c rest Hsk) as [Hn Hsk'].
      destruct (fill_col_inv prev i (Some c) fuel 0 cur [] c1 n1 Hprev Hlen Hcur (Forall_nil _)) as [H1 H2];
        [intros c0 Hc0; inversion Hc0; subst; exact Hn | exact Hf |].
      apply (IH (prev ++ [c1]) (S i) n1 chart); try assumption.
      + apply prev_snoc_inv; [assumption | rewrite Hlen; assumption].
      + rewrite app_length. simpl. lia.
  Qed.

  Theorem chart_inv fuel (sd : list item) chart :
    Forall (P 0) sd -> fill_chart fuel cg eps [] 0 (add_all [] sd) w = Some chart ->
    forall j col, nth_error chart j = Some col -> Forall (P j) col.
  Proof.
    intros Hsd H. apply (fill_chart_inv fuel w [] 0 (add_all [] sd) chart); try assumption.
    - intros j col Hj. destruct j; discriminate.
    - reflexivity.
    - apply add_all_Forall; [constructor | assumption].
    - reflexivity.
  Qed.
End Invariant.

(* ------------------------------------------------------------------ *)
(* paths through the final chart                                       *)
(* ------------------------------------------------------------------ *)
Lemma flat_map_nonempty {A B} (f : A -> list B) l x : In x l -> f x <> [] -> flat_map f l <> [].
Proof.
  induction l as [|y l IH]; intros Hin Hne; [destruct Hin|]. simpl.
  destruct Hin as [->|Hin].
  - intro E. apply app_eq_nil in E as [E _]. contradiction.
  - intro E. apply app_eq_nil in E as [_ E]. apply (IH Hin Hne E).
Qed.

Lemma map_nonempty {A B} (f : A -> B) l : l <> [] -> map f l <> [].
Proof. destruct l; [congruence | discriminate]. Qed.

Section Forest.
  Variable cg : grammar.
  Variable w : str.
  Variable start : str.
  Variable chart : list column.
  Hypothesis Hkeys : forall A, defined cg A = true -> is_nt A = true.
  Hypothesis Hsyms : forall A al s, In al (alts cg A) -> In s al -> defined cg s = true \/ exists c, s = [c].
  Hypothesis Hnd : NoDup (map fst cg).
  Hypothesis Hclosed : chart_closed cg w (nullable cg) chart.
  Hypothesis Hok : chart_ok cg w start chart.
  Notation col i := (nth i chart []).
  Notation eps := (nullable cg).

  Lemma colf_ok e it : In it (col e) -> item_ok cg w start e it.
  Proof.
    intro Hin. destruct Hok as [Hl Hk].
    pose proof (Hk e (col e) (In_nth_nth_error chart e it Hin)) as HF.
    rewrite Forall_forall in HF. apply HF. exact Hin.
  Qed.

  Lemma at_dot_none_finished it : at_dot it = None -> finished it = true.
  Proof. unfold at_dot, finished. intro H. apply nth_error_None in H. apply Nat.leb_le. exact H. Qed.

  (* complete, including the case origin = own column (via nullable + predict-advance) *)
  Lemma final_complete i st p : In st (col i) -> at_dot st = None -> In p (col (iorg st)) ->
    wants (iname st) p = true -> In (advance p) (col i).
  Proof.
    intros Hst Hdot Hp Hw.
    pose proof (colf_ok i st Hst) as Hio. pose proof Hio as (Hle & Hi & Hdef & _).
    destruct (Nat.eq_dec (iorg st) i) as [E|E].
    - pose proof (finished_derives cg w start Hkeys i st Hio Hdot) as Hd.
      rewrite E, sub_nil in Hd. rewrite E in Hp.
      unfold wants in Hw. destruct (at_dot p) as [s|] eqn:Hpd; [|discriminate].
      apply str_eqb_eq in Hw. subst s.
      destruct (closed_predict cg w eps chart Hclosed i p (iname st) Hp Hpd Hdef) as [_ H2].
      apply H2. apply nullable_complete. exact Hd.
    - apply (closed_complete cg w eps chart Hclosed (iorg st) i st p); try assumption; try reflexivity. lia.
  Qed.

  (* the prefix alpha of an item with origin s in column j has a path through the chart *)
  Inductive has_path (s : nat) : list str -> nat -> Prop :=
  | hp_nil : has_path s [] s
  | hp_t : forall alpha j c, has_path s alpha j -> defined cg [c] = false -> nth_error w j = Some c ->
      has_path s (alpha ++ [[c]]) (S j)
  | hp_nt : forall alpha k j st, has_path s alpha k -> In st (col j) -> finished st = true ->
      defined cg (iname st) = true -> iorg st = k -> has_path s (alpha ++ [iname st]) j.

  Lemma has_path_ppaths s alpha j : has_path s alpha j -> ppaths cg chart w s (rev alpha) j <> [].
  Proof.
    induction 1 as [|alpha j c Hp IH Hdef Hn|alpha k j st Hp IH Hst Hfin Hdef Ho].
    - simpl. rewrite Nat.eqb_refl. discriminate.
    - rewrite rev_app_distr. cbn [rev app ppaths]. rewrite Hdef, Hn, str_eqb_refl. cbn [flat_map fst snd]. rewrite app_nil_r.
      apply map_nonempty. exact IH.
    - rewrite rev_app_distr. cbn [rev app ppaths]. rewrite Hdef.
      apply (flat_map_nonempty _ _ (PN st j, iorg st)).
      + apply in_map_iff. exists st. split; [reflexivity|]. apply filter_In. split; [exact Hst|].
        rewrite Hfin, str_eqb_refl. reflexivity.
      + simpl. apply map_nonempty. rewrite Ho. exact IH.
  Qed.

  Definition pathP (j : nat) (it : item) : Prop :=
    In it (col j) /\ has_path (iorg it) (firstn (idot it) (iexpr it)) j.

  Lemma pathP_pred i st sym : pathP i st -> at_dot st = Some sym -> defined cg sym = true ->
    (forall a, In a (alts cg sym) -> pathP i (Item sym a 0 i)) /\ (mem sym eps = true -> pathP i (advance st)).
  Proof.
    intros [Hin Hp] Hdot Hdef.
    destruct (closed_predict cg w eps chart Hclosed i st sym Hin Hdot Hdef) as [H1 H2]. split.
    - intros a Ha. split; [apply H1; exact Ha|]. simpl. constructor.
    - intro Hm. split; [apply H2; exact Hm|]. unfold advance; cbn [iname iexpr idot iorg].
      unfold at_dot in Hdot. rewrite (firstn_S_nth _ _ _ Hdot).
      pose proof (nullable_sound cg Hkeys Hnd sym Hm) as Hd.
      destruct (derives_single_inv cg sym [] (Hkeys sym Hdef) Hd) as (al & Hal & Hdal).
      pose proof (colf_ok i st Hin) as (_ & Hi & _).
      assert (Hfin : In (Item sym al (0 + length al) i) (col i)).
      { apply (chart_complete_gen cg w eps chart Hkeys Hsyms (nullable_complete cg) Hclosed al [] Hdal
                 sym al 0 i i i); try lia; try reflexivity.
        - apply Forall_forall. intros x Hx. apply (Hsyms sym al x Hal Hx).
        - apply H1. exact Hal.
        - symmetry. apply sub_nil. }
      simpl in Hfin.
      apply (hp_nt (iorg st) (firstn (idot st) (iexpr st)) i i (Item sym al (length al) i));
        [exact Hp | exact Hfin | | exact Hdef | reflexivity].
      unfold finished. simpl. apply Nat.leb_refl.
  Qed.

  Lemma pathP_scan i st c : pathP i st -> at_dot st = Some [c] -> defined cg [c] = false ->
    nth_error w i = Some c -> pathP (S i) (advance st).
  Proof.
    intros [Hin Hp] Hdot Hdef Hn. split; [apply (closed_scan cg w eps chart Hclosed i st c); assumption|].
    unfold advance; cbn [iname iexpr idot iorg]. unfold at_dot in Hdot. rewrite (firstn_S_nth _ _ _ Hdot).
    apply hp_t; assumption.
  Qed.

  Lemma pathP_comp i st p : pathP i st -> at_dot st = None -> pathP (iorg st) p ->
    wants (iname st) p = true -> pathP i (advance p).
  Proof.
    intros [Hin _] Hdot [Hpin Hpp] Hw. split; [apply (final_complete i st p); assumption|].
    unfold advance; cbn [iname iexpr idot iorg].
    unfold wants in Hw. destruct (at_dot p) as [s|] eqn:Hpd; [|discriminate].
    apply str_eqb_eq in Hw. subst s. unfold at_dot in Hpd. rewrite (firstn_S_nth _ _ _ Hpd).
    pose proof (colf_ok i st Hin) as (_ & _ & Hdef & _).
    apply (hp_nt (iorg p) (firstn (idot p) (iexpr p)) (iorg st) i st);
      [exact Hpp | exact Hin | apply at_dot_none_finished; exact Hdot | exact Hdef | reflexivity].
  Qed.
End Forest.

(* ------------------------------------------------------------------ *)
(* forest_totalb is a theorem; parse_sound without that hypothesis     *)
(* ------------------------------------------------------------------ *)
Lemma combine_seq_nth {A} (l : list A) : forall s e x,
  In (e, x) (combine (seq s (length l)) l) -> s <= e /\ nth_error l (e - s) = Some x.
Proof.
  induction l as [|y l IH]; intros s e x H; simpl in H; [destruct H|].
  destruct H as [H|H].
  - inversion H; subst. split; [lia|]. rewrite Nat.sub_diag. reflexivity.
  - apply IH in H as [Hle Hn]. split; [lia|]. replace (e - s) with (S (e - S s)) by lia. exact Hn.
Qed.

Lemma seeds_shape fxA cg start sd x : seeds fxA cg start = Ok sd -> In x sd -> idot x = 0 /\ iorg x = 0.
Proof.
  unfold seeds. intros H Hx. destruct (negb (defined cg start)); [discriminate|]. destruct fxA.
  - inversion H; subst sd. apply in_map_iff in Hx as (a & <- & _). split; reflexivity.
  - destruct (alts cg start) as [|a [|b l]]; try discriminate; inversion H; subst sd;
      destruct Hx as [<-|[]]; split; reflexivity.
Qed.

Theorem forest_total_holds : forall g cstart fxA fuel start w chart,
  good_grammar g -> NoDup (map fst g) -> defined g WRAP = false -> defined g start = true ->
  defined g cstart = true -> (fxA = true \/ K_multistart g start = false) ->
  chart_of fxA fuel (cgram g cstart) start w = Ok chart ->
  forest_totalb (cgram g cstart) w chart = true.
Proof.
  intros g cstart fxA fuel start w chart Hgood Hnd Hw Hds Hcs HgA Hch.
  pose proof (chart_sound g cstart Hgood Hnd Hw fxA fuel start w chart Hds HgA Hch) as Hok.
  pose proof Hgood as (Hk & _).
  set (cg := cgram g cstart) in *.
  assert (Hkeys : forall A, defined cg A = true -> is_nt A = true) by (apply cgc_keys; assumption).
  assert (Hsyms : forall A al s, In al (alts cg A) -> In s al -> defined cg s = true \/ exists c, s = [c])
    by (apply cgc_syms; assumption).
  assert (Hcnd : NoDup (map fst cg)) by (apply cg_NoDup; assumption).
  unfold chart_of in Hch.
  destruct (seeds fxA cg start) as [sd|e0] eqn:Hs; [|discriminate].
  destruct (fill_chart fuel cg (nullable cg) [] 0 (add_all [] sd) w) as [ch|] eqn:Hf; [|discriminate].
  inversion Hch; subst ch; clear Hch.
  destruct (fill_chart_chart_closed cg w (nullable cg) fuel sd chart Hf) as (Hcl & Hl & Hinc).
  assert (Hall : forall j col, nth_error chart j = Some col -> Forall (pathP cg w chart j) col).
  { apply (chart_inv cg w (nullable cg) (pathP cg w chart)) with (fuel := fuel) (sd := sd).
    - intros i st sym. apply (pathP_pred cg w start chart Hkeys Hsyms Hcnd Hcl Hok).
    - intros i st c. apply (pathP_scan cg w chart Hcl).
    - intros i st p. apply (pathP_comp cg w start chart Hkeys Hcl Hok).
    - apply Forall_forall. intros x Hx. destruct (seeds_shape fxA cg start sd x Hs Hx) as [Hd Ho].
      split; [apply Hinc; exact Hx|]. rewrite Hd, Ho. simpl. constructor.
    - exact Hf. }
  unfold forest_totalb. apply forallb_forall. intros [e col] Hin.
  apply combine_seq_nth in Hin as [_ Hn]. rewrite Nat.sub_0_r in Hn. cbn [fst snd].
  apply forallb_forall. intros it Hit.
  destruct (finished it) eqn:Hfin; [|reflexivity]. destruct (is_nil (iexpr it)); [reflexivity|].
  cbn [negb orb].
  specialize (Hall e col Hn). rewrite Forall_forall in Hall. destruct (Hall it Hit) as [_ Hp].
  apply has_path_ppaths in Hp. rewrite firstn_all2 in Hp by (apply Nat.leb_le; exact Hfin).
  destruct (ppaths cg chart w (iorg it) (rev (iexpr it)) e); [congruence | reflexivity].
Qed.

(* every returned tree is a valid derivation tree of g for the input: parse_sound, the forest
   hypothesis discharged *)
Theorem parse_sound_total : forall fxA fxB fuel g cstart start w k ts t,
  good_grammar g -> NoDup (map fst g) -> defined g WRAP = false -> defined g start = true ->
  K_multistart g cstart = false ->
  (fxA = true \/ K_multistart g start = false) ->
  (fxB = true \/ K_recstart g cstart start = false) ->
  earley_parse fxA fxB fuel g cstart start w k = Ok ts -> In t ts ->
  wf_tree g t /\ is_openT t = false /\ lbl t = start /\ yield t = w /\ L g start w.
Proof.
  intros fxA fxB fuel g cstart start w k ts t Hgood Hnd Hw Hds Hc HgA HgB H Hin.
  apply (parse_sound fxA fxB fuel g cstart start w k ts t); try assumption.
  intros chart Hch. apply (forest_total_holds g cstart fxA fuel start w chart); try assumption.
  unfold K_multistart in Hc. apply negb_false_iff, Nat.eqb_eq in Hc.
  destruct (alts g cstart) as [|a l] eqn:Ea; [discriminate|].
  apply (alts_defined g cstart a). rewrite Ea. left; reflexivity.
Qed.
